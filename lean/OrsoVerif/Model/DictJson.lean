import OrsoVerif.Model.CastJson
/-!
# C02 — the TEXT of `Row.as_json`

`as_json` is `orjson.dumps(self.as_dict, default=str)` (orso/row.py): a JSON object whose members are the
dictionary view's items in order.  This file writes that text for the JSON subset of `Model/CastJson.lean`
(`null`, booleans, integers in orjson's 64-bit range, floats through the rendering parameter, strings with
every escape, nested arrays) — `{"name":value,…}`, compact, the member names escaped exactly like string
values (`\"`, `\\`, `\b \f \n \r \t`, `\u00XX` for the other control characters, everything else raw) — and
reads such text back (`orjson.loads`, white space tolerated; a repeated member name would make the later
value win in Python: the reader returns the member list, the dictionary view has no repeated names).
Objects nested inside a cell are outside the subset.
-/
namespace DictJson
open Cast.Json

/-- one member: `"name":value` -/
def renderMember (rep : UInt64 → List Char) (p : List Char × J) : List Char :=
  renderStr p.1 ++ ':' :: render Ws.compact rep p.2

/-- the members after the first, each after `,`, and the closing brace -/
def renderRest (rep : UInt64 → List Char) : List (List Char × J) → List Char
  | [] => ['}']
  | p :: ps => ',' :: (renderMember rep p ++ renderRest rep ps)

/-- `orjson.dumps(dict)` for a dictionary with text keys -/
def renderObj (rep : UInt64 → List Char) : List (List Char × J) → List Char
  | [] => ['{', '}']
  | p :: ps => '{' :: (renderMember rep p ++ renderRest rep ps)

/-- one member at the head of `s` (no leading white space) and what follows it -/
def readMember (fot : List Char → Option UInt64) (s : List Char) : Except Err ((List Char × J) × List Char) :=
  match s with
  | [] => .error .bad
  | q :: r =>
    if q = '"' then
      match readStr (r.length + 1) r with
      | none => .error .bad
      | some (k, r2) =>
        match skipWs r2 with
        | [] => .error .bad
        | c :: r3 =>
          if c = ':' then
            match readValue fot ((skipWs r3).length + 1) (skipWs r3) with
            | .ok (v, r4) => .ok ((k, v), r4)
            | .error e => .error e
          else .error .bad
    else .error .bad

/-- the members of a non-empty object after `{` and white space -/
def readMembers (fot : List Char → Option UInt64) : Nat → List Char → Except Err (List (List Char × J) × List Char)
  | 0, _ => .error .bad
  | fuel + 1, s =>
    match readMember fot s with
    | .error e => .error e
    | .ok (m, r) =>
      match skipWs r with
      | [] => .error .bad
      | d :: r2 =>
        if d = '}' then .ok ([m], r2)
        else if d = ',' then
          match readMembers fot fuel (skipWs r2) with
          | .ok (ms, r3) => .ok (m :: ms, r3)
          | .error e => .error e
        else .error .bad

/-- `orjson.loads(text)` for an object: white space, `{`, members, `}`, white space, end of input -/
def readObj (fot : List Char → Option UInt64) (s : List Char) : Except Err (List (List Char × J)) :=
  match skipWs s with
  | [] => .error .bad
  | b :: r =>
    if b = '{' then
      if (skipWs r).head? = some '}' then (if (skipWs (skipWs r).tail).isEmpty then .ok [] else .error .bad)
      else
        match readMembers fot ((skipWs r).length + 1) (skipWs r) with
        | .ok (ms, r3) => if (skipWs r3).isEmpty then .ok ms else .error .bad
        | .error e => .error e
    else .error .bad

/-- a dictionary view with text keys as the member list of its JSON object -/
def members (view : List (String × J)) : List (List Char × J) := view.map fun p => (p.1.toList, p.2)

/-- the text `orjson.dumps` writes for a dictionary view whose cells are in the subset -/
def jsonText (rep : UInt64 → List Char) (view : List (String × J)) : List Char := renderObj rep (members view)

end DictJson
