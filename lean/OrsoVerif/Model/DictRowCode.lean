import OrsoVerif.Model.DictRow
import OrsoVerif.Generated.DictCode
/-!
# C02 — the code, statement by statement

`Model/DictRow.lean` holds the *specification* functions (`extract`, `asMap`, `get`, `frameOfDicts`,
`append`).  This file assembles the *code*: the loop of `extract_dict_columns`
(orso/compute/compiled.pyx:74-99), the dispatch of `Row.__new__` (orso/row.py:77-93), the class made by
`create_class` (row.py:190-212), `get` (row.py:95-100), and the dictionary branch of
`DataFrame.__init__` / `append` (orso/dataframe.py:64-86, 135-144) — from the statements in
`Generated.DictCode.lean`, which are re-read from the working tree on every run.  `Props/C02.lean` proves
each assembled function equal to its specification; the driver runs the assembled functions.

Anything the real code cannot do in a defined way (an unchecked read outside the field tuple, an index
outside the row, a refactored statement the assembly has no meaning for) is `none`.
-/
namespace DictRow
open Gen.DictCode

variable {α : Type}

/-- One iteration and the rest of `for i in range(num_fields)`: `remaining` iterations left, at index `i`. -/
def loopFrom (null : α) (fields : List String) (d : List (String × α)) :
    Nat → Nat → List α → Option (List α)
  | 0, _, buf => some buf
  | r + 1, i, buf =>
    let ki := keyIndex (Int.ofNat fields.length) (Int.ofNat i)
    if ki < 0 then none else
    match fields[ki.toNat]? with          -- `fields[i]` is an unchecked read of a `cdef tuple`
    | none => none
    | some f =>
      let v := lookup f d                 -- `PyDict_GetItem(data, fields[i])`, NULL when absent
      let first := foundTest v.isSome     -- `if value_ptr != NULL:`
      let idx := if first then thenStoreIndex (Int.ofNat fields.length) (Int.ofNat i) else elseStoreIndex (Int.ofNat fields.length) (Int.ofNat i)
      let sv := if first then thenStoresValue else elseStoresValue
      if idx < 0 ∨ idx ≥ Int.ofNat buf.length then none else
      match (if sv then v else some null) with   -- `<object>NULL` has no value
      | none => none
      | some x => loopFrom null fields d r (i + 1) (buf.set idx.toNat x)

/-- `extract_dict_columns(data, fields)` as written: buffer of nulls, the loop, `tuple(field_data)`. -/
def extractLoop (null : α) (fields : List String) (d : List (String × α)) : Option (List α) :=
  if loopCount (Int.ofNat fields.length) < 0 ∨ bufferSize (Int.ofNat fields.length) < 0 then none else
  loopFrom null fields d (loopCount (Int.ofNat fields.length)).toNat 0
    (List.replicate (bufferSize (Int.ofNat fields.length)).toNat null)

/-- A row class: its field tuple and whether its `__new__` is `Row.__new__` (handles dictionaries) or
`tuple.__new__` (the `tuples_only` classes). -/
structure RowClass where
  fields : List String
  handlesDict : Bool
  deriving Repr, DecidableEq

/-- `Row.create_class(fields, tuples_only)`. -/
def createClass (fields : List String) (tuplesOnly : Bool) : RowClass :=
  ⟨fields, classHandlesDict tuplesOnly⟩

/-- What a row class is called with. -/
inductive Input (α : Type) where
  | dict (d : List (String × α))
  /-- an instance of a proper subclass of `dict` (OrderedDict, defaultdict, Counter) holding these items -/
  | sub (d : List (String × α))
  | seq (xs : List α)

/-- `cls(data)`: `Row.__new__` sends a dictionary through the extractor; a class whose `__new__` is
`tuple.__new__` iterates the dictionary, i.e. takes its KEYS (`ofKey` embeds a key as a value). -/
def rowNew (null : α) (ofKey : String → α) (c : RowClass) : Input α → Option (List α)
  | .seq xs => some xs
  | .dict d =>
    if c.handlesDict && newGuardIsDict then
      (if newExtractorArgsInOrder then extractLoop null c.fields d else none)
    else some (d.map fun p => ofKey p.1)
  | .sub d =>
    if c.handlesDict && newGuardIsDict then
      -- `extract_dict_columns(dict data, …)` raises TypeError for an instance of a subclass unless it was copied
      (if newCopiesSubclass && newExtractorArgsInOrder then extractLoop null c.fields d else none)
    else some (d.map fun p => ofKey p.1)

/-- `Row.get(item, default)` as written. -/
def getCode (fields : List String) (row : List α) (item : String) (default : α) : Option α :=
  match indexOf fields item with
  | none => if getAbsentReturnsDefault then some default else none
  | some i => if getIndex (Int.ofNat i) < 0 then none else row[(getIndex (Int.ofNat i)).toNat]?

/-- `DataFrame(dictionaries)` as written: the class, the key list, one list of cells per kept dictionary. -/
def frameOfDictsCode (null : α) (ofKey : String → α) (ds : List (List (String × α))) :
    Option (List String × List (List α)) :=
  match ds with
  | [] => none                                           -- `next(dicts)` raises StopIteration
  | first :: rest =>
    if ¬ (frameSchemaIsFirstKeys ∧ frameLookupKeysAreFirstKeys ∧ frameCellIsGetWithNullDefault) then none else
    let schema := first.map (·.1)
    let keys := first.map (·.1)
    let cls := createClass schema frameDictsTuplesOnly
    let src := if frameSourceIncludesFirst then first :: rest else rest
    let rows := (src.filter frameRowKept).mapM fun d =>
      rowNew null ofKey cls (.seq (keys.map fun k => (lookup k d).getD null))
    rows.map fun rs => (schema, rs)

/-- `DataFrame.append(entry)` for a dictionary, on a frame whose factory is `cls`. -/
def appendCode (null : α) (ofKey : String → α) (cls : RowClass) (rows : List (List α))
    (d : List (String × α)) : Option (List (List α)) :=
  if ¬ (appendBuildsRowWithFactory ∧ appendStoresNewRow) then none else
  (rowNew null ofKey cls (.dict d)).map fun r => rows ++ [r]

/-- `DataFrame.append(entry)` for an instance of a subclass of `dict`: copied into an exact dictionary by
`append` itself, or handed to the factory as it is. -/
def appendCodeSub (null : α) (ofKey : String → α) (cls : RowClass) (rows : List (List α))
    (d : List (String × α)) : Option (List (List α)) :=
  if ¬ (appendBuildsRowWithFactory ∧ appendStoresNewRow) then none else
  (rowNew null ofKey cls (if appendCopiesSubclass then .dict d else .sub d)).map fun r => rows ++ [r]

end DictRow
