import OrsoVerif.Model.NpNum
import OrsoVerif.Generated.NpDtypes
/-!
# numpy dtypes as the column encodings meet them

Numeric dtypes (`Num`, with numpy's own tables from `Generated/NpDtypes.lean`), text of a width
(`<U w`) and `object`.  `promote` is `numpy.promote_types` on these; `exactInto` says when every
value of one numeric dtype is held exactly by another (computed from numpy's `iinfo` / `finfo`).
-/
namespace Enc

inductive NpDType where
  | num (n : Num)
  | str (w : Nat)
  | object
  deriving DecidableEq, Repr

namespace NpDType

def kind : NpDType → Kind
  | .num n => Gen.NpDtypes.kind n
  | .str _ => .U
  | .object => .O

/-- `numpy.promote_types` on the modelled dtypes: numpy's table between numbers, the wider width
between texts, `object` with `object`.  Numbers against text are never promoted by the code under
study (numpy would turn the numbers into text); they are given `object` here. -/
def promote : NpDType → NpDType → NpDType
  | .num a, .num b => .num (Gen.NpDtypes.promote a b)
  | .str w, .str w' => .str (max w w')
  | _, _ => .object

/-- numpy's `dtype.name` / `dtype.str` as the harness reports it: `int64`, `U3`, `object`. -/
def name : NpDType → String
  | .num n => n.name
  | .str w => "U" ++ toString w
  | .object => "object"

def ofName (s : String) : Option NpDType :=
  if s == "object" then some .object
  else if s.startsWith "U" then (s.drop 1).toNat?.map .str
  else (Num.ofName s).map .num

end NpDType

/-! ## Which numeric dtype holds every value of which -/

namespace Num

def isSigned (n : Num) : Bool :=
  match Gen.NpDtypes.intRange n with
  | some r => decide (r.1 < 0)
  | none => false

def isComplex (n : Num) : Bool := Gen.NpDtypes.kind n == Kind.c

/-- Every value of `a` is a value of `b`:
* integer into integer: the range is included;
* integer into float / complex: the range lies strictly within `±2^precision` (and the precision within the
  exponent range, so that no such integer overflows);
* float into float / complex: precision and exponent range are included;
* complex only into complex. -/
def exactInto (a b : Num) : Bool :=
  match Gen.NpDtypes.intRange a, Gen.NpDtypes.intRange b, Gen.NpDtypes.floatFormat a, Gen.NpDtypes.floatFormat b with
  | some ra, some rb, _, _ => decide (rb.1 ≤ ra.1) && decide (ra.2 ≤ rb.2)
  | some ra, none, _, some fb =>
    decide (ra.2 + 1 < 2 ^ fb.1) && decide (-(2 ^ fb.1 : Int) < ra.1) && decide (fb.1 ≤ fb.2)
  | none, none, some fa, some fb => decide (fa.1 ≤ fb.1) && decide (fa.2 ≤ fb.2) && (!a.isComplex || b.isComplex)
  | _, _, _, _ => false

end Num

/-- The one way numpy's promotion loses values: a 64-bit integer dtype promoted to a float or complex
dtype (53 bits of precision).  This is the class of the open finding C09-K01. -/
def Num.lossy64 (a r : Num) : Bool :=
  (a == .i64 || a == .u64) && (Gen.NpDtypes.kind r == Kind.f || Gen.NpDtypes.kind r == Kind.c)

/-- `uint64` against a signed integer dtype: no integer dtype holds both, numpy promotes to `float64`. -/
def Num.mixedU64 (a b : Num) : Bool := (a == .u64 && b.isSigned) || (b == .u64 && a.isSigned)

def NpDType.mixedU64 : NpDType → NpDType → Bool
  | .num a, .num b => a.mixedU64 b
  | _, _ => false

def NpDType.lossy64 : NpDType → NpDType → Bool
  | .num a, .num r => a.lossy64 r
  | _, _ => false

/-- The integer `i` is a value of the numeric dtype: within `iinfo`'s range for the integer dtypes;
for a float dtype of precision `p` and exponent bound `E` an integer `m * 2^e` with `|m| < 2^p` and
`e + p ≤ E` (so `|i| < 2^E`). -/
def Num.holdsInt (n : Num) (i : Int) : Prop :=
  match Gen.NpDtypes.intRange n, Gen.NpDtypes.floatFormat n with
  | some r, _ => r.1 ≤ i ∧ i ≤ r.2
  | none, some f => ∃ m : Int, ∃ e : Nat, i = m * 2 ^ e ∧ -(2 ^ f.1 : Int) < m ∧ m < 2 ^ f.1 ∧ e + f.1 ≤ f.2
  | none, none => False

/-- `b` holds every value of `a` (texts: no truncation; `object` holds anything). -/
def NpDType.holdsAll : NpDType → NpDType → Bool
  | _, .object => true
  | .num a, .num b => a.exactInto b
  | .str w, .str w' => decide (w ≤ w')
  | _, _ => false

end Enc
