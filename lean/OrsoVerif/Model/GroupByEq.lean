import OrsoVerif.Model.PyVal
import OrsoVerif.Model.GroupBy
/-!
# C12 — grouping when equal keys are written differently

`Model/GroupBy.lean` compares keys with Lean's structural equality, which is Python's `==` only on
domains where no two different values are `==` (no `True` next to `1`, no `1.0` next to `1`, no
`-0.0`).  The statement says "partitions the rows by *equality* of their key values": `1`, `1.0` and
`True` are one key, `0`, `0.0`, `-0.0` and `False` are one key.  This file models that directly.

* **The dictionaries of `_map` / `aggregate`, looked up by an equivalence `eqv`** (`self._group_keys`,
  `column_value_map`; `group_key not in d`, `d[group_key]`): `firstSeenBy`, `collectedBy`,
  `aggregateBy`.  A Python dict finds a key by `hash` and then `==`; for the key values of the
  property (`a == b` implies `hash(a) == hash(b)` for numbers, text, `None` and tuples of them) that
  is a lookup by `==`.  The key under which a class is *stored* — and whose values are shown in the
  result (`self._group_keys[group_key] = [(name, record[column]) …]`, written by the first row of the
  class only) — is the first one that occurs.
* **Python's `==` on the scalar key values**: `canonVal` maps a value to what `==` can see of it —
  `None`, a text, or the exact number `m * 2^e` in lowest terms (`bool`, `int` and `float` compare by
  exact numerical value, int against float without rounding) — and `pyEqVal a b` is equality of these.
  Key tuples compare element by element (`keyEq`).
-/
namespace GroupBy

section By
variable {ρ κ : Type}

/-- `x in d` for a dict whose keys are compared by `eqv`. -/
def memBy (eqv : κ → κ → Bool) (seen : List κ) (x : κ) : Bool := seen.any fun y => eqv y x

/-- `if x not in d: d[x] = …` -/
def insBy (eqv : κ → κ → Bool) (seen : List κ) (x : κ) : List κ :=
  if memBy eqv seen x then seen else seen ++ [x]

/-- The stored keys of a dict filled by `if x not in d: d[x] = …` over `xs`: the first key of every
class, in order of first occurrence. -/
def firstSeenBy (eqv : κ → κ → Bool) (xs : List κ) : List κ := xs.foldl (insBy eqv) []

/-- `column_value_map[g][c]` when `column_value_map` finds `g` by `eqv`. -/
def collectedBy {ν : Type} (eqv : κ → κ → Bool) (s : List (κ × String × Option ν)) (g : κ) (c : String) :
    List ν :=
  s.filterMap fun t => if eqv t.1 g = true ∧ t.2.1 = c then t.2.2 else none

/-- `aggregate` (as `GroupBy.aggregate` of `Model/GroupBy.lean`) with dictionaries looked up by `eqv`. -/
def aggregateBy (eqv : κ → κ → Bool) (keyOf : ρ → κ) (cell : ρ → String → Option Int) (rows : List ρ)
    (reqs : List Req) : List (κ × List Agg) :=
  let s := emit keyOf cell (firstSeen (reqs.map (·.2))) rows
  (firstSeenBy eqv (s.map (·.1))).map fun g => (g, reqs.map fun q => fold q.1 (collectedBy eqv s g q.2))

/-- The rows whose key is equivalent to `k`, in frame order. -/
def membersBy (eqv : κ → κ → Bool) (keyOf : ρ → κ) (rows : List ρ) (k : κ) : List ρ :=
  rows.filter fun r => eqv (keyOf r) k

/-- `groups()` with `_group_keys` looked up by `eqv`. -/
def groupsOfBy (eqv : κ → κ → Bool) (keyOf : ρ → κ) (rows : List ρ) : List κ :=
  firstSeenBy eqv ((emit keyOf (fun _ _ => some (0 : Int)) ["*"] rows).map (·.1))

/-- `eqv` is the equivalence "same image under `canon`" (a canonical form of the keys). -/
def Kernel {κ' : Type} (eqv : κ → κ → Bool) (canon : κ → κ') : Prop :=
  ∀ a b, eqv a b = true ↔ canon a = canon b

end By

/-! ### Python's `==` on scalar key values -/

/-- What `==` can see of a scalar. -/
inductive CKey where
  | none
  | str (s : String)
  /-- the number `m * 2^e`; `m` odd, or `m = 0 ∧ e = 0` -/
  | num (m e : Int)
  | inf (neg : Bool)
  /-- anything else (a NaN, bytes, containers): itself.  Not a key value of the property. -/
  | other (v : PyVal)
  deriving DecidableEq

/-- Divide the factors of two out of `m`, at most `fuel` of them. -/
def stripTwos : Nat → Int → Int → Int × Int
  | 0, m, e => (m, e)
  | fuel + 1, m, e => if m ≠ 0 ∧ m % 2 = 0 then stripTwos fuel (m / 2) (e + 1) else (m, e)

/-- The number `m * 2^e` in lowest terms. -/
def dyadic (m e : Int) : CKey :=
  if m = 0 then .num 0 0
  else
    let me := stripTwos m.natAbs m e
    .num me.1 me.2

/-- The exact value of an IEEE-754 double given by its bit pattern. -/
def floatKey (bits : UInt64) : CKey :=
  let b : Nat := bits.toNat
  let neg := decide (b / 2 ^ 63 = 1)
  let ex : Nat := (b / 2 ^ 52) % 2048
  let fr : Nat := b % 2 ^ 52
  if ex = 2047 then (if fr = 0 then .inf neg else .other (.float bits))
  else
    let m : Nat := if ex = 0 then fr else fr + 2 ^ 52
    let e : Int := if ex = 0 then -1074 else (ex : Int) - 1075
    dyadic (if neg then -(m : Int) else (m : Int)) e

/-- A scalar as `==` sees it: `True == 1 == 1.0`, `False == 0 == 0.0 == -0.0`; an int and a float
are equal when they are the same number (no rounding: `2**53 + 1 != 2.0**53`); `None` and texts are
equal to themselves only. -/
def canonVal : PyVal → CKey
  | .none => .none
  | .bool b => .num (if b then 1 else 0) 0
  | .int i => dyadic i 0
  | .float bits => floatKey bits
  | .str s => .str s
  | v => .other v

/-- Python's `a == b` on scalar key values. -/
def pyEqVal (a b : PyVal) : Bool := decide (canonVal a = canonVal b)

/-- Python's `==` on key tuples: same length, element by element. -/
def keyCanon (k : List PyVal) : List CKey := k.map canonVal

def keyEq (a b : List PyVal) : Bool := decide (keyCanon a = keyCanon b)

/-- The Python type of a scalar, as far as `type(a) == type(b)` can tell. -/
def pyType : PyVal → Nat
  | .none => 0 | .bool _ => 1 | .int _ => 2 | .float _ => 3 | .str _ => 4
  | .bytes _ => 5 | .list _ => 6 | .dict _ => 7

/-- The value is one the key columns of the property hold: null, a boolean, an integer, a float that
is not a NaN, a text. -/
def keyValueOk : PyVal → Bool
  | .none => true
  | .bool _ => true
  | .int _ => true
  | .str _ => true
  | .float bits => match floatKey bits with
    | .other _ => false
    | _ => true
  | _ => false

/-! ### Frames -/

/-- `df.group_by(keyCols).aggregate(reqs)` with keys compared by Python's `==`. -/
def runEq (fr : Frame) (keyCols : List String) (reqs : List Req) :
    Except Err (List String × List (List PyVal)) :=
  match keyCols.mapM (fun c => index c fr.columns) with
  | none => .error .valueError
  | some idx =>
    let out := aggregateBy keyEq (keyAt idx) (cellOf fr.columns) fr.rows reqs
    .ok (header keyCols reqs, out.map fun ka => resultRow keyCols reqs ka.1 ka.2)

/-- `df.group_by(keyCols).groups()` with keys compared by Python's `==`. -/
def runGroupsEq (fr : Frame) (keyCols : List String) : Except Err (List String × List (List PyVal)) :=
  match keyCols.mapM (fun c => index c fr.columns) with
  | none => .error .valueError
  | some idx =>
    .ok ((dictOf (keyCols.map fun c => (c, ()))).map (·.1),
         (groupsOfBy keyEq (keyAt idx) fr.rows).map fun k => (dictOf (keyCols.zip k)).map (·.2))

end GroupBy
