import OrsoVerif.Model.ProfileBase
import OrsoVerif.Generated.ProfileGlue
/-!
# C15 — the glue around the column profilers: lists that are shared or copied, accumulators that are keyed

Two small models of code that holds no arithmetic, only *which object is which*:

* `addHist` — the histogram part of `ColumnProfile.__add__` (orso/profiler/profiler.py:169-238) over a heap of list
  objects.  A profile's `histogram` is a reference to a list; `deep_copy`, `list(…)` and `distogram.load` (when it
  copies) allocate a new list; `distogram.merge(h1, h2)` (distogram/__init__.py:330-351) writes into the list of `h1`
  (`update` inserts, appends and overwrites bins in place) and returns `h1`.  What the merged bins *are* is a parameter
  (`mrg`).
* `fromDataframe` — the morsel loop of `TableProfile.from_dataframe` (profiler.py:300-344): a dictionary of
  accumulators, one `+=` per column per morsel, keyed by what the source keys it by.  Each morsel brings its own
  column objects (`MCol`: name, identity, data): for a frame bound to a `RelationSchema` the morsels share them, for a
  frame whose schema is a list of names the loop makes new ones (new identities) for every morsel.
-/
namespace Profile

/-! ## a heap of list objects -/

/-- List objects by reference; `next` is the first unused reference. -/
structure Heap (β : Type) where
  next : Nat
  get : Nat → β

/-- A new list object holding `v`. -/
def Heap.alloc (h : Heap β) (v : β) : Nat × Heap β :=
  (h.next, { next := h.next + 1, get := fun r => if r = h.next then v else h.get r })

/-- The list object `r` is overwritten in place. -/
def Heap.set (h : Heap β) (r : Nat) (v : β) : Heap β :=
  { h with get := fun q => if q = r then v else h.get q }

/-- `distogram.load(bins, …)`: the reference its `Distogram.bins` holds — a new list (`list(bins)`) or `bins` itself. -/
def loadBins (copies : Bool) (h : Heap β) (r : Nat) : Nat × Heap β :=
  if copies then h.alloc (h.get r) else (r, h)

/-- `distogram.merge(h1, h2)`: every bin of `h2` is `update`d into `h1.bins` in place; `h1` is returned. -/
def mergeInPlace (mrg : β → β → β) (h : Heap β) (r1 r2 : Nat) : Nat × Heap β :=
  (r1, h.set r1 (mrg (h.get r1) (h.get r2)))

/-- The histogram of `self + other` (profiler.py:224-232): (reference the sum's `histogram` holds, heap afterwards).
`fromCopy`: `new_profile = self.deep_copy()` (else `new_profile = self`); `len`: Python's `len` / truthiness of a
list. -/
def addHist (copies fromCopy copiesOther : Bool) (mrg : β → β → β) (len : β → Nat) (h : Heap β) (self other : Nat) :
    Nat × Heap β :=
  let (nw, h1) := if fromCopy then h.alloc (h.get self) else (self, h)
  if len (h1.get self) ≠ 0 ∧ len (h1.get other) ≠ 0 then
    let (my, h2) := loadBins copies h1 self
    let (pd, h3) := loadBins copies h2 other
    if len (h3.get other) > len (h3.get self) then mergeInPlace mrg h3 pd my else mergeInPlace mrg h3 my pd
  else if len (h1.get other) ≠ 0 then
    if copiesOther then h1.alloc (h1.get other) else (other, h1)
  else (nw, h1)

/-- What the sum's histogram should be, as a value: the merge into the longer (or equally long left) histogram, or
the only histogram there is. -/
def addHistSpec (mrg : β → β → β) (len : β → Nat) (a b : β) : β :=
  if len a ≠ 0 ∧ len b ≠ 0 then (if len b > len a then mrg b a else mrg a b)
  else if len b ≠ 0 then b else a

/-! ## accumulators of the morsel loop -/

/-- One column of one morsel: the `FlatColumn` object the loop sees (its name and its identity) and the cells. -/
structure MCol (α : Type) where
  name : String
  ident : Nat
  data : List (Option α)

/-- A dictionary key of `profiles`. -/
inductive Key where
  | byName (s : String)
  | byIdent (n : Nat)
  deriving DecidableEq, Repr

def keyOf : KeyKind → MCol α → Key
  | .name, c => .byName c.name
  | .identity, c => .byIdent c.ident

/-- `if k in profiles: profiles[k] += p else: profiles[k] = p` on an insertion-ordered dictionary. -/
def upsert (add : P → P → P) (k : Key) (p : P) : List (Key × P) → List (Key × P)
  | [] => [(k, p)]
  | (k', q) :: rest => if k' = k then (k', add q p) :: rest else (k', q) :: upsert add k p rest

/-- The inner loop: the columns of one morsel, in order. -/
def morselStep (kk : KeyKind) (skips : Bool) (prof : MCol α → P) (add : P → P → P)
    (acc : List (Key × P)) (m : List (MCol α)) : List (Key × P) :=
  m.foldl (fun acc c => if skips && c.data.isEmpty then acc else upsert add (keyOf kk c) (prof c) acc) acc

/-- `profiles` after the loop over the morsels. -/
def fromDataframe (kk : KeyKind) (skips : Bool) (prof : MCol α → P) (add : P → P → P)
    (ms : List (List (MCol α))) : List (Key × P) :=
  ms.foldl (morselStep kk skips prof add) []

/-- Column by column: the profiles of the morsels' columns added up in morsel order. -/
def columnSums (prof : MCol α → P) (add : P → P → P) (m : List (MCol α)) (ms : List (List (MCol α))) : List P :=
  ms.foldl (fun ps m' => List.zipWith add ps (m'.map prof)) (m.map prof)

/-! ## `tools.single_item_cache` in front of `DataFrame.column_names` -/

/-- What the cache in front of `column_names` can see of a frame object: which object it is (`obj`), the rows it holds,
the names of its columns. -/
structure FrameObj (ρ ν : Type) where
  obj : Nat
  rows : List ρ
  names : List ν

/-- `last_args == args` for the one argument `self`: Python compares the two frame objects by identity first and then
with `DataFrame.__eq__` — which the class does not define (`Gen.ProfileGlue.frameEqIsIdentity`), so by identity alone;
`byIdentity = false` is a class whose `__eq__` compares the rows. -/
def frameEq {ρ ν : Type} [DecidableEq ρ] (byIdentity : Bool) (a b : FrameObj ρ ν) : Bool :=
  decide (a.obj = b.obj) || (!byIdentity && decide (a.rows = b.rows))

/-- One call through `single_item_cache` (`tools.py`): the entry `(args, result)` of the last computed call is answered
again when the arguments compare equal, otherwise the function is called and the entry replaced. -/
def cachedCall {σ τ : Type} (eq : σ → σ → Bool) (f : σ → τ) (entry : Option (σ × τ)) (a : σ) : τ × Option (σ × τ) :=
  match entry with
  | some (a0, r0) => if eq a0 a then (r0, entry) else (f a, some (a, f a))
  | none => (f a, some (a, f a))

/-- The answers to a sequence of calls through one cache. -/
def cachedCalls {σ τ : Type} (eq : σ → σ → Bool) (f : σ → τ) : Option (σ × τ) → List σ → List τ
  | _, [] => []
  | e, a :: as => (cachedCall eq f e a).1 :: cachedCalls eq f (cachedCall eq f e a).2 as

/-- `column_names` asked of a sequence of frame objects, through the cache when the source has one. -/
def columnNamesAnswers {ρ ν : Type} [DecidableEq ρ] (cached byIdentity : Bool) (fs : List (FrameObj ρ ν)) : List (List ν) :=
  if cached then cachedCalls (frameEq byIdentity) (·.names) none fs else fs.map (·.names)

end Profile
