/-!
# C18 — the value universe of `type_formatter` / `numpy_type_mapper` and the Python facts they rely on

Import-free.  `Kind` enumerates the kinds of Python values the statement of C18 lists (after the numpy
mapping), `NpKind` the numpy scalars / arrays before it.  The tables `isInst`, `hasAttr`, `isNanOf`,
`iterable`, `npIsInst`, `npSubdtype` are **facts about Python and numpy** (class hierarchy, attributes,
what `math.isnan` accepts); they are parameters of the model and are compared with the real
interpreter on every run (`harness/props/c18.py: check_py_facts`).

The guard language `G` and the branch records are what `harness/extractors/displayfmt.py` translates
the `if` chain of `type_formatter` into (`Generated/DisplayFmt.lean`).
-/
namespace PyKinds

/-- Kinds of Python values reaching the `if` chain of `type_formatter`. -/
inductive Kind where
  | none | boolV | intV | floatV | floatNaN | decV | decNaN | decSNaN | strV
  | datetimeV | dateV | timeV | bytesV | bytearrayV | dictV
  | timedeltaV | mdnV | nsV            -- datetime.timedelta, pyarrow.MonthDayNano, SimpleNamespace(months, days, nanoseconds)
  | listV | tupleV | setV | frozensetV | complexV
  deriving Repr, DecidableEq

def Kind.all : List Kind :=
  [.none, .boolV, .intV, .floatV, .floatNaN, .decV, .decNaN, .decSNaN, .strV, .datetimeV, .dateV, .timeV,
   .bytesV, .bytearrayV, .dictV, .timedeltaV, .mdnV, .nsV, .listV, .tupleV, .setV, .frozensetV, .complexV]

/-- Classes that may appear in an `isinstance` test. -/
inductive Cls where
  | bool | int | float | decimal | str | datetime | date | time | timedelta | bytes | bytearray | dict
  | list | tuple | set | frozenset | complex | npGeneric | npNdarray | npTimedelta64
  deriving Repr, DecidableEq

/-- Attributes of `value` the formatter may read. -/
inductive Attr where
  | days | months | nanoseconds | microseconds | seconds | strftime | decode | items | tolist | dtype
  | rjust | ljust | astype
  deriving Repr, DecidableEq

inductive Err where
  | typeError | valueError | attributeError
  deriving Repr, DecidableEq

/-- `isinstance(value, cls)` — the class hierarchy: `bool ⊂ int`, `datetime ⊂ date`,
`MonthDayNano ⊂ tuple`; NaNs are floats / Decimals. -/
def isInst : Kind → Cls → Bool
  | .boolV, .bool => true | .boolV, .int => true
  | .intV, .int => true
  | .floatV, .float => true | .floatNaN, .float => true
  | .decV, .decimal => true | .decNaN, .decimal => true | .decSNaN, .decimal => true
  | .strV, .str => true
  | .datetimeV, .datetime => true | .datetimeV, .date => true
  | .dateV, .date => true
  | .timeV, .time => true
  | .bytesV, .bytes => true
  | .bytearrayV, .bytearray => true
  | .dictV, .dict => true
  | .timedeltaV, .timedelta => true
  | .mdnV, .tuple => true
  | .listV, .list => true
  | .tupleV, .tuple => true
  | .setV, .set => true
  | .frozensetV, .frozenset => true
  | .complexV, .complex => true
  | _, _ => false

/-- `hasattr(value, name)`. -/
def hasAttr : Kind → Attr → Bool
  | .timedeltaV, .days => true | .timedeltaV, .seconds => true | .timedeltaV, .microseconds => true
  | .mdnV, .days => true | .mdnV, .months => true | .mdnV, .nanoseconds => true
  | .nsV, .days => true | .nsV, .months => true | .nsV, .nanoseconds => true
  | .datetimeV, .strftime => true | .dateV, .strftime => true | .timeV, .strftime => true
  | .bytesV, .decode => true | .bytearrayV, .decode => true
  | .dictV, .items => true
  | .strV, .rjust => true | .strV, .ljust => true
  | .bytesV, .rjust => true | .bytesV, .ljust => true
  | .bytearrayV, .rjust => true | .bytearrayV, .ljust => true
  | _, _ => false

/-- `math.isnan(value)`: converts with `float()`, which rejects non-numbers (`TypeError`) and a
signalling-NaN `Decimal` (`ValueError`). -/
def isNanOf : Kind → Except Err Bool
  | .boolV => .ok false | .intV => .ok false | .floatV => .ok false | .floatNaN => .ok true
  | .decV => .ok false | .decNaN => .ok true | .decSNaN => .error .valueError
  | _ => .error .typeError

/-- `iter(value)` works (`map(str, value)`, `for x in value`). -/
def iterable : Kind → Bool
  | .strV | .bytesV | .bytearrayV | .dictV | .mdnV | .listV | .tupleV | .setV | .frozensetV => true
  | _ => false

/-! ## Guards -/

inductive G where
  | isNone
  | isInst (cs : List Cls)
  | hasAttr (a : Attr)
  | isNan
  | and (a b : G)
  | or (a b : G)
  | not (a : G)
  | always
  deriving Repr

/-- Python's evaluation of a test on a value of kind `k`, short-circuit `and` / `or` included; a
sub-test that raises makes the whole test raise. -/
def G.eval (k : Kind) : G → Except Err Bool
  | .isNone => .ok (k == .none)
  | .isInst cs => .ok (cs.any (PyKinds.isInst k))
  | .hasAttr a => .ok (PyKinds.hasAttr k a)
  | .isNan => isNanOf k
  | .and a b => match a.eval k with
    | .error e => .error e
    | .ok false => .ok false
    | .ok true => b.eval k
  | .or a b => match a.eval k with
    | .error e => .error e
    | .ok true => .ok true
    | .ok false => b.eval k
  | .not a => match a.eval k with
    | .error e => .error e
    | .ok b => .ok (!b)
  | .always => .ok true

/-- What a branch does with `value` before it has been replaced by text: the attributes it reads,
whether it iterates over it, possibly after further tests. -/
inductive Body where
  | leaf (attrs : List Attr) (iter : Bool)
  | ite (g : G) (t e : Body)
  deriving Repr

/-- The branch body runs without `AttributeError` / `TypeError` on a value of kind `k`. -/
def Body.ok (k : Kind) : Body → Bool
  | .leaf attrs iter => attrs.all (PyKinds.hasAttr k) && (!iter || iterable k)
  | .ite g t e => match g.eval k with
    | .error _ => false
    | .ok true => t.ok k
    | .ok false => e.ok k

/-- How a branch pads its text to the column width, and how it cuts it to the column width. -/
inductive Pad where
  | rjust | ljust | nopad
  deriving Repr, DecidableEq

inductive Cut where
  | slice        -- `text[:width]`
  | trunc        -- `trunc_printable(text, width)` (pads on the right itself when the text is shorter)
  | uncut
  deriving Repr, DecidableEq

structure Branch where
  guard : G
  token : List Char      -- the first colour token the branch writes (`[]` when it writes none)
  body : Body
  pad : Pad
  cut : Cut
  deriving Repr

/-- The `if … return` chain: index and branch of the first test that holds; a raising test raises. -/
def dispatchGo (k : Kind) : Nat → List Branch → Except Err (Option (Nat × Branch))
  | _, [] => .ok none
  | i, b :: bs => match b.guard.eval k with
    | .error e => .error e
    | .ok true => .ok (some (i, b))
    | .ok false => dispatchGo k (i + 1) bs

def dispatch (bs : List Branch) (k : Kind) : Except Err (Option (Nat × Branch)) := dispatchGo k 0 bs

/-- The value is formatted without an exception from the tests or the branch body, by a branch that
writes the colour token `tok`. -/
def formatsWith (bs : List Branch) (k : Kind) (tok : List Char) : Bool :=
  match dispatch bs k with
  | .ok (some (_, b)) => b.body.ok k && b.token == tok
  | _ => false

/-- Padding and cutting of the branch that formats a value of kind `k`. -/
def layoutOf (bs : List Branch) (k : Kind) : Option (Pad × Cut) :=
  match dispatch bs k with
  | .ok (some (_, b)) => some (b.pad, b.cut)
  | _ => none

/-! ## numpy values (`numpy_type_mapper`) -/

inductive NpKind where
  | ndarray        -- an array of one or more dimensions: `tolist()` is a list
  | ndarray0      -- a 0-dimensional array of integers: `tolist()` is an int
  | td64 | td64NaT | td64Cal     -- timedelta64: fixed unit, NaT, calendar unit (Y / M)
  | dt64
  | npInt | npFloat | npFloatNaN | npBool | npComplex | npStr | npBytes
  deriving Repr, DecidableEq

def NpKind.all : List NpKind :=
  [.ndarray, .ndarray0, .td64, .td64NaT, .td64Cal, .dt64, .npInt, .npFloat, .npFloatNaN, .npBool, .npComplex, .npStr, .npBytes]

/-- dtype classes used with `numpy.issubdtype(value.dtype, …)`. -/
inductive NpCls where
  | integer | floating | bool_ | ndarray
  deriving Repr, DecidableEq

/-- Tests of `numpy_type_mapper`. -/
inductive NG where
  | isNdarray              -- `isinstance(value, numpy.ndarray)`
  | isTd64                 -- `isinstance(value, (numpy.timedelta64,))`
  | isNaT                  -- `numpy.isnat(value)`
  | calUnit                -- `numpy.datetime_data(value.dtype)[0] in ("Y", "M")`
  | subdtype (c : NpCls)   -- `numpy.issubdtype(value.dtype, numpy.c)`
  | always
  deriving Repr, DecidableEq

/-- `numpy.issubdtype(value.dtype, c)` (numpy's type lattice: `bool_` is not an integer,
`timedelta64` is a signed integer). -/
def npSubdtype : NpKind → NpCls → Bool
  | .npInt, .integer => true | .ndarray0, .integer => true
  | .td64, .integer => true | .td64NaT, .integer => true | .td64Cal, .integer => true
  | .npFloat, .floating => true | .npFloatNaN, .floating => true
  | .npBool, .bool_ => true
  | _, _ => false

/-- Evaluation of a mapper test; `numpy.isnat` raises `TypeError` on anything but datetimes and
timedeltas, `value.dtype` exists for every numpy value. -/
def NG.eval (k : NpKind) : NG → Except Err Bool
  | .isNdarray => .ok (k == .ndarray || k == .ndarray0)
  | .isTd64 => .ok (k == .td64 || k == .td64NaT || k == .td64Cal)
  | .isNaT => match k with
    | .td64NaT => .ok true
    | .td64 | .td64Cal | .dt64 => .ok false
    | _ => .error .typeError
  | .calUnit => match k with
    | .td64Cal => .ok true
    | .td64 | .td64NaT | .dt64 => .ok false
    | _ => .error .typeError
  | .subdtype c => .ok (npSubdtype k c)
  | .always => .ok true

/-- What a mapper branch returns. -/
inductive NRes where
  | tolist | none | namespace_ | int | float | bool | list | str
  deriving Repr, DecidableEq

/-- A mapper branch: outer test, then (for the timedelta branch) inner tests in order. -/
inductive NBody where
  | ret (r : NRes)
  | ite (g : NG) (t e : NBody)
  deriving Repr

def NBody.run (k : NpKind) : NBody → Except Err NRes
  | .ret r => .ok r
  | .ite g t e => match g.eval k with
    | .error err => .error err
    | .ok true => t.run k
    | .ok false => e.run k

/-- The Python kind of `conversion(value)` for a numpy value (`none` when the conversion raises or its
outcome depends on the value, e.g. `int(numpy.str_(…))`); compared with numpy on every run for the
combinations the extracted mapper produces. -/
def resKind (k : NpKind) : NRes → Option Kind
  | .tolist => match k with
    | .ndarray => some .listV | .ndarray0 => some .intV | .td64 => some .timedeltaV | .td64NaT => some .none
    | .td64Cal => some .intV | .dt64 => some .dateV | .npInt => some .intV | .npFloat => some .floatV
    | .npFloatNaN => some .floatNaN | .npBool => some .boolV | .npComplex => some .complexV | .npStr => some .strV
    | .npBytes => some .bytesV
  | .none => some .none
  | .namespace_ => some .nsV
  | .int => match k with
    | .ndarray0 | .td64Cal | .npInt | .npFloat | .npBool => some .intV
    | _ => Option.none                -- int(nan), int(NaT), int(array), int(complex) raise or are deprecated
  | .float => match k with
    | .npFloatNaN => some .floatNaN
    | .ndarray0 | .td64Cal | .npInt | .npFloat | .npBool => some .floatV
    | _ => Option.none
  | .bool => match k with
    | .ndarray => Option.none         -- the truth value of an array is ambiguous
    | _ => some .boolV
  | .list => match k with
    | .ndarray | .npStr | .npBytes => some .listV
    | _ => Option.none                -- scalars are not iterable
  | .str => some .strV

/-- Is the value a numpy value for the formatter's first test `isinstance(value, (numpy.generic, numpy.ndarray))`? -/
def mapped (k : NpKind) (cs : List Cls) : Bool :=
  cs.any fun c => match c with
    | .npNdarray => k == .ndarray || k == .ndarray0
    | .npGeneric => !(k == .ndarray || k == .ndarray0)
    | .npTimedelta64 => k == .td64 || k == .td64NaT || k == .td64Cal
    | _ => false

end PyKinds
