/-!
# C12 — the statement-level reading of `orso/group_by.py` (types only)

`harness/extractors/c12_code.py` reads the AST of `GroupBy._map`, `GroupBy.aggregate`,
`GroupBy.groups`, the five aggregator functions and `DataFrame.__iter__` / `materialize` on every
run and writes what it finds as *terms of the types below* into `Generated/GroupByCode.lean`.
`Model/GroupByCode.lean` gives the terms their meaning (an interpreter); the theorems of
`Props/C12.lean` are stated about the interpreter applied to the generated terms, so they are
re-checked against the statements the source contains now.

Every term of these types is well typed, so a recognised change of the source can never stop the
model driver from building; it can only make a theorem fail.
-/
namespace GroupByIR

/-- The identity of a group in `_map` (`group_key = …`, group_by.py:101). -/
inductive KeyExpr where
  /-- `tuple(record[col] for col in group_column_indicies)` -/
  | tuple
  /-- `hash(tuple(…))` -/
  | hashTuple
  /-- `tuple((type(record[col]), record[col]) for col in group_column_indicies)`: every key value next to
  its Python type -/
  | typedTuple
  deriving DecidableEq, Repr

/-- A test on the `value` of an emitted triple. -/
inductive Guard where
  /-- `value is not None` -/
  | notNone
  /-- `value is None` -/
  | isNone
  /-- `value` (false for `None`, `0`, `0.0`, `""`) -/
  | truthy
  /-- `not value` -/
  | falsy
  /-- `value != value`, `math.isnan(value)`: true of the float NaN only -/
  | isNaN
  /-- `value == value`, `not math.isnan(value)` -/
  | notNaN
  deriving DecidableEq, Repr

/-- What a statement of the collection loop of `aggregate` does to `column_value_map`. -/
inductive Action where
  /-- `column_value_map[group_key]` is evaluated (a `defaultdict` creates the entry) -/
  | touch
  /-- `column_value_map[group_key][column].append(value)` -/
  | append
  deriving DecidableEq, Repr

/-- The argument `aggregate` hands to `_map`. -/
inductive CollectExpr where
  /-- `list(dict.fromkeys(col for _, col in aggregations))` -/
  | dedup
  /-- `[col for _, col in aggregations]` -/
  | all
  deriving DecidableEq, Repr

/-- The value `_map` yields for a requested column. -/
inductive ValExpr where
  /-- `"*" if column == -1 else record[column]` -/
  | starIfMissing
  /-- `record[column]` (for a column that is not in the frame, `record[-1]`: the last cell) -/
  | cell
  deriving DecidableEq, Repr

/-- How `_map` finds the position of a requested column (`collect_column_indicies = […]`); `-1` stands
for "not a column of the frame", the `*` of `COUNT(*)`. -/
inductive ColIndexExpr where
  /-- `source_columns.index(target) if target in source_columns else -1` -/
  | indexIfPresent
  /-- `positions.get(target, -1)` with `positions` the first position of every column name -/
  | getDefault
  /-- `positions.get(target) or -1`: position `0` is falsy, so the FIRST column of the frame turns into `-1` -/
  | getOrMinusOne
  deriving DecidableEq, Repr

/-- What the row loop of `_map` iterates. -/
inductive RowsVia where
  /-- `for record in self._dictset` (through `DataFrame.__iter__`) -/
  | frame
  /-- `for record in self._dictset._rows` (the backing store itself) -/
  | backing
  deriving DecidableEq, Repr

/-- The body of an aggregator function as an expression over `values`.  Statement level:
`if not values: return a` followed by `return b` is `ifEmpty a b`. -/
inductive AExpr where
  /-- `None` -/
  | none
  /-- an integer literal -/
  | lit (i : Int)
  /-- `len(values)` -/
  | len
  /-- `sum(values)` -/
  | sum
  /-- `min(values)` (raises on no values) -/
  | minE
  /-- `max(values)` -/
  | maxE
  /-- `min(values, default=d)` -/
  | minD (d : AExpr)
  /-- `max(values, default=d)` -/
  | maxD (d : AExpr)
  /-- `decimal.Decimal(e)` -/
  | decimal (e : AExpr)
  /-- `a / b` -/
  | div (a b : AExpr)
  /-- `a or b` -/
  | orElse (a b : AExpr)
  /-- `a if not values else b`, and `if not values: return a` … `return b` -/
  | ifEmpty (a b : AExpr)
  /-- a name that is not defined: raises -/
  | raise
  deriving DecidableEq, Repr

/-- The cell `aggregate` writes into a result row under a label (the value of the dict comprehension
`results = {label: … for func, col in aggregations}`, group_by.py:143). -/
inductive CellExpr where
  /-- `values.get(label)` (or `values[label]`: the label is always there) -/
  | get
  /-- `values.get(label) or None`: a falsy aggregate (COUNT 0, SUM 0, AVG 0) turns into null -/
  | getOrNone
  /-- `values.get(label) or <integer>`: a falsy aggregate (null included) turns into that number -/
  | getOrLit (i : Int)
  deriving DecidableEq, Repr

/-- A piece of the f-string that labels an aggregate column. -/
inductive LabelPart where
  | func
  | col
  | lit (s : String)
  deriving DecidableEq, Repr

/-- The container `_map` keeps column positions in (`group_column_indicies = array.array("i", …)`,
`collect_column_indicies = […]`, group_by.py:88-95).  Iterating any of them hands back the integers put in; what
differs is WHICH integers can be put in: outside the range the constructor raises (`ValueError: bytes must be in
range(0, 256)`, `OverflowError: signed short integer is greater than maximum`) before a row is read. -/
inductive PosContainer where
  /-- a list or a tuple (a list comprehension, `list(…)`, `tuple(…)`): every integer -/
  | list
  /-- `bytes(…)` / `bytearray(…)`: `0 ≤ p < 256` -/
  | bytes
  /-- `array.array(code, …)` with an integer type code of `bits` bits (`b B h H i I l L q Q`), signed or not -/
  | array (bits : Nat) (signed : Bool)
  deriving DecidableEq, Repr

/-- The integers the container can hold. -/
def PosContainer.holds : PosContainer → Int → Bool
  | .list, _ => true
  | .bytes, p => decide (0 ≤ p ∧ p < 256)
  | .array bits true, p => decide (-(2 ^ (bits - 1) : Int) ≤ p ∧ p < 2 ^ (bits - 1))
  | .array bits false, p => decide (0 ≤ p ∧ p < 2 ^ bits)

/-- Building the container from the positions found (`container(source_columns.index(t) for t in names)`): the
positions themselves, or the exception the constructor raises at the first one it cannot hold. -/
def PosContainer.store (c : PosContainer) (ps : List Int) : Except String (List Int) :=
  if ps.all c.holds then .ok ps
  else .error (match c with | .bytes => "ValueError" | _ => "OverflowError")

end GroupByIR
