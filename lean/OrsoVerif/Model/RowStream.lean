import OrsoVerif.Model.RowCodec
/-!
# Records one after another (C01, "each record carries its own payload length")

A write-ahead file is the concatenation of the records `Row.as_bytes` emitted.  orso has no reader
for such a file; what the property promises is that one *can* be written from the record alone: the
length field says where the record ends.  `nextRecord` is that reader, built only from the
decoder's own pieces (`Gen.Row.decHeaderSize`, `recordSize` = the extracted offsets and shifts,
`checkFrame` = the extracted guards): it cuts `HEADER_SIZE + record_size` bytes off the front and
lets the decoder's guards judge the piece.  `split` iterates it.
-/
namespace RowStream
open RowBytes RowCodec

/-- The record at the front of `data` and what follows it. A front shorter than a header, a
negative length field or fewer bytes than the length field announces (a torn tail) are data
errors; so is a piece the decoder's guards refuse. -/
def nextRecord (data : Bytes) : Except DecErr (Bytes × Bytes) :=
  if data.length < Gen.Row.decHeaderSize then .error .malformed
  else
    let n : Int := recordSize data
    if n < 0 then .error .badLength
    else
      let total : Nat := Gen.Row.decHeaderSize + n.toNat
      if data.length < total then .error .badLength
      else
        match checkFrame (data.take total) with
        | .error e => .error e
        | .ok _ => .ok (data.take total, data.drop total)

/-- Cut a buffer into records (fuel: one unit per record). -/
def splitFuel : Nat → Bytes → Except DecErr (List Bytes)
  | _, [] => .ok []
  | 0, _ :: _ => .error .malformed
  | fuel + 1, b :: bs =>
    match nextRecord (b :: bs) with
    | .error e => .error e
    | .ok (r, rest) =>
      match splitFuel fuel rest with
      | .error e => .error e
      | .ok rs => .ok (r :: rs)

/-- Cut a buffer into records; every record has at least one byte, so the length is enough fuel. -/
def split (data : Bytes) : Except DecErr (List Bytes) := splitFuel data.length data

/-- `mapM` over `Except` written out (keeps the model import-free and the proofs by `induction`). -/
def decodeAllWith {α : Type} (dec : Bytes → Except DecErr α) : List Bytes → Except DecErr (List α)
  | [] => .ok []
  | r :: rs =>
    match dec r with
    | .error e => .error e
    | .ok row =>
      match decodeAllWith dec rs with
      | .error e => .error e
      | .ok rows => .ok (row :: rows)

/-- Every piece through `Row.from_bytes`. -/
def decodeAll (rs : List Bytes) : Except DecErr (List (List Item)) := decodeAllWith decodeRow rs

/-- Read a whole write-ahead buffer back into rows. -/
def decodeStream (data : Bytes) : Except DecErr (List (List Item)) :=
  match split data with
  | .error e => .error e
  | .ok rs => decodeAll rs

end RowStream
