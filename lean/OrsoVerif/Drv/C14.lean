import OrsoVerif.Model.PyVal
import OrsoVerif.Model.Estimators
import OrsoVerif.Drv.C13
/-! Driver glue for C14: evaluate `count_at`, `quantile` and the profile estimators of the model on
a histogram state given by the harness (the implementation's own bins and bounds). -/
namespace Drv.C14
open Distogram Drv.C13

section
variable {K : Type} [Add K] [Sub K] [Mul K] [Div K] [LT K] [LE K]
  [DecidableLT K] [DecidableLE K] [OfNat K 0] [OfNat K 1] [OfNat K 2]

def decOpt (c : Codec K) : PyVal → Option (Option K)
  | .none => some none
  | v => (c.dec v).map some

def eval (c : Codec K) (floor : K → K) : List PyVal → Option (List PyVal)
  | [.list bins, mn, mx, .list xs, .list qs, count, missing] => do
    let bins ← decPairs c bins
    let mn ← decOpt c mn
    let mx ← decOpt c mx
    let xs ← xs.mapM c.dec
    let qs ← qs.mapM c.dec
    let cnt ← c.dec count
    let mis ← c.dec missing
    pure [.list (xs.map fun x => encOpt c (countAt bins mn mx x)),
          .list (qs.map fun q => encOpt c (quantile floor bins mn mx q)),
          .list (xs.map fun x => encOpt c (estimateAbove cnt mis bins mn mx x))]
  | _ => none

end

def handle (op : String) (args : List PyVal) : Option (List PyVal) :=
  match op, args with
  | "eval", .str "f" :: rest => eval floatCodec Float.floor rest
  | "eval", .str "q" :: rest => eval ratCodec (fun x => (x.floor : Rat)) rest
  | _, _ => none

end Drv.C14
