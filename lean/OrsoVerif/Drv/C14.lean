import OrsoVerif.Model.PyVal
import OrsoVerif.Model.Estimators
import OrsoVerif.Model.ProfileEst
import OrsoVerif.Drv.C13
/-! Driver glue for C14: evaluate `count_at`, `quantile` and the profile estimators of the model on
a histogram state given by the harness (the implementation's own bins and bounds). -/
namespace Drv.C14
open Distogram Drv.C13

section
variable {K : Type} [Add K] [Sub K] [Mul K] [Div K] [LT K] [LE K]
  [DecidableLT K] [DecidableLE K] [OfNat K 0] [OfNat K 1] [OfNat K 2]

def decOpt (c : Codec K) : PyVal → Option (Option K)
  | .none => some none
  | v => (c.dec v).map some

def eval (c : Codec K) (floor : K → K) : List PyVal → Option (List PyVal)
  | [.list bins, mn, mx, .list xs, .list qs, count, missing] => do
    let bins ← decPairs c bins
    let mn ← decOpt c mn
    let mx ← decOpt c mx
    let xs ← xs.mapM c.dec
    let qs ← qs.mapM c.dec
    let cnt ← c.dec count
    let mis ← c.dec missing
    pure [.list (xs.map fun x => encOpt c (countAt bins mn mx x)),
          .list (qs.map fun q => encOpt c (quantile floor bins mn mx q)),
          .list (xs.map fun x => encOpt c (estimateAbove cnt mis bins mn mx x))]
  | _ => none

/-- A base profile as the implementation built it: `[count, missing, minimum, maximum, histogram]`; nothing
has been estimated on it yet. -/
def decProf (c : Codec K) : PyVal → Option (EProf K)
  | .list [count, missing, mn, mx, .list hist] => do
    let cnt ← c.dec count
    let mis ← c.dec missing
    let mn ← decOpt c mn
    let mx ← decOpt c mx
    let hist ← decPairs c hist
    pure { count := cnt, missing := mis, minimum := mn, maximum := mx, hist := hist, cache := none }
  | _ => none

def getReg (regs : List (Nat × EProf K)) (i : Nat) : Option (EProf K) := (regs.find? (·.1 == i)).map (·.2)
def setReg (regs : List (Nat × EProf K)) (i : Nat) (p : EProf K) : List (Nat × EProf K) := (i, p) :: regs.filter (·.1 != i)

/-- One step of a sequence on profile registers: `["q", r, probes]` estimates below and above every probe on
register `r` (the object keeps the `Distogram` it worked on), `["add", dst, a, b]` stores `a + b`,
`["copy", dst, a]` stores `a.deep_copy()`. -/
def seqStep (c : Codec K) (regs : List (Nat × EProf K)) : PyVal → Option (List (Nat × EProf K) × PyVal)
  | .list [.str "q", .int r, .list probes] => do
    let p ← getReg regs r.toNat
    let xs ← probes.mapM c.dec
    let q := p.touch
    pure (setReg regs r.toNat q,
          .list [.str "q", .list (xs.map fun x => encOpt c (q.below x)), .list (xs.map fun x => encOpt c (q.above x))])
  | .list [.str "add", .int dst, .int a, .int b] => do
    let pa ← getReg regs a.toNat
    let pb ← getReg regs b.toNat
    match EProf.add pa pb with
    | .error e => pure (regs, errOut e)
    | .ok s => pure (setReg regs dst.toNat s, okOut)
  | .list [.str "copy", .int dst, .int a] => do
    let pa ← getReg regs a.toNat
    pure (setReg regs dst.toNat pa, okOut)
  | _ => none

def runSeq (c : Codec K) : List (Nat × EProf K) → List PyVal → Option (List PyVal)
  | _, [] => some []
  | regs, op :: ops => do
    let (regs', out) ← seqStep c regs op
    let rest ← runSeq c regs' ops
    pure (out :: rest)

def pseq (c : Codec K) : List PyVal → Option (List PyVal)
  | [.list bases, .list ops] => do
    let ps ← bases.mapM (decProf c)
    let regs := (List.range ps.length).zip ps
    let outs ← runSeq c regs ops
    pure [.list outs]
  | _ => none

end

def handle (op : String) (args : List PyVal) : Option (List PyVal) :=
  match op, args with
  | "eval", .str "f" :: rest => eval floatCodec Float.floor rest
  | "eval", .str "q" :: rest => eval ratCodec (fun x => (x.floor : Rat)) rest
  | "pseq", .str "f" :: rest => pseq floatCodec rest
  | "pseq", .str "q" :: rest => pseq ratCodec rest
  | _, _ => none

end Drv.C14
