import OrsoVerif.Model.PyVal
import OrsoVerif.Model.Estimators
import OrsoVerif.Model.ProfileEst
import OrsoVerif.Model.HistObj
import OrsoVerif.Model.TableProf
import OrsoVerif.Model.Profile
import OrsoVerif.Drv.C13
/-! Driver glue for C14: evaluate `count_at`, `quantile` and the profile estimators of the model on
a histogram state given by the harness (the implementation's own bins and bounds). -/
namespace Drv.C14
open Distogram Drv.C13

section
variable {K : Type} [Add K] [Sub K] [Mul K] [Div K] [LT K] [LE K]
  [DecidableLT K] [DecidableLE K] [OfNat K 0] [OfNat K 1] [OfNat K 2]

def decOpt (c : Codec K) : PyVal → Option (Option K)
  | .none => some none
  | v => (c.dec v).map some

def eval (c : Codec K) (floor : K → K) : List PyVal → Option (List PyVal)
  | [.list bins, mn, mx, .list xs, .list qs, count, missing] => do
    let bins ← decPairs c bins
    let mn ← decOpt c mn
    let mx ← decOpt c mx
    let xs ← xs.mapM c.dec
    let qs ← qs.mapM c.dec
    let cnt ← c.dec count
    let mis ← c.dec missing
    pure [.list (xs.map fun x => encOpt c (countAt bins mn mx x)),
          .list (qs.map fun q => encOpt c (quantile floor bins mn mx q)),
          .list (xs.map fun x => encOpt c (estimateAbove cnt mis bins mn mx x)),
          .list (xs.map fun x => encOpt c (estimateBelow bins mn mx x))]
  | _ => none

/-- A base profile as the implementation built it: `[count, missing, minimum, maximum, histogram]`; nothing
has been estimated on it yet. -/
def decProf (c : Codec K) : PyVal → Option (EProf K)
  | .list [count, missing, mn, mx, .list hist] => do
    let cnt ← c.dec count
    let mis ← c.dec missing
    let mn ← decOpt c mn
    let mx ← decOpt c mx
    let hist ← decPairs c hist
    pure { count := cnt, missing := mis, minimum := mn, maximum := mx, hist := hist, cache := none }
  | _ => none

def getReg (regs : List (Nat × EProf K)) (i : Nat) : Option (EProf K) := (regs.find? (·.1 == i)).map (·.2)
def setReg (regs : List (Nat × EProf K)) (i : Nat) (p : EProf K) : List (Nat × EProf K) := (i, p) :: regs.filter (·.1 != i)

/-- One step of a sequence on profile registers: `["q", r, probes]` estimates below and above every probe on
register `r` (the object keeps the `Distogram` it worked on), `["add", dst, a, b]` stores `a + b`,
`["copy", dst, a]` stores `a.deep_copy()`. -/
def seqStep (c : Codec K) (regs : List (Nat × EProf K)) : PyVal → Option (List (Nat × EProf K) × PyVal)
  | .list [.str "q", .int r, .list probes] => do
    let p ← getReg regs r.toNat
    let xs ← probes.mapM c.dec
    let q := p.touch
    pure (setReg regs r.toNat q,
          .list [.str "q", .list (xs.map fun x => encOpt c (q.below x)), .list (xs.map fun x => encOpt c (q.above x))])
  | .list [.str "add", .int dst, .int a, .int b] => do
    let pa ← getReg regs a.toNat
    let pb ← getReg regs b.toNat
    match EProf.add pa pb with
    | .error e => pure (regs, errOut e)
    | .ok s => pure (setReg regs dst.toNat s, okOut)
  | .list [.str "tadd", .int dst, .int a, .int b] => do
    -- the same through one-column tables: `TableProfile.__add__` decides which column is the left operand of the column sum
    let pa ← getReg regs a.toNat
    let pb ← getReg regs b.toNat
    match (if Gen.TableProf.sumLeftFirst then EProf.add pa pb else EProf.add pb pa) with
    | .error e => pure (regs, errOut e)
    | .ok s => pure (setReg regs dst.toNat s, okOut)
  | .list [.str "copy", .int dst, .int a] => do
    let pa ← getReg regs a.toNat
    pure (setReg regs dst.toNat pa, okOut)
  | _ => none

def runSeq (c : Codec K) : List (Nat × EProf K) → List PyVal → Option (List PyVal)
  | _, [] => some []
  | regs, op :: ops => do
    let (regs', out) ← seqStep c regs op
    let rest ← runSeq c regs' ops
    pure (out :: rest)

def pseq (c : Codec K) : List PyVal → Option (List PyVal)
  | [.list bases, .list ops] => do
    let ps ← bases.mapM (decProf c)
    let regs := (List.range ps.length).zip ps
    let outs ← runSeq c regs ops
    pure [.list outs]
  | _ => none

/-- The histogram a one-batch numeric profile keeps: the comprehension of `NumericProfiler` (`Profile.histogramOf`, slice /
filter / kept pair regenerated from the source) over `numpy.histogram`'s counts and edges. -/
def phist (c : Codec K) : List PyVal → Option (List PyVal)
  | [.list counts, .list edges] => do
    let cs ← counts.mapM fun | .int i => (if i < 0 then none else some i.toNat) | _ => none
    let es ← edges.mapM c.dec
    pure [.list ((Profile.histogramOf cs es).map fun p => .list [c.enc p.1, .int p.2])]
  | _ => none

/-- A freshly built table profile: `[[name, [count, missing, minimum, maximum, histogram]], …]`. -/
def decTable (c : Codec K) : PyVal → Option (TProf K)
  | .list cols => do
    let cs ← cols.mapM fun
      | .list [.str n, p] => (decProf c p).map fun q => (n, q)
      | _ => none
    pure ⟨cs⟩
  | _ => none

def getTab (regs : List (Nat × TProf K)) (i : Nat) : Option (TProf K) := (regs.find? (·.1 == i)).map (·.2)
def setTab (regs : List (Nat × TProf K)) (i : Nat) (t : TProf K) : List (Nat × TProf K) := (i, t) :: regs.filter (·.1 != i)

/-- One step of a sequence on **table** profile registers: `["tadd", dst, a, b]` stores `T[a] + T[b]` (`TableProfile.__add__`,
`Model/TableProf.lean`) and answers the sum's column names with every column's `count` and `missing`; `["q", t, name, probes]`
estimates below and above every probe on column `name` of table `t` (the column object keeps the `Distogram` it worked on). -/
def tseqStep (c : Codec K) (regs : List (Nat × TProf K)) : PyVal → Option (List (Nat × TProf K) × PyVal)
  | .list [.str "tadd", .int dst, .int a, .int b] => do
    let ta ← getTab regs a.toNat
    let tb ← getTab regs b.toNat
    match TProf.add ta tb with
    | .error e => pure (regs, errOut e)
    | .ok s => pure (setTab regs dst.toNat s,
        .list [.str "ok", .list (s.cols.map fun x => .str x.1), .list (s.cols.map fun x => c.enc x.2.count),
               .list (s.cols.map fun x => c.enc x.2.missing)])
  | .list [.str "q", .int t, .str n, .list probes] => do
    let tp ← getTab regs t.toNat
    let xs ← probes.mapM c.dec
    let tq := tp.touch n
    match tq.column n with
    | none => pure (regs, .list [.str "nocol"])  -- the model's table has no such column: a disagreement, not a malformed request
    | some p =>
      pure (setTab regs t.toNat tq,
            .list [.str "q", .list (xs.map fun x => encOpt c (p.below x)), .list (xs.map fun x => encOpt c (p.above x))])
  | _ => none

def runTseq (c : Codec K) : List (Nat × TProf K) → List PyVal → Option (List PyVal)
  | _, [] => some []
  | regs, op :: ops => do
    let (regs', out) ← tseqStep c regs op
    let rest ← runTseq c regs' ops
    pure (out :: rest)

def tseq (c : Codec K) : List PyVal → Option (List PyVal)
  | [.list bases, .list ops] => do
    let ts ← bases.mapM (decTable c)
    let regs := (List.range ts.length).zip ts
    let outs ← runTseq c regs ops
    pure [.list outs]
  | _ => none

/-- One step of a sequence on histogram *objects* (`Model/HistObj.lean`): `["new", r, cap]`, `["upd", r, value, count]`,
`["add", dst, a, b]` (`dst = a + b`, in place or on a copy as the source says now), `["q", r, points, levels]` — the
estimators on the object register `r` names, answered from the model's own state. -/
def hseqStep (c : Codec K) (floor : K → K) (s : ObjHeap K) : PyVal → Option (ObjHeap K × PyVal)
  | .list [.str "new", .int r, .int cap] =>
    if r < 0 || cap < 0 then none else some (s.new r.toNat cap.toNat, okOut)
  | .list [.str "upd", .int r, v, cnt] => do
    let v ← c.dec v
    let cnt ← c.dec cnt
    -- a call the source refuses leaves on the object whatever the source did before the `raise` (`ObjHeap.updCaught`)
    match ← s.updCaught r.toNat v cnt with
    | (s', some e) => pure (s', errOut e)
    | (s', none) => pure (s', okOut)
  | .list [.str "add", .int dst, .int a, .int b] => do
    match ← s.add Gen.DistogramObj.addTarget dst.toNat a.toNat b.toNat with
    | .error e => pure (s, errOut e)
    | .ok s' => pure (s', okOut)
  | .list [.str "bulkp", .int r, .list pairs, lo, hi] => do
    -- `bulkload` below the direct-insert threshold: numpy's (value, count) pairs and the data's extremes
    let (o, h) ← s.get r.toNat
    let pairs ← decPairs c pairs
    let lo ← c.dec lo
    let hi ← c.dec hi
    match bulk h pairs lo hi with
    | .error e => pure (s, errOut e)
    | .ok h' => pure (s.put o h', okOut)
  | .list [.str "bulkh", .int r, .list edges, .list counts, lo, hi] => do
    -- above it: numpy's histogram edges and counts; the midpoints are the model's
    let (o, h) ← s.get r.toNat
    let edges ← edges.mapM c.dec
    let counts ← counts.mapM c.dec
    let lo ← c.dec lo
    let hi ← c.dec hi
    if edges.length ≠ counts.length + 1 then none
    match bulk h ((midpoints edges).zip counts) lo hi with
    | .error e => pure (s, errOut e)
    | .ok h' => pure (s.put o h', okOut)
  | .list [.str "dl", .int dst, .int src] => do
    -- `load(**h.dump())`: a new object with the same bins and bounds; `dump()` of an empty histogram raises (`zip(*[])`)
    let (_, h) ← s.get src.toNat
    if h.bins.isEmpty then pure (s, errOut "ValueError") else
    pure (({ s with next := s.next + 1 }.put s.next (load h.bins h.min h.max)).name dst.toNat s.next, okOut)
  | .list [.str "q", .int r, .list xs, .list qs] => do
    let (_, h) ← s.get r.toNat
    let xs ← xs.mapM c.dec
    let qs ← qs.mapM c.dec
    pure (s, .list [.str "q", .list (xs.map fun x => encOpt c (countAt h.bins h.min h.max x)),
                    .list (qs.map fun q => encOpt c (quantile floor h.bins h.min h.max q)),
                    encOpt c h.min, encOpt c h.max, c.enc (sumCounts h.bins)])
  | _ => none

def runHseq (c : Codec K) (floor : K → K) : ObjHeap K → List PyVal → Option (List PyVal)
  | _, [] => some []
  | s, op :: ops => do
    let (s', out) ← hseqStep c floor s op
    let rest ← runHseq c floor s' ops
    pure (out :: rest)

def hseq (c : Codec K) (floor : K → K) : List PyVal → Option (List PyVal)
  | [.list ops] => (runHseq c floor ObjHeap.empty ops).map fun o => [.list o]
  | _ => none

end

def handle (op : String) (args : List PyVal) : Option (List PyVal) :=
  match op, args with
  | "eval", .str "f" :: rest => eval floatCodec Float.floor rest
  | "eval", .str "q" :: rest => eval ratCodec (fun x => (x.floor : Rat)) rest
  | "pseq", .str "f" :: rest => pseq floatCodec rest
  | "pseq", .str "q" :: rest => pseq ratCodec rest
  | "phist", .str "f" :: rest => phist floatCodec rest
  | "tseq", .str "f" :: rest => tseq floatCodec rest
  | "tseq", .str "q" :: rest => tseq ratCodec rest
  | "hseq", .str "f" :: rest => hseq floatCodec Float.floor rest
  | "hseq", .str "q" :: rest => hseq ratCodec (fun x => (x.floor : Rat)) rest
  | _, _ => none

end Drv.C14
