import OrsoVerif.Model.PyVal
import OrsoVerif.Model.DictSession
import OrsoVerif.Model.DictViews
import OrsoVerif.Model.DictSchema
import OrsoVerif.Model.DictJson
import OrsoVerif.Model.DictIter
/-! Driver glue for C02.  The driver runs the *assembled code* (`Model/DictRowCode.lean`, built from the
statements extracted from the working tree), not the specification functions. -/
namespace Drv.C02
open DictRow DictSession DictViews Gen.DictCode

def asStrs : List PyVal → Option (List String)
  | [] => some []
  | .str s :: xs => (asStrs xs).map (s :: ·)
  | _ => none

def asDicts : List PyVal → Option (List (List (String × PyVal)))
  | [] => some []
  | .dict d :: xs => (asDicts xs).map (d :: ·)
  | _ => none

def asRows : List PyVal → Option (List (List PyVal))
  | [] => some []
  | .list r :: xs => (asRows xs).map (r :: ·)
  | _ => none

def pairs (m : List (String × PyVal)) : PyVal := .list (m.map fun p => .list [.str p.1, p.2])

def errV : PyVal := .list [.str "err"]

def optV : Option PyVal → PyVal
  | some v => v
  | none => errV

def asNat : PyVal → Option Nat
  | .int i => if i < 0 then none else some i.toNat
  | _ => none

/-- how the caller holds the sequence it gives to the constructor -/
def asKind : String → Option DictIter.Kind
  | "container" => some .container
  | "oneshot" => some .oneShot
  | "reader" => some .reader
  | _ => none

def asOp : PyVal → Option (Op PyVal)
  | .list [.str "ctx"] => some .ctx
  | .list [.str "frame", .list ds] => (asDicts ds).map .frame
  | .list [.str "frame", .list ds, .str kind] => do
    -- the records the source expression of the working tree yields for this kind of object
    let ds ← asDicts ds
    let k ← asKind kind
    pure (.frame ((DictIter.consumed frameSourceSegs k ds).getD []))
  | .list [.str "rows", .list fields, .list rows] => do
    let f ← asStrs fields
    let r ← asRows rows
    pure (.rows f r)
  | .list [.str "append", i, .dict d, .list probes, dflt] => do
    let i ← asNat i
    let p ← asStrs probes
    pure (.append i d p dflt)
  | .list [.str "row", .list fields, .dict d, .list probes, dflt] => do
    let f ← asStrs fields
    let p ← asStrs probes
    pure (.row f d p dflt)
  | .list [.str "reread", i] => (asNat i).map .reread
  | .list [.str "derive", i, .str how, .int n] => do
    let i ← asNat i
    match how with
    | "slice" => pure (.derive i (.slice (if n < 0 then none else some n.toNat)))
    | "query" => pure (.derive i .query)
    | "add" => pure (.derive i .add)
    | _ => none
  | _ => none

def asOps : List PyVal → Option (List (Op PyVal))
  | [] => some []
  | x :: xs => do
    let o ← asOp x
    let os ← asOps xs
    pure (o :: os)

def viewsV (v : Views PyVal) : List PyVal :=
  [.list v.row, pairs v.asMap, pairs v.asDict, .list (v.gets.map optV)]

def outV : Out PyVal → PyVal
  | .ctx => .list [.str "ctx"]
  | .skip => .list [.str "skip"]
  | .err => .list [.str "err"]
  | .frame names rows => .list [.str "frame", .list (names.map .str), .list (rows.map .list)]
  | .appended rows v => .list ([.str "appended", .list (rows.map .list)] ++ (viewsV v).drop 1)
  | .row v => .list (.str "row" :: viewsV v)

def asVia : String → Option Via
  | "columns" => some .columns
  | "column_names" => some .columnNames
  | "iter" => some .iter
  | _ => none

def asMut : PyVal → Option DictSchema.Mut
  | .list [.str "rename", .int p, .str name] => some (.rename p.toNat name)
  | .list [.str "popinsert", .int p, .int q, .str name] => some (.popInsert p.toNat q.toNat name)
  | .list [.str "swap", .int p, .int q] => some (.swap p.toNat q.toNat)
  | .list [.str "add", .int p, .str name] => some (.add p.toNat name)
  | .list [.str "remove", .int p] => some (.remove p.toNat)
  | .list [.str "reverse"] => some .reverse
  | .list [.str "assign", .list names] => (asStrs names).map .assign
  | _ => none

def asBoundOp : PyVal → Option (DictSchema.Op PyVal)
  | .list [.str "ctx"] => some .ctx
  | .list [.str "schema", .list fields] => (asStrs fields).map .schema
  | .list [.str "bound", k, .list rows] => do
    let k ← asNat k
    let r ← asRows rows
    pure (.bound k r)
  | .list [.str "read", k, .str how] => do
    let k ← asNat k
    let v ← asVia how
    pure (.read k v)
  | .list [.str "fread", i, .str how] => do
    let i ← asNat i
    let v ← asVia how
    pure (.fread i v)
  | .list [.str "mutate", k, m] => do
    let k ← asNat k
    let m ← asMut m
    pure (.mutate k m)
  | .list [.str "append", i, .dict d, .list probes, dflt] => do
    let i ← asNat i
    let p ← asStrs probes
    pure (.append i d p dflt)
  | .list [.str "rowclass", k, .dict d, .list probes, dflt] => do
    let k ← asNat k
    let p ← asStrs probes
    pure (.rowclass k d p dflt)
  | .list [.str "reread", i] => (asNat i).map .reread
  | .list [.str "derive", i, .str how, .int n] => do
    let i ← asNat i
    match how with
    | "slice" => pure (.derive i (.slice (if n < 0 then none else some n.toNat)))
    | "query" => pure (.derive i .query)
    | "add" => pure (.derive i .add)
    | _ => none
  | _ => none

def asBoundOps : List PyVal → Option (List (DictSchema.Op PyVal))
  | [] => some []
  | x :: xs => do
    let o ← asBoundOp x
    let os ← asBoundOps xs
    pure (o :: os)

def boundOutV : DictSchema.Out PyVal → PyVal
  | .ctx => .list [.str "ctx"]
  | .skip => .list [.str "skip"]
  | .err => .list [.str "err"]
  | .schema => .list [.str "schema"]
  | .names l => .list [.str "names", .list (l.map .str)]
  | .frame rows => .list [.str "frame", .list (rows.map .list)]
  | .refused => .list [.str "refused"]
  | .appended rows v => .list ([.str "appended", .list (rows.map .list)] ++ (viewsV v).drop 1)
  | .row v => .list (.str "row" :: viewsV v)

mutual
/-- a cell as a JSON value of the modelled subset (`none`: a float, bytes, a nested dictionary, an integer beyond
orjson's 64 bits) -/
def asJ : PyVal → Option Cast.Json.J
  | .none => some .null
  | .bool b => some (.bool b)
  | .int i => if -9223372036854775808 ≤ i ∧ i < 18446744073709551616 then some (.int i) else none
  | .str s => some (.str s.toList)
  | .list xs => (asJs xs).map .arr
  | _ => none
def asJs : List PyVal → Option (List Cast.Json.J)
  | [] => some []
  | x :: xs => do
    let j ← asJ x
    let js ← asJs xs
    pure (j :: js)
end

def asView : String → Option View
  | "as_map" => some .asMap
  | "as_dict" => some .asDict
  | "values" => some .values
  | "keys" => some .keys
  | "as_json" => some .asJson
  | _ => none

def asViews : List PyVal → Option (List View)
  | [] => some []
  | .str s :: xs => do
    let v ← asView s
    let vs ← asViews xs
    pure (v :: vs)
  | _ => none

def sentS : String := "__c02_changed__"

/-- what the harness does to an object it was handed (harness/props/c02.py `_change`): drop the first entry,
overwrite the next one, add one -/
def changeF : Content PyVal → Content PyVal
  | .pairs l => .pairs ((match l.drop 1 with | [] => [] | p :: r => (p.1, .str sentS) :: r) ++ [(sentS, .str sentS)])
  | .vals l => .vals ((match l.drop 1 with | [] => [] | _ :: r => .str sentS :: r) ++ [.str sentS])
  | .names l => .names ((match l.drop 1 with | [] => [] | _ :: r => sentS :: r) ++ [sentS])

def contentV : Option (Content PyVal) → PyVal
  | some (.pairs l) => pairs l
  | some (.vals l) => .list l
  | some (.names l) => .list (l.map .str)
  | none => errV

def handle (op : String) (args : List PyVal) : Option (List PyVal) :=
  match op, args with
  | "row", [.list fields, .dict d, .list probes, dflt, .bool isSub] => do
    let fields ← asStrs fields
    let probes ← asStrs probes
    match rowNew .none .str (createClass fields tuplesOnlyDefault) (if isSub then .sub d else .dict d) with
    | none => pure [errV]
    | some row =>
      pure [.list row, pairs (asMapExpr fields row), pairs (asDictExpr fields row),
            .list (probes.map fun p => optV (getCode fields row p dflt)),
            .list ((keysExpr fields row).map .str), .list (valuesExpr fields row),
            pairs (asJsonViewExpr fields row)]
  | "views", [.list fields, .dict d, .list first, .list thn] => do
    -- one row object: read `first`, read it again, change every object handed out, read `thn`
    let fields ← asStrs fields
    let first ← asViews first
    let thn ← asViews thn
    match rowNew .none .str (createClass fields tuplesOnlyDefault) (.dict d) with
    | none => pure [errV]
    | some row =>
      let acts : List (Act PyVal) :=
        first.map .read ++ first.map .read ++ first.eraseDups.map (fun v => .change v changeF) ++ thn.map .read
      let outs := (runActs codeCfg ⟨fields, row, []⟩ acts)
      pure [.list ((outs.take (2 * first.length)).map fun p => contentV p.2),
            .list ((outs.drop (2 * first.length)).map fun p => contentV p.2)]
  | "frame", [.list ds] => do
    let ds ← asDicts ds
    match ds with
    | [] => pure [.str "StopIteration"]
    | _ :: _ =>
      match frameOfDictsCode .none .str ds with
      | none => pure [errV]
      | some (names, rows) => pure [.list (names.map .str), .list (rows.map .list)]
  | "frame", [.list ds, .str kind] => do
    let ds ← asDicts ds
    let k ← asKind kind
    match ds with
    | [] => pure [.str "StopIteration"]
    | _ :: _ =>
      match DictIter.frameOfDictsIter .none .str k ds with
      | none => pure [errV]
      | some (names, rows) => pure [.list (names.map .str), .list (rows.map .list)]
  | "sized", [.int packed] =>
    -- does `append` store a record whose values pack to this many bytes (the guard of as_bytes, reached through nbytes)?
    pure [.str (if appendSizesRowFirst && recordRefused packed then "refused" else "stored")]
  | "append", [.list fields, .list rows, .dict d, .bool isSub] => do
    let fields ← asStrs fields
    let rows ← asRows rows
    match (if isSub then appendCodeSub else appendCode) .none .str (createClass fields frameRowsTuplesOnly) rows d with
    | none => pure [errV]
    | some rows' => pure [.list (rows'.map .list)]
  | "session", [.list ops] => do
    let ops ← asOps ops
    pure [.list ((run .none .str [] ops).2.map outV)]
  | "json", [.list fields, .dict d] => do
    -- the TEXT of as_json: orjson.dumps of the object the source hands it, for cells of the JSON subset
    let fields ← asStrs fields
    match rowNew .none .str (createClass fields tuplesOnlyDefault) (.dict d) with
    | none => pure [errV]
    | some row =>
      match asJs row with
      | none => pure [.str "unsupported"]
      | some js => pure [.str "text", .str (String.ofList (DictJson.jsonText (fun _ => []) (asJsonViewExpr fields js)))]
  | "bound", [.list ops] => do
    -- schema objects, frames bound to them, edits of the objects in between (Model/DictSchema.lean, the routes of the source)
    let ops ← asBoundOps ops
    pure [.list ((DictSchema.run DictSchema.codeCfg .none .str ⟨[], []⟩ ops).2.map boundOutV)]
  | _, _ => none

end Drv.C02
