import OrsoVerif.Model.PyVal
import OrsoVerif.Model.DictRow
/-! Driver glue for C02. -/
namespace Drv.C02
open DictRow

def asStrs : List PyVal → Option (List String)
  | [] => some []
  | .str s :: xs => (asStrs xs).map (s :: ·)
  | _ => none

def asDicts : List PyVal → Option (List (List (String × PyVal)))
  | [] => some []
  | .dict d :: xs => (asDicts xs).map (d :: ·)
  | _ => none

def pairs (m : List (String × PyVal)) : PyVal := .list (m.map fun p => .list [.str p.1, p.2])

def handle (op : String) (args : List PyVal) : Option (List PyVal) :=
  match op, args with
  | "row", [.list fields, .dict d, .list probes, dflt] => do
    let fields ← asStrs fields
    let probes ← asStrs probes
    let row := extract .none fields d
    pure [.list row, pairs (asMap fields row), pairs (asDict fields row),
          .list (probes.map fun p => DictRow.get fields row p dflt)]
  | "frame", [.list ds] => do
    let ds ← asDicts ds
    match frameOfDicts .none ds with
    | none => pure [.str "StopIteration"]
    | some (names, rows) => pure [.list (names.map .str), .list (rows.map .list)]
  | "append", [.list fields, .list rows, .dict d] => do
    let fields ← asStrs fields
    let rows ← rows.mapM fun r => match r with
      | .list xs => some xs
      | _ => none
    pure [.list ((append .none fields rows d).map .list)]
  | _, _ => none

end Drv.C02
