import OrsoVerif.Model.PyVal
import OrsoVerif.Model.DictSession
import OrsoVerif.Model.DictViews
/-! Driver glue for C02.  The driver runs the *assembled code* (`Model/DictRowCode.lean`, built from the
statements extracted from the working tree), not the specification functions. -/
namespace Drv.C02
open DictRow DictSession DictViews Gen.DictCode

def asStrs : List PyVal → Option (List String)
  | [] => some []
  | .str s :: xs => (asStrs xs).map (s :: ·)
  | _ => none

def asDicts : List PyVal → Option (List (List (String × PyVal)))
  | [] => some []
  | .dict d :: xs => (asDicts xs).map (d :: ·)
  | _ => none

def asRows : List PyVal → Option (List (List PyVal))
  | [] => some []
  | .list r :: xs => (asRows xs).map (r :: ·)
  | _ => none

def pairs (m : List (String × PyVal)) : PyVal := .list (m.map fun p => .list [.str p.1, p.2])

def errV : PyVal := .list [.str "err"]

def optV : Option PyVal → PyVal
  | some v => v
  | none => errV

def asNat : PyVal → Option Nat
  | .int i => if i < 0 then none else some i.toNat
  | _ => none

def asOp : PyVal → Option (Op PyVal)
  | .list [.str "ctx"] => some .ctx
  | .list [.str "frame", .list ds] => (asDicts ds).map .frame
  | .list [.str "rows", .list fields, .list rows] => do
    let f ← asStrs fields
    let r ← asRows rows
    pure (.rows f r)
  | .list [.str "append", i, .dict d, .list probes, dflt] => do
    let i ← asNat i
    let p ← asStrs probes
    pure (.append i d p dflt)
  | .list [.str "row", .list fields, .dict d, .list probes, dflt] => do
    let f ← asStrs fields
    let p ← asStrs probes
    pure (.row f d p dflt)
  | .list [.str "reread", i] => (asNat i).map .reread
  | .list [.str "derive", i, .str how, .int n] => do
    let i ← asNat i
    match how with
    | "slice" => pure (.derive i (.slice (if n < 0 then none else some n.toNat)))
    | "query" => pure (.derive i .query)
    | "add" => pure (.derive i .add)
    | _ => none
  | _ => none

def asOps : List PyVal → Option (List (Op PyVal))
  | [] => some []
  | x :: xs => do
    let o ← asOp x
    let os ← asOps xs
    pure (o :: os)

def viewsV (v : Views PyVal) : List PyVal :=
  [.list v.row, pairs v.asMap, pairs v.asDict, .list (v.gets.map optV)]

def outV : Out PyVal → PyVal
  | .ctx => .list [.str "ctx"]
  | .skip => .list [.str "skip"]
  | .err => .list [.str "err"]
  | .frame names rows => .list [.str "frame", .list (names.map .str), .list (rows.map .list)]
  | .appended rows v => .list ([.str "appended", .list (rows.map .list)] ++ (viewsV v).drop 1)
  | .row v => .list (.str "row" :: viewsV v)

def asView : String → Option View
  | "as_map" => some .asMap
  | "as_dict" => some .asDict
  | "values" => some .values
  | "keys" => some .keys
  | "as_json" => some .asJson
  | _ => none

def asViews : List PyVal → Option (List View)
  | [] => some []
  | .str s :: xs => do
    let v ← asView s
    let vs ← asViews xs
    pure (v :: vs)
  | _ => none

def sentS : String := "__c02_changed__"

/-- what the harness does to an object it was handed (harness/props/c02.py `_change`): drop the first entry,
overwrite the next one, add one -/
def changeF : Content PyVal → Content PyVal
  | .pairs l => .pairs ((match l.drop 1 with | [] => [] | p :: r => (p.1, .str sentS) :: r) ++ [(sentS, .str sentS)])
  | .vals l => .vals ((match l.drop 1 with | [] => [] | _ :: r => .str sentS :: r) ++ [.str sentS])
  | .names l => .names ((match l.drop 1 with | [] => [] | _ :: r => sentS :: r) ++ [sentS])

def contentV : Option (Content PyVal) → PyVal
  | some (.pairs l) => pairs l
  | some (.vals l) => .list l
  | some (.names l) => .list (l.map .str)
  | none => errV

def handle (op : String) (args : List PyVal) : Option (List PyVal) :=
  match op, args with
  | "row", [.list fields, .dict d, .list probes, dflt, .bool isSub] => do
    let fields ← asStrs fields
    let probes ← asStrs probes
    match rowNew .none .str (createClass fields tuplesOnlyDefault) (if isSub then .sub d else .dict d) with
    | none => pure [errV]
    | some row =>
      pure [.list row, pairs (asMapExpr fields row), pairs (asDictExpr fields row),
            .list (probes.map fun p => optV (getCode fields row p dflt)),
            .list ((keysExpr fields row).map .str), .list (valuesExpr fields row),
            pairs (asJsonViewExpr fields row)]
  | "views", [.list fields, .dict d, .list first, .list thn] => do
    -- one row object: read `first`, read it again, change every object handed out, read `thn`
    let fields ← asStrs fields
    let first ← asViews first
    let thn ← asViews thn
    match rowNew .none .str (createClass fields tuplesOnlyDefault) (.dict d) with
    | none => pure [errV]
    | some row =>
      let acts : List (Act PyVal) :=
        first.map .read ++ first.map .read ++ first.eraseDups.map (fun v => .change v changeF) ++ thn.map .read
      let outs := (runActs codeCfg ⟨fields, row, []⟩ acts)
      pure [.list ((outs.take (2 * first.length)).map fun p => contentV p.2),
            .list ((outs.drop (2 * first.length)).map fun p => contentV p.2)]
  | "frame", [.list ds] => do
    let ds ← asDicts ds
    match ds with
    | [] => pure [.str "StopIteration"]
    | _ :: _ =>
      match frameOfDictsCode .none .str ds with
      | none => pure [errV]
      | some (names, rows) => pure [.list (names.map .str), .list (rows.map .list)]
  | "append", [.list fields, .list rows, .dict d, .bool isSub] => do
    let fields ← asStrs fields
    let rows ← asRows rows
    match (if isSub then appendCodeSub else appendCode) .none .str (createClass fields frameRowsTuplesOnly) rows d with
    | none => pure [errV]
    | some rows' => pure [.list (rows'.map .list)]
  | "session", [.list ops] => do
    let ops ← asOps ops
    pure [.list ((run .none .str [] ops).2.map outV)]
  | _, _ => none

end Drv.C02
