import OrsoVerif.Model.PyVal
import OrsoVerif.Model.Display
import OrsoVerif.Generated.Display
/-! Driver glue for C18: decode frames / parameters, run the display model, encode the lines. -/
namespace Drv.C18
open Display

def s2l (s : String) : Str := s.toList
def l2s (l : Str) : String := String.ofList l

def strList : List PyVal → Option (List Str)
  | [] => some []
  | .str s :: rest => (strList rest).map (s2l s :: ·)
  | _ => none

def kvList : List PyVal → Option (List (Str × Str))
  | [] => some []
  | .list [.str k, .str v] :: rest => (kvList rest).map ((s2l k, s2l v) :: ·)
  | _ => none

def nat? (i : Int) : Option Nat := if i ≥ 0 then some i.toNat else none

def decodeCell : PyVal → Option Cell
  | .list [.str "null"] => some .null
  | .list [.str "bool", .bool b] => some (.bool b)
  | .list [.str "int", .int i] => some (.int i)
  | .list [.str "num", .str s, .int n] => (nat? n).map (.num (s2l s))
  | .list [.str "text", .str s] => some (.text (s2l s))
  | .list [.str "datetime", .str d, .str t, .int n] => (nat? n).map (.datetime (s2l d) (s2l t))
  | .list [.str "date", .str d, .int n] => (nat? n).map (.date (s2l d))
  | .list [.str "bytes", .bytes b, .int n] => (nat? n).map (.bytes b)
  | .list [.str "dict", .list kvs, .int n] => do
    let kvs ← kvList kvs
    let n ← nat? n
    pure (.dict kvs n)
  | .list [.str "interval", .list ps, .int n] => do
    let ps ← strList ps
    let n ← nat? n
    pure (.interval ps n)
  | .list [.str "interval_int", .int mo, .int d, .int sc, .int n] => (nat? n).map (.intervalInt mo d sc)
  | .list [.str "list", .list xs, .int n] => do
    let xs ← strList xs
    let n ← nat? n
    pure (.list xs n)
  | .list [.str "other", .str s] => some (.other (s2l s))
  | _ => none

def decodeRow : PyVal → Option (List Cell)
  | .list cs => cs.mapM decodeCell
  | _ => none

def decodeMdCell : PyVal → Option MdCell
  | .list [.bool isNone, .str s] => some { isNone, text := s2l s }
  | _ => none

def decodeMdRow : PyVal → Option (List MdCell)
  | .list cs => cs.mapM decodeMdCell
  | _ => none

def encLine : Line Nat → PyVal
  | .data label row => .list [.str "d", .int label, .int row]
  | .ellipsis => .list [.str "e"]

def encTagged (l : Tagged) : PyVal := .list [.bool l.1, .str (l2s l.2)]

def handle (op : String) (args : List PyVal) : Option (List PyVal) :=
  match op, args with
  | "visible", [.int n, .int limit, .bool tt, .bool lazy] => do
    let n ← nat? n
    let limit ← nat? limit
    let rows := List.range n
    pure [.list ((visibleRows srcArith rows limit tt lazy).map encLine), .int (indexWidth srcArith n limit tt lazy rows)]
  | "render", [.int limit, .bool tt, .bool lazy, .bool showTypes, .int maxCol, .int dw, .bool strict,
               .list names, .list types, .list rows] => do
    let limit ← nat? limit
    let maxCol ← nat? maxCol
    let dw ← nat? dw
    let names ← strList names
    let types ← strList types
    let rows ← rows.mapM decodeRow
    let p : Params := { limit, tt, lazy, showTypes, maxCol, displayWidth := dw, strict }
    let f : Frame := { names, types, rows }
    match renderLines srcArith cwModel p f with
    | .ok ls => pure [.str "ok", .list (ls.map encTagged), .int (tableWidth (idxWidth srcArith p f) (colWidths srcArith p f))]
    | .error .unicodeDecode => pure [.str "err", .str "UnicodeDecodeError"]
  | "decode", [.bytes b] =>
    let enc (r : Except Err Str) : PyVal :=
      match r with
      | .ok s => .list [.str "ok", .list (s.map fun c => .int c.toNat)]
      | .error .unicodeDecode => .list [.str "err", .str "UnicodeDecodeError"]
    pure [enc (utf8Decode true b), enc (utf8Decode false b)]
  | "cw", [.str s] => pure [.list (s.toList.map fun c => .int (cwModel c))]
  | "pwidth", [.str s] => pure [.int (pwidth s.toList)]
  | "colorize", [.bool on, .str s] => pure [.str (l2s (colorize Gen.Display.colors on s.toList))]
  | "markdown", [.int limit, .int maxCol, .list names, .list rows] => do
    let limit ← nat? limit
    let maxCol ← nat? maxCol
    let names ← strList names
    let rows ← rows.mapM decodeMdRow
    pure [.list ((markdownLines srcArith limit maxCol { names, rows }).map fun l => .str (l2s l.text))]
  | "interval", [.int months, .int days, .int secs] =>
    pure [.list ((intervalParts srcArith months days secs).map fun p => .str (l2s p))]
  | _, _ => none

end Drv.C18
