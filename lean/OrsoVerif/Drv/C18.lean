import OrsoVerif.Model.PyVal
import OrsoVerif.Model.Display
import OrsoVerif.Generated.Display
import OrsoVerif.Model.DisplayFmt
import OrsoVerif.Model.DisplayTd
/-! Driver glue for C18: decode frames / parameters, run the display model, encode the lines. -/
namespace Drv.C18
open Display

def s2l (s : String) : Str := s.toList
def l2s (l : Str) : String := String.ofList l

def strList : List PyVal → Option (List Str)
  | [] => some []
  | .str s :: rest => (strList rest).map (s2l s :: ·)
  | _ => none

def kvList : List PyVal → Option (List (Str × Str))
  | [] => some []
  | .list [.str k, .str v] :: rest => (kvList rest).map ((s2l k, s2l v) :: ·)
  | _ => none

def nat? (i : Int) : Option Nat := if i ≥ 0 then some i.toNat else none

def decodeCell : PyVal → Option Cell
  | .list [.str "null"] => some .null
  | .list [.str "bool", .bool b] => some (.bool b)
  | .list [.str "int", .int i] => some (.int i)
  | .list [.str "num", .str s, .int n] => (nat? n).map (.num (s2l s))
  | .list [.str "text", .str s] => some (.text (s2l s))
  | .list [.str "datetime", .str d, .str t, .int n] => (nat? n).map (.datetime (s2l d) (s2l t))
  | .list [.str "date", .str d, .int n] => (nat? n).map (.date (s2l d))
  | .list [.str "bytes", .bytes b, .int n] => (nat? n).map (.bytes b)
  | .list [.str "dict", .list kvs, .int n] => do
    let kvs ← kvList kvs
    let n ← nat? n
    pure (.dict kvs n)
  | .list [.str "interval", .list ps, .int n] => do
    let ps ← strList ps
    let n ← nat? n
    pure (.interval ps n)
  | .list [.str "interval_int", .int mo, .int d, .int sc, .int n] => (nat? n).map (.intervalInt mo d sc)
  | .list [.str "list", .list xs, .int n] => do
    let xs ← strList xs
    let n ← nat? n
    pure (.list xs n)
  | .list [.str "td64", .str unit, .int step, .int raw, .list ps, .int n] => do
    -- a numpy.timedelta64: the extracted branch of numpy_type_mapper decides what interval it becomes
    let ps ← strList ps
    let n ← nat? n
    DisplayTd.tdCell unit step raw ps n
  | .list [.str "other", .str s] => some (.other (s2l s))
  | _ => none

/-- The exception the extracted timedelta branch raises on a cell, if any. -/
def tdError : PyVal → Option String
  | .list [.str "td64", .str unit, .int step, .int raw, _, _] =>
    match DisplayTd.mapTd unit step raw with
    | .keyError => some "KeyError"
    | .zeroDivision => some "ZeroDivisionError"
    | _ => none
  | _ => none

def rowTdError : PyVal → Option String
  | .list cs => cs.findSome? tdError
  | _ => none

def decodeRow : PyVal → Option (List Cell)
  | .list cs => cs.mapM decodeCell
  | _ => none

def decodeMdCell : PyVal → Option MdCell
  | .list [.bool isNone, .str s] => some { isNone, text := s2l s }
  | _ => none

def decodeMdRow : PyVal → Option (List MdCell)
  | .list cs => cs.mapM decodeMdCell
  | _ => none

def encLine : Line Nat → PyVal
  | .data label row => .list [.str "d", .int label, .int row]
  | .ellipsis => .list [.str "e"]

def encTagged (l : Tagged) : PyVal := .list [.bool l.1, .str (l2s l.2)]

open PyKinds in
def kindNames : List (String × Kind) :=
  [("none", .none), ("bool", .boolV), ("int", .intV), ("float", .floatV), ("floatNaN", .floatNaN), ("dec", .decV),
   ("decNaN", .decNaN), ("decSNaN", .decSNaN), ("str", .strV), ("datetime", .datetimeV), ("date", .dateV), ("time", .timeV),
   ("bytes", .bytesV), ("bytearray", .bytearrayV), ("dict", .dictV), ("timedelta", .timedeltaV), ("mdn", .mdnV), ("ns", .nsV),
   ("list", .listV), ("tuple", .tupleV), ("set", .setV), ("frozenset", .frozensetV), ("complex", .complexV)]

open PyKinds in
def npKindNames : List (String × NpKind) :=
  [("ndarray", .ndarray), ("ndarray0", .ndarray0), ("td64", .td64), ("td64NaT", .td64NaT), ("td64Cal", .td64Cal), ("dt64", .dt64),
   ("npInt", .npInt), ("npFloat", .npFloat), ("npFloatNaN", .npFloatNaN), ("npBool", .npBool), ("npComplex", .npComplex),
   ("npStr", .npStr), ("npBytes", .npBytes)]

open PyKinds in
def clsNames : List (String × Cls) :=
  [("bool", .bool), ("int", .int), ("float", .float), ("decimal.Decimal", .decimal), ("str", .str),
   ("datetime.datetime", .datetime), ("datetime.date", .date), ("datetime.time", .time), ("datetime.timedelta", .timedelta),
   ("bytes", .bytes), ("bytearray", .bytearray), ("dict", .dict), ("list", .list), ("tuple", .tuple), ("set", .set),
   ("frozenset", .frozenset), ("complex", .complex), ("numpy.generic", .npGeneric), ("numpy.ndarray", .npNdarray),
   ("numpy.timedelta64", .npTimedelta64)]

open PyKinds in
def attrNames : List (String × Attr) :=
  [("days", .days), ("months", .months), ("nanoseconds", .nanoseconds), ("microseconds", .microseconds), ("seconds", .seconds),
   ("strftime", .strftime), ("decode", .decode), ("items", .items), ("tolist", .tolist), ("dtype", .dtype), ("rjust", .rjust),
   ("ljust", .ljust), ("astype", .astype)]

open PyKinds in
def npClsNames : List (String × NpCls) :=
  [("integer", .integer), ("floating", .floating), ("bool_", .bool_), ("ndarray", .ndarray)]

open PyKinds in
def encErr : PyKinds.Err → String
  | .typeError => "TypeError" | .valueError => "ValueError" | .attributeError => "AttributeError"

open PyKinds in
def kindName (k : Kind) : String := ((kindNames.find? fun p => p.2 == k).map (·.1)).getD "?"

open PyKinds in
/-- How the extracted chain formats a value of kind `k`: `["ok", index, token, bodyOk]` / `["err", name]` / `["none"]`. -/
def encDispatch (k : Kind) : PyVal :=
  match dispatch Gen.DisplayFmt.branches k with
  | .ok (some (i, b)) => .list [.str "ok", .int i, .str (l2s b.token), .bool (b.body.ok k)]
  | .ok none => .list [.str "none"]
  | .error e => .list [.str "err", .str (encErr e)]

def renderWith (cw : Char → Nat) (limit : Int) (tt lazy showTypes : Bool) (maxCol dw : Int) (strict : Bool)
    (names types rows : List PyVal) : Option (List PyVal) := do
    let limit ← nat? limit
    let maxCol ← nat? maxCol
    let dw ← nat? dw
    let names ← strList names
    let types ← strList types
    if let some e := rows.findSome? rowTdError then return [.str "err", .str e]
    let rows ← rows.mapM decodeRow
    let p : Params := { limit, tt, lazy, showTypes, maxCol, displayWidth := dw, strict }
    let f : Frame := { names, types, rows }
    match renderLines srcArith cw p f with
    | .ok ls => pure [.str "ok", .list (ls.map encTagged), .int (tableWidth (idxWidth srcArith p f) (colWidths srcArith p f))]
    | .error .unicodeDecode => pure [.str "err", .str "UnicodeDecodeError"]

def handle (op : String) (args : List PyVal) : Option (List PyVal) :=
  match op, args with
  | "visible", [.int n, .int limit, .bool tt, .bool lazy] => do
    let n ← nat? n
    let limit ← nat? limit
    let rows := List.range n
    pure [.list ((visibleRows srcArith rows limit tt lazy).map encLine), .int (indexWidth srcArith n limit tt lazy rows)]
  | "render", [.int limit, .bool tt, .bool lazy, .bool showTypes, .int maxCol, .int dw, .bool strict,
               .list names, .list types, .list rows] =>
    renderWith cwModel limit tt lazy showTypes maxCol dw strict names types rows
  | "renderw", [.int limit, .bool tt, .bool lazy, .bool showTypes, .int maxCol, .int dw, .bool strict,
               .list names, .list types, .list rows, .list widths] => do
    -- `character_width` of the non-ASCII characters of the case, as measured by the harness with unicodedata
    let tbl ← widths.mapM fun w => match w with
      | .list [.int c, .int n] => some (c.toNat, n.toNat)
      | _ => none
    let cw : Char → Nat := fun c => match tbl.find? (fun p => p.1 == c.toNat) with
      | some p => p.2
      | none => cwModel c
    renderWith cw limit tt lazy showTypes maxCol dw strict names types rows
  | "decode", [.bytes b] =>
    let enc (r : Except Err Str) : PyVal :=
      match r with
      | .ok s => .list [.str "ok", .list (s.map fun c => .int c.toNat)]
      | .error .unicodeDecode => .list [.str "err", .str "UnicodeDecodeError"]
    pure [enc (utf8Decode true b), enc (utf8Decode false b)]
  | "cw", [.str s] => pure [.list (s.toList.map fun c => .int (cwModel c))]
  | "pwidth", [.str s] => pure [.int (pwidth s.toList)]
  | "colorize", [.bool on, .str s] => pure [.str (l2s (colorize Gen.Display.colors on s.toList))]
  | "markdown", [.int limit, .int maxCol, .list names, .list rows] => do
    let limit ← nat? limit
    let maxCol ← nat? maxCol
    let names ← strList names
    let rows ← rows.mapM decodeMdRow
    pure [.list ((markdownLines srcArith limit maxCol { names, rows }).map fun l => .str (l2s l.text))]
  | "interval", [.int months, .int days, .int secs] =>
    pure [.list ((intervalParts srcArith months days secs).map fun p => .str (l2s p))]
  | "td64", [.str unit, .int step, .int raw] =>
    -- the timedelta branch of numpy_type_mapper as extracted: month count, or numerator and denominator of the quotient
    match DisplayTd.mapTd unit step raw with
    | .months m => pure [.str "months", .int m]
    | .seconds n d => pure [.str "seconds", .int n, .int d, .int Gen.DisplayTd.dayFloor, .int Gen.DisplayTd.dayMod]
    | .keyError => pure [.str "err", .str "KeyError"]
    | .zeroDivision => pure [.str "err", .str "ZeroDivisionError"]
  | "tdunits", [] => pure [.list (DisplayTd.numpyUnits.map .str)]
  | "pyfacts", [] =>
    -- the tables of Model/PyKinds.lean, for comparison with the interpreter
    pure [ .list (kindNames.map fun (kn, k) => .list [.str kn,
              .list (clsNames.map fun (cn, c) => .list [.str cn, .bool (PyKinds.isInst k c)]),
              .list (attrNames.map fun (an, a) => .list [.str an, .bool (PyKinds.hasAttr k a)]),
              (match PyKinds.isNanOf k with | .ok b => .list [.str "ok", .bool b] | .error e => .list [.str "err", .str (encErr e)]),
              .bool (PyKinds.iterable k)]),
           .list (npKindNames.map fun (kn, k) => .list [.str kn,
              .list (npClsNames.map fun (cn, c) => .list [.str cn, .bool (PyKinds.npSubdtype k c)]),
              .bool (PyKinds.mapped k [.npNdarray]), .bool (PyKinds.mapped k [.npGeneric]), .bool (PyKinds.mapped k [.npTimedelta64]),
              (match PyKinds.NG.eval k .isNaT with | .ok b => .list [.str "ok", .bool b] | .error e => .list [.str "err", .str (encErr e)]),
              (match PyKinds.NG.eval k .calUnit with | .ok b => .list [.str "ok", .bool b] | .error e => .list [.str "err", .str (encErr e)])]) ]
  | "fmtkind", [.str kn] => do
    let k ← (kindNames.find? fun p => p.1 == kn).map (·.2)
    pure [encDispatch k, .str (l2s (DisplayFmt.tagToken (DisplayFmt.kindTag k)))]
  | "fmtnp", [.str kn] => do
    let k ← (npKindNames.find? fun p => p.1 == kn).map (·.2)
    let through := PyKinds.mapped k Gen.DisplayFmt.mapGuard
    match Gen.DisplayFmt.mapper.run k with
    | .error e => pure [.bool through, .list [.str "err", .str (encErr e)]]
    | .ok r =>
      let rn : String := match r with
        | .tolist => "tolist" | .none => "none" | .namespace_ => "namespace" | .int => "int" | .float => "float"
        | .bool => "bool" | .list => "list" | .str => "str"
      match PyKinds.resKind k r with
      | none => pure [.bool through, .list [.str "err", .str "conversion", .str rn]]
      | some k' => pure [.bool through, .list [.str "ok", .str (kindName k'), .str rn], encDispatch k']
  | _, _ => none

end Drv.C18
