import OrsoVerif.Model.PyVal
import OrsoVerif.Model.Arrow
import OrsoVerif.Model.ArrowFrame
import OrsoVerif.Model.ArrowShare
/-! Driver glue for C11: decode tables / columns / Arrow types, run the model, encode. -/
namespace Drv.C11
open Arrow

def asList : PyVal → Option (List PyVal)
  | .list xs => some xs
  | _ => none

def asStr : PyVal → Option String
  | .str s => some s
  | _ => none

def optNat : PyVal → Option (Option Nat)
  | .none => some none
  | .int k => if k ≥ 0 then some (some k.toNat) else none
  | _ => none

def optInt : PyVal → Option (Option Int)
  | .none => some none
  | .int k => some (some k)
  | _ => none

/-- a table: list of chunks, each a list of rows (a row stays an opaque value) -/
def decodeTable (v : PyVal) : Option (Table PyVal) := do
  let chunks ← asList v
  chunks.mapM asList

def encTy : ArrowTy → PyVal
  | .prim i => .list [.str "prim", .str i]
  | .decimal i p s => .list [.str "decimal", .str i, .int p, .int s]
  | .list i e => .list [.str "list", .str i, encTy e]
  | .invalid => .list [.str "invalid"]

def decTy : Nat → PyVal → Option ArrowTy
  | 0, _ => none
  | _ + 1, .list [.str "prim", .str i] => some (.prim i)
  | _ + 1, .list [.str "decimal", .str i, .int p, .int s] =>
    if p ≥ 0 ∧ s ≥ 0 then some (.decimal i p.toNat s.toNat) else none
  | f + 1, .list [.str "list", .str i, e] => (decTy f e).map (.list i)
  | _ + 1, _ => none

def encOptNat : Option Nat → PyVal
  | none => .none
  | some n => .int n

def encOptTy : Option OrsoTy → PyVal
  | none => .none
  | some t => .str t.name

def encCol (c : Col) : PyVal :=
  .list [.str c.name, .str c.type.name, encOptTy c.elem, encOptNat c.precision, encOptNat c.scale, .bool c.nullable]

def encField (f : ArrowField) : PyVal := .list [.str f.name, encTy f.type, .bool f.nullable]

def decOptTy : PyVal → Option (Option OrsoTy)
  | .none => some none
  | .str s => (OrsoTy.ofName s).map some
  | _ => none

/-- a table whose rows are lists of cells -/
def decodeRowTable (v : PyVal) : Option (Table (List PyVal)) := do
  let chunks ← asList v
  chunks.mapM (fun ch => do
    let rows ← asList ch
    rows.mapM asList)

def decodeOp : PyVal → Option (Op (List PyVal))
  | .list [.str "arrow", sz] => (optInt sz).map (fun s => .arrow (arrowCall s))
  | .list [.str "pandas", sz] => (optInt sz).map (fun s => .arrow (pandasCall s))
  | .list [.str "observe"] => some .observe
  | .list [.str "head", .int k] => if k ≥ 0 then some (.head k.toNat) else none
  | .list [.str "fetch", k] => (optNat k).map .fetch
  | .list [.str "append", .list r] => some (.append r)
  | _ => none

def encOut : Out PyVal → PyVal
  | .table t => .list [.str "table", .list (t.names.map .str), .int t.numRows, .list (t.rows.map .list)]
  | .rows rs => .list [.str "rows", .list (rs.map .list)]
  | .error => .list [.str "error"]

/-- the frame a `seq` case starts from -/
def decodeFrame (source : String) (data : PyVal) : Option (Fr (List PyVal)) :=
  match source with
  | "arrow" => do
    let ts ← asList data
    let tables ← ts.mapM decodeRowTable
    pure (.lazy (init tables none))
  | "gen" => do
    let rs ← asList data
    let rows ← rs.mapM asList
    pure (.lazy (ofRows rows))
  | "list" => do
    let rs ← asList data
    let rows ← rs.mapM asList
    pure (Fr.ofList rows)
  | _ => none

/-- one column definition -> [field, column that comes back] (the `forth` op) -/
def forthOne : PyVal → Option PyVal
  | .list [.str name, .str ty, el, p, s, .bool nullable] => do
    let t ← OrsoTy.ofName ty
    let e ← decOptTy el
    let p ← optNat p
    let s ← optNat s
    let ps := normalise t p s
    let c : Col := { name := name, type := t, elem := e, precision := ps.1, scale := ps.2, nullable := nullable }
    let f := arrowField c
    pure (.list [encField f, match fromArrowField false f with
      | some c' => encCol c'
      | none => .list [.str "err", .str "ValueError"]])
  | _ => none

def decField : PyVal → Option ArrowField
  | .list [.str name, ty, .bool nullable] => (decTy 8 ty).map (fun t => { name := name, type := t, nullable := nullable })
  | _ => none

def decSite : String → Option Share.Site
  | "from_arrow" => some .fromArrow
  | "helper" => some .helper
  | "field" => some .field
  | _ => none

/-- a step of a `share` session -/
def decShareStep : PyVal → Option (Share.Step (List ArrowField) (Option (List Col)))
  | .list [.str "conv", .str site, .list fields] => do
    let s ← decSite site
    let fs ← fields.mapM decField
    pure (.conv s fs)
  | .list [.str "edit", .int r, .str what, .int j, value] =>
    if r < 0 ∨ j < 0 then none else
    let e : Option Share.Edit := match what, value with
      | "rename", .str n => some (.rename j.toNat n)
      | "nullable", .bool b => some (.nullable j.toNat b)
      | "type", .str t => (OrsoTy.ofName t).map (.type j.toNat)
      | "pop", _ => some (.pop j.toNat)
      | "append", .str n => some (.append { name := n, type := .VARCHAR, elem := none, precision := none, scale := none, nullable := true })
      | _, _ => none
    e.map (fun e => .edit r.toNat e.apply)
  | _ => none

def decColSpec : PyVal → Option Col
  | .list [.str name, .str ty, el, p, s, .bool nullable] => do
    let t ← OrsoTy.ofName ty
    let e ← decOptTy el
    let p ← optNat p
    let s ← optNat s
    let ps := normalise t p s   -- FlatColumn.__init__
    pure { name := name, type := t, elem := e, precision := ps.1, scale := ps.2, nullable := nullable }
  | _ => none

def decToSite : String → Option Share.To.Site
  | "fields" => some .fields
  | "helper" => some .helper
  | "identities" => some .helper
  | "frame" => some .frame
  | _ => none

/-- a step of a `share` session towards Arrow -/
def decToStep : PyVal → Option Share.To.Step
  | .list [.str "conv", .str via, .int k] => if k < 0 then none else (decToSite via).map (fun s => .conv s k.toNat)
  | .list [.str "edit", .int k, .str what, .int j, value] =>
    if k < 0 ∨ j < 0 then none else
    let e : Option Share.Edit := match what, value with
      | "rename", .str n => some (.rename j.toNat n)
      | "nullable", .bool b => some (.nullable j.toNat b)
      | "type", .str t => (OrsoTy.ofName t).map (.type j.toNat)
      | "precision", v => (optNat v).map (.precision j.toNat)
      | "scale", v => (optNat v).map (.scale j.toNat)
      | "elem", v => (decOptTy v).map (.elem j.toNat)
      | "pop", _ => some (.pop j.toNat)
      | "append", .str n => some (.append { name := n, type := .VARCHAR, elem := none, precision := none, scale := none, nullable := true })
      | _, _ => none
    e.map (fun e => .edit k.toNat e.onCols)
  | _ => none

/-- what a conversion towards Arrow wrote, in the shape of `forths`: [field, the column it reads back as] per column -/
def encToOut : Option Share.To.Out → PyVal
  | some (.fields fs) => .list (fs.map (fun f => .list [encField f, match fromArrowField false f with
      | some c' => encCol c'
      | none => .list [.str "err", .str "ValueError"]]))
  | some (.names ns) => .list (ns.map (fun n => .list [.list [.str n, .list [.str "invalid"], .bool true], .none]))
  | none => .none

def encCols : Option (List Col) → PyVal
  | some cs => .list (cs.map encCol)
  | none => .list [.str "err", .str "ValueError"]

def handle (op : String) (args : List PyVal) : Option (List PyVal) :=
  match op, args with
  | "share", [.list steps] => do
    let ss ← steps.mapM decShareStep
    let st := Share.runGen ss
    pure [.list (st.seen.map encCols), .list (st.reads.map (fun v => match v with
      | some cs => encCols cs
      | none => .none))]
  | "shareto", [.list schemas, .list steps] => do
    let objs ← schemas.mapM (fun v => do
      let cols ← asList v
      cols.mapM decColSpec)
    let ss ← steps.mapM decToStep
    pure [.list ((Share.To.run Share.To.memoisedGen objs ss).map encToOut)]
  | "forthss", [.list schemas] => do
    let rs ← schemas.mapM (fun v => do
      let cols ← asList v
      let xs ← cols.mapM forthOne
      pure (PyVal.list xs))
    pure [.list rs]
  | "forths", [.list cols] => do
    let rs ← cols.mapM forthOne
    pure [.list rs]
  | "seq", [.list names, .str source, data, .list ops] => do
    let ns ← names.mapM asStr
    let f ← decodeFrame source data
    let os ← ops.mapM decodeOp
    let r := run ns f os
    pure [.list (r.1.map encOut), .list (r.2.listRows.map .list)]
  | "reuse", [.list tableSets, .list convs] => do
    -- several argument objects (lists of tables); each conversion names the one it converts
    let sets ← tableSets.mapM (fun v => do
      let ts ← asList v
      ts.mapM decodeTable)
    let cs ← convs.mapM (fun c => match c with
      | .list [.int w, sz, rd] => do
        let a ← optNat sz
        let b ← optNat rd
        if w < 0 then none else
        let ts ← sets[w.toNat]?
        pure (ts, a, b)
      | _ => none)
    pure [.list (cs.map (fun c => .list (readRows c.1 c.2.1 c.2.2)))]
  | "iterb", [.list tables, size, .int batch] => do
    let ts ← tables.mapM decodeTable
    let m ← optNat size
    if batch ≤ 0 then none
    else pure [.list (drain { tables := ts, current := [], processed := 0, maxSize := m, batch := batch.toNat })]
  | "iter", [.list tables, size, .str shape, .str kind] => do
    -- the size is an object of kind `kind`: the guard's (generated) type test decides whether it is seen at all
    let ts ← tables.mapM decodeTable
    let sz ← optNat size
    let x ← (match shape, ts with
      | "list", _ => some (Input.list ts)
      | "tuple", _ => some (Input.tuple ts)
      | "generator", _ => some (Input.generator ts)
      | "single", [t] => some (Input.single t)
      | _, _ => none)
    match fromArrowInputKind x kind sz with
    | some rows => pure [.list rows, .list (drainPinned (init ts (sizeSeen Gen.ArrowExpr.sizeKinds kind sz)))]
    | none => pure [.list [.str "raises"], .list [.str "raises"]]
  | "iter", [.list tables, size, .str shape] => do
    let ts ← tables.mapM decodeTable
    let sz ← optNat size
    let x ← (match shape, ts with
      | "list", _ => some (Input.list ts)
      | "tuple", _ => some (Input.tuple ts)
      | "generator", _ => some (Input.generator ts)
      | "single", [t] => some (Input.single t)
      | _, _ => none)
    match fromArrowInput x sz with
    | some rows => pure [.list rows, .list (drainPinned (init ts sz))]
    | none => pure [.list [.str "raises"], .list [.str "raises"]]
  | "iter", [.list tables, size] => do
    let ts ← tables.mapM decodeTable
    let sz ← optNat size
    pure [.list (fromArrowRows ts sz), .list (drainPinned (init ts sz))]
  | "roundtrip", [.list names, .list rows, size, .str kind] => do
    let ns ← names.mapM asStr
    let rs ← rows.mapM asList
    let sz ← optInt size
    let t := toArrowKind ns rs kind sz
    pure [.list (t.names.map .str), .int t.numRows, .list ((roundtripRowsKind ns rs kind sz).map .list)]
  | "roundtrip", [.list names, .list rows, size] => do
    let ns ← names.mapM asStr
    let rs ← rows.mapM asList
    let sz ← optInt size
    let t := toArrow ns rs sz
    pure [.list (t.names.map .str), .int t.numRows, .list ((roundtripRows ns rs sz).map .list)]
  | "forth", [.str name, .str ty, el, p, s, .bool nullable] => do
    let t ← OrsoTy.ofName ty
    let e ← decOptTy el
    let p ← optNat p
    let s ← optNat s
    let ps := normalise t p s
    let c : Col := { name := name, type := t, elem := e, precision := ps.1, scale := ps.2, nullable := nullable }
    let f := arrowField c
    pure [encField f, match fromArrowField false f with
      | some c' => encCol c'
      | none => .list [.str "err", .str "ValueError"]]
  | "back", [.str name, ty, .bool nullable, .bool mappable] => do
    let t ← decTy 8 ty
    pure [match fromArrowField mappable { name := name, type := t, nullable := nullable } with
      | some c => encCol c
      | none => .list [.str "err", .str "ValueError"]]
  | _, _ => none

end Drv.C11
