import OrsoVerif.Model.PyVal
import OrsoVerif.Model.Arrow
/-! Driver glue for C11: decode tables / columns / Arrow types, run the model, encode. -/
namespace Drv.C11
open Arrow

def asList : PyVal → Option (List PyVal)
  | .list xs => some xs
  | _ => none

def asStr : PyVal → Option String
  | .str s => some s
  | _ => none

def optNat : PyVal → Option (Option Nat)
  | .none => some none
  | .int k => if k ≥ 0 then some (some k.toNat) else none
  | _ => none

def optInt : PyVal → Option (Option Int)
  | .none => some none
  | .int k => some (some k)
  | _ => none

/-- a table: list of chunks, each a list of rows (a row stays an opaque value) -/
def decodeTable (v : PyVal) : Option (Table PyVal) := do
  let chunks ← asList v
  chunks.mapM asList

def encTy : ArrowTy → PyVal
  | .prim i => .list [.str "prim", .str i]
  | .decimal i p s => .list [.str "decimal", .str i, .int p, .int s]
  | .list i e => .list [.str "list", .str i, encTy e]
  | .invalid => .list [.str "invalid"]

def decTy : Nat → PyVal → Option ArrowTy
  | 0, _ => none
  | _ + 1, .list [.str "prim", .str i] => some (.prim i)
  | _ + 1, .list [.str "decimal", .str i, .int p, .int s] =>
    if p ≥ 0 ∧ s ≥ 0 then some (.decimal i p.toNat s.toNat) else none
  | f + 1, .list [.str "list", .str i, e] => (decTy f e).map (.list i)
  | _ + 1, _ => none

def encOptNat : Option Nat → PyVal
  | none => .none
  | some n => .int n

def encOptTy : Option OrsoTy → PyVal
  | none => .none
  | some t => .str t.name

def encCol (c : Col) : PyVal :=
  .list [.str c.name, .str c.type.name, encOptTy c.elem, encOptNat c.precision, encOptNat c.scale, .bool c.nullable]

def encField (f : ArrowField) : PyVal := .list [.str f.name, encTy f.type, .bool f.nullable]

def decOptTy : PyVal → Option (Option OrsoTy)
  | .none => some none
  | .str s => (OrsoTy.ofName s).map some
  | _ => none

def handle (op : String) (args : List PyVal) : Option (List PyVal) :=
  match op, args with
  | "iter", [.list tables, size] => do
    let ts ← tables.mapM decodeTable
    let sz ← optNat size
    pure [.list (fromArrowRows ts sz), .list (drainPinned (init ts sz))]
  | "roundtrip", [.list names, .list rows, size] => do
    let ns ← names.mapM asStr
    let rs ← rows.mapM asList
    let sz ← optInt size
    let t := toArrow ns rs sz
    pure [.list (t.names.map .str), .int t.numRows, .list ((roundtripRows ns rs sz).map .list)]
  | "forth", [.str name, .str ty, el, p, s, .bool nullable] => do
    let t ← OrsoTy.ofName ty
    let e ← decOptTy el
    let p ← optNat p
    let s ← optNat s
    let ps := normalise t p s
    let c : Col := { name := name, type := t, elem := e, precision := ps.1, scale := ps.2, nullable := nullable }
    let f := arrowField c
    pure [encField f, match fromArrowField false f with
      | some c' => encCol c'
      | none => .list [.str "err", .str "ValueError"]]
  | "back", [.str name, ty, .bool nullable, .bool mappable] => do
    let t ← decTy 8 ty
    pure [match fromArrowField mappable { name := name, type := t, nullable := nullable } with
      | some c => encCol c
      | none => .list [.str "err", .str "ValueError"]]
  | _, _ => none

end Drv.C11
