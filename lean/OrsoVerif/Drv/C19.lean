import OrsoVerif.Model.PyVal
import OrsoVerif.Model.Cache
import OrsoVerif.Model.CacheGen
/-! Driver glue for C19: sequential histories and scheduled concurrent runs of both caches. -/
namespace Drv.C19
open Cache

def optInt : PyVal → Option (Option Int)
  | .none => some none
  | .int v => some (some v)
  | _ => none

def decodeCosts : List PyVal → Option (List (PyVal × Int))
  | [] => some []
  | .list [k, .int d] :: rest => do
    let r ← decodeCosts rest
    pure ((k, d) :: r)
  | _ => none

def costOf (tbl : List (PyVal × Int)) (k : PyVal) : Int :=
  match tbl.find? (fun p => p.1 = k) with
  | some p => p.2
  | none => 0

def decodeOp : PyVal → Option (Op PyVal)
  | .list [.str "call", k] => some (.call k)
  | .list [.str "adv", .int d] => some (.advance d)
  | _ => none

def encEv (e : Ev PyVal) : PyVal := .list [.int e.ret, .bool e.invoked, .int e.now]

/-- the generated wrappers are run with a constant hash: the theorems hold for ANY hash function -/
instance : Hashable PyVal := ⟨fun _ => 0⟩

def encGEv (e : GEv (PyVal × PyVal)) : PyVal :=
  .list [match e.ret with | some r => .int r | none => .none, .int e.now]

def splitKey : PyVal → PyVal × PyVal
  | .list [a, b] => (a, b)
  | v => (v, .none)

def splitOp : Op PyVal → Op (PyVal × PyVal)
  | .call k => .call (splitKey k)
  | .advance d => .advance d

def encLog (l : List (PyVal × Int)) : PyVal := .list (l.map fun p => .list [p.1, .int p.2])

def decodeStep : PyVal → Option SStep
  | .int i => if i ≥ 0 then some (.run i.toNat) else none
  | .list [.int d] => some (.tick d)
  | .list [.str "f", .int i] => if i ≥ 0 then some (.finish i.toNat) else none
  | _ => none

def decodePair : PyVal → Option (PyVal × PyVal)
  | .list [a, b] => some (a, b)
  | _ => none

def program : String → Option Program
  | "extracted" => some extractedProgram
  | "repaired" => some repairedProgram
  | "pinned" => some pinnedProgram
  | _ => none

/-- run a schedule step by step, recording for every `run i` the line index thread `i` executes -/
def runTraceS (P : Program) (valid : Option Int) (cost : PyVal × PyVal → Int) :
    Conc PyVal PyVal → List SStep → Option (Conc PyVal PyVal × List PyVal)
  | c, [] => some (c, [])
  | c, s :: ss =>
    let tr : PyVal := match s with
      | .run i => match c.thr[i]? with
        | some t => .int t.pc
        | none => .none
      | _ => .none
    match Conc.step P valid cost c s with
    | none => none
    | some c' =>
      match runTraceS P valid cost c' ss with
      | none => none
      | some (c'', trs) => some (c'', tr :: trs)

def pcKind : LPc PyVal → String
  | .clk => "clk" | .iterFirst => "iter" | .iterNext _ _ _ => "iter" | .del _ => "del"
  | .inCheck => "in" | .move => "move" | .get => "get" | .call => "call" | .store => "store"
  | .len => "len" | .pop => "pop" | .cleanup _ => "iter"
  | .acq1 => "lock1" | .rel1Hit _ => "lock1" | .rel1Miss => "lock1" | .relErr _ => "lock1"
  | .acq2 => "lock2" | .rel2 => "lock2"

def runTraceL (maxSize : Nat) (valid : Option Int) (cost : PyVal → Int) :
    LConc PyVal → List SStep → Option (LConc PyVal × List PyVal)
  | c, [] => some (c, [])
  | c, s :: ss =>
    let tr : PyVal := match s with
      | .run i => match c.thr[i]? with
        | some t => .str (pcKind t.pc)
        | none => .none
      | _ => .none
    match LConc.step maxSize valid cost c s with
    | none => none
    | some c' =>
      match runTraceL maxSize valid cost c' ss with
      | none => none
      | some (c'', trs) => some (c'', tr :: trs)

def encOutS : Option (Option Nat) → PyVal
  | none => .none
  | some none => .list [.str "none"]
  | some (some v) => .list [.str "ok", .int v]

def encOutL : Option Outcome → PyVal
  | none => .none
  | some (.ok v) => .list [.str "ok", .int v]
  | some (.err c) => .list [.str "err", .str c]

def handle (op : String) (args : List PyVal) : Option (List PyVal) :=
  match op, args with
  | "seq", [.str kind, valid, .int maxSize, .int t0, .list costs, .list ops] => do
    let valid ← optInt valid
    let costs ← decodeCosts costs
    let ops ← ops.mapM decodeOp
    if maxSize < 0 then none
    match kind with
    | "single" =>
      let r := singleRun valid (costOf costs) (SState.init t0) ops
      let g := gSingleRun (fun k => costOf costs (.list [k.1, k.2])) valid Gen.CacheFns.single_init { now := t0, log := [] } (ops.map splitOp)
      pure [.list (r.2.map encEv), encLog r.1.log, .list (r.2.map encEv), .list (g.2.map encGEv)]
    | "lru" =>
      let r := lruRun maxSize.toNat valid (costOf costs) (LState.init t0) ops
      let sp := specRun maxSize.toNat valid (costOf costs) (LState.init t0) ops
      let g := gLruRun (fun k => costOf costs (.list [k.1, k.2])) maxSize.toNat valid Gen.CacheFns.lru_init { now := t0, log := [] } (ops.map splitOp)
      pure [.list (r.2.map encEv), encLog r.1.log, .list (sp.2.map encEv), .list (g.2.map encGEv)]
    | _ => none
  | "conc", [.str kind, .str prog, valid, .int maxSize, .int t0, .list costs, .list keys, .list sched] => do
    let valid ← optInt valid
    let costs ← decodeCosts costs
    let sched ← sched.mapM decodeStep
    if maxSize < 0 then none
    match kind with
    | "single" =>
      let P ← program prog
      let keys ← keys.mapM decodePair
      let cost : PyVal × PyVal → Int := fun k => costOf costs (.list [k.1, k.2])
      match runTraceS P valid cost (Conc.init t0 keys) sched with
      | none => pure [.str "bad-schedule"]
      | some (c, tr) =>
        pure [.str "ok", .list (c.thr.map fun t => encOutS t.out), .list tr,
              .list (c.w.log.map fun p => .list [.list [p.1.1, p.1.2], .int p.2])]
    | "lru" =>
      match runTraceL maxSize.toNat valid (costOf costs) (LConc.init t0 keys) sched with
      | none => pure [.str "bad-schedule"]
      | some (c, tr) =>
        pure [.str "ok", .list (c.thr.map fun t => encOutL t.out), .list tr, encLog c.w.log]
    | _ => none
  | _, _ => none

end Drv.C19
