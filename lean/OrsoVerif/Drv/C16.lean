import OrsoVerif.Model.PyVal
import OrsoVerif.Model.Persist
import OrsoVerif.Model.PersistPy
/-! Driver glue for C16.  A column travels as a dictionary of its attributes; keyword arguments as a
dictionary in which a key may be absent, with types / dispositions tagged `["member", x]` / `["text", x]`
(the int 0 as itself). -/
namespace Drv.C16
open Persist Persist.Py

def chars (s : TypeName.Str) : PyVal := .str (String.ofList s)

def encTy : TypeName.Ty → PyVal
  | .member m => chars m
  | .zero => .int 0

def encOpt {α : Type} (f : α → PyVal) : Option α → PyVal
  | none => .none
  | some a => f a

def encNat (n : Nat) : PyVal := .int n
def encStrs (l : List String) : PyVal := .list (l.map .str)

def encCol (c : Col PyVal) : PyVal :=
  .dict [("name", .str c.name), ("default", c.default), ("type", encTy c.type),
    ("element_type", encOpt encTy c.element_type), ("description", encOpt .str c.description),
    ("disposition", encOpt .str c.disposition), ("aliases", encOpt encStrs c.aliases),
    ("nullable", .bool c.nullable), ("expectations", .list c.expectations), ("identity", .str c.identity),
    ("length", encOpt encNat c.length), ("precision", encOpt encNat c.precision), ("scale", encOpt encNat c.scale),
    ("origin", encStrs c.origin), ("highest_value", c.highest_value), ("lowest_value", c.lowest_value),
    ("null_count", encOpt encNat c.null_count)]

def encErr : Err → PyVal
  | .value => .list [.str "err", .str "ValueError"]
  | .type => .list [.str "err", .str "TypeError"]
  | .columnDefinition => .list [.str "err", .str "ColumnDefinitionError"]
  | .key => .list [.str "err", .str "KeyError"]
  | .other n => .list [.str "err", chars n]

def encRes : Except Err (Col PyVal) → PyVal
  | .ok c => .list [.str "ok", encCol c]
  | .error e => encErr e

/-! decoding -/

def decStrs : List PyVal → Option (List String)
  | [] => some []
  | .str s :: r => (decStrs r).map (s :: ·)
  | _ :: _ => none

def decOptStr : PyVal → Option (Option String)
  | .none => some none
  | .str s => some (some s)
  | _ => none

def decOptNat : PyVal → Option (Option Nat)
  | .none => some none
  | .int i => if i ≥ 0 then some (some i.toNat) else none
  | _ => none

def decOptStrs : PyVal → Option (Option (List String))
  | .none => some none
  | .list xs => (decStrs xs).map some
  | _ => none

def decTy : PyVal → Option TypeName.Ty
  | .str m => some (.member m.toList)
  | .int 0 => some .zero
  | _ => none

def decOptTy : PyVal → Option (Option TypeName.Ty)
  | .none => some none
  | v => (decTy v).map some

def decRawTy : PyVal → Option RawTy
  | .list [.str "member", .str m] => some (.member m.toList)
  | .list [.str "text", .str s] => some (.text s.toList)
  | .int 0 => some .zero
  | _ => none

def decOptRawTy : PyVal → Option (Option RawTy)
  | .none => some none
  | v => (decRawTy v).map some

def decOptRawDisp : PyVal → Option (Option RawDisp)
  | .none => some none
  | .list [.str "member", .str n] => some (some (.member n))
  | .list [.str "text", .str s] => some (some (.text s))
  | _ => none

def decBool : PyVal → Option Bool
  | .bool b => some b
  | _ => none

def decStr : PyVal → Option String
  | .str s => some s
  | _ => none

def decList : PyVal → Option (List PyVal)
  | .list xs => some xs
  | _ => none

def decStrList : PyVal → Option (List String)
  | .list xs => decStrs xs
  | _ => none

/-- a keyword: absent → `some none`, present and well-formed → `some (some x)`, present and malformed → `none` -/
def kw {α : Type} (kvs : List (String × PyVal)) (k : String) (dec : PyVal → Option α) : Option (Option α) :=
  match lookupKey k kvs with
  | none => some none
  | some v => (dec v).map some

def knownKeys : List String :=
  ["name", "default", "type", "element_type", "description", "disposition", "aliases", "nullable", "expectations",
   "identity", "length", "precision", "scale", "origin", "highest_value", "lowest_value", "null_count"]

def decRaw (kvs : List (String × PyVal)) : Option (Raw PyVal) := do
  if !(kvs.all fun p => knownKeys.contains p.1) then none
  let name ← kw kvs "name" decStr
  let default ← kw kvs "default" some
  let type ← kw kvs "type" decRawTy
  let element_type ← kw kvs "element_type" decOptRawTy
  let description ← kw kvs "description" decOptStr
  let disposition ← kw kvs "disposition" decOptRawDisp
  let aliases ← kw kvs "aliases" decOptStrs
  let nullable ← kw kvs "nullable" decBool
  let expectations ← kw kvs "expectations" decList
  let identity ← kw kvs "identity" decStr
  let length ← kw kvs "length" decOptNat
  let precision ← kw kvs "precision" decOptNat
  let scale ← kw kvs "scale" decOptNat
  let origin ← kw kvs "origin" decStrList
  let highest_value ← kw kvs "highest_value" some
  let lowest_value ← kw kvs "lowest_value" some
  let null_count ← kw kvs "null_count" decOptNat
  pure { name, default, type, element_type, description, disposition, aliases, nullable, expectations, identity,
         length, precision, scale, origin, highest_value, lowest_value, null_count }

def req {α : Type} (kvs : List (String × PyVal)) (k : String) (dec : PyVal → Option α) : Option α :=
  (lookupKey k kvs).bind dec

def decCol (v : PyVal) : Option (Col PyVal) :=
  match v with
  | .dict kvs => do
    if kvs.length ≠ knownKeys.length then none
    let name ← req kvs "name" decStr
    let default ← req kvs "default" some
    let type ← req kvs "type" decTy
    let element_type ← req kvs "element_type" decOptTy
    let description ← req kvs "description" decOptStr
    let disposition ← req kvs "disposition" decOptStr
    let aliases ← req kvs "aliases" decOptStrs
    let nullable ← req kvs "nullable" decBool
    let expectations ← req kvs "expectations" decList
    let identity ← req kvs "identity" decStr
    let length ← req kvs "length" decOptNat
    let precision ← req kvs "precision" decOptNat
    let scale ← req kvs "scale" decOptNat
    let origin ← req kvs "origin" decStrList
    let highest_value ← req kvs "highest_value" some
    let lowest_value ← req kvs "lowest_value" some
    let null_count ← req kvs "null_count" decOptNat
    pure { name, default, type, element_type, description, disposition, aliases, nullable, expectations, identity,
           length, precision, scale, origin, highest_value, lowest_value, null_count }
  | _ => none

def encDescribe (d : Option (String × TypeName.Str × Option Nat × Option Nat × Bool)) : PyVal :=
  match d with
  | none => .none
  | some (n, code, p, s, nl) => .list [.str n, chars code, encOpt encNat p, encOpt encNat s, .bool nl]

def encVCol (c : Validate.Column) : PyVal := .list [.str c.name, encOpt .str c.type, .bool c.nullable]

def pairs (l : List (String × String)) : PyVal := .list (l.map fun p => .list [.str p.1, .str p.2])

def handle (op : String) (args : List PyVal) : Option (List PyVal) :=
  match op, args with
  | "init", [.dict kvs, .str fresh] => do
    let r ← decRaw kvs
    pure [encRes (init caster fresh r)]
  | "flat", [c, .str fresh] => do
    let c ← decCol c
    pure [encRes (toFlat caster fresh c)]
  | "json", [c, .str fresh] => do
    let c ← decCol c
    pure [encRes (jsonRoundTrip caster fresh c)]
  | "dict", [.str name, .list aliases, pk, .list cols, .str fresh] => do
    -- from_dict(to_dict(s)): the restored schema, what validate reads of it, and its description
    let aliases ← decStrs aliases
    let pk ← decOptStr pk
    let cols ← cols.mapM decCol
    let s : Schema PyVal := ⟨name, aliases, cols, pk⟩
    match fromDict caster fresh (toDict s) with
    | .error e => pure [encErr e]
    | .ok s' =>
      pure [.list [.str "ok", .str s'.name, encStrs s'.aliases, encOpt .str s'.primary_key, .list (s'.columns.map encCol)],
            .list ((vcols s').map encVCol), .list ((describe s').map encDescribe)]
  | "describe", [.list cols] => do
    let cols ← cols.mapM decCol
    pure [.list (cols.map fun c => encDescribe (describeCol c)), .list (cols.map fun c => encVCol (vcol c))]
  | "tables", [] =>
    some [encStrs Gen.Persist.columnFields, encStrs Gen.Persist.schemaFields, pairs Gen.Persist.flatKwargs,
          pairs Gen.Persist.fromDictRestores, pairs Gen.Persist.dispositions,
          .bool Gen.Persist.toDictAsdict, .bool Gen.Persist.toJsonAsdict,
          .list (Gen.Persist.fromDictRules.map fun r =>
            .list [.list (r.1.map fun c => .list [.str c.1, .str c.2.1, .str c.2.2]), .str r.2.1, .str r.2.2]),
          .list (Gen.Persist.initFills.map fun f => .list [.str f.1, .str f.2.1, .str f.2.2]),
          pairs Gen.Persist.decimalFills, .str Gen.Persist.enumWrittenAs, .str Gen.Persist.columnLoader,
          .str Gen.Persist.jsonLoader]
  | _, _ => none

end Drv.C16
