import OrsoVerif.Model.PyVal
import OrsoVerif.Model.Validate
import OrsoVerif.Model.Family
import OrsoVerif.Model.RowClass
import OrsoVerif.Model.Layout
/-! Driver glue for C05. -/
namespace Drv.C05
open Validate

def decodeStrs : List PyVal → Option (List String)
  | [] => some []
  | .str s :: rest => (decodeStrs rest).map (s :: ·)
  | _ => none

def decodeCol : PyVal → Option Column
  | .list [.str n, .none, .bool nl] => some ⟨n, none, nl, []⟩
  | .list [.str n, .str t, .bool nl] => some ⟨n, some t, nl, []⟩
  | .list [.str n, .none, .bool nl, .list al] => (decodeStrs al).map fun a => ⟨n, none, nl, a⟩
  | .list [.str n, .str t, .bool nl, .list al] => (decodeStrs al).map fun a => ⟨n, some t, nl, a⟩
  | _ => none

def decodeVal : PyVal → Option Value
  | .none => some none
  | .str c => some (some c)
  | _ => none

def decodeRecord (kvs : List (String × PyVal)) : Option Record :=
  kvs.mapM fun (k, v) => (decodeVal v).map fun x => (k, x)

/-- can the row be sized: a Boolean measured by the harness, or `[packable, packed length]` — then the model decides with the
source's constant and guard (`Layout.sizableBy`) -/
def decodeZ : PyVal → Option Bool
  | .bool z => some z
  | .list [.bool p, .int n] => if n < 0 then none else some (Layout.sizableBy p n.toNat)
  | _ => none

/-- a record to append: a dict (its row can be sized) or `[dict, sizable]` -/
def decodeAppend : PyVal → Option (Record × Bool)
  | .dict kvs => (decodeRecord kvs).map fun r => (r, true)
  | .list [.dict kvs, zv] => do
    let r ← decodeRecord kvs
    let z ← decodeZ zv
    pure (r, z)
  | _ => none

def decodeKind : PyVal → Option Kind
  | .list [.bool d, .bool e, .bool m, .bool p] => some ⟨d, e, m, p⟩
  | _ => none

/-- a record object to append: `[dict, sizable, [isinstance dict, exact dict, MutableMapping, Mapping]]` (a plain dict when the facts are left out) -/
def decodeAppendK : PyVal → Option (Kind × Record × Bool)
  | .list [.dict kvs, zv, k] => do
    let r ← decodeRecord kvs
    let z ← decodeZ zv
    let k ← decodeKind k
    pure (k, r, z)
  | v => (decodeAppend v).map fun p => (Kind.dict, p.1, p.2)

def decodeNats : List PyVal → Option (List Nat)
  | [] => some []
  | .int i :: rest => if i < 0 then none else (decodeNats rest).map (i.toNat :: ·)
  | _ => none

def decodeFOp : PyVal → Option Family.FOp
  | .list [.str "append", .int i, .dict kvs, .bool z, k] => do
    let r ← decodeRecord kvs
    let k ← decodeKind k
    pure (.append i.toNat k r z)
  | .list [.str "slice", .int i, .int o, .none] => some (.derive i.toNat (.slice o none))
  | .list [.str "slice", .int i, .int o, .int l] => some (.derive i.toNat (.slice o (some l)))
  | .list [.str "head", .int i, .int n] => some (.derive i.toNat (.head n))
  | .list [.str "tail", .int i, .int n] => some (.derive i.toNat (.tail n))
  | .list [.str "pick", .int i, .str m, .list idxs] => (decodeNats idxs).map fun l => .derive i.toNat (.pick m l)
  | .list [.str "concat", .int i, .int j] => some (.derive i.toNat (.concat j.toNat))
  | _ => none

def decodeWho : PyVal → Option RowClass.Who
  | .str "reader" => some .reader
  | .str "frame" => some .frame
  | .bool b => some (.direct b)
  | _ => none

/-- an operation of a process: another feature asking for a row class, the (root) frame being created, or a family operation -/
def decodePOp (rows : List (List Value)) : PyVal → Option RowClass.POp
  | .list [.str "feature", .list ns, w] => do
    let ns ← decodeStrs ns
    let w ← decodeWho w
    pure (.feature ns w)
  | .list [.str "frame", .bool arrow] => some (.frame arrow rows)
  | v => (decodeFOp v).map .fop

def decodeRows (rows : List PyVal) : Option (List (List Value)) :=
  rows.mapM fun r => match r with
    | .list xs => xs.mapM decodeVal
    | _ => none

def encodeVal : Value → PyVal
  | none => .none
  | some c => .str c

def strs (l : List String) : PyVal := .list (l.map .str)

def encodeOutcome : Outcome → PyVal
  | .ok => .list [.str "ok"]
  | .excess ks => .list [.str "excess", strs ks]
  | .invalid m n w => .list [.str "invalid", strs m, strs n, strs w]
  | .other => .list [.str "other"]

def encodeResult : AppendResult → PyVal
  | .ok => .list [.str "ok"]
  | .rejected o => .list [.str "rejected", encodeOutcome o]
  | .unsizable => .list [.str "unsizable"]
  | .malformed => .list [.str "malformed"]

def encodeRows (rows : List (List Value)) : PyVal := .list (rows.map fun r => .list (r.map encodeVal))

def decodeOp : PyVal → Option Op
  | .list [.str "validate", .dict kvs] => (decodeRecord kvs).map .validate
  | .list [.str "add", c] => (decodeCol c).map .addCol
  | .list [.str "insert", .int i, c] => (decodeCol c).map (.insertCol i.toNat)
  | .list [.str "del", .int i] => some (.delCol i.toNat)
  | .list [.str "pop", .str n] => some (.popCol n)
  | .list [.str "replace", .list cs] => (cs.mapM decodeCol).map .replaceCols
  | .list [.str "set", .int i, c] => (decodeCol c).map (.setCol i.toNat)
  | .list [.str "frame", .list rows, .list recs] => do
    let rows ← decodeRows rows
    let recs ← recs.mapM decodeAppend
    pure (.frame rows recs)
  | _ => none

def encodeOut : Out → PyVal
  | .outcome o => .list [.str "outcome", encodeOutcome o]
  | .frame rows results => .list [.str "frame", encodeRows rows, .list (results.map encodeResult)]

/-- an operation on frames bound to one schema object that its owner edits -/
def decodeBOp : PyVal → Option Layout.BOp
  | .list [.str "edit", o] => (decodeOp o).map .edit
  | .list [.str "bind", .list rows] => (decodeRows rows).map .bind
  | .list [.str "read", .int i] => if i < 0 then none else some (.read i.toNat)
  | .list [.str "append", .int i, .dict kvs, zv, k] => do
    let r ← decodeRecord kvs
    let z ← decodeZ zv
    let k ← decodeKind k
    if i < 0 then none else pure (.append i.toNat k r z)
  | _ => none

def handle (op : String) (args : List PyVal) : Option (List PyVal) :=
  match op, args with
  | "validate", [.list cols, .dict r] => do
    let s ← cols.mapM decodeCol
    let r ← decodeRecord r
    pure [encodeOutcome (validate s r)]
  | "validatek", [.list cols, .dict r, k] => do
    let s ← cols.mapM decodeCol
    let r ← decodeRecord r
    let k ← decodeKind k
    pure [encodeOutcome (validateKE k s r)]
  | "appends", [.list cols, .list rows, .list recs] => do
    let s ← cols.mapM decodeCol
    let rows ← decodeRows rows
    let recs ← recs.mapM decodeAppendK
    pure [encodeRows (appendsK s rows recs), .list (recs.map fun p => encodeOutcome (validateK p.1 s p.2.1)),
          .list ((appendResultsK s rows recs).map encodeResult)]
  | "family", [.list cols, .list rows, .list ops] => do
    let s ← cols.mapM decodeCol
    let rows ← decodeRows rows
    let ops ← ops.mapM decodeFOp
    let st0 : Family.St := ⟨[rows], [0]⟩
    pure [.list ((Family.runH s st0 ops).view.map encodeRows), .list ((Family.resultsH s st0 ops).map encodeResult),
          .list ((Family.runR s [rows] ops).map encodeRows)]
  | "dictframe", [.list keys, .list rows, .list recs] => do
    let keys ← decodeStrs keys
    let rows ← decodeRows rows
    let recs ← recs.mapM decodeAppendK
    pure [encodeRows (RowClass.appendsD keys rows recs), .list ((RowClass.appendResultsD keys rows recs).map encodeResult)]
  | "process", [.list cols, .list rows, .list ops] => do
    let s ← cols.mapM decodeCol
    let rows ← decodeRows rows
    let ops ← ops.mapM (decodePOp rows)
    let st0 : RowClass.PSt := ⟨[], []⟩
    pure [.list ((RowClass.runP RowClass.genCfg s st0 ops).regs.map encodeRows),
          .list ((RowClass.resultsP RowClass.genCfg s st0 ops).map encodeResult)]
  | "bound", [.list cols, .list ops] => do
    let s ← cols.mapM decodeCol
    let ops ← ops.mapM decodeBOp
    let st0 : Layout.BSt := ⟨s, [], none⟩
    let fin := Layout.runB Layout.genL st0 ops
    pure [.list (fin.regs.map encodeRows), .list ((Layout.resultsB Layout.genL st0 ops).map encodeResult),
          .list (fin.cols.map fun c => .str c.name), .list ((Layout.runBR (s, []) ops).2.map encodeRows)]
  | "session", [.list cols, .list ops] => do
    let s ← cols.mapM decodeCol
    let ops ← ops.mapM decodeOp
    pure [.list ((run s ops).map encodeOut), .list ((exec s ops).map fun c => .str c.name)]
  | _, _ => none

end Drv.C05
