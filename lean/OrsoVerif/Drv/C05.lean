import OrsoVerif.Model.PyVal
import OrsoVerif.Model.Validate
/-! Driver glue for C05. -/
namespace Drv.C05
open Validate

def decodeStrs : List PyVal → Option (List String)
  | [] => some []
  | .str s :: rest => (decodeStrs rest).map (s :: ·)
  | _ => none

def decodeCol : PyVal → Option Column
  | .list [.str n, .none, .bool nl] => some ⟨n, none, nl, []⟩
  | .list [.str n, .str t, .bool nl] => some ⟨n, some t, nl, []⟩
  | .list [.str n, .none, .bool nl, .list al] => (decodeStrs al).map fun a => ⟨n, none, nl, a⟩
  | .list [.str n, .str t, .bool nl, .list al] => (decodeStrs al).map fun a => ⟨n, some t, nl, a⟩
  | _ => none

def decodeVal : PyVal → Option Value
  | .none => some none
  | .str c => some (some c)
  | _ => none

def decodeRecord (kvs : List (String × PyVal)) : Option Record :=
  kvs.mapM fun (k, v) => (decodeVal v).map fun x => (k, x)

/-- a record to append: a dict (its row can be sized) or `[dict, sizable]` -/
def decodeAppend : PyVal → Option (Record × Bool)
  | .dict kvs => (decodeRecord kvs).map fun r => (r, true)
  | .list [.dict kvs, .bool z] => (decodeRecord kvs).map fun r => (r, z)
  | _ => none

def decodeRows (rows : List PyVal) : Option (List (List Value)) :=
  rows.mapM fun r => match r with
    | .list xs => xs.mapM decodeVal
    | _ => none

def encodeVal : Value → PyVal
  | none => .none
  | some c => .str c

def strs (l : List String) : PyVal := .list (l.map .str)

def encodeOutcome : Outcome → PyVal
  | .ok => .list [.str "ok"]
  | .excess ks => .list [.str "excess", strs ks]
  | .invalid m n w => .list [.str "invalid", strs m, strs n, strs w]
  | .other => .list [.str "other"]

def encodeResult : AppendResult → PyVal
  | .ok => .list [.str "ok"]
  | .rejected o => .list [.str "rejected", encodeOutcome o]
  | .unsizable => .list [.str "unsizable"]
  | .malformed => .list [.str "malformed"]

def encodeRows (rows : List (List Value)) : PyVal := .list (rows.map fun r => .list (r.map encodeVal))

def decodeOp : PyVal → Option Op
  | .list [.str "validate", .dict kvs] => (decodeRecord kvs).map .validate
  | .list [.str "add", c] => (decodeCol c).map .addCol
  | .list [.str "insert", .int i, c] => (decodeCol c).map (.insertCol i.toNat)
  | .list [.str "del", .int i] => some (.delCol i.toNat)
  | .list [.str "pop", .str n] => some (.popCol n)
  | .list [.str "replace", .list cs] => (cs.mapM decodeCol).map .replaceCols
  | .list [.str "set", .int i, c] => (decodeCol c).map (.setCol i.toNat)
  | .list [.str "frame", .list rows, .list recs] => do
    let rows ← decodeRows rows
    let recs ← recs.mapM decodeAppend
    pure (.frame rows recs)
  | _ => none

def encodeOut : Out → PyVal
  | .outcome o => .list [.str "outcome", encodeOutcome o]
  | .frame rows results => .list [.str "frame", encodeRows rows, .list (results.map encodeResult)]

def handle (op : String) (args : List PyVal) : Option (List PyVal) :=
  match op, args with
  | "validate", [.list cols, .dict r] => do
    let s ← cols.mapM decodeCol
    let r ← decodeRecord r
    pure [encodeOutcome (validate s r)]
  | "appends", [.list cols, .list rows, .list recs] => do
    let s ← cols.mapM decodeCol
    let rows ← decodeRows rows
    let recs ← recs.mapM decodeAppend
    pure [encodeRows (appends s rows recs), .list (recs.map fun p => encodeOutcome (validate s p.1)),
          .list ((appendResults s rows recs).map encodeResult)]
  | "session", [.list cols, .list ops] => do
    let s ← cols.mapM decodeCol
    let ops ← ops.mapM decodeOp
    pure [.list ((run s ops).map encodeOut), .list ((exec s ops).map fun c => .str c.name)]
  | _, _ => none

end Drv.C05
