import OrsoVerif.Model.PyVal
import OrsoVerif.Model.Validate
/-! Driver glue for C05. -/
namespace Drv.C05
open Validate

def decodeCol : PyVal → Option Column
  | .list [.str n, .none, .bool nl] => some ⟨n, none, nl⟩
  | .list [.str n, .str t, .bool nl] => some ⟨n, some t, nl⟩
  | _ => none

def decodeVal : PyVal → Option Value
  | .none => some none
  | .str c => some (some c)
  | _ => none

def decodeRecord (kvs : List (String × PyVal)) : Option Record :=
  kvs.mapM fun (k, v) => (decodeVal v).map fun x => (k, x)

def encodeVal : Value → PyVal
  | none => .none
  | some c => .str c

def strs (l : List String) : PyVal := .list (l.map .str)

def encodeOutcome : Outcome → PyVal
  | .ok => .list [.str "ok"]
  | .excess ks => .list [.str "excess", strs ks]
  | .invalid m n w => .list [.str "invalid", strs m, strs n, strs w]

def handle (op : String) (args : List PyVal) : Option (List PyVal) :=
  match op, args with
  | "validate", [.list cols, .dict r] => do
    let s ← cols.mapM decodeCol
    let r ← decodeRecord r
    pure [encodeOutcome (validate s r)]
  | "appends", [.list cols, .list rows, .list recs] => do
    let s ← cols.mapM decodeCol
    let rows ← rows.mapM fun r => match r with
      | .list xs => xs.mapM decodeVal
      | _ => none
    let recs ← recs.mapM fun r => match r with
      | .dict kvs => decodeRecord kvs
      | _ => none
    let out := appends s rows recs
    pure [.list (out.map fun r => .list (r.map encodeVal)), .list (recs.map fun r => encodeOutcome (validate s r))]
  | _, _ => none

end Drv.C05
