import OrsoVerif.Model.PyVal
import OrsoVerif.Model.Distogram
/-! Driver glue for C13: run a program over histogram registers on the faithful machine and on
the reference machine, in `Float` (mode "f") or in exact `Rat` arithmetic (mode "q"). -/
namespace Drv.C13
open Distogram

structure Codec (K : Type) where
  dec : PyVal → Option K
  enc : K → PyVal

def floatCodec : Codec Float where
  dec
    | .float b => some (Float.ofBits b)
    | .int i => some (Float.ofInt i)
    | _ => none
  enc x := .float x.toBits

def ratCodec : Codec Rat where
  dec
    | .list [.int n, .int d] => if 0 < d then some (mkRat n d.toNat) else none
    | .int i => some (i : Rat)
    | _ => none
  enc x := .list [.int x.num, .int x.den]

section
variable {K : Type} [Add K] [Sub K] [Mul K] [Div K] [LT K] [LE K]
  [DecidableLT K] [DecidableLE K] [OfNat K 0] [OfNat K 1] [OfNat K 2]

/-- One register: the faithful state, the reference state, and whether a tie was seen. -/
structure Reg (K : Type) where
  f : Hist K
  r : RState K
  tie : Bool

def decPairs (c : Codec K) : List PyVal → Option (List (K × K))
  | [] => some []
  | .list [v, f] :: rest => do
    let v ← c.dec v
    let f ← c.dec f
    let tl ← decPairs c rest
    pure ((v, f) :: tl)
  | _ => none

def encBins (c : Codec K) (bins : List (K × K)) : PyVal :=
  .list (bins.map fun b => .list [c.enc b.1, c.enc b.2])

def encOpt (c : Codec K) : Option K → PyVal
  | none => .none
  | some x => c.enc x

def lookup (regs : List (Nat × Reg K)) (i : Nat) : Option (Reg K) :=
  (regs.find? (·.1 == i)).map (·.2)

def store (regs : List (Nat × Reg K)) (i : Nat) (r : Reg K) : List (Nat × Reg K) :=
  (i, r) :: regs.filter (·.1 != i)

def errOut (e : String) : PyVal := .list [.str "err", .str e]
def okOut : PyVal := .list [.str "ok"]

/-- Execute one operation; `none` = not understood. -/
def stepOp (c : Codec K) (regs : List (Nat × Reg K)) : PyVal → Option (List (Nat × Reg K) × PyVal)
  | .list [.str "new", .int r, .int cap] =>
    if r < 0 || cap < 0 then none else
    some (store regs r.toNat { f := Hist.init cap.toNat, r := RState.init cap.toNat, tie := false }, okOut)
  | .list [.str "upd", .int r, v, cnt] => do
    let g ← lookup regs r.toNat
    let v ← c.dec v
    let cnt ← c.dec cnt
    match update g.f v cnt with
    | .error e => pure (regs, errOut e)
    | .ok f =>
      let (rr, t) := refStep (g.r, g.tie) (v, cnt)
      pure (store regs r.toNat { f := f, r := rr, tie := t }, okOut)
  | .list [.str "add", .int a, .int b] => do
    let ga ← lookup regs a.toNat
    let gb ← lookup regs b.toNat
    match add ga.f gb.f with
    | .error e => pure (regs, errOut e)
    | .ok f =>
      let (m, t) := gb.r.bins.foldl refStep (ga.r, ga.tie || gb.tie)
      let rr : RState K := { m with min := optMin m.min gb.r.min, max := optMax m.max gb.r.max }
      pure (store regs a.toNat { f := f, r := rr, tie := t }, okOut)
  | .list [.str "merge", .int a, .int b] => do
    let ga ← lookup regs a.toNat
    let gb ← lookup regs b.toNat
    match merge ga.f gb.f.bins with
    | .error e => pure (regs, errOut e)
    | .ok f =>
      let (m, t) := gb.r.bins.foldl refStep (ga.r, ga.tie || gb.tie)
      pure (store regs a.toNat { f := f, r := m, tie := t }, okOut)
  | .list [.str "bulkp", .int r, .list pairs, lo, hi] => do
    let g ← lookup regs r.toNat
    let pairs ← decPairs c pairs
    let lo ← c.dec lo
    let hi ← c.dec hi
    match bulk g.f pairs lo hi with
    | .error e => pure (regs, errOut e)
    | .ok f =>
      let (m, t) := (pairs.filter (fun p => decide (0 < p.2))).foldl refStep (g.r, g.tie)
      let rr : RState K := { m with min := some (minO m.min lo), max := some (maxO m.max hi) }
      pure (store regs r.toNat { f := f, r := rr, tie := t }, okOut)
  | .list [.str "bulkh", .int r, .list edges, .list counts, lo, hi] => do
    let g ← lookup regs r.toNat
    let edges ← edges.mapM c.dec
    let counts ← counts.mapM c.dec
    let lo ← c.dec lo
    let hi ← c.dec hi
    if edges.length ≠ counts.length + 1 then none
    let pairs := (midpoints edges).zip counts
    match bulk g.f pairs lo hi with
    | .error e => pure (regs, errOut e)
    | .ok f =>
      let (m, t) := (pairs.filter (fun p => decide (0 < p.2))).foldl refStep (g.r, g.tie)
      let rr : RState K := { m with min := some (minO m.min lo), max := some (maxO m.max hi) }
      pure (store regs r.toNat { f := f, r := rr, tie := t }, okOut)
  | .list [.str "dl", .int r, .int s] => do
    let g ← lookup regs r.toNat
    -- `dump()` unpacks `zip(*self.bins)`: ValueError on an empty histogram (:69)
    if g.f.bins.isEmpty then pure (regs, errOut "ValueError") else
    pure (store regs s.toNat { f := load g.f.bins g.f.min g.f.max, r := dumpLoadRef g.r, tie := g.tie }, okOut)
  | .list [.str "rsync", .int r] => do
    -- after an episode of open finding K01 (loaded above the limit, exact-hit / in-place updates there) the
    -- harness judges the reference clause again *from the state reached*: the reference restarts from it
    let g ← lookup regs r.toNat
    pure (store regs r.toNat { f := g.f, r := g.f.toR, tie := false }, okOut)
  | .list [.str "snap", .int r] => do
    let g ← lookup regs r.toNat
    pure (regs, .list [.str "snap", encBins c g.f.bins, encOpt c g.f.min, encOpt c g.f.max,
                       encBins c g.r.bins, encOpt c g.r.min, encOpt c g.r.max, .bool g.tie,
                       .int g.f.cap])
  | _ => none

def runProg (c : Codec K) : List (Nat × Reg K) → List PyVal → Option (List PyVal)
  | _, [] => some []
  | regs, op :: ops => do
    let (regs', out) ← stepOp c regs op
    let rest ← runProg c regs' ops
    pure (out :: rest)

end

def handle (op : String) (args : List PyVal) : Option (List PyVal) :=
  match op, args with
  | "run", [.str "f", .list prog] => (runProg floatCodec [] prog).map fun o => [.list o]
  | "run", [.str "q", .list prog] => (runProg ratCodec [] prog).map fun o => [.list o]
  | _, _ => none

end Drv.C13
