import OrsoVerif.Model.PyVal
import OrsoVerif.Model.Encodings
/-! Driver glue for C09: decode a sequence (and default / map function), run the encodings of
`Model/Encodings.lean` instantiated at `PyVal` with Python's equality and numpy's sort order,
encode stored form and expansion. -/
namespace Drv.C09
open Enc

def nats (xs : List Nat) : PyVal := .list (xs.map fun n => .int (Int.ofNat n))

def kindOf (xs : List PyVal) : Option PyVal := (arrayDType xs).map fun t => .str t.kind

def err (name : String) : PyVal := .list [.str "err", .str name]

def upperChar (c : Char) : Char := if 'a' ≤ c ∧ c ≤ 'z' then Char.ofNat (c.toNat - 32) else c

/-- The element-wise functions the harness applies to the stored values; nulls are fixed. -/
def applyF (f : String) : PyVal → Option PyVal
  | .none => some .none
  | v =>
    match f, v with
    | "double", .int i => some (.int (2 * i))
    | "double", .float b => some (.float (Float.ofBits b * 2).toBits)
    | "upper", .str s => some (.str (String.ofList (s.toList.map upperChar)))
    | "not", .bool b => some (.bool !b)
    | "id", v => some v
    | _, _ => none

def isNull : PyVal → Bool
  | .none => true
  | _ => false

def optList : Option (List PyVal) → PyVal
  | some xs => .list xs
  | none => err "IndexError"

def optNat : PyVal → Option (Option Nat)
  | .none => some none
  | .int i => if i < 0 then none else some (some i.toNat)
  | _ => none

def natOpt : Option Nat → PyVal
  | none => .none
  | some n => .int (Int.ofNat n)

def kindName : PyVal → String
  | .none => "NoneType" | .bool _ => "bool" | .int _ => "int" | .float _ => "float" | .str _ => "str"
  | .bytes _ => "bytes" | .list _ => "list" | .dict _ => "dict"

/-- The bindings of the harness's family scope (`none`: not one of them / not applicable to the
configuration); `cell` reads the cell's value at the time of the expansion. -/
def fnBinding (name : String) (cell : PyVal) (cfg : List PyVal) : Option PyVal :=
  match name, cfg with
  | "count", _ => some (.int (Int.ofNat cfg.length))
  | "cell", _ => some cell
  | "kind", a :: _ => some (.str (kindName a))
  | "first", a :: _ => some a
  | "triple", .int i :: _ => some (.int (i * 3))
  | "triple", .bool b :: _ => some (.int (if b then 3 else 0))
  | "triple", .str s :: _ => some (.str (s ++ s ++ s))
  | "triple", .float b :: _ => some (.float (Float.ofBits b * 3).toBits)
  | _, _ => none

/-- one use of the history: `[binding name, [configuration...], length, cell]` -/
def fnUse : PyVal → Option (FnUse (List PyVal) PyVal)
  | .list [.str b, .list cfg, .int n, cell] =>
    if n < 0 then none
    else (fnBinding b cell cfg).map fun _ => ⟨fun c => (fnBinding b cell c).getD .none, cfg, n.toNat⟩
  | _ => none

/-- a run-length column over elements that are all of one dtype already -/
def doRle (xs : List PyVal) (k : PyVal) : List PyVal :=
  let e := rleEncode (pyEq i2fNative) xs
  [.list e.values, nats e.lengths, .list (rleDecode e), k]

def doDict (xs : List PyVal) (k : PyVal) : List PyVal :=
  -- numpy.unique sorts an object array with Python's `<`: any comparison with None raises
  if xs.any isNull && xs.length ≥ 2 then [err "TypeError"]
  else
    let e := dictEncode pyLe xs
    [.list e.values, nats e.codes, optList (dictDecode e), k]

def doSparse (xs : List PyVal) (d : PyVal) (vdt : DType) : Option (List PyVal) := do
  let e := sparseEncode (pyNe i2fNative) d xs
  let (rt, out) ← sparseMaterialize i2fNative d vdt e
  pure [nats e.indices, .list e.values, .int (Int.ofNat e.total), .str vdt.kind, .list out, .str rt.kind]

def handle (op : String) (args : List PyVal) : Option (List PyVal) :=
  match op, args with
  -- sequences mixing classes (`[2.0, 2]`, `[True, 1, 1.0]`).  `rle_mix`: the constructor sees the elements in
  -- their own classes (a list, an object array): runs under Python's `==`, then the run values are brought to
  -- one dtype (`numpy.array(run_values)`).  `*_cast`: the elements are brought to one dtype first
  -- (`numpy.asarray` / `numpy.array` over the input in the dictionary and sparse constructors; an array input)
  | "rle_mix", [.list xs] => do
    let e := rleEncode (pyEq i2fNative) xs
    let (rt, vs) ← unify i2fNative e.values
    let e' : RLE PyVal := ⟨vs, e.lengths⟩
    pure [.list vs, nats e.lengths, .list (rleDecode e'), .str rt.kind]
  | "rle_cast", [.list xs] => do
    let (rt, ys) ← unify i2fNative xs
    pure (doRle ys (.str rt.kind))
  | "dict_cast", [.list xs] => do
    let (rt, ys) ← unify i2fNative xs
    pure (doDict ys (.str rt.kind))
  | "sparse_cast", [.list xs, d] => do
    let (rt, ys) ← unify i2fNative xs
    doSparse ys d rt
  -- a history of expansions of function columns: every expansion is that use's own binding on that use's own
  -- configuration, repeated to that use's length (`Enc.familyExpand`; `C09.gen_function_family_independent`
  -- identifies it with the translated `FunctionColumn.materialize` run on every use)
  | "family", [.list us] => do
    let us ← us.mapM fnUse
    pure [.list ((familyExpand us).map .list)]
  -- the block of the shared constructor as translated from the source: keywords `length`, `precision`,
  -- `scale` (null = not given) against the parameters parsed from the type name -> the attributes afterwards
  | "ctor", [n, p, s, dn, dp, ds] => do
    let n ← optNat n
    let p ← optNat p
    let s ← optNat s
    let dn ← optNat dn
    let dp ← optNat dp
    let ds ← optNat ds
    let r ← Gen.Encodings.ctorResolve (none : Option Unit) p s n none dp ds dn
    pure [natOpt r.2.2.2, natOpt r.2.1, natOpt r.2.2.1]
  | "rle", [.list xs] => do
    let k ← kindOf xs
    let e := rleEncode (pyEq i2fNative) xs
    pure [.list e.values, nats e.lengths, .list (rleDecode e), k]
  | "rle_map", [.str f, .list xs] => do
    let _ ← kindOf xs
    let e := rleEncode (pyEq i2fNative) xs
    let vs ← e.values.mapM (applyF f)
    let e' : RLE PyVal := ⟨vs, e.lengths⟩
    let k ← kindOf vs
    pure [.list e'.values, .list (rleDecode e'), k]
  | "dict", [.list xs] => do
    let k ← kindOf xs
    -- numpy.unique sorts an object array with Python's `<`: any comparison with None raises
    if xs.any isNull && xs.length ≥ 2 then pure [err "TypeError"]
    else
      let e := dictEncode pyLe xs
      pure [.list e.values, nats e.codes, optList (dictDecode e), k]
  | "dict_map", [.str f, .list xs] => do
    let _ ← kindOf xs
    if xs.any isNull && xs.length ≥ 2 then pure [err "TypeError"]
    else
      let e := dictEncode pyLe xs
      let vs ← e.values.mapM (applyF f)
      let e' : Dict PyVal := ⟨vs, e.codes⟩
      let k ← kindOf vs
      pure [.list e'.values, optList (dictDecode e'), k]
  | "sparse", [.list xs, d] => do
    let vdt ← arrayDType xs
    let e := sparseEncode (pyNe i2fNative) d xs
    let (rt, out) ← sparseMaterialize i2fNative d vdt e
    pure [nats e.indices, .list e.values, .int (Int.ofNat e.total), .str vdt.kind, .list out, .str rt.kind]
  | "sparse_map", [.str f, .list xs, d] => do
    let vdt ← arrayDType xs
    let e := sparseEncode (pyNe i2fNative) d xs
    let vs ← e.values.mapM (applyF f)
    let (rt, out) ← sparseMaterialize i2fNative d vdt { e with values := vs }
    pure [.list vs, .list out, .str rt.kind]
  | "const", [v, .int n] => do
    if n < 0 then none
    let k ← kindOf [v]
    let e := constEncode v n.toNat
    pure [.list e.values, optList (constDecode e), k]
  | "const_map", [.str f, v, .int n] => do
    if n < 0 then none
    let e := constEncode v n.toNat
    let vs ← e.values.mapM (applyF f)
    let k ← kindOf vs
    pure [.list vs, optList (constDecode ⟨vs, e.length⟩), k]
  -- the dtype decision of SparseColumn.materialize as extracted from the source, over numpy's own
  -- promotion table: dtype names of the stored values and of the default -> name of the result dtype
  | "sparse_dtype", [.str v, .str d] => do
    let vdt ← NpDType.ofName v
    let ddt ← NpDType.ofName d
    pure [.str (Gen.Encodings.sparseResultDType vdt ddt).name]
  -- the session of the map clause on one column object, on the heap model (`Enc.session`): expand, apply `f` to the
  -- stored values in place, read the first expansion again, expand again -- with the origin of the expansion as
  -- read off the source (`Gen.Encodings.*MaterializeOrigin`) and the translated `materialize` as the decoder.
  -- Answer: [first expansion as it reads at the end, second expansion]
  | "session", [.str enc, .str f, .list xs, .int n] => do
    if n < 0 then none
    let g : PyVal → PyVal := fun v => (applyF f v).getD v
    match enc with
    | "rle" =>
      let e := rleEncode (pyEq i2fNative) xs
      let _ ← e.values.mapM (applyF f)
      let r := session Gen.Encodings.rleMaterializeOrigin
        (fun vs => (Gen.Encodings.rleMaterialize vs e.lengths).getD []) g ⟨[e.values.reverse, e.values]⟩ 1
      pure [.list r.1, .list r.2]
    | "dict" =>
      if xs.any isNull && xs.length ≥ 2 then none
      else
        let e := dictEncode pyLe xs
        let _ ← e.values.mapM (applyF f)
        let r := session Gen.Encodings.dictMaterializeOrigin
          (fun vs => (Gen.Encodings.dictMaterialize vs e.codes).getD []) g ⟨[e.values.reverse, e.values]⟩ 1
        pure [.list r.1, .list r.2]
    | "const" =>
      let e := constEncode (xs.headD .none) n.toNat
      let _ ← e.values.mapM (applyF f)
      let r := session Gen.Encodings.constMaterializeOrigin
        (fun vs => (Gen.Encodings.constMaterialize e.length vs).getD []) g ⟨[e.values.reverse, e.values]⟩ 1
      pure [.list r.1, .list r.2]
    | _ => none
  -- two columns over ONE input array on the heap model (`Enc.twinSession`): build both, apply `f` in place to the stored
  -- values of the first, expand both, read the input again -- with the origin of the stored values as read off the
  -- constructor in the source (`Gen.Encodings.*StoredOrigin`).  Answer: [expansion of the first, expansion of the
  -- untouched second, the input at the end]
  | "twin", [.str enc, .str f, .list xs, d] => do
    let g : PyVal → PyVal := fun v => (applyF f v).getD v
    let h : Heap PyVal := ⟨[xs.reverse, xs]⟩
    match enc with
    | "rle" =>
      let e := rleEncode (pyEq i2fNative) xs
      let _ ← e.values.mapM (applyF f)
      let r := twinSession Gen.Encodings.rleStoredOrigin (fun ys => (rleEncode (pyEq i2fNative) ys).values)
        (fun vs => (Gen.Encodings.rleMaterialize vs e.lengths).getD []) g h 1
      pure [.list r.1, .list r.2.1, .list r.2.2]
    | "dict" =>
      if xs.any isNull && xs.length ≥ 2 then none
      else
        let e := dictEncode pyLe xs
        let _ ← e.values.mapM (applyF f)
        let r := twinSession Gen.Encodings.dictStoredOrigin (fun ys => (dictEncode pyLe ys).values)
          (fun vs => (Gen.Encodings.dictMaterialize vs e.codes).getD []) g h 1
        pure [.list r.1, .list r.2.1, .list r.2.2]
    | "sparse" =>
      let e := sparseEncode (pyNe i2fNative) d xs
      let _ ← e.values.mapM (applyF f)
      let r := twinSession Gen.Encodings.sparseStoredOrigin (fun ys => (sparseEncode (pyNe i2fNative) d ys).values)
        (fun vs => (sparseDecode d { e with values := vs }).getD []) g h 1
      pure [.list r.1, .list r.2.1, .list r.2.2]
    | _ => none
  | "func", [v, .int n] => do
    if n < 0 then none
    let out := functionExpand (fun (_ : Unit) => v) () n.toNat
    let k ← kindOf out
    pure [.list out, k]
  | _, _ => none

end Drv.C09
