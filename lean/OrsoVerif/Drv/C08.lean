import OrsoVerif.Model.PyVal
import OrsoVerif.Model.Iso
import OrsoVerif.Model.IsoCast
import OrsoVerif.Generated.IsoDispatch
/-! Driver glue for C08: decode an input, run `parseIso` / the casts / the renderers, encode. -/
namespace Drv.C08
open Iso

def nat? : PyVal → Option Nat
  | .int i => if i ≥ 0 then some i.toNat else none
  | _ => none

def decodeDt : List PyVal → Option DateTime
  | [y, m, d, H, M, S, us] => do
    pure ⟨← nat? y, ← nat? m, ← nat? d, ← nat? H, ← nat? M, ← nat? S, ← nat? us⟩
  | _ => none

def decodeInput : PyVal → Option Input
  | .list [.str "int", .int n] => some (.int n)
  | .list [.str "npint", .int n] => some (.npInt n)
  | .list [.str "float", .float b] => some (.float b)
  | .list [.str "npfloat", .float b] => some (.npFloat b)
  | .list [.str "str", .str s] => some (.str s.toList)
  | .list [.str "bytes", .bytes b] => some (.bytes b)
  | .list [.str "date", y, m, d] => do pure (.date (← nat? y) (← nat? m) (← nat? d))
  | .list [.str "datetime", .list fs] => do pure (.datetime (← decodeDt fs))
  | .list [.str "time", H, M, S, us] => do pure (.time (← nat? H) (← nat? M) (← nat? S) (← nat? us))
  | .list [.str "other"] => some .other
  | .list [.str "num", .str ty, .int n] => some (.num ty n)
  | .list [.str "strsub", .str s] => some (.strSub s.toList)
  | _ => none

def encodeDt (dt : DateTime) : PyVal :=
  .list [.int dt.year, .int dt.month, .int dt.day, .int dt.hour, .int dt.minute, .int dt.second, .int dt.micro]

def encodeOutcome : Outcome → PyVal
  | .value dt => .list [.str "value", encodeDt dt]
  | .none => .list [.str "none"]
  | .raises e => .list [.str "raises", .str e.name]

/-- `parse_iso` through the dispatch program generated from the source on this run. -/
def parseGen (i : Input) : Outcome :=
  match Gen.IsoDispatch.dispatch (.inp i) with
  | .ok (some dt) => .value dt
  | .ok none => .none
  | .error e => if caughtBy Gen.Iso.caught e then .none else .raises e

def encodeCast : CastOut → PyVal
  | .date y m d => .list [.str "date", .int y, .int m, .int d]
  | .time H M S us => .list [.str "time", .int H, .int M, .int S, .int us]
  | .timestamp dt => .list [.str "timestamp", encodeDt dt]
  | .raises e => .list [.str "raises", .str e.name]

def decodeKind : String → Option CastKind
  | "DATE" => some .date | "TIME" => some .time | "TIMESTAMP" => some .timestamp | _ => none

def decodeSuffix : PyVal → Option Suffix
  | .list [.str "none"] => some .none
  | .list [.str "z"] => some .z
  | .list [.str "plus", h, m] => do pure (.plus (← nat? h) (← nat? m))
  | .list [.str "minus", h, m] => do pure (.minus (← nat? h) (← nat? m))
  | .list [.str "plusb", h, m] => do pure (.plusBasic (← nat? h) (← nat? m))
  | .list [.str "minusb", h, m] => do pure (.minusBasic (← nat? h) (← nat? m))
  | .list [.str "plush", h] => do pure (.plusHour (← nat? h))
  | .list [.str "minush", h] => do pure (.minusHour (← nat? h))
  | _ => none

def sepChar? (s : String) : Option Char :=
  match s.toList with
  | [c] => some c
  | _ => none

/-- All valid days of year `y` in calendar order, by brute enumeration of (month, day). -/
def daysOfYear (y : Nat) : List (Nat × Nat) :=
  (List.range 12).flatMap fun m => ((List.range 31).filterMap fun d =>
    if validDate y (m + 1) (d + 1) then some (m + 1, d + 1) else none)

def handle (op : String) (args : List PyVal) : Option (List PyVal) :=
  match op, args with
  | "parse", [i] => do
    let i ← decodeInput i
    -- the specification form the theorems are about, and the dispatch program translated from the source on this run
    pure [encodeOutcome (parseIso i), encodeOutcome (parseGen i)]
  | "parseskel", [.str t] => pure [encodeOutcome (parseTextSkel t.toList)]
  | "tailread", [.str t] => pure [.bool (tailRead t.toList), .str (String.ofList (cutTail t.toList))]
  | "cast", [.str k, i] => do
    let k ← decodeKind k
    let i ← decodeInput i
    -- the programs translated from the source on this run, and the specification form the theorems are about
    pure [match castRun k i with | some o => encodeCast o | none => .list [.str "weird"], encodeCast (cast k i)]
  | "render", [.str form, .list fs, .str sep, k, suf] => do
    let dt ← decodeDt fs
    let sep ← sepChar? sep
    let k ← nat? k
    let suf ← decodeSuffix suf
    match form with
    | "sec" => pure [.str (String.ofList (render dt sep k suf))]
    | "min" => pure [.str (String.ofList (renderMinute dt sep ++ suf.text))]
    | "date" => pure [.str (String.ofList (renderDate dt.year dt.month dt.day ++ suf.text))]
    | _ => none
  | "timeiso", [.str t] =>
    match timeFromIso t.toList with
    | .ok x => pure [.list [.str "time", .int x.hour, .int x.minute, .int x.second, .int x.micro]]
    | .error e => pure [.list [.str "raises", .str e.name]]
  | "valid", [.list fs] => do
    let dt ← decodeDt fs
    pure [.bool (validDateTime dt)]
  | "toepoch", [.list fs] => do
    let dt ← decodeDt fs
    pure [.int (toEpoch dt)]
  | "year", [y] => do
    let y ← nat? y
    let days := daysOfYear y
    let texts := days.map fun (m, d) => String.ofList (renderDate y m d)
    let ords := days.map fun (m, d) => toOrdinal y m d
    let parsed := days.all fun (m, d) =>
      parseIso (.str (renderDate y m d)) == .value ⟨y, m, d, 0, 0, 0, 0⟩
      && parseIso (.int (toEpoch ⟨y, m, d, 23, 59, 59, 0⟩)) == .value ⟨y, m, d, 23, 59, 59, 0⟩
    pure [.str (" ".intercalate texts), .list (ords.map fun o => .int o), .bool parsed]
  | _, _ => none

end Drv.C08
