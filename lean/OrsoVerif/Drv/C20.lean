import OrsoVerif.Model.PyVal
import OrsoVerif.Model.Sanitise
import OrsoVerif.Model.SanitiseEvent
/-! Driver glue for C20: decode JSON trees, the digest table and the parse table, run the
sanitiser model, encode the text.

Wire form of a JSON value: `N` null, `T`/`F`, text `S…`, number `L2 "n" <str(value)>`,
array `L2 "a" L<n> …`, object `M…`.  The digest `h` and the parser `parse` are the
model's parameters; they arrive as finite tables computed by the running code
(`hash_it(str(value))`, `json.loads`), and a lookup that misses is `bad-op`, never a default. -/
namespace Drv.C20
open Sanitise

mutual
def toJson : PyVal → Option Json
  | .none => some .null
  | .bool b => some (.bool b)
  | .str s => some (.str s.toList)
  | .dict kvs => (toJsonD kvs).map .obj
  | .list xs =>
    match xs with
    | [.str "n", .str t] => some (.num t.toList)
    | [.str "a", .list items] => (toJsonL items).map .arr
    | _ => none
  | .int _ => none
  | .float _ => none
  | .bytes _ => none
def toJsonL : List PyVal → Option (List Json)
  | [] => some []
  | v :: rest =>
    match toJson v, toJsonL rest with
    | some j, some r => some (j :: r)
    | _, _ => none
def toJsonD : List (String × PyVal) → Option (List (Str × Json))
  | [] => some []
  | (k, v) :: rest =>
    match toJson v, toJsonD rest with
    | some j, some r => some ((k.toList, j) :: r)
    | _, _ => none
end

def ofStr (s : Str) : PyVal := .str (String.ofList s)

abbrev DigestTable := List (Json × Str)

def decodeDigests : List PyVal → Option DigestTable
  | [] => some []
  | .list [v, .str d] :: rest =>
    match toJson v, decodeDigests rest with
    | some j, some r => some ((j, d.toList) :: r)
    | _, _ => none
  | _ => none

def lookupDigest (t : DigestTable) (v : Json) : Option Str :=
  (t.find? fun (j, _) => j == v).map (·.2)

mutual
/-- every value stored under a sensitive key has a digest in the table -/
def covered (t : DigestTable) : Json → Bool
  | .obj kvs => coveredObj t kvs
  | _ => true
def coveredObj (t : DigestTable) : List (Str × Json) → Bool
  | [] => true
  | (k, v) :: rest =>
    (if sensitive k then (lookupDigest t v).isSome else covered t v) && coveredObj t rest
end

abbrev ParseTable := List (Str × Option (List (Str × Json)))

def decodeParses : List PyVal → Option ParseTable
  | [] => some []
  | .list [.str c, .none] :: rest => (decodeParses rest).map fun r => (c.toList, none) :: r
  | .list [.str c, .dict kvs] :: rest =>
    match toJsonD kvs, decodeParses rest with
    | some d, some r => some ((c.toList, some d) :: r)
    | _, _ => none
  | _ => none

/-- the candidates `isolate` will ask the parser about -/
def candidates : List Str → List Str
  | [] => []
  | p :: ps => joinWith '|' (p :: ps) :: candidates ps

def decodeTexts : List (String × PyVal) → Option (List (Str × Str))
  | [] => some []
  | (k, .str v) :: rest => (decodeTexts rest).map fun r => (k.toList, v.toList) :: r
  | _ => none

/-- `structured_log` before the message is stored, after `fix_dict`. -/
def decodeBase : List (String × PyVal) → Option (List (Str × GVal))
  | [] => some []
  | (k, .str v) :: rest => (decodeBase rest).map fun r => (k.toList, GVal.text v.toList) :: r
  | (k, .dict kvs) :: rest =>
    match decodeTexts kvs, decodeBase rest with
    | some d, some r => some ((k.toList, GVal.dict d) :: r)
    | _, _ => none
  | _ => none

def encodePairs (kvs : List (Str × Str)) : PyVal :=
  .list (kvs.map fun (k, v) => .list [ofStr k, ofStr v])

def handle (op : String) (args : List PyVal) : Option (List PyVal) :=
  match op, args with
  | "sens", [.str k] => some [.bool (sensitive k.toList)]
  | "fold", [.str s] => some [ofStr (s.toList.map foldChar)]
  | "clean", [.bool colorize, .dict kvs, .list digests] => do
    let d ← toJsonD kvs
    let t ← decodeDigests digests
    if !coveredObj t d then none
    let h := fun v => (lookupDigest t v).getD []
    pure [encodePairs (cleanObj h (colorsFor colorize) d)]
  | "erase", [.dict kvs, .list digests, .dict kvs', .list digests'] => do
    -- do two records have the same erasure?  (used to cross-check the oracle's notion of "secret")
    let d ← toJsonD kvs
    let t ← decodeDigests digests
    let d' ← toJsonD kvs'
    let t' ← decodeDigests digests'
    if !coveredObj t d || !coveredObj t' d' then none
    let h := fun v => (lookupDigest (t ++ t') v).getD []
    pure [.bool (Json.obj (eraseObj h d) == Json.obj (eraseObj h d'))]
  | "format", [.bool can, .str line, .list parses, .list digests] => do
    let pt ← decodeParses parses
    let t ← decodeDigests digests
    let rec' := line.toList
    -- every candidate the model will try must have been parsed by the real parser
    if !(candidates (splitOn '|' rec')).all (fun c => (pt.find? fun (x, _) => x == c).isSome) then none
    if !pt.all (fun (_, r) => match r with | some d => coveredObj t d | none => true) then none
    let parse := fun c => ((pt.find? fun (x, _) => x == c).map (·.2)).getD none
    let h := fun v => (lookupDigest t v).getD []
    pure [ofStr (format h can parse rec')]
  | "getmsg", [.str tpl, .list args] => do
    -- LogRecord.getMessage(): template % args (arguments pre-rendered); Python raising is the value "err"
    let as ← args.mapM fun v => match v with | .str t => some t.toList | _ => none
    match (⟨tpl.toList, as, []⟩ : LogRec).getMessage with
    | some m => pure [ofStr m]
    | none => pure [.list [.str "err"]]
  | "formatrec", [.bool can, .str header, .str tpl, .list args, .str trailer, .list parses, .list digests] => do
    -- LogFormatter.format(record): the record as (template, %-arguments, traceback) behind the header fields
    let as ← args.mapM fun v => match v with | .str t => some t.toList | _ => none
    let pt ← decodeParses parses
    let t ← decodeDigests digests
    let r : LogRec := ⟨tpl.toList, as, trailer.toList⟩
    match stdLine header.toList r with
    | none => pure [.list [.str "err"]]
    | some rec' =>
      if !(candidates (splitOn '|' rec')).all (fun c => (pt.find? fun (x, _) => x == c).isSome) then none
      if !pt.all (fun (_, r) => match r with | some d => coveredObj t d | none => true) then none
      let parse := fun c => ((pt.find? fun (x, _) => x == c).map (·.2)).getD none
      let h := fun v => (lookupDigest t v).getD []
      pure [ofStr (formatRec h can parse (fun r => (stdLine header.toList r).getD []) r), ofStr rec']
  | "event", [.dict base, .dict kvs, .list digests] => do
    let b ← decodeBase base
    let d ← toJsonD kvs
    let t ← decodeDigests digests
    if !coveredObj t d then none
    let h := fun v => (lookupDigest t v).getD []
    pure [ofStr (writeEvent h b d)]
  | "eventtext", [.dict base, .str msg] => do
    let b ← decodeBase base
    pure [ofStr (writeEventText b msg.toList)]
  | "logmsg", [arg, oj, js, .str strd, .bool enabled, .bool isWarning, .bool seen] => do
    -- add_level.log_for_level: what reaches `_log`; the three serialisers' results on this message are parameters
    let optText : PyVal → Option (Option Str) := fun v => match v with
      | .none => some none
      | .str t => some (some t.toList)
      | _ => none
    let o ← optText oj
    let j ← optText js
    let m ← (match arg with
      | .dict kvs => (toJsonD kvs).map Msg.dict
      | .list [.str "b", .str t] => some (Msg.bytes t.toList)
      | .str t => some (Msg.text t.toList)
      | _ => none)
    match logForLevel (fun _ => o) (fun _ => j) (fun _ => strd.toList) enabled isWarning (fun _ => seen) m with
    | some (.text t) => pure [ofStr t]
    | some _ => none
    | none => pure [.none]
  | "url", [.str s] =>
    let t := s.toList
    some [ofStr (if isInfix Gen.Sanitise.urlGuard t then redactUrl t else t)]
  | "split", [.str s] => some [.list ((splitOn '|' s.toList).map ofStr)]
  | _, _ => none

end Drv.C20
