import OrsoVerif.Model.PyVal
import OrsoVerif.Model.Cast
import OrsoVerif.Drv.C08
/-! Driver glue for C07: decode a type and a value, run the cast model, encode. -/
namespace Drv.C07
open Cast

def optNat? : PyVal → Option (Option Nat)
  | .none => some none
  | .int i => if i ≥ 0 then some (some i.toNat) else none
  | _ => none

def decodeTy : PyVal → Option Ty
  | .list [.str "BOOLEAN"] => some .boolean
  | .list [.str "INTEGER"] => some .integer
  | .list [.str "DOUBLE"] => some .double
  | .list [.str "DECIMAL", p, s] => do pure (.decimal (← optNat? p) (← optNat? s))
  | .list [.str "VARCHAR", n] => do pure (.varchar (← optNat? n))
  | .list [.str "BLOB", n] => do pure (.blob (← optNat? n))
  | .list [.str "DATE"] => some .date
  | .list [.str "TIMESTAMP"] => some .timestamp
  | _ => none

def decodeVal : PyVal → Option (Option Val)
  | .none => some none
  | .list [.str "bool", .bool b] => some (some (.bool b))
  | .list [.str "int", .int n] => some (some (.int n))
  | .list [.str "float", .float b] => some (some (.float b))
  | .list [.str "str", .str s] => some (some (.str s.toList))
  | .list [.str "bytes", .bytes b] => some (some (.bytes b))
  | .list [.str "dec", .bool neg, .int c, .int e] => if c ≥ 0 then some (some (.dec (.fin neg c.toNat e))) else none
  | .list [.str "decinf", .bool neg] => some (some (.dec (.inf neg)))
  | .list [.str "decnan"] => some (some (.dec .nan))
  | .list [.str "date", y, m, d] => do
    pure (some (.date (← Drv.C08.nat? y) (← Drv.C08.nat? m) (← Drv.C08.nat? d)))
  | .list [.str "datetime", .list fs] => do pure (some (.datetime (← Drv.C08.decodeDt fs)))
  | .list [.str "other"] => some (some .other)
  | _ => none

def encodeVal : Option Val → PyVal
  | none => .none
  | some (.bool b) => .list [.str "bool", .bool b]
  | some (.int n) => .list [.str "int", .int n]
  | some (.float b) => .list [.str "float", .float b]
  | some (.str s) => .list [.str "str", .str (String.ofList s)]
  | some (.bytes b) => .list [.str "bytes", .bytes b]
  | some (.dec (.fin neg c e)) => .list [.str "dec", .bool neg, .int c, .int e]
  | some (.dec (.inf neg)) => .list [.str "decinf", .bool neg]
  | some (.dec .nan) => .list [.str "decnan"]
  | some (.date y m d) => .list [.str "date", .int y, .int m, .int d]
  | some (.datetime dt) => .list [.str "datetime", Drv.C08.encodeDt dt]
  | some .other => .list [.str "other"]

def noFloatText : List Char → Option UInt64 := fun _ => none

def handle (op : String) (args : List PyVal) : Option (List PyVal) :=
  match op, args with
  | "cast", [t, v] => do
    let t ← decodeTy t
    let v ← decodeVal v
    match parse noFloatText t v with
    | .ok r => pure [.list [.str "ok", encodeVal r, .str (match r with | some x => x.cls | none => "None"), .str t.cls]]
    | .error e => pure [.list [.str "err", .str e.name]]
  | "renderdec", [v] => do
    match ← decodeVal v with
    | some (.dec d) => pure [.str (String.ofList (renderDec d)), encodeVal ((decOfText (renderDec d)).map Val.dec)]
    | _ => none
  | "array", [t, .list vs] => do
    let t ← (match t with | .none => some none | t => (decodeTy t).map some)
    let vs ← vs.mapM decodeVal
    match parseArray noFloatText t vs with
    | .ok rs => pure [.list [.str "ok", .list (rs.map encodeVal)]]
    | .error e => pure [.list [.str "err", .str e.name]]
  | _, _ => none

end Drv.C07
