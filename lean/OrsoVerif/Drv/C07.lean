import OrsoVerif.Model.PyVal
import OrsoVerif.Model.Cast
import OrsoVerif.Model.CastJson
import OrsoVerif.Model.CastPrim
import OrsoVerif.Drv.C08
/-! Driver glue for C07: decode a type and a value, run the cast model, encode. -/
namespace Drv.C07
open Cast

def optNat? : PyVal → Option (Option Nat)
  | .none => some none
  | .int i => if i ≥ 0 then some (some i.toNat) else none
  | _ => none

def decodeTy : PyVal → Option Ty
  | .list [.str "BOOLEAN"] => some .boolean
  | .list [.str "INTEGER"] => some .integer
  | .list [.str "DOUBLE"] => some .double
  | .list [.str "DECIMAL", p, s] => do pure (.decimal (← optNat? p) (← optNat? s))
  | .list [.str "VARCHAR", n] => do pure (.varchar (← optNat? n))
  | .list [.str "BLOB", n] => do pure (.blob (← optNat? n))
  | .list [.str "DATE"] => some .date
  | .list [.str "TIMESTAMP"] => some .timestamp
  | _ => none

def decodeVal : PyVal → Option (Option Val)
  | .none => some none
  | .list [.str "bool", .bool b] => some (some (.bool b))
  | .list [.str "int", .int n] => some (some (.int n))
  | .list [.str "float", .float b] => some (some (.float b))
  | .list [.str "str", .str s] => some (some (.str s.toList))
  | .list [.str "bytes", .bytes b] => some (some (.bytes b))
  | .list [.str "dec", .bool neg, .int c, .int e] => if c ≥ 0 then some (some (.dec (.fin neg c.toNat e))) else none
  | .list [.str "decinf", .bool neg] => some (some (.dec (.inf neg)))
  | .list [.str "decnan"] => some (some (.dec .nan))
  | .list [.str "date", y, m, d] => do
    pure (some (.date (← Drv.C08.nat? y) (← Drv.C08.nat? m) (← Drv.C08.nat? d)))
  | .list [.str "datetime", .list fs] => do pure (some (.datetime (← Drv.C08.decodeDt fs)))
  | .list [.str "other"] => some (some .other)
  | _ => none

def encodeVal : Option Val → PyVal
  | none => .none
  | some (.bool b) => .list [.str "bool", .bool b]
  | some (.int n) => .list [.str "int", .int n]
  | some (.float b) => .list [.str "float", .float b]
  | some (.str s) => .list [.str "str", .str (String.ofList s)]
  | some (.bytes b) => .list [.str "bytes", .bytes b]
  | some (.dec (.fin neg c e)) => .list [.str "dec", .bool neg, .int c, .int e]
  | some (.dec (.inf neg)) => .list [.str "decinf", .bool neg]
  | some (.dec .nan) => .list [.str "decnan"]
  | some (.date y m d) => .list [.str "date", .int y, .int m, .int d]
  | some (.datetime dt) => .list [.str "datetime", Drv.C08.encodeDt dt]
  | some .other => .list [.str "other"]

def noFloatText : List Char → Option UInt64 := fun _ => none

/-- `float(token)` as a table sent by the harness (`[[token, double], …]`): the parameter `fot`. -/
def fotTable : List PyVal → Option (List (String × UInt64))
  | [] => some []
  | .list [.str t, .float b] :: r => do pure ((t, b) :: (← fotTable r))
  | _ => none

def fotOf (tb : List (String × UInt64)) : List Char → Option UInt64 := fun t => tb.lookup (String.ofList t)

/-- the float rendering as a table (`[[double, text], …]`): the parameter `rep` -/
def repTable : List PyVal → Option (List (UInt64 × String))
  | [] => some []
  | .list [.float b, .str t] :: r => do pure ((b, t) :: (← repTable r))
  | _ => none

mutual
def encodeJ : Json.J → PyVal
  | .null => .none
  | .bool b => .bool b
  | .int n => .int n
  | .float b => .float b
  | .str s => .str (String.ofList s)
  | .arr xs => .list (encodeJL xs)
def encodeJL : List Json.J → List PyVal
  | [] => []
  | x :: xs => encodeJ x :: encodeJL xs
end

mutual
def decodeJ : PyVal → Option Json.J
  | .none => some .null
  | .bool b => some (.bool b)
  | .int n => some (.int n)
  | .float b => some (.float b)
  | .str s => some (.str s.toList)
  | .list xs => (decodeJL xs).map .arr
  | _ => none
def decodeJL : List PyVal → Option (List Json.J)
  | [] => some []
  | x :: xs => match decodeJ x, decodeJL xs with
    | some a, some b => some (a :: b)
    | _, _ => none
end

def decodeWs : PyVal → Option Json.Ws
  | .list [.str a, .str b, .str c] => some ⟨a.toList, b.toList, c.toList⟩
  | _ => none

def handle (op : String) (args : List PyVal) : Option (List PyVal) :=
  match op, args with
  | "cast", [t, v] => do
    let t ← decodeTy t
    let v ← decodeVal v
    match parse noFloatText t v with
    | .ok r => pure [.list [.str "ok", encodeVal r, .str (match r with | some x => x.cls | none => "None"), .str t.cls]]
    | .error e => pure [.list [.str "err", .str e.name]]
  | "renderdec", [v] => do
    match ← decodeVal v with
    | some (.dec d) => pure [.str (String.ofList (renderDec d)), encodeVal ((decOfText (renderDec d)).map Val.dec)]
    | _ => none
  | "array", [t, .list vs] => do
    let t ← (match t with | .none => some none | t => (decodeTy t).map some)
    let vs ← vs.mapM decodeVal
    match parseArray noFloatText t vs with
    | .ok rs => pure [.list [.str "ok", .list (rs.map encodeVal)]]
    | .error e => pure [.list [.str "err", .str e.name]]
  | "arraytext", [t, v, .list tb] => do
    -- ARRAY.parse(text or bytes, element_type=t): the model reads the JSON text itself
    let t ← (match t with | .none => some none | t => (decodeTy t).map some)
    let v ← decodeVal v
    let tb ← fotTable tb
    match v with
    | some x =>
      match Json.parseArrayText (fotOf tb) t x with
      | some (.ok rs) => pure [.list [.str "ok", .list (rs.map encodeVal)]]
      | some (.error e) => pure [.list [.str "err", .str e.name]]
      | none => pure [.list [.str "unsupported"]]
    | none => none
  | "jsonread", [.str s, .list tb] => do
    -- the reader alone (mirror of orjson.loads, orso out of the picture)
    let tb ← fotTable tb
    match Json.readJson (fotOf tb) s.toList with
    | .ok j => pure [.list [.str "ok", encodeJ j]]
    | .error .bad => pure [.list [.str "err"]]
    | .error .unsupported => pure [.list [.str "unsupported"]]
  | "jsonrender", [j, w, .list rt] => do
    -- the writer alone (mirror of orjson.dumps / json.dumps)
    let j ← decodeJ j
    let w ← decodeWs w
    let rt ← repTable rt
    pure [.str (String.ofList (Json.render w (fun b => ((rt.lookup b).getD "?").toList) j))]
  | "floatspecials", [] =>
    -- the parameter table of boundary float texts (compared with the interpreter's float() by the harness)
    pure [.list (floatSpecials.map fun p => .list [.str p.1, .float p.2])]
  | _, _ => none

end Drv.C07
