import OrsoVerif.Model.PyVal
import OrsoVerif.Model.GroupBy
import OrsoVerif.Model.GroupByCode
import OrsoVerif.Model.GroupByX
import OrsoVerif.Model.GroupByEq
/-! Driver glue for C12: decode a frame, key columns and requests; run the model; encode. -/
namespace Drv.C12
open GroupBy

def decodeStr : PyVal → Option String
  | .str s => some s
  | _ => none

def decodeRow (width : Nat) : PyVal → Option (List PyVal)
  | .list xs => if xs.length = width then some xs else none
  | _ => none

def decodeReq : PyVal → Option Req
  | .list [.str f, .str c] => do
    let f ← Func.ofName f
    pure (f, c)
  | _ => none

/-- The model's numbers are integers: a requested column may hold only integers and nulls,
and a column that is not in the frame (the `*` pseudo column) may only be counted. -/
def supported (fr : Frame) (reqs : List Req) : Bool :=
  reqs.all fun q =>
    match index q.2 fr.columns with
    | none => q.1 = .count
    | some i => fr.rows.all fun r =>
        match r.getD i .none with
        | .int _ => true
        | .none => true
        | _ => false

/-- Float value columns: a requested column may hold integers (the `x` of `x / scale`), the tokens of
the non-finite floats, and nulls. -/
def supportedX (fr : Frame) (reqs : List Req) : Bool :=
  reqs.all fun q =>
    match index q.2 fr.columns with
    | none => q.1 = .count
    | some i => fr.rows.all fun r =>
        match r.getD i .none with
        | .none => true
        | v => (xnum v).isSome

/-- Keys compared by Python's `==`: every cell of a key column must be a value the model of `==`
speaks about (null, boolean, integer, a float that is not a NaN, text). -/
def supportedKeys (fr : Frame) (keyCols : List String) : Bool :=
  keyCols.all fun c =>
    match index c fr.columns with
    | none => true
    | some i => fr.rows.all fun r => keyValueOk (r.getD i .none)

def decodeOp : PyVal → Option Op
  | .list [.str "groups"] => some .groups
  | .list [.str "aggregate", .list reqs] => do
    let reqs ← reqs.mapM decodeReq
    pure (.aggregate reqs)
  | _ => none

def opSupported (fr : Frame) : Op → Bool
  | .aggregate reqs => supported fr reqs
  | .groups => true

/-- For the code-level model: when the source yields `record[-1]` for a column that is not in the frame,
that last cell must be a number or null as well. -/
def opSupportedC (fr : Frame) : Op → Bool
  | .aggregate reqs =>
    supported fr reqs &&
      (GroupByCode.source.value == .starIfMissing ||
        reqs.all fun q => (index q.2 fr.columns).isSome || fr.rows.all fun r =>
          match r.getLastD .none with
          | .int _ => true
          | .none => true
          | _ => false)
  | .groups => true

def encodeTable (hr : List String × List (List PyVal)) : PyVal :=
  .list [.str "ok", .list (hr.1.map .str), .list (hr.2.map .list)]

def encode : Except Err (List String × List (List PyVal)) → List PyVal
  | .error .valueError => [.list [.str "err", .str "ValueError"]]
  | .ok (h, rows) => [.list [.str "ok", .list (h.map .str), .list (rows.map .list)]]

def handle (op : String) (args : List PyVal) : Option (List PyVal) :=
  match op, args with
  | "aggregate", [.list cols, .list rows, .list keyCols, .list reqs] => do
    let cols ← cols.mapM decodeStr
    let rows ← rows.mapM (decodeRow cols.length)
    let keyCols ← keyCols.mapM decodeStr
    let reqs ← reqs.mapM decodeReq
    let fr : Frame := { columns := cols, rows := rows }
    if supported fr reqs then pure (encode (run fr keyCols reqs)) else none
  | "aggregate_x", [.list cols, .list rows, .list keyCols, .list reqs] => do
    let cols ← cols.mapM decodeStr
    let rows ← rows.mapM (decodeRow cols.length)
    let keyCols ← keyCols.mapM decodeStr
    let reqs ← reqs.mapM decodeReq
    let fr : Frame := { columns := cols, rows := rows }
    if supportedX fr reqs then pure (encode (runX fr keyCols reqs)) else none
  | "aggregate_eq", [.list cols, .list rows, .list keyCols, .list reqs] => do
    -- keys compared by Python's `==` (`1 == 1.0 == True`): Model/GroupByEq.lean
    let cols ← cols.mapM decodeStr
    let rows ← rows.mapM (decodeRow cols.length)
    let keyCols ← keyCols.mapM decodeStr
    let reqs ← reqs.mapM decodeReq
    let fr : Frame := { columns := cols, rows := rows }
    if supported fr reqs && supportedKeys fr keyCols then pure (encode (runEq fr keyCols reqs)) else none
  | "groups_eq", [.list cols, .list rows, .list keyCols] => do
    let cols ← cols.mapM decodeStr
    let rows ← rows.mapM (decodeRow cols.length)
    let keyCols ← keyCols.mapM decodeStr
    let fr : Frame := { columns := cols, rows := rows }
    if supportedKeys fr keyCols then pure (encode (runGroupsEq fr keyCols)) else none
  | "groups", [.list cols, .list rows, .list keyCols] => do
    let cols ← cols.mapM decodeStr
    let rows ← rows.mapM (decodeRow cols.length)
    let keyCols ← keyCols.mapM decodeStr
    pure (encode (runGroups { columns := cols, rows := rows } keyCols))
  | "sequence", [.list cols, .list rows, .list keyCols, .list ops] => do
    let cols ← cols.mapM decodeStr
    let rows ← rows.mapM (decodeRow cols.length)
    let keyCols ← keyCols.mapM decodeStr
    let ops ← ops.mapM decodeOp
    let fr : Frame := { columns := cols, rows := rows }
    if ops.all (opSupported fr) then
      match runSeq fr keyCols ops with
      | .error .valueError => pure [.list [.str "err", .str "ValueError"]]
      | .ok outs => pure [.list [.str "seq", .list (outs.map encodeTable)]]
    else none
  | "code_calls", [.list cols, .list rows, .bool lazy, .list objs, .list calls] => do
    -- the code-level model: the program read from the working tree (`GroupByCode.source`), any
    -- sequence of calls on several GroupBy objects of one frame, lazily backed or materialised
    let cols ← cols.mapM decodeStr
    let rows ← rows.mapM (decodeRow cols.length)
    let objs ← objs.mapM fun o => match o with
      | .list ks => ks.mapM decodeStr
      | _ => none
    let idxs ← objs.mapM fun ks => ks.mapM fun k => index k cols
    let calls ← calls.mapM fun c => match c with
      | .list [.int g, op] => do
        let op ← decodeOp op
        if 0 ≤ g ∧ g.toNat < objs.length then pure (g.toNat, op) else none
      | _ => none
    let fr : Frame := { columns := cols, rows := rows }
    if calls.all (fun c => opSupportedC fr c.2) then
      pure [.list ((GroupByCode.runCallsF GroupByCode.source fr lazy objs idxs calls).map fun r =>
        match r with
        | .error c => .list [.str "err", .str c]
        | .ok hr => encodeTable hr)]
    else none
  | "code_calls_eq", [.list cols, .list rows, .bool lazy, .list objs, .list calls] => do
    -- the same program, dictionaries looked up as Python's `==` and `hash` see the keys (`identKeyOf`)
    let cols ← cols.mapM decodeStr
    let rows ← rows.mapM (decodeRow cols.length)
    let objs ← objs.mapM fun o => match o with
      | .list ks => ks.mapM decodeStr
      | _ => none
    let idxs ← objs.mapM fun ks => ks.mapM fun k => index k cols
    let calls ← calls.mapM fun c => match c with
      | .list [.int g, op] => do
        let op ← decodeOp op
        if 0 ≤ g ∧ g.toNat < objs.length then pure (g.toNat, op) else none
      | _ => none
    let fr : Frame := { columns := cols, rows := rows }
    if calls.all (fun c => opSupportedC fr c.2) && objs.all (supportedKeys fr) then
      pure [.list ((GroupByCode.runCallsEqF GroupByCode.source fr lazy objs idxs calls).map fun r =>
        match r with
        | .error c => .list [.str "err", .str c]
        | .ok hr => encodeTable hr)]
    else none
  | "code_session", [.list cols, .list rows, .bool lazy, .list objs, .list evs] => do
    -- a session: calls interleaved with the caller editing, in place, the key-column lists it handed to
    -- `group_by`; whether `__init__` stored a copy is read from the working tree (`columnsCopied`)
    let cols ← cols.mapM decodeStr
    let rows ← rows.mapM (decodeRow cols.length)
    let objs ← objs.mapM fun o => match o with
      | .list ks => ks.mapM decodeStr
      | _ => none
    let evs ← evs.mapM fun e => match e with
      | .list [.str "call", .int g, op] => do
        let op ← decodeOp op
        if 0 ≤ g ∧ g.toNat < objs.length then pure (GroupByCode.Ev.call g.toNat op) else none
      | .list [.str "edit", .int g, .list ks] => do
        let ks ← ks.mapM decodeStr
        if 0 ≤ g ∧ g.toNat < objs.length then pure (GroupByCode.Ev.edit g.toNat ks) else none
      | _ => none
    let fr : Frame := { columns := cols, rows := rows }
    if (GroupByCode.callsOf evs).all (fun c => opSupportedC fr c.2) then
      pure [.list ((GroupByCode.runSessionF GroupByCode.source Gen.GroupByCode.columnsCopied fr lazy objs evs).map fun r =>
        match r with
        | .error c => .list [.str "err", .str c]
        | .ok hr => encodeTable hr)]
    else none
  | "code_program", [] =>
    pure [.str (reprStr GroupByCode.source)]
  | _, _ => none

end Drv.C12
