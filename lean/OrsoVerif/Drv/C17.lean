import OrsoVerif.Model.PyVal
import OrsoVerif.Model.SchemaOps
import OrsoVerif.Model.SchemaEdit
/-! Driver glue for C17: decode a column table, schemas over it and a program; run the
register machine of `Model/SchemaOps.lean`; encode every output (columns by their tag). -/
namespace Drv.C17
open SchemaOps

abbrev C := Col String String
abbrev S := Schema String String

def decodeStrs : List PyVal → Option (List String)
  | [] => some []
  | .str s :: rest => (decodeStrs rest).map (s :: ·)
  | _ => none

def decodeCol (tag : Nat) : PyVal → Option C
  | .list [.str i, .str n, .none] => some { tag := tag, identity := i, name := n, aliases := none }
  | .list [.str i, .str n, .list as] => do
    let as ← decodeStrs as
    pure { tag := tag, identity := i, name := n, aliases := some as }
  | _ => none

def decodeCols (tag : Nat) : List PyVal → Option (List C)
  | [] => some []
  | v :: rest => do
    let c ← decodeCol tag v
    let cs ← decodeCols (tag + 1) rest
    pure (c :: cs)

def pickCols (table : List C) : List PyVal → Option (List C)
  | [] => some []
  | .int i :: rest => do
    if i < 0 then none
    let c ← table[i.toNat]?
    let cs ← pickCols table rest
    pure (c :: cs)
  | _ => none

def decodeSchema (table : List C) : PyVal → Option S
  | .list [.str n, .list as, .list cs] => do
    let as ← decodeStrs as
    let cs ← pickCols table cs
    pure { name := n, aliases := as, columns := cs }
  | _ => none

def nat? : PyVal → Option Nat
  | .int i => if i < 0 then none else some i.toNat
  | _ => none

def decodeBase : PyVal → Option (POp String)
  | .list [.str "add", i, j] => do
    let i ← nat? i
    let j ← nat? j
    pure (.add i j)
  | .list [.str "find", r, .str k, .bool ci] => do pure (.on (← nat? r) (.find k ci))
  | .list [.str "col", r, .int i] => do pure (.on (← nat? r) (.column (.idx i)))
  -- a bool stays a bool: whether it is an index (`isinstance(True, int)`) is the model's business
  | .list [.str "col", r, .bool b] => do pure (.on (← nat? r) (.column (.flag b)))
  | .list [.str "col", r, .str k] => do pure (.on (← nat? r) (.column (.name k)))
  | .list [.str "pop", r, .str k] => do pure (.on (← nat? r) (.pop k))
  | .list [.str "allnames", r] => do pure (.on (← nat? r) .allNames)
  | .list [.str "names", r] => do pure (.on (← nat? r) .names)
  | .list [.str "iter", r] => do pure (.on (← nat? r) .iter)
  | _ => none

/-- `mkiter r` = `iter(regs[r])` (the iterator gets the next free number), `next k` = `next(it_k)`,
`drain k` = `list(it_k)`; everything else is a register operation. -/
def decodeOp : PyVal → Option (IOp String)
  | .list [.str "mkiter", r] => do pure (.mk (← nat? r))
  | .list [.str "next", k] => do pure (.ask (← nat? k) .next)
  | .list [.str "drain", k] => do pure (.ask (← nat? k) .drain)
  | v => (decodeBase v).map .base

/-- `["edit", t, how, arg]`: the column object `t` is edited (`Model/SchemaEdit.lean`). -/
def decodeEdit : PyVal → PyVal → Option (Edit String)
  | .str "append", .str x => some (.append x)
  | .str "remove", .str x => some (.remove x)
  | .str "insert", .str x => some (.insert x)
  | .str "setitem", .str x => some (.setitem x)
  | .str "delitem", .none => some .delitem
  | .str "clear", .none => some .clear
  | .str "extend", .list xs => (decodeStrs xs).map .extend
  | .str "reverse", .none => some .reverse
  | .str "replace", .none => some (.replace none)
  | .str "replace", .list xs => (decodeStrs xs).map fun l => .replace (some l)
  | .str "rename", .str x => some (.rename x)
  | _, _ => none

def decodeEOp : PyVal → Option (EOp String)
  | .list [.str "edit", t, how, arg] => do pure (.edit (← nat? t) (← decodeEdit how arg))
  | v => (decodeOp v).map .io

def decodeTable : List PyVal → Option (List (String × String))
  | [] => some []
  | .list [.str a, .str b] :: rest => (decodeTable rest).map ((a, b) :: ·)
  | _ => none

/-- `str.lower`: ASCII lower-casing, except on the strings for which the harness supplies what
Python's `str.lower` returned (non-ASCII text). -/
def lowerWith (table : List (String × String)) (s : String) : String :=
  match table.lookup s with
  | some t => t
  | none => s.toLower

def encOptCol : Option C → PyVal
  | some c => .int c.tag
  | none => .none

def encTags (cs : List C) : PyVal := .list (cs.map fun c => .int c.tag)

def encStrs (l : List String) : PyVal := .list (l.map .str)

def encodeBase : POut String String → PyVal
  | .schema s => .list [.str "schema", .str s.name, encStrs s.aliases, encTags s.columns]
  | .out (.col c) => .list [.str "col", encOptCol c]
  | .out (.popped c) => .list [.str "pop", encOptCol c]
  | .out .indexError => .list [.str "IndexError"]
  | .out (.strs l) => .list [.str "strs", encStrs l]

def encodeOut : IOut String String → PyVal
  | .base o => encodeBase o
  | .made k => .list [.str "iter", .int k]
  | .it (.item x) => .list [.str "item", .str x]
  | .it .stop => .list [.str "stop"]
  | .it (.rest l) => .list [.str "rest", encStrs l]

def encodeEOut : EOut String String → PyVal
  | .io o => encodeOut o
  | .edited => .list [.str "edited"]

def handle (op : String) (args : List PyVal) : Option (List PyVal) :=
  match op, args with
  | "run", [.list cols, .list schemas, .list prog, .list lower] => do
    let table ← decodeCols 0 cols
    let regs ← schemas.mapM (decodeSchema table)
    let prog ← prog.mapM decodeEOp
    let lower ← decodeTable lower
    let (st', outs) ← erun iterSrc (lowerWith lower) { regs := regs, iters := [] } prog
    pure [.list (outs.map encodeEOut), .list (st'.regs.map fun s => encTags s.columns)]
  | _, _ => none

end Drv.C17
