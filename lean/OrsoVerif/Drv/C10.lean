import OrsoVerif.Model.PyVal
import OrsoVerif.Model.Kernels
import OrsoVerif.Model.CallSites
import OrsoVerif.Generated.KernelFns
/-! Driver glue for C10.  The three kernels are run through their statement-level translations
(`Gen.KernelFns`, regenerated from the working tree's `compiled.pyx`), which `Props/C10.lean` proves equal to the
models of `Model/Kernels.lean`. -/
namespace Drv.C10
open Kernels CallSites KernelSem PyDictM

/-- `[ident, exact, isStr, text, value]`: `ident` a string (the plain string the key equals) or a number (equal to none). -/
def decodeItem : PyVal → Option (PyKey × PyVal)
  | .list [.str s, .bool e, .bool i, .str t, v] => some (⟨.text s, e, i, t⟩, v)
  | .list [.int n, .bool e, .bool i, .str t, v] => if n < 0 then none else some (⟨.other n.toNat, e, i, t⟩, v)
  | _ => none

def decodeRow : PyVal → Option (RowObj PyVal)
  | .list [.bool t, .list cells] => some ⟨t, cells⟩
  | _ => none

def asInts : List PyVal → Option (List Int)
  | [] => some []
  | .int i :: xs => (asInts xs).map (i :: ·)
  | _ => none

def decodeLens : List PyVal → Option (List (Option Nat))
  | [] => some []
  | .none :: xs => (decodeLens xs).map (none :: ·)
  | .int i :: xs => if i < 0 then none else (decodeLens xs).map (some i.toNat :: ·)
  | _ => none

def asStrs : List PyVal → Option (List String)
  | [] => some []
  | .str s :: xs => (asStrs xs).map (s :: ·)
  | _ => none

def asRefs : List PyVal → Option (List ColRef)
  | [] => some []
  | .int i :: xs => (asRefs xs).map (ColRef.idx i :: ·)
  | .str s :: xs => (asRefs xs).map (ColRef.name s :: ·)
  | _ => none

def decodeLenRow : PyVal → Option (RowObj (Option Nat))
  | .list [.bool t, .list cells] => (decodeLens cells).map fun c => ⟨t, c⟩
  | _ => none

def encPub : PubOutcome PyVal → List PyVal
  | .many m => [.str "many", .list (m.map .list)]
  | .one c => [.str "one", .list c]
  | .raises c => [.str "raises", .str c]
  | .oob => [.str "oob"]

def handle (op : String) (args : List PyVal) : Option (List PyVal) :=
  match op, args with
  | "collect", [.list rows, .list cols, .int limit] => do
    let rows ← rows.mapM decodeRow
    let cols ← asInts cols
    match toOutcome (Gen.KernelFns.collect_cython PyVal.none rows cols limit) with
    | .ok m => pure [.str "ok", .list (m.map .list)]
    | .raises c => pure [.str "raises", .str c]
    | .oob => pure [.str "oob"]
  | "width", [.list lens] => do
    let lens ← decodeLens lens
    match Gen.KernelFns.calculate_data_width (fun (n : Nat) => n) lens with
    | .ok w => pure [.int w]
    | .error (.raises c) => pure [.str "raises", .str c]
    | .error .oob => pure [.str "oob"]
  | "extract", [.list fields, .dict d] => do
    let fields ← asStrs fields
    match Gen.KernelFns.extract_dict_columns PyVal.none d fields with
    | .ok r => pure [.list r]
    | .error (.raises c) => pure [.str "raises", .str c]
    | .error .oob => pure [.str "oob"]
  | "pcollect", [.list names, .list rows, .list cols, .bool single, limit] => do
    let names ← asStrs names
    let rows ← rows.mapM decodeRow
    let cols ← asRefs cols
    let limit ← (match limit with | .none => some none | .int l => some (some l) | _ => none)
    pure (encPub (publicCollect names rows cols single limit))
  | "rownew", [.list fields, .bool tuplesOnly, .list [.bool exact, .bool isDict, .bool mutable], .list items] => do
    let fields ← asStrs fields
    let items ← items.mapM decodeItem
    match rowNew .none (createClass fields tuplesOnly) (.dict ⟨exact, isDict, mutable, items⟩) with
    | some r => pure [.str "some", .list r]
    | none => pure [.str "none"]
  | "rowappend", [.list fields, .list [.bool exact, .bool isDict, .bool mutable], .list items] => do
    let fields ← asStrs fields
    let items ← items.mapM decodeItem
    match rowNew .none (createClass fields false) (.dict (Gen.DictGlue.appendPrepare ⟨exact, isDict, mutable, items⟩)) with
    | some r => pure [.str "some", .list r]
    | none => pure [.str "none"]
  | "rownew", [.list fields, .bool tuplesOnly, .list t] => do
    let fields ← asStrs fields
    match rowNew .none (createClass fields tuplesOnly) (.tuple t) with
    | some r => pure [.str "some", .list r]
    | none => pure [.str "none"]
  | "dwidths", [.list names, .list rows, .int limit] => do
    let names ← asStrs names
    let rows ← rows.mapM decodeLenRow
    pure [.list ((displayDataWidths names rows limit).map fun w =>
      match w with | some n => PyVal.int n | none => PyVal.none)]
  | _, _ => none

end Drv.C10
