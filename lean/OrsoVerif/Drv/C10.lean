import OrsoVerif.Model.PyVal
import OrsoVerif.Model.Kernels
/-! Driver glue for C10. -/
namespace Drv.C10
open Kernels

def decodeRow : PyVal → Option (RowObj PyVal)
  | .list [.bool t, .list cells] => some ⟨t, cells⟩
  | _ => none

def asInts : List PyVal → Option (List Int)
  | [] => some []
  | .int i :: xs => (asInts xs).map (i :: ·)
  | _ => none

def decodeLens : List PyVal → Option (List (Option Nat))
  | [] => some []
  | .none :: xs => (decodeLens xs).map (none :: ·)
  | .int i :: xs => if i < 0 then none else (decodeLens xs).map (some i.toNat :: ·)
  | _ => none

def asStrs : List PyVal → Option (List String)
  | [] => some []
  | .str s :: xs => (asStrs xs).map (s :: ·)
  | _ => none

def handle (op : String) (args : List PyVal) : Option (List PyVal) :=
  match op, args with
  | "collect", [.list rows, .list cols, .int limit] => do
    let rows ← rows.mapM decodeRow
    let cols ← asInts cols
    match collect rows cols limit with
    | .ok m => pure [.str "ok", .list (m.map .list)]
    | .raises c => pure [.str "raises", .str c]
    | .oob => pure [.str "oob"]
  | "width", [.list lens] => do
    let lens ← decodeLens lens
    pure [.int (dataWidth lens)]
  | "extract", [.list fields, .dict d] => do
    let fields ← asStrs fields
    pure [.list (DictRow.extract .none fields d)]
  | _, _ => none

end Drv.C10
