import OrsoVerif.Model.PyVal
import OrsoVerif.Model.FrameProg
import OrsoVerif.Model.FrameCell
/-! Driver glue for C03: decode a program of DataFrame operators, evaluate it with the list
specification (`specEval`) and with the state machine of the implementation (`implEval`), encode
both register files.  All semantics live in `Model/FrameProg.lean`. -/
namespace Drv.C03
open Frame

def asBools : List PyVal → Option (List Bool)
  | [] => some []
  | .bool b :: xs => (asBools xs).map (b :: ·)
  | _ => none

def asInts : List PyVal → Option (List Int)
  | [] => some []
  | .int i :: xs => (asInts xs).map (i :: ·)
  | _ => none

def asStrs : List PyVal → Option (List String)
  | [] => some []
  | .str s :: xs => (asStrs xs).map (s :: ·)
  | _ => none

def asNat : Int → Option Nat
  | .ofNat n => some n
  | _ => none

def decodePred : PyVal → Option (Pred PyVal)
  | .list [.str "true"] => some .tt
  | .list [.str "false"] => some .ff
  | .list [.str "eq", .int j, v] => (asNat j).map fun j => .eq j v
  | .list [.str "ne", .int j, v] => (asNat j).map fun j => .ne j v
  | _ => none

def decodeCols : List PyVal → Option (List ColRef)
  | [] => some []
  | .int i :: xs => (decodeCols xs).map (.idx i :: ·)
  | .str s :: xs => (decodeCols xs).map (.name s :: ·)
  | _ => none

def decodeKind : String → Option Kind
  | "list" => some .list
  | "tuple" => some .tuple
  | "typed" => some .typed
  | _ => none

def encodeKind : Kind → String
  | .list => "list"
  | .tuple => "tuple"
  | .typed => "typed"

def decodeOp : PyVal → Option (Op PyVal)
  | .list [.str "head", .int s, .int k] => do pure (.un (.head (← asNat k)) (← asNat s))
  | .list [.str "tail", .int s, .int k] => do pure (.un (.tail (← asNat k)) (← asNat s))
  | .list [.str "slice", .int s, .int o, .none] => do pure (.un (.slice o none) (← asNat s))
  | .list [.str "slice", .int s, .int o, .int l] => do pure (.un (.slice o (some (← asNat l))) (← asNat s))
  | .list [.str "filter", .int s, .list m] => do pure (.un (.filter (← asBools m)) (← asNat s))
  | .list [.str "take", .int s, .list ix] => do pure (.un (.take (← asInts ix)) (← asNat s))
  | .list [.str "query", .int s, p] => do pure (.un (.query (← decodePred p)) (← asNat s))
  | .list [.str "select", .int s, .list attrs] => do pure (.un (.select (← asStrs attrs)) (← asNat s))
  | .list [.str "distinct", .int s] => do pure (.un .distinct (← asNat s))
  | .list [.str "batches", .int s, .int size] => do
    if size < 1 then none
    pure (.un (.batches (← asNat size)) (← asNat s))
  | .list [.str "collect", .int s, .list cols, .none] => do pure (.un (.collect (← decodeCols cols) none) (← asNat s))
  | .list [.str "collect", .int s, .list cols, .int l] => do pure (.un (.collect (← decodeCols cols) (some l)) (← asNat s))
  | .list [.str "row", .int s, .int i] => do pure (.un (.row i) (← asNat s))
  | .list [.str "len", .int s, .int how] => do pure (.un (.len (← asNat how)) (← asNat s))
  | .list [.str "hash", .int s] => do pure (.un .hash (← asNat s))
  | .list [.str "add", .int s, .int t] => do pure (.add (← asNat s) (← asNat t))
  | .list [.str "append", .int s, .list row] => do pure (.append (← asNat s) row)
  | .list [.str "iter", .int s] => do pure (.iter (← asNat s))
  | .list [.str "next", .int it, .int k] => do pure (.next (← asNat it) (← asNat k))
  | .list [.str "zip", .int s, .int t] => do pure (.zip (← asNat s) (← asNat t))
  | _ => none

/-- Cells inside operators (the value a `query` predicate compares with, an appended row) are keyed like the cells
of the frame: the model's cell type is Python values up to `==` (`Model/FrameCell.lean`). -/
def keyOp : Op PyVal → Op PyVal
  | .un (.query (.eq j v)) s => .un (.query (.eq j (pyKey v))) s
  | .un (.query (.ne j v)) s => .un (.query (.ne j (pyKey v))) s
  | .append s r => .append s (pyKeyL r)
  | op => op

def encodeVal : Val PyVal → PyVal
  | .none => .none
  | .nat n => .int n
  | .row r => .list r
  | .table t => .list (t.map .list)
  | .batches bs => .list (bs.map fun b => .list (b.map .list))
  | .pairs ps => .list (ps.map fun p => .list [.list p.1, .list p.2])

def encodeS : SReg PyVal → PyVal
  | .frame sch rows => .list [.str "frame", .list (sch.names.map .str), .str (encodeKind sch.kind), .list (rows.map .list)]
  | .val v => .list [.str "val", encodeVal v]
  | .err c => .list [.str "err", .str c]
  | .iter _ pos => .list [.str "iter", .int pos]

def encodeI : IReg PyVal → PyVal
  | .frame _ l _ => .list [.str "frame", .bool l]
  | .defer src _ _ => .list [.str "defer", .int src]
  | .spent => .list [.str "spent"]
  | .giter _ => .list [.str "giter"]
  | _ => .list [.str "other"]

def decodeCols' (names : List String) : List PyVal → Option (List Col)
  | [] => if names.isEmpty then some [] else none
  | .list al :: xs =>
    match names with
    | [] => none
    | n :: ns => do
      let al ← asStrs al
      let rest ← decodeCols' ns xs
      pure (⟨n, al⟩ :: rest)
  | _ => none

def handle (op : String) (args : List PyVal) : Option (List PyVal) :=
  match op, args with
  | "prog", [.list names, .str kind, .list aliases, .bool lazy, .list rows, .list ops] => do
    let names ← asStrs names
    let kind ← decodeKind kind
    let cols ← decodeCols' names aliases
    let rows ← rows.mapM fun r => match r with
      | .list xs => some (pyKeyL xs)
      | _ => none
    let ops ← ops.mapM fun o => (decodeOp o).map keyOp
    let sch : Schema := ⟨kind, cols⟩
    let sp ← specEval [.frame sch rows] ops
    -- the machine stops (`none`) when a program uses a spent frame: reported as an empty register file
    let im := (implEval [.frame sch lazy rows] ops).getD []
    pure [.list (sp.map encodeS), .list (im.map encodeI), .bool (wfProgB [.frame sch lazy rows] ops)]
  | _, _ => none

end Drv.C03
