import OrsoVerif.Model.PyVal
import OrsoVerif.Model.Frame
/-! Driver glue for C03: evaluate a program of DataFrame operators on the list model. -/
namespace Drv.C03
open Frame

structure F where
  names : List String
  typed : Bool
  rows : List (List PyVal)

inductive Res where
  | frame (f : F)
  | val (v : PyVal)
  | err (cls : String)

def encodeRes : Res → PyVal
  | .frame f => .list [.str "frame", .list (f.names.map .str), .list (f.rows.map .list)]
  | .val v => .list [.str "val", v]
  | .err c => .list [.str "err", .str c]

def getFrame (rs : List Res) (i : Int) : Option F :=
  if i < 0 then none else
  match rs[i.toNat]? with
  | some (.frame f) => some f
  | _ => none

def decodePred : PyVal → Option (List PyVal → Bool)
  | .list [.str "true"] => some fun _ => true
  | .list [.str "false"] => some fun _ => false
  | .list [.str "eq", .int j, v] => if j < 0 then none else some fun r => decide (r[j.toNat]? = some v)
  | .list [.str "ne", .int j, v] => if j < 0 then none else some fun r => !decide (r[j.toNat]? = some v)
  | _ => none

def asBools : List PyVal → Option (List Bool)
  | [] => some []
  | .bool b :: xs => (asBools xs).map (b :: ·)
  | _ => none

def asInts : List PyVal → Option (List Int)
  | [] => some []
  | .int i :: xs => (asInts xs).map (i :: ·)
  | _ => none

def asStrs : List PyVal → Option (List String)
  | [] => some []
  | .str s :: xs => (asStrs xs).map (s :: ·)
  | _ => none

/-- A column reference is an index or a name (resolved to its first occurrence). -/
def resolveCols (names : List String) : List PyVal → Option (Except String (List Int))
  | [] => some (.ok [])
  | .int i :: xs => (resolveCols names xs).map fun r => r.map (i :: ·)
  | .str s :: xs =>
    match indexOf names s with
    | some i => (resolveCols names xs).map fun r => r.map ((i : Int) :: ·)
    | none => some (.error "ValueError")
  | _ => none

def step (rs : List Res) : PyVal → Option Res
  | .list [.str "head", .int s, .int k] => do
    let f ← getFrame rs s
    if k < 0 then none
    pure (.frame { f with rows := head f.rows k.toNat })
  | .list [.str "tail", .int s, .int k] => do
    let f ← getFrame rs s
    if k < 0 then none
    pure (.frame { f with rows := tail f.rows k.toNat })
  | .list [.str "slice", .int s, .int o, .none] => do
    let f ← getFrame rs s
    pure (.frame { f with rows := slice f.rows o none })
  | .list [.str "slice", .int s, .int o, .int l] => do
    let f ← getFrame rs s
    if l < 0 then none
    pure (.frame { f with rows := slice f.rows o (some l.toNat) })
  | .list [.str "filter", .int s, .list m] => do
    let f ← getFrame rs s
    let m ← asBools m
    pure (.frame { f with rows := filter f.rows m })
  | .list [.str "take", .int s, .list ix] => do
    let f ← getFrame rs s
    let ix ← asInts ix
    pure (.frame { f with rows := take f.rows ix })
  | .list [.str "query", .int s, p] => do
    let f ← getFrame rs s
    let p ← decodePred p
    pure (.frame { f with rows := query f.rows p })
  | .list [.str "select", .int s, .list attrs] => do
    let f ← getFrame rs s
    let attrs ← asStrs attrs
    let (h, rows) := select f.names f.rows attrs
    pure (.frame { names := h, typed := false, rows := rows })
  | .list [.str "distinct", .int s] => do
    let f ← getFrame rs s
    pure (.frame { f with rows := distinct f.rows })
  | .list [.str "add", .int s, .int t] => do
    let f ← getFrame rs s
    let g ← getFrame rs t
    if f.names = g.names ∧ f.typed = g.typed then pure (.frame { f with rows := f.rows ++ g.rows })
    else pure (.err "ValueError")
  | .list [.str "batches", .int s, .int size] => do
    let f ← getFrame rs s
    if size < 1 then none
    pure (.val (.list ((batches f.rows size.toNat).map fun b => .list (b.map .list))))
  | .list [.str "collect", .int s, .list cols, limit] => do
    let f ← getFrame rs s
    let lim ← match limit with
      | .none => some none
      | .int l => some (some l)
      | _ => none
    match ← resolveCols f.names cols with
    | .error c => pure (.err c)
    | .ok cols =>
      if f.rows.isEmpty ∨ cols.isEmpty then
        pure (.val (.list (cols.map fun _ => .list [])))
      else if cols.any (fun c => c < 0 ∨ c ≥ f.names.length) then pure (.err "IndexError")
      else
        match collect f.rows (cols.map Int.toNat) lim with
        | some m => pure (.val (.list (m.map .list)))
        | none => pure (.err "IndexError")
  | .list [.str "row", .int s, .int i] => do
    let f ← getFrame rs s
    let n : Int := f.rows.length
    let j := if i < 0 then n + i else i
    if j < 0 ∨ j ≥ n then pure (.err "IndexError")
    else match f.rows[j.toNat]? with
      | some r => pure (.val (.list r))
      | none => pure (.err "IndexError")
  | .list [.str "len", .int s] => do
    let f ← getFrame rs s
    pure (.val (.int f.rows.length))
  | _ => none

/-- `append(row)` mutates one frame in place: only that register changes. -/
def appendAt (rs : List Res) (s : Int) (row : List PyVal) : Option (List Res) := do
  let f ← getFrame rs s
  pure (rs.set s.toNat (.frame { f with rows := f.rows ++ [row] }))

def evalProg (rs : List Res) : List PyVal → Option (List Res)
  | [] => some rs
  | .list [.str "append", .int s, .list row] :: ops => do
    let rs' ← appendAt rs s row
    evalProg (rs' ++ [.val .none]) ops
  | op :: ops => do
    let r ← step rs op
    evalProg (rs ++ [r]) ops

def handle (op : String) (args : List PyVal) : Option (List PyVal) :=
  match op, args with
  | "prog", [.list names, .bool typed, .list rows, .list ops] => do
    let names ← asStrs names
    let rows ← rows.mapM fun r => match r with
      | .list xs => some xs
      | _ => none
    let rs ← evalProg [.frame { names := names, typed := typed, rows := rows }] ops
    pure [.list (rs.map encodeRes)]
  | _, _ => none

end Drv.C03
