import OrsoVerif.Model.PyVal
import OrsoVerif.Model.Profile
import OrsoVerif.Model.ProfileTime
/-! Driver glue for C15: decode a typed column, run the profiler model, encode the profile. -/
namespace Drv.C15
open Profile

def encOptInt : Option Int → PyVal
  | none => .none
  | some i => .int i

def encCore (c : Core) : PyVal :=
  .list [.int c.count, .int c.missing, encOptInt c.minimum, encOptInt c.maximum]

def decOptInt : PyVal → Option (Option Int)
  | .none => some none
  | .int i => some (some i)
  | _ => none

def decCore : PyVal → Option Core
  | .list [.int c, .int m, lo, hi] => do
    if c < 0 || m < 0 then none
    let lo ← decOptInt lo
    let hi ← decOptInt hi
    pure { count := c.toNat, missing := m.toNat, minimum := lo, maximum := hi }
  | _ => none

def encProf {α : Type} (enc : α → PyVal) (p : Prof α) : List PyVal :=
  [ encCore p.core,
    .list (p.mfv.map (fun vc => .list [enc vc.1, .int vc.2])),
    .list (p.kmv.map (fun h => .int (Int.ofNat h))),
    (match estimateCardinality Gen.Profile.kvmSize p.kmv with
      | some n => .int n
      | none => .str "ZeroDivisionError"),
    encOptInt p.order,
    .int p.transitions ]

/-- A column cell: `None` or a value understood by `dec`. -/
def decCol {α : Type} (dec : PyVal → Option α) (vs : List PyVal) : Option (List (Option α)) :=
  vs.mapM (fun v => match v with
    | .none => some none
    | w => (dec w).map some)

def decRat : PyVal → Option Rat
  | .list [.int n, .int d] => if d > 0 then some (mkRat n d.toNat) else none
  | _ => none

def encRat (q : Rat) : PyVal := .list [.int q.num, .int q.den]

def decInt : PyVal → Option Int
  | .int i => some i
  | _ => none

def decStr : PyVal → Option String
  | .str s => some s
  | _ => none

def decBool : PyVal → Option Bool
  | .bool b => some b
  | _ => none

/-- The hash function as a table `[[value, hash], …]`; every non-null value must be listed. -/
def decTable {α : Type} (dec : PyVal → Option α) (t : List PyVal) : Option (List (α × Nat)) :=
  t.mapM (fun e => match e with
    | .list [v, .int h] => if h < 0 then none else (dec v).map (fun a => (a, h.toNat))
    | _ => none)

def lookupHash {α : Type} [DecidableEq α] (t : List (α × Nat)) (a : α) : Option Nat :=
  (t.find? (fun p => p.1 = a)).map (·.2)

def covered {α : Type} [DecidableEq α] (t : List (α × Nat)) (xs : List (Option α)) : Bool :=
  (present xs).all (fun a => (lookupHash t a).isSome)

def ratOps (t : List (Rat × Nat)) : Ops Rat :=
  { le := ratLe, lt := ratLt, key := truncRat,
    hash := fun a => (lookupHash t a).getD 0 }

def intOps (t : List (Int × Nat)) : Ops Int :=
  { le := intLe, lt := intLt, key := id,
    hash := fun a => (lookupHash t a).getD 0 }

def strOps (t : List (String × Nat)) : Ops String :=
  { le := strLe, lt := strLt, key := stringToInt64,
    hash := fun a => (lookupHash t a).getD 0 }

def decBatch : PyVal → Option Nat
  | .none => some Gen.Profile.batchSize
  | .int k => if k > 0 then some k.toNat else none
  | _ => none

def encOptCore : Option Core → List PyVal
  | none => [.none]
  | some c => [encCore c]

def decUnit : String → Option TUnit
  | "W" => some .W | "D" => some .D | "h" => some .h | "m" => some .m | "s" => some .s
  | "ms" => some .ms | "us" => some .us | "ns" => some .ns | _ => none

/-- A temporal cell as the harness describes the Python object: `["c", y, mo, d, h, mi, s, us, offset minutes]`
(date / datetime), `["u", unit, ticks]` (numpy.datetime64), `["p", unit, ticks]` (pandas.Timestamp). -/
def decDateCell : PyVal → Option DateCell
  | .list [.str "c", .int y, .int mo, .int d, .int h, .int mi, .int s, .int us, .int off] =>
    if y < 0 || mo < 0 || d < 0 || h < 0 || mi < 0 || s < 0 || us < 0 then none
    else some (.civil ⟨y.toNat, mo.toNat, d.toNat, h.toNat, mi.toNat, s.toNat, us.toNat⟩ off)
  | .list [.str "u", .str u, .int n] => (decUnit u).map (fun u => .ticks u n)
  | .list [.str "p", .str u, .int n] => (decUnit u).map (fun u => .stamp u n)
  | _ => none

/-- The profile the implementation holds for one side of a cut: `DataFrame.profile` of that side, i.e. the fold of
`from_dataframe` over its batches (one batch unless the side is above the batch size); a side without rows has
no column profile and `TableProfile.__add__` puts the empty stand-in there, which is the profile of `[]`. -/
def sideProf {α : Type} [DecidableEq α] (prof : List (Option α) → Prof α) (xs : List (Option α)) : Prof α :=
  (batchedProf prof Gen.Profile.batchSize xs).getD (prof xs)

def handle (op : String) (args : List PyVal) : Option (List PyVal) :=
  match op, args with
  | "profilecells", [.list vals, .list table] => do
    -- DateProfiler from the cells: the conversion to epoch seconds (chains regenerated from the source), then
    -- the temporal profile of the seconds; a value missing from the hash table hashes to 0 (the harness compares
    -- the seconds first)
    let cells ← decCol decDateCell vals
    let t ← decTable decInt table
    match dateSeconds cells with
    | .error e => pure [.str "raised", .str e]
    | .ok secs => pure ([.str "ok", .list (secs.map encOptInt)] ++ encProf (fun i => .int i) (profileTemporal (intOps t) secs))
  | "profile", [.str "numeric", .list vals, .list table] => do
    let xs ← decCol decRat vals
    let t ← decTable decRat table
    if !covered t xs then none
    pure (encProf encRat (profileNumeric (ratOps t) xs))
  | "profile", [.str "temporal", .list vals, .list table] => do
    let xs ← decCol decInt vals
    let t ← decTable decInt table
    if !covered t xs then none
    pure (encProf (fun i => .int i) (profileTemporal (intOps t) xs))
  | "profile", [.str "text", .list vals, .list table] => do
    let xs ← decCol decStr vals
    let t ← decTable decStr table
    if !covered t xs then none
    pure (encProf (fun s => .str s) (profileText (strOps t) cutText xs))
  | "profile", [.str "boolean", .list vals, .list []] => do
    let xs ← decCol decBool vals
    pure (encProf (fun b => .bool b) (profileBoolean xs))
  | "profile", [.str "counts", .list vals, .list []] => do
    let xs ← decCol (fun v => some v) vals
    pure (encProf id (profileCounts xs))
  | "sum", [.str "numeric", .list va, .list vb, .list table] => do
    let xa ← decCol decRat va
    let xb ← decCol decRat vb
    let t ← decTable decRat table
    if !covered t xa || !covered t xb then none
    pure (encProf encRat (addProf (sideProf (profileNumeric (ratOps t)) xa) (sideProf (profileNumeric (ratOps t)) xb)))
  | "sum", [.str "temporal", .list va, .list vb, .list table] => do
    let xa ← decCol decInt va
    let xb ← decCol decInt vb
    let t ← decTable decInt table
    if !covered t xa || !covered t xb then none
    pure (encProf (fun i => .int i) (addProf (sideProf (profileTemporal (intOps t)) xa) (sideProf (profileTemporal (intOps t)) xb)))
  | "sum", [.str "text", .list va, .list vb, .list table] => do
    let xa ← decCol decStr va
    let xb ← decCol decStr vb
    let t ← decTable decStr table
    if !covered t xa || !covered t xb then none
    pure (encProf (fun s => .str s) (addProf (sideProf (profileText (strOps t) cutText) xa) (sideProf (profileText (strOps t) cutText) xb)))
  | "sum", [.str "boolean", .list va, .list vb, .list []] => do
    let xa ← decCol decBool va
    let xb ← decCol decBool vb
    pure (encProf (fun b => .bool b) (addProf (sideProf profileBoolean xa) (sideProf profileBoolean xb)))
  | "batchedfull", [.str "numeric", n, .list vals, .list table] => do
    let n ← decBatch n
    let xs ← decCol decRat vals
    let t ← decTable decRat table
    if !covered t xs then none
    match batchedProf (profileNumeric (ratOps t)) n xs with
    | none => pure [.none]
    | some p => pure (encProf encRat p)
  | "batchedfull", [.str "temporal", n, .list vals, .list table] => do
    let n ← decBatch n
    let xs ← decCol decInt vals
    let t ← decTable decInt table
    if !covered t xs then none
    match batchedProf (profileTemporal (intOps t)) n xs with
    | none => pure [.none]
    | some p => pure (encProf (fun i => .int i) p)
  | "batchedfull", [.str "text", n, .list vals, .list table] => do
    let n ← decBatch n
    let xs ← decCol decStr vals
    let t ← decTable decStr table
    if !covered t xs then none
    match batchedProf (profileText (strOps t) cutText) n xs with
    | none => pure [.none]
    | some p => pure (encProf (fun s => .str s) p)
  | "add", [a, b] => do
    let a ← decCore a
    let b ← decCore b
    pure [encCore (addCore a b)]
  | "batched", [.str "numeric", n, .list vals] => do
    let n ← decBatch n
    let xs ← decCol decRat vals
    pure (encOptCore (batched (fun c => (profileNumeric (ratOps []) c).core) n xs))
  | "batched", [.str "temporal", n, .list vals] => do
    let n ← decBatch n
    let xs ← decCol decInt vals
    pure (encOptCore (batched (fun c => (profileTemporal (intOps []) c).core) n xs))
  | "batched", [.str "text", n, .list vals] => do
    let n ← decBatch n
    let xs ← decCol decStr vals
    pure (encOptCore (batched (fun c => (profileText (strOps []) cutText c).core) n xs))
  | "batched", [.str "boolean", n, .list vals] => do
    let n ← decBatch n
    let xs ← decCol decBool vals
    pure (encOptCore (batched (fun c => (profileBoolean c).core) n xs))
  | "batched", [.str "counts", n, .list vals] => do
    let n ← decBatch n
    let xs ← decCol (fun v => some v) vals
    pure (encOptCore (batched (fun c => (profileCounts c).core) n xs))
  | _, _ => none

end Drv.C15
