import OrsoVerif.Model.PyVal
import OrsoVerif.Model.TypeName
/-! Driver glue for C06: text in, the model's 5-tuple (or exception class) out. -/
namespace Drv.C06
open TypeName Gen.TypeName

def str (s : Str) : PyVal := .str (String.ofList s)

def optNat : Option Nat → PyVal
  | none => .none
  | some n => .int n

def encTy : Ty → PyVal
  | .member m => str m
  | .zero => .int 0

def encRes : Res → PyVal
  | .ok d => .list [.str "ok", encTy d.ty, optNat d.length, optNat d.precision, optNat d.scale,
      match d.elem with | none => .none | some e => str e]
  | .error .valueError => .list [.str "err", .str "ValueError"]
  | .error (.other n) => .list [.str "err", str n]

def decTy : PyVal → Option Ty
  | .str s => some (.member s.toList)
  | .int 0 => some .zero
  | _ => none

def decOptNat : PyVal → Option (Option Nat)
  | .none => some none
  | .int i => if i ≥ 0 then some (some i.toNat) else none
  | _ => none

def decOptStr : PyVal → Option (Option Str)
  | .none => some none
  | .str s => some (some s.toList)
  | _ => none

/-- the column, its type code, and what the type code resolves back to -/
def describeOne (c : Res) : List PyVal :=
  match c with
  | .error _ => [encRes c, .none, .none]
  | .ok d =>
    match typeCodeP d with
    | none => [encRes c, .none, .none]
    | some code => [encRes c, str code, encRes (fromName code)]

def decStrList : List PyVal → Option (List Str)
  | [] => some []
  | .str s :: rest => (decStrList rest).map (s.toList :: ·)
  | _ => none

/-- [name, aliases, type, length, precision, scale, element type] -/
def decCol : PyVal → Option Col
  | .list [.str n, .list al, ty, len, p, q, e] => do
    pure { name := n.toList, aliases := ← decStrList al,
           desc := { ty := ← decTy ty, length := ← decOptNat len, precision := ← decOptNat p,
                     scale := ← decOptNat q, elem := ← decOptStr e } }
  | _ => none

/-- one row of the character table the harness reads off the interpreter under test:
[char, char.upper(), matches \d, matches \s, matches \w, unicodedata.decimal(char)] -/
structure CharRow where
  c : Char
  up : Str
  d : Bool
  s : Bool
  w : Bool
  val : Nat

def decRow : PyVal → Option CharRow
  | .list [.str c, .str u, .bool d, .bool s, .bool w, .int v] =>
    match c.toList with
    | [ch] => if v ≥ 0 then some { c := ch, up := u.toList, d := d, s := s, w := w, val := v.toNat } else none
    | _ => none
  | _ => none

/-- the `Chars` (Unicode behaviour of `str.upper`, `\d`, `\s`, `\w`, `int`) given by a table; a character
without a row is its own upper case and in no class. -/
def tableChars (rows : List CharRow) : Chars :=
  let find := fun (c : Char) => rows.find? (fun r => r.c == c)
  { upper := fun t => t.flatMap (fun c => match find c with | some r => r.up | none => [c]),
    isD := fun c => match find c with | some r => r.d | none => false,
    isS := fun c => match find c with | some r => r.s | none => false,
    isW := fun c => match find c with | some r => r.w | none => false,
    toInt := fun ds =>
      if ds = [] ∨ (intMaxStrDigits ≠ 0 ∧ intMaxStrDigits < ds.length) then .error .valueError
      else .ok (ds.foldl (fun acc c => acc * 10 + (match find c with | some r => r.val | none => 0)) 0) }

/-- a step of a session: ["frame", j] | ["read", k] | ["set", j, i, type, length, precision, scale, element type]
| ["rename", j, i, name] -/
def decSOp : PyVal → Option SOp
  | .list [.str "frame", .int j] => if j ≥ 0 then some (.frame j.toNat) else none
  | .list [.str "read", .int k] => if k ≥ 0 then some (.read k.toNat) else none
  | .list [.str "set", .int j, .int i, ty, len, p, q, e] => do
    if j < 0 ∨ i < 0 then none
    pure (.redeclare j.toNat i.toNat { ty := ← decTy ty, length := ← decOptNat len, precision := ← decOptNat p,
                                        scale := ← decOptNat q, elem := ← decOptStr e })
  | .list [.str "rename", .int j, .int i, .str n] => if j ≥ 0 ∧ i ≥ 0 then some (.rename j.toNat i.toNat n.toList) else none
  | _ => none

def encEntries : Option (List Entry) → PyVal
  | none => .none
  | some es => .list (es.map fun e => .list [str e.name, str e.code, optNat e.precision, optNat e.scale])

def handle (op : String) (args : List PyVal) : Option (List PyVal) :=
  match op, args with
  | "from_name", [.str s] => some [encRes (fromName s.toList)]
  | "from_name_u", [.str s, .list rows] => do
    -- any Python str: the Unicode tables come from the interpreter under test
    let rs ← rows.mapM decRow
    pure [encRes (fromNameU (tableChars rs) s.toList)]
  | "column", [.str s] =>
    -- FlatColumn(type=s): the column, its type code, and what the type code resolves back to
    some (describeOne (declare s.toList))
  | "parse", [.str s] =>
    -- `_parse_type` on already upper-cased text
    match parseType s.toList with
    | .error .valueError => some [.list [.str "err", .str "ValueError"]]
    | .error (.other n) => some [.list [.str "err", str n]]
    | .ok (.array b) => some [.list [.str "ARRAY", str b]]
    | .ok (.decimal p q) => some [.list [.str "DECIMAL", .int p, .int q]]
    | .ok (.varchar n) => some [.list [.str "VARCHAR", .int n]]
    | .ok (.blob n) => some [.list [.str "BLOB", .int n]]
    | .ok (.bare b) => some [.list [.str "bare", str b]]
  | "code", [ty, len, p, q, e] => do
    -- the type code `description` reports for a column with these five attributes, and what it resolves to
    let d : Desc := { ty := ← decTy ty, length := ← decOptNat len, precision := ← decOptNat p,
                      scale := ← decOptNat q, elem := ← decOptStr e }
    match typeCodeP d with
    | none => pure [.none, .none]
    | some code => pure [str code, encRes (fromName code)]
  | "column_x", [.str s, e, p, q, len] => do
    -- FlatColumn(type=s, element_type=e, precision=p, scale=q, length=len)
    let x : Explicit := { elem := ← decOptStr e, precision := ← decOptNat p, scale := ← decOptNat q,
                          length := ← decOptNat len }
    pure (describeOne (declareWith s.toList x))
  | "enum", [.str m, e, p, q, len] => do
    -- FlatColumn(type=OrsoTypes.<m>, element_type=e, precision=p, scale=q, length=len)
    let x : Explicit := { elem := ← decOptStr e, precision := ← decOptNat p, scale := ← decOptNat q,
                          length := ← decOptNat len }
    pure (describeOne (.ok (declareEnum m.toList x)))
  | "describe", [.list cols] => do
    -- DataFrame(schema=RelationSchema(columns=cols)).description: [name, code, precision, scale] per column
    let cs ← cols.mapM decCol
    match describe cs with
    | none => pure [.none]
    | some es => pure [.list (es.map fun e => .list [str e.name, str e.code, optNat e.precision, optNat e.scale])]
  | "session", [.list schemas, .list ops] => do
    -- frames over shared schemas, columns redeclared between reads: what every read of description returns
    let ss ← schemas.mapM fun sc => match sc with
      | .list cols => cols.mapM decCol
      | _ => none
    let os ← ops.mapM decSOp
    pure [.list ((session { schemas := ss } os).map encEntries)]
  | "tables", [] =>
    some [.list (baseTypes.map str), .list (scalarTypes.map str), .list (memberNames.map str), .bool regexPinned]
  | _, _ => none

end Drv.C06
