import OrsoVerif.Model.PyVal
import OrsoVerif.Model.TypeName
/-! Driver glue for C06: text in, the model's 5-tuple (or exception class) out. -/
namespace Drv.C06
open TypeName Gen.TypeName

def str (s : Str) : PyVal := .str (String.ofList s)

def optNat : Option Nat → PyVal
  | none => .none
  | some n => .int n

def encTy : Ty → PyVal
  | .member m => str m
  | .zero => .int 0

def encRes : Res → PyVal
  | .ok d => .list [.str "ok", encTy d.ty, optNat d.length, optNat d.precision, optNat d.scale,
      match d.elem with | none => .none | some e => str e]
  | .error .valueError => .list [.str "err", .str "ValueError"]
  | .error (.other n) => .list [.str "err", str n]

def decTy : PyVal → Option Ty
  | .str s => some (.member s.toList)
  | .int 0 => some .zero
  | _ => none

def decOptNat : PyVal → Option (Option Nat)
  | .none => some none
  | .int i => if i ≥ 0 then some (some i.toNat) else none
  | _ => none

def decOptStr : PyVal → Option (Option Str)
  | .none => some none
  | .str s => some (some s.toList)
  | _ => none

def handle (op : String) (args : List PyVal) : Option (List PyVal) :=
  match op, args with
  | "from_name", [.str s] => some [encRes (fromName s.toList)]
  | "column", [.str s] =>
    -- FlatColumn(type=s): the column, its type code, and what the type code resolves back to
    let c := declare s.toList
    match c with
    | .error _ => some [encRes c, .none, .none]
    | .ok d =>
      match typeCode d with
      | none => some [encRes c, .none, .none]
      | some code => some [encRes c, str code, encRes (fromName code)]
  | "parse", [.str s] =>
    -- `_parse_type` on already upper-cased text
    match parseType s.toList with
    | .error .valueError => some [.list [.str "err", .str "ValueError"]]
    | .error (.other n) => some [.list [.str "err", str n]]
    | .ok (.array b) => some [.list [.str "ARRAY", str b]]
    | .ok (.decimal p q) => some [.list [.str "DECIMAL", .int p, .int q]]
    | .ok (.varchar n) => some [.list [.str "VARCHAR", .int n]]
    | .ok (.blob n) => some [.list [.str "BLOB", .int n]]
    | .ok (.bare b) => some [.list [.str "bare", str b]]
  | "code", [ty, len, p, q, e] => do
    -- the type code `description` reports for a column with these five attributes, and what it resolves to
    let d : Desc := { ty := ← decTy ty, length := ← decOptNat len, precision := ← decOptNat p,
                      scale := ← decOptNat q, elem := ← decOptStr e }
    match typeCode d with
    | none => pure [.none, .none]
    | some code => pure [str code, encRes (fromName code)]
  | "tables", [] =>
    some [.list (baseTypes.map str), .list (scalarTypes.map str), .list (memberNames.map str), .bool regexPinned]
  | _, _ => none

end Drv.C06
