import OrsoVerif.Model.PyVal
import OrsoVerif.Model.RowCodec
import OrsoVerif.Model.RowStream
import OrsoVerif.Model.RowObject
/-! Driver glue for C01: pack / header / encode / decode / frame / bigframe / mutants / split / stream. -/
namespace Drv.C01
open RowBytes MsgPack RowCodec RowStream

def encErr : EncErr → PyVal
  | .tooLarge => .list [.str "err", .str "tooLarge"]
  | .overflow => .list [.str "err", .str "overflow"]
  | .codec => .list [.str "err", .str "codec"]
  | .unknownOp => .list [.str "err", .str "unknownOp"]
  | .attribute => .list [.str "err", .str "raises AttributeError"]

def decErr : DecErr → PyVal
  | .malformed => .list [.str "err", .str "malformed"]
  | .badLength => .list [.str "err", .str "badLength"]
  | .payloadError => .list [.str "err", .str "payloadError"]
  | .unknownOp => .list [.str "err", .str "unknownOp"]

def item : Item → PyVal
  | .val v => .list [.str "v", v]
  | .datetime x => .list [.str "dt", x]

def decRes : Except DecErr (List Item) → PyVal
  | .ok items => .list [.str "ok", .list (items.map item)]
  | .error e => decErr e

/-- One alteration of a record, described by the harness: a tear (`take k`), a single-bit flip
(`flipBit`, the function the theorems speak about), an appended suffix, a replaced byte. -/
def applyMut (r : RowBytes.Bytes) : PyVal → Option RowBytes.Bytes
  | .list [.str "t", .int k] => if k < 0 then none else some (r.take k.toNat)
  | .list [.str "f", .int i, .int j] => if i < 0 ∨ j < 0 then none else some (flipBit r i.toNat j.toNat)
  | .list [.str "x", .bytes s] => some (r ++ s)
  | .list [.str "l", .bytes b] => if b.length = 4 then some (r.take 2 ++ b ++ r.drop 6) else none
  | .list [.str "s", .int i, .int b] =>
    if i < 0 ∨ b < 0 ∨ b > 255 then none else some (setByte r i.toNat (UInt8.ofNat b.toNat))
  | _ => none

def mutRes (base : PyVal) (r : RowBytes.Bytes) : List PyVal → Option (List PyVal)
  | [] => some []
  | m :: ms =>
    match applyMut r m, mutRes base r ms with
    | some d, some out =>
      let x := decRes (decodeRow d)
      some ((if x = base then .str "same" else x) :: out)
    | _, _ => none

/-- the calls of an `objseq` case: `["a", ts]` = `as_bytes` with that clock, `["n", ts]` = `nbytes()`, `["e", items]` = the
lists / maps inside the row were edited in place, the object now holds `items` -/
def objOps : List PyVal → Option (List RowObject.Op)
  | [] => some []
  | .list [.str "a", .int ts] :: rest => if ts < 0 then none else (objOps rest).map (RowObject.Op.asBytes ts.toNat :: ·)
  | .list [.str "n", .int ts] :: rest => if ts < 0 then none else (objOps rest).map (RowObject.Op.nbytes ts.toNat :: ·)
  | .list [.str "e", .list items] :: rest => (objOps rest).map (RowObject.Op.edit items :: ·)
  | _ => none

def objRes : RowObject.Res → PyVal
  | .record (.ok r) => .list [.str "ok", .bytes r]
  | .record (.error e) => encErr e
  | .size (.ok (some n)) => .list [.str "ok", .int n]
  | .size (.ok none) => .list [.str "ok", .none]
  | .size (.error e) => encErr e
  | .edited => .list [.str "edited"]

/-- Run-length compression of a list of outcomes. -/
def runs : List PyVal → List (PyVal × Nat)
  | [] => []
  | x :: xs =>
    match runs xs with
    | (y, n) :: rest => if x = y then (y, n + 1) :: rest else (x, 1) :: (y, n) :: rest
    | [] => [(x, 1)]

def handle (op : String) (args : List PyVal) : Option (List PyVal) :=
  match op, args with
  | "pack", [.list row] =>
    match packRow row with
    | some p => some [.list [.str "ok", .bytes p]]
    | none => some [.list [.str "err", .str "codec"]]
  | "header", [.int len, .int ts] =>
    if len < 0 ∨ ts < 0 then none else some [.bytes (header len.toNat ts.toNat)]
  | "encode", [.int ts, .list row] =>
    if ts < 0 then none else
    match encodeRow ts.toNat row with
    | .ok r => some [.list [.str "ok", .bytes r]]
    | .error e => some [encErr e]
  | "decode", [.bytes data] =>
    match decodeRow data with
    | .ok items => some [.list [.str "ok", .list (items.map item)]]
    | .error e => some [decErr e]
  | "unpackb", [.bytes data] =>
    match unpackb data with
    | some v => some [.list [.str "ok", v]]
    | none => some [.list [.str "err", .str "payloadError"]]
  | "frame", [.bytes data] =>
    match checkFrame data with
    | .ok p => some [.list [.str "ok", .bytes p]]
    | .error e => some [decErr e]
  -- length-only op for very large records (a payload of `n` bytes framed with `ts`, `cut` bytes
  -- removed from the end, `ext` bytes appended). Nothing of that size is materialised: the model
  -- decides from the length (`frameDecision`, the function `encodeFrame` calls), assembles the
  -- parts around an empty payload (`frameBytes n ts []`: the header, the payload being the last
  -- part) and runs the decoder's guards (`checkHead`, the function `checkFrame` calls) on the
  -- total length and those first bytes -- the guards read nothing beyond them (checked here).
  | "bigframe", [.int n, .int ts, .int cut, .int ext] =>
    if n < 0 ∨ ts < 0 ∨ cut < 0 ∨ ext < 0 then none else
    match frameDecision ts.toNat n.toNat with
    | some e => some [encErr e]
    | none =>
      let head := frameBytes n.toNat ts.toNat []
      let total := head.length + n.toNat
      let len2 := total - cut.toNat + ext.toNat
      let reads := 0 :: Gen.Row.lengthField.map (·.1)
      if Gen.Row.frameLayout.getLast? != some "payload" ∨ reads.any (· ≥ head.length) ∨ len2 < head.length then
        some [.list [.str "err", .str "unknownOp"]]
      else
        let res := match checkHead len2 head with
          | .ok _ => PyVal.list [.str "ok", .int ((len2 - Gen.Row.payloadStart : Nat) : Int)]
          | .error e => decErr e
        some [.list [.str "ok", .bytes head, .int total], res]
  -- the record, then every listed alteration of it: the outcome of the decoder model on each
  -- ("same" = the outcome on the unaltered record)
  | "mutants", [.bytes r, .list ms] =>
    let base := decRes (decodeRow r)
    match mutRes base r ms with
    | some out => some [base, .list out]
    | none => none
  -- every tear point `lo ≤ k < hi` of a record: the decoder model on `r.take k` (the expression of theorem
  -- `torn_rejected`), answered as runs of equal outcomes
  | "tears", [.bytes r, .int lo, .int hi] =>
    if lo < 0 ∨ hi < lo then none else
    let outs := (List.range' lo.toNat (hi.toNat - lo.toNat)).map (fun k => decRes (decodeRow (r.take k)))
    some [.list ((runs outs).map (fun p => .list [p.1, .int p.2]))]
  | "split", [.bytes data] =>
    match split data with
    | .ok rs => some [.list [.str "ok", .list (rs.map PyVal.bytes)]]
    | .error e => some [decErr e]
  | "stream", [.bytes data] =>
    match decodeStream data with
    | .ok rows => some [.list [.str "ok", .list (rows.map fun r => .list (r.map item))]]
    | .error e => some [decErr e]
  -- one row object (`d`: has a `__dict__`) and a sequence of calls on it: the machine made of the translated
  -- `Row.as_bytes` / `Row.nbytes` (theorem `object_history_irrelevant`)
  | "objseq", [.bool d, .list row, .list ops] =>
    match objOps ops with
    | some os => some [.list ((RowObject.run d (RowObject.fresh row) os).map objRes)]
    | none => none
  -- `cls(data)`: the translated `Row.__new__` on a tuple (`["t", items]`) or a dictionary (`["d", exact, {…}]`);
  -- `fields` = `cls._fields` or None
  | "rownew", [fields, arg] =>
    let fs : Option (Option (List String)) := match fields with
      | .none => some none
      | .list xs => (xs.mapM (fun (x : PyVal) => match x with | PyVal.str t => some t | _ => none)).map some
      | _ => none
    let a : Option RowGlue.NewArg := match arg with
      | .list [.str "t", .list items] => some (.tuple items)
      | .list [.str "d", .bool e, .dict es] => some (.dict e es)
      | .list [.str "m", .dict es] => some (.mapping es)
      | _ => none
    match fs, a with
    | some f, some x =>
      match Gen.RowFns.row_new f x with
      | .ok items => some [.list [.str "ok", .list items]]
      | .error e => some [.list [.str "err", .str e]]
    | _, _ => none
  | _, _ => none

end Drv.C01
