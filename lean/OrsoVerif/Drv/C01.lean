import OrsoVerif.Model.PyVal
import OrsoVerif.Model.RowCodec
/-! Driver glue for C01: pack / header / encode / decode / frame / bigframe. -/
namespace Drv.C01
open RowBytes MsgPack RowCodec

def encErr : EncErr → PyVal
  | .tooLarge => .list [.str "err", .str "tooLarge"]
  | .overflow => .list [.str "err", .str "overflow"]
  | .codec => .list [.str "err", .str "codec"]

def decErr : DecErr → PyVal
  | .malformed => .list [.str "err", .str "malformed"]
  | .badLength => .list [.str "err", .str "badLength"]
  | .payloadError => .list [.str "err", .str "payloadError"]
  | .unknownOp => .list [.str "err", .str "unknownOp"]

def item : Item → PyVal
  | .val v => .list [.str "v", v]
  | .datetime x => .list [.str "dt", x]

def handle (op : String) (args : List PyVal) : Option (List PyVal) :=
  match op, args with
  | "pack", [.list row] =>
    match packRow row with
    | some p => some [.list [.str "ok", .bytes p]]
    | none => some [.list [.str "err", .str "codec"]]
  | "header", [.int len, .int ts] =>
    if len < 0 ∨ ts < 0 then none else some [.bytes (header len.toNat ts.toNat)]
  | "encode", [.int ts, .list row] =>
    if ts < 0 then none else
    match encodeRow ts.toNat row with
    | .ok r => some [.list [.str "ok", .bytes r]]
    | .error e => some [encErr e]
  | "decode", [.bytes data] =>
    match decodeRow data with
    | .ok items => some [.list [.str "ok", .list (items.map item)]]
    | .error e => some [decErr e]
  | "unpackb", [.bytes data] =>
    match unpackb data with
    | some v => some [.list [.str "ok", v]]
    | none => some [.list [.str "err", .str "payloadError"]]
  | "frame", [.bytes data] =>
    match checkFrame data with
    | .ok p => some [.list [.str "ok", .bytes p]]
    | .error e => some [decErr e]
  -- length-only op for very large records: payload of `n` zero bytes framed with `ts`, then
  -- `cut` bytes removed from the end and `ext` zero bytes appended; reports the header and what
  -- the guards say.
  | "bigframe", [.int n, .int ts, .int cut, .int ext] =>
    if n < 0 ∨ ts < 0 ∨ cut < 0 ∨ ext < 0 then none else
    match encodeFrame ts.toNat (List.replicate n.toNat 0) with
    | .error e => some [encErr e]
    | .ok r =>
      let r2 := r.take (r.length - cut.toNat) ++ List.replicate ext.toNat 0
      let res := match checkFrame r2 with
        | .ok p => PyVal.list [.str "ok", .int p.length]
        | .error e => decErr e
      some [.list [.str "ok", .bytes (r.take 14), .int r.length], res]
  | _, _ => none

end Drv.C01
