import OrsoVerif.Model.PyVal
import OrsoVerif.Model.Cursor
/-! Driver glue for C04: decode a history, run the cursor machine, encode the outputs. -/
namespace Drv.C04
open Cursor

def decodeOp : PyVal → Option (Op PyVal)
  | .list [.str "fetchone"] => some .fetchone
  | .list [.str "fetchmany", .none] => some (.fetchmany none)
  | .list [.str "fetchmany", .int k] => if k ≥ 0 then some (.fetchmany (some k.toNat)) else none
  | .list [.str "fetchall"] => some .fetchall
  | .list [.str "arraysize", .int k] => if k ≥ 0 then some (.setArraysize k.toNat) else none
  | .list [.str "observe"] => some .observe
  | .list [.str "append", r] => some (.append r)
  | _ => none

def encodeOut : Out PyVal → PyVal
  | .one none => .list [.str "one", .none]
  | .one (some r) => .list [.str "one", r]
  | .many rs => .list [.str "many", .list rs]
  | .unit => .list [.str "unit"]
  | .err => .list [.str "err"]

def handle (op : String) (args : List PyVal) : Option (List PyVal) :=
  match op, args with
  | "run", [.int d, .list rows, .list ops] => do
    if d < 0 then none
    let ops ← ops.mapM decodeOp
    let (s, outs) := run (init d.toNat rows) ops
    pure [.list (outs.map encodeOut), .int s.pos, .bool s.valid, .list s.rows]
  | _, _ => none

end Drv.C04
