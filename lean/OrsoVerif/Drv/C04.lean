import OrsoVerif.Model.PyVal
import OrsoVerif.Model.Cursor
/-! Driver glue for C04: decode a frame description and a history, run the code machine
(`Cursor.Impl`) and the spec machine (`Cursor.step`) side by side, encode the outputs. -/
namespace Drv.C04
open Cursor

def decodeObs : String → Option Obs
  | "pure" => some .pure
  | "rows" => some .rows
  | "nbytes" => some .nbytes
  | _ => none

def decodeOp : PyVal → Option (Op PyVal)
  | .list [.str "fetchone"] => some .fetchone
  | .list [.str "fetchmany", .none] => some (.fetchmany none)
  | .list [.str "fetchmany", .int k] => if k ≥ 0 then some (.fetchmany (some k.toNat)) else none
  | .list [.str "fetchall"] => some .fetchall
  | .list [.str "arraysize", .int k] => if k ≥ 0 then some (.setArraysize k.toNat) else none
  | .list [.str "observe"] => some (.observe .rows)
  | .list [.str "observe", .str k] => (decodeObs k).map .observe
  | .list [.str "append", r] => some (.append r)
  -- an append left by an exception at statement `stage` of `append` (index into `Gen.Cursor.appendPoints`)
  | .list [.str "reject", .int stage, r] => if stage ≥ 0 then some (.reject stage.toNat false r) else none
  | _ => none

def encodeOut : Out PyVal → PyVal
  | .one none => .list [.str "one", .none]
  | .one (some r) => .list [.str "one", r]
  | .many rs => .list [.str "many", .list rs]
  | .unit => .list [.str "unit"]
  | .err => .list [.str "err"]
  | .outside => .list [.str "outside"]

def decodeTables : List PyVal → Option (List (List PyVal))
  | [] => some []
  | .list t :: ts => (decodeTables ts).map (t :: ·)
  | _ => none

/-- `["eager", rows, dicts, schemaRel]` or `["lazy", tables, maxSize | None, schemaRel]` -/
def decodeFrame (d : Nat) : PyVal → Option (Frame PyVal × List PyVal)
  | .list [.str "eager", .list rows, .bool dicts, .bool rel] => some (Impl.initEager d rows dicts rel, rows)
  | .list [.str "lazy", .list tables, .none, .bool rel] => do
    let ts ← decodeTables tables
    pure (Impl.initLazy d ts none rel, chunkRows ts none)
  | .list [.str "lazy", .list tables, .int m, .bool rel] => do
    if m < 0 then none
    let ts ← decodeTables tables
    pure (Impl.initLazy d ts (some m.toNat) rel, chunkRows ts (some m.toNat))
  | _ => none

def decodeDeriv : String → Option Deriv
  | "slice" => some .slice
  | "head" => some .head
  | "tail" => some .tail
  | "query" => some .query
  | "distinct" => some .distinct
  | "add" => some .add
  | "batches" => some .batches
  | _ => none

/-- `["on", i, op]`, `["derive", i, how, rows]`, `["derive-lazy", i, tables]` -/
def decodeSysOp : PyVal → Option (SysOp PyVal)
  | .list [.str "on", .int i, op] => if i ≥ 0 then (decodeOp op).map (SysOp.on i.toNat) else none
  | .list [.str "derive", .int i, .str how, .list rows] =>
    if i ≥ 0 then (decodeDeriv how).map (fun h => SysOp.derive i.toNat h rows) else none
  | .list [.str "derive-lazy", .int i, .list tables] =>
    if i ≥ 0 then (decodeTables tables).map (SysOp.deriveLazy i.toNat) else none
  | _ => none

def allOwn : Bool :=
  [Deriv.slice, .head, .tail, .query, .distinct, .add, .batches].all Deriv.owns

def handle (op : String) (args : List PyVal) : Option (List PyVal) :=
  match op, args with
  | "run", [.int d, .list rows, .list ops] => do
    if d < 0 then none
    let ops ← ops.mapM decodeOp
    let (s, outs) := run (init d.toNat rows) ops
    pure [.list (outs.map encodeOut), .int s.pos, .bool s.valid, .list s.rows]
  | "frame", [.int d, frame, .list ops] => do
    if d < 0 then none
    let ops ← ops.mapM decodeOp
    let (f0, rows) ← decodeFrame d.toNat frame
    let (f, outs) := Impl.run f0 ops
    let (s, souts) := run (init d.toNat rows) (Impl.annot f0 ops)
    let store := match Impl.store f with
      | some rs => PyVal.list rs
      | none => PyVal.none
    pure [.list (outs.map encodeOut), store, .bool f.live, .list (souts.map encodeOut), .list s.rows, .list rows]
  | "system", [.int d, frame, .list ops] => do
    if d < 0 then none
    let ops ← ops.mapM decodeSysOp
    let (f0, _) ← decodeFrame d.toNat frame
    let (s, outs) := Sys.run (Sys.init d.toNat f0) ops
    let stores := s.frames.map (fun f => match Impl.store f with
      | some rs => PyVal.list rs
      | none => PyVal.none)
    pure [.list (outs.map encodeOut), .list stores, .list (s.frames.map (fun f => PyVal.bool f.live)), .bool allOwn]
  | _, _ => none

end Drv.C04
