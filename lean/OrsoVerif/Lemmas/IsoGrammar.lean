import OrsoVerif.Lemmas.IsoSound
import OrsoVerif.Lemmas.IsoEpochTotal
import OrsoVerif.Model.IsoGrammar
/-! Helper lemmas for C08: the skeleton of the text path accepts exactly the language of `Model/IsoGrammar.lean`.
Nothing generated is unfolded here: the facts about the guards extracted from the source come in through the record
`Iso.Exact`, proved in `Props/C08.lean` (`guards_are_exactly_the_stated_ones`). -/
namespace Iso

/-- **What the grammar characterisation needs from the generated guards**: each of them is *exactly* the stated test
(both directions), the subscripts, slice offsets and characters are the stated ones. -/
structure Exact : Prop where
  idx : Gen.Iso.dashA = 4 ∧ Gen.Iso.dashB = 7 ∧ Gen.Iso.sepIdx = 10 ∧ Gen.Iso.colonA = 13 ∧ Gen.Iso.colonB = 16
  slices : Gen.Iso.slicesDate = [(0, 4), (5, 7), (8, 10)] ∧
    Gen.Iso.slicesSec = [(0, 4), (5, 7), (8, 10), (11, 13), (14, 16), (17, 19)] ∧
    Gen.Iso.slicesMin = [(0, 4), (5, 7), (8, 10), (11, 13), (14, 16)]
  chars : Gen.Iso.zChar = 'Z' ∧ Gen.Iso.plusChar = '+'
  epochInt : Iso.epochAdmits "int" = true
  window : ∀ n : Int, Gen.Iso.lenWindow n ↔ (10 ≤ n ∧ n ≤ 33)
  plus : ∀ n : Int, Gen.Iso.plusReject n ↔ ¬ (10 ≤ n ∧ n ≤ 28)
  dashA : ∀ c, Gen.Iso.dashTestA c ↔ c ≠ '-'
  dashB : ∀ c, Gen.Iso.dashTestB c ↔ c ≠ '-'
  dashJoin : Gen.Iso.dashJoinAnd = false
  dateLen : ∀ n : Int, Gen.Iso.dateLenTest n ↔ n = 10
  timeLen : ∀ n : Int, Gen.Iso.timeLenTest n ↔ n ≥ 16
  minLen : ∀ n : Int, Gen.Iso.minLenTest n ↔ n = 16
  sepA : ∀ c, Gen.Iso.sepTestA c ↔ (c ≠ 'T' ∧ c ≠ ' ')
  sepB : ∀ c, Gen.Iso.sepTestB c ↔ c ≠ ':'
  sepJoin : Gen.Iso.sepJoinAnd = true
  secLen : ∀ n : Int, Gen.Iso.secLenTest n ↔ n ≥ 19
  secChar : ∀ c, Gen.Iso.secCharTest c ↔ c = ':'

theorem idx_some (v : List Char) (i : Nat) (c : Char) (h : v[i]? = some c) : idx v i = .ok c := by
  simp [idx, h]

theorem shaped_closed (E : Exact) (v : List Char) (h9 : 9 ≤ v.length) :
    shaped v =
      if v[4]? = some '-' ∧ v[7]? = some '-' then
        if v.length = 10 then fields v [(0, 4), (5, 7), (8, 10)]
        else if 16 ≤ v.length then
          if sepOk v then
            if 19 ≤ v.length ∧ v[16]? = some ':' then fields v [(0, 4), (5, 7), (8, 10), (11, 13), (14, 16), (17, 19)]
            else if v.length = 16 then fields v [(0, 4), (5, 7), (8, 10), (11, 13), (14, 16)]
            else .ok none
          else .ok none
        else .ok none
      else .ok none := by
  obtain ⟨c4, h4⟩ : ∃ c, v[4]? = some c := ⟨v[4], List.getElem?_eq_getElem (by omega)⟩
  obtain ⟨c7, h7⟩ : ∃ c, v[7]? = some c := ⟨v[7], List.getElem?_eq_getElem (by omega)⟩
  obtain ⟨x4, x7, x10, x13, x16⟩ := E.idx
  obtain ⟨sl1, sl2, sl3⟩ := E.slices
  have dA : ∀ c, decide (Gen.Iso.dashTestA c) = !decide (c = '-') := by
    intro c; by_cases h : c = '-'
    · rw [decide_eq_false (fun hh => (E.dashA c).mp hh h)]; simp [h]
    · rw [decide_eq_true ((E.dashA c).mpr h)]; simp [h]
  have dB : ∀ c, decide (Gen.Iso.dashTestB c) = !decide (c = '-') := by
    intro c; by_cases h : c = '-'
    · rw [decide_eq_false (fun hh => (E.dashB c).mp hh h)]; simp [h]
    · rw [decide_eq_true ((E.dashB c).mpr h)]; simp [h]
  have hdash : dashReject v = .ok (!(decide (c4 = '-') && decide (c7 = '-'))) := by
    simp only [dashReject, x4, x7, idx_some v 4 c4 h4, idx_some v 7 c7 h7, bind_ok, shortCircuit,
      E.dashJoin, dA, dB, Bool.false_eq_true, if_false]
    by_cases e4 : c4 = '-' <;> by_cases e7 : c7 = '-' <;> simp [e4, e7]
  simp only [shaped, hdash, bind_ok, h4, h7, Option.some.injEq]
  by_cases e : c4 = '-' ∧ c7 = '-'
  · obtain ⟨e4, e7⟩ := e
    subst e4 e7
    simp only [decide_true, Bool.and_self, Bool.not_true, Bool.false_eq_true, if_false, and_self, if_true]
    by_cases l10 : v.length = 10
    · have t : Gen.Iso.dateLenTest (v.length : Int) := (E.dateLen _).mpr (by omega)
      rw [if_pos t, if_pos l10, sl1]
    · have t : ¬ Gen.Iso.dateLenTest (v.length : Int) := fun hh => by have := (E.dateLen _).mp hh; omega
      rw [if_neg t, if_neg l10]
      by_cases l16 : 16 ≤ v.length
      · have t2 : Gen.Iso.timeLenTest (v.length : Int) := (E.timeLen _).mpr (by omega)
        rw [if_pos t2, if_pos l16]
        obtain ⟨c10, h10⟩ : ∃ c, v[10]? = some c := ⟨v[10], List.getElem?_eq_getElem (by omega)⟩
        obtain ⟨c13, h13⟩ : ∃ c, v[13]? = some c := ⟨v[13], List.getElem?_eq_getElem (by omega)⟩
        have sA : ∀ c, decide (Gen.Iso.sepTestA c) = (!decide (c = 'T') && !decide (c = ' ')) := by
          intro c
          by_cases h : c ≠ 'T' ∧ c ≠ ' '
          · rw [decide_eq_true ((E.sepA c).mpr h)]; simp [h.1, h.2]
          · rw [decide_eq_false (fun hh => h ((E.sepA c).mp hh))]
            by_cases a : c = 'T' <;> by_cases b : c = ' ' <;> simp_all
        have sB : ∀ c, decide (Gen.Iso.sepTestB c) = !decide (c = ':') := by
          intro c; by_cases h : c = ':'
          · rw [decide_eq_false (fun hh => (E.sepB c).mp hh h)]; simp [h]
          · rw [decide_eq_true ((E.sepB c).mpr h)]; simp [h]
        have hsep : sepReject v = .ok (!decide (sepOk v)) := by
          simp only [sepReject, x10, x13, idx_some v 10 c10 h10, idx_some v 13 c13 h13, bind_ok, shortCircuit,
            E.sepJoin, sA, sB, if_true, sepOk, h10, h13, Option.some.injEq]
          by_cases a : c10 = 'T' <;> by_cases b : c10 = ' ' <;> by_cases c : c13 = ':' <;> simp [a, b, c]
        rw [hsep]
        simp only [bind_ok]
        by_cases hs : sepOk v
        · simp only [hs, decide_true, Bool.not_true, Bool.false_eq_true, if_false, if_true]
          by_cases l19 : 19 ≤ v.length
          · obtain ⟨c16, h16⟩ : ∃ c, v[16]? = some c := ⟨v[16], List.getElem?_eq_getElem (by omega)⟩
            have t3 : Gen.Iso.secLenTest (v.length : Int) := (E.secLen _).mpr (by omega)
            have t4 : ¬ Gen.Iso.minLenTest (v.length : Int) := fun hh => by have := (E.minLen _).mp hh; omega
            have sC : decide (Gen.Iso.secCharTest c16) = decide (c16 = ':') := by
              by_cases h : c16 = ':'
              · rw [decide_eq_true ((E.secChar c16).mpr h)]; simp [h]
              · rw [decide_eq_false (fun hh => h ((E.secChar c16).mp hh))]; simp [h]
            simp only [hasSeconds, shortCircuit, if_true, decide_eq_true t3, x16, idx_some v 16 c16 h16, bind_ok, sC, h16,
              Option.some.injEq, l19, true_and, if_neg t4]
            by_cases h : c16 = ':'
            · simp only [h, decide_true, if_true, sl2]
            · have : ¬ v.length = 16 := by omega
              simp only [h, decide_false, Bool.false_eq_true, if_false, this]
          · have t3 : ¬ Gen.Iso.secLenTest (v.length : Int) := fun hh => by have := (E.secLen _).mp hh; omega
            simp only [hasSeconds, shortCircuit, if_true, decide_eq_false t3, Bool.false_eq_true, if_false, bind_ok, l19, false_and]
            by_cases l16' : v.length = 16
            · have t4 : Gen.Iso.minLenTest (v.length : Int) := (E.minLen _).mpr (by omega)
              rw [if_pos t4, if_pos l16', sl3]
            · have t4 : ¬ Gen.Iso.minLenTest (v.length : Int) := fun hh => by have := (E.minLen _).mp hh; omega
              rw [if_neg t4, if_neg l16']
        · simp only [hs, decide_false, Bool.not_false, if_true, if_false]
      · have t2 : ¬ Gen.Iso.timeLenTest (v.length : Int) := fun hh => by have := (E.timeLen _).mp hh; omega
        rw [if_neg t2, if_neg l16]
  · have : (decide (c4 = '-') && decide (c7 = '-')) = false := by
      by_cases e4 : c4 = '-' <;> by_cases e7 : c7 = '-' <;> simp_all
    simp only [this, Bool.not_false, if_true, if_neg e]
theorem buildDatetime_iff (y m d H M S : Int) (dt : DateTime) :
    buildDatetime y m d H M S = .ok dt ↔
      validDateTime dt = true ∧ dt.micro = 0 ∧ (dt.year : Int) = y ∧ (dt.month : Int) = m ∧ (dt.day : Int) = d ∧
        (dt.hour : Int) = H ∧ (dt.minute : Int) = M ∧ (dt.second : Int) = S := by
  constructor
  · exact buildDatetime_ok y m d H M S dt
  · rintro ⟨hv, hm, rfl, rfl, rfl, rfl, rfl, rfl⟩
    have := buildDatetime_valid dt hv
    rw [this]
    cases dt
    simp only [truncSeconds] at hm ⊢
    subst hm
    rfl

theorem fields3_iff (v : List Char) (a b c : Nat × Nat) (dt : DateTime) :
    fields v [a, b, c] = .ok (some dt) ↔
      validDateTime dt = true ∧ dt.micro = 0 ∧ pyInt (slice v a) = .ok (dt.year : Int) ∧ pyInt (slice v b) = .ok (dt.month : Int) ∧ pyInt (slice v c) = .ok (dt.day : Int) ∧ dt.hour = 0 ∧ dt.minute = 0 ∧ dt.second = 0 := by
  simp only [fields, ints]
  constructor
  · intro h
    cases h1 : pyInt (slice v a) with
    | error e => rw [h1] at h; cases h
    | ok y =>
      cases h2 : pyInt (slice v b) with
      | error e => rw [h1, h2] at h; cases h
      | ok m =>
        cases h3 : pyInt (slice v c) with
        | error e => rw [h1, h2, h3] at h; cases h
        | ok d' =>
          rw [h1, h2, h3] at h
          simp only [bind_ok, mkDatetime] at h
          cases hb : buildDatetime y m d' 0 0 0 with
          | error e => rw [hb] at h; cases h
          | ok dt' =>
            rw [hb] at h
            simp only [bind_ok] at h
            injection h with h; injection h with h; subst h
            obtain ⟨hv, hm, e1, e2, e3, e4, e5, e6⟩ := (buildDatetime_iff _ _ _ _ _ _ _).mp hb
            exact ⟨hv, hm, by rw [e1], by rw [e2], by rw [e3], by omega, by omega, by omega⟩
  · rintro ⟨hv, hm, hy, hmo, hd, hH, hM, hS⟩
    rw [hy, hmo, hd]
    simp only [bind_ok, mkDatetime]
    have := (buildDatetime_iff dt.year dt.month dt.day 0 0 0 dt).mpr ⟨hv, hm, rfl, rfl, rfl, by omega, by omega, by omega⟩
    rw [this]
    rfl

theorem fields5_iff (v : List Char) (a b c d e : Nat × Nat) (dt : DateTime) :
    fields v [a, b, c, d, e] = .ok (some dt) ↔
      validDateTime dt = true ∧ dt.micro = 0 ∧ pyInt (slice v a) = .ok (dt.year : Int) ∧ pyInt (slice v b) = .ok (dt.month : Int) ∧ pyInt (slice v c) = .ok (dt.day : Int) ∧ pyInt (slice v d) = .ok (dt.hour : Int) ∧ pyInt (slice v e) = .ok (dt.minute : Int) ∧ dt.second = 0 := by
  simp only [fields, ints]
  constructor
  · intro h
    cases h1 : pyInt (slice v a) with
    | error e => rw [h1] at h; cases h
    | ok y =>
      cases h2 : pyInt (slice v b) with
      | error e => rw [h1, h2] at h; cases h
      | ok m =>
        cases h3 : pyInt (slice v c) with
        | error e => rw [h1, h2, h3] at h; cases h
        | ok d' =>
          cases h4 : pyInt (slice v d) with
          | error e => rw [h1, h2, h3, h4] at h; cases h
          | ok H =>
            cases h5 : pyInt (slice v e) with
            | error e => rw [h1, h2, h3, h4, h5] at h; cases h
            | ok M =>
              rw [h1, h2, h3, h4, h5] at h
              simp only [bind_ok, mkDatetime] at h
              cases hb : buildDatetime y m d' H M 0 with
              | error e => rw [hb] at h; cases h
              | ok dt' =>
                rw [hb] at h
                simp only [bind_ok] at h
                injection h with h; injection h with h; subst h
                obtain ⟨hv, hm, e1, e2, e3, e4, e5, e6⟩ := (buildDatetime_iff _ _ _ _ _ _ _).mp hb
                exact ⟨hv, hm, by rw [e1], by rw [e2], by rw [e3], by rw [e4], by rw [e5], by omega⟩
  · rintro ⟨hv, hm, hy, hmo, hd, hH, hM, hS⟩
    rw [hy, hmo, hd, hH, hM]
    simp only [bind_ok, mkDatetime]
    have := (buildDatetime_iff dt.year dt.month dt.day dt.hour dt.minute 0 dt).mpr ⟨hv, hm, rfl, rfl, rfl, rfl, rfl, by omega⟩
    rw [this]
    rfl

theorem fields6_iff (v : List Char) (a b c d e f : Nat × Nat) (dt : DateTime) :
    fields v [a, b, c, d, e, f] = .ok (some dt) ↔
      validDateTime dt = true ∧ dt.micro = 0 ∧ pyInt (slice v a) = .ok (dt.year : Int) ∧ pyInt (slice v b) = .ok (dt.month : Int) ∧ pyInt (slice v c) = .ok (dt.day : Int) ∧ pyInt (slice v d) = .ok (dt.hour : Int) ∧ pyInt (slice v e) = .ok (dt.minute : Int) ∧ pyInt (slice v f) = .ok (dt.second : Int) := by
  simp only [fields, ints]
  constructor
  · intro h
    cases h1 : pyInt (slice v a) with
    | error e => rw [h1] at h; cases h
    | ok y =>
      cases h2 : pyInt (slice v b) with
      | error e => rw [h1, h2] at h; cases h
      | ok m =>
        cases h3 : pyInt (slice v c) with
        | error e => rw [h1, h2, h3] at h; cases h
        | ok d' =>
          cases h4 : pyInt (slice v d) with
          | error e => rw [h1, h2, h3, h4] at h; cases h
          | ok H =>
            cases h5 : pyInt (slice v e) with
            | error e => rw [h1, h2, h3, h4, h5] at h; cases h
            | ok M =>
              cases h6 : pyInt (slice v f) with
              | error e => rw [h1, h2, h3, h4, h5, h6] at h; cases h
              | ok S =>
                rw [h1, h2, h3, h4, h5, h6] at h
                simp only [bind_ok, mkDatetime] at h
                cases hb : buildDatetime y m d' H M S with
                | error e => rw [hb] at h; cases h
                | ok dt' =>
                  rw [hb] at h
                  simp only [bind_ok] at h
                  injection h with h; injection h with h; subst h
                  obtain ⟨hv, hm, e1, e2, e3, e4, e5, e6⟩ := (buildDatetime_iff _ _ _ _ _ _ _).mp hb
                  exact ⟨hv, hm, by rw [e1], by rw [e2], by rw [e3], by rw [e4], by rw [e5], by rw [e6]⟩
  · rintro ⟨hv, hm, hy, hmo, hd, hH, hM, hS⟩
    rw [hy, hmo, hd, hH, hM, hS]
    simp only [bind_ok, mkDatetime]
    have := (buildDatetime_iff dt.year dt.month dt.day dt.hour dt.minute dt.second dt).mpr ⟨hv, hm, rfl, rfl, rfl, rfl, rfl, rfl⟩
    rw [this]
    rfl


theorem shaped_iff_layout (E : Exact) (v : List Char) (h9 : 9 ≤ v.length) (dt : DateTime) : shaped v = .ok (some dt) ↔ Layout v dt := by
  rw [shaped_closed E v h9]
  constructor
  · intro h
    split at h
    · next hd =>
      split at h
      · next l10 =>
        obtain ⟨hv, hm, y, m, d, H, M, S⟩ := (fields3_iff _ _ _ _ _).mp h
        exact .date l10 ⟨hd.1, hd.2, y, m, d, hv, hm⟩ H M S
      · split at h
        · split at h
          · next hs =>
            split at h
            · next h19 =>
              obtain ⟨hv, hm, y, m, d, H, M, S⟩ := (fields6_iff _ _ _ _ _ _ _ _).mp h
              exact .second h19.1 ⟨hd.1, hd.2, y, m, d, hv, hm⟩ hs h19.2 H M S
            · split at h
              · next l16 =>
                obtain ⟨hv, hm, y, m, d, H, M, S⟩ := (fields5_iff _ _ _ _ _ _ _).mp h
                exact .minute l16 ⟨hd.1, hd.2, y, m, d, hv, hm⟩ hs H M S
              · cases h
          · cases h
        · cases h
    · cases h
  · intro h
    cases h with
    | date l10 c H M S =>
      rw [if_pos ⟨c.dash4, c.dash7⟩, if_pos l10]
      exact (fields3_iff _ _ _ _ _).mpr ⟨c.valid, c.whole, c.year, c.month, c.day, H, M, S⟩
    | minute l16 c hs H M S =>
      rw [if_pos ⟨c.dash4, c.dash7⟩, if_neg (by omega), if_pos (by omega), if_pos hs, if_neg (by omega), if_pos l16]
      exact (fields5_iff _ _ _ _ _ _ _).mpr ⟨c.valid, c.whole, c.year, c.month, c.day, H, M, S⟩
    | second l19 c hs h16 H M S =>
      rw [if_pos ⟨c.dash4, c.dash7⟩, if_neg (by omega), if_pos (by omega), if_pos hs, if_pos ⟨l19, h16⟩]
      exact (fields6_iff _ _ _ _ _ _ _ _).mpr ⟨c.valid, c.whole, c.year, c.month, c.day, H, M, S⟩

theorem zStrip_length_ge (s : List Char) : s.length - 1 ≤ (zStrip s).length := by
  unfold zStrip; split <;> simp

/-- The skeleton of the text path returns a value exactly for the trimmed layouts. -/
theorem textPath_iff (E : Exact) (s : List Char) (dt : DateTime) :
    textPath s = .ok (some dt) ↔ 10 ≤ s.length ∧ s.length ≤ 33 ∧ ∃ v, Trimmed s v ∧ Layout v dt := by
  have hz : (if s.getLast? = some Gen.Iso.zChar then s.dropLast else s) = zStrip s := by rw [E.chars.1]; rfl
  unfold textPath
  simp only [hz, E.chars.2]
  by_cases hw : Gen.Iso.lenWindow (s.length : Int)
  · have hw' := (E.window _).mp hw
    have hl9 := zStrip_length_ge s
    rw [if_pos hw]
    by_cases hp : (zStrip s).contains '+' = true
    · rw [if_pos hp]
      by_cases hr : Gen.Iso.plusReject (((zStrip s).takeWhile (· != '+')).length : Int)
      · have hr' := (E.plus _).mp hr
        rw [if_pos hr]
        constructor
        · intro h; cases h
        · rintro ⟨_, _, v, ht, _⟩
          cases ht with
          | whole hn => rw [hn] at hp; cases hp
          | beforePlus _ h1 h2 => omega
      · have hr' : ¬ ¬ (10 ≤ (((zStrip s).takeWhile (· != '+')).length : Int) ∧ (((zStrip s).takeWhile (· != '+')).length : Int) ≤ 28) :=
          fun hh => hr ((E.plus _).mpr hh)
        rw [if_neg hr, shaped_iff_layout E _ (by omega)]
        constructor
        · intro h
          exact ⟨by omega, by omega, _, .beforePlus hp (by omega) (by omega), h⟩
        · rintro ⟨_, _, v, ht, hl⟩
          cases ht with
          | whole hn => rw [hn] at hp; cases hp
          | beforePlus _ h1 h2 => exact hl
    · rw [if_neg hp, shaped_iff_layout E _ (by omega)]
      have hp' : (zStrip s).contains '+' = false := by simpa using hp
      constructor
      · intro h
        exact ⟨by omega, by omega, _, .whole hp', h⟩
      · rintro ⟨_, _, v, ht, hl⟩
        cases ht with
        | whole hn => exact hl
        | beforePlus hq _ _ => rw [hq] at hp'; cases hp'
  · have hw' : ¬ (10 ≤ (s.length : Int) ∧ (s.length : Int) ≤ 33) := fun hh => hw ((E.window _).mpr hh)
    rw [if_neg hw]
    constructor
    · intro h; cases h
    · rintro ⟨h1, h2, _⟩; omega


/-- More than 4300 digits: `int()` refuses (`ValueError`, the interpreter's limit on digit strings). -/
theorem pyInt_too_long (ds : List Char) (h : ∀ c ∈ ds, c.isDigit = true) (hlen : maxStrDigits < ds.length) :
    pyInt ds = .error .valueError := by
  unfold pyInt
  rw [strip_of_no_ws ds (fun c hc => isWs_of_isDigit (h c hc))]
  cases ds with
  | nil => simp [maxStrDigits] at hlen
  | cons c r =>
    have hc := h c List.mem_cons_self
    have h1 : c ≠ '-' := ne_of_isDigit hc (by decide)
    have h2 : c ≠ '+' := ne_of_isDigit hc (by decide)
    have hf : (c :: r).filter Char.isDigit = c :: r := List.filter_eq_self.mpr h
    simp only [h1, h2, if_false, pyNat, hf, if_pos hlen]
    rfl

/-- All-digit text: a value exactly for the second counts of valid date-times. -/
theorem digits_iff (s : List Char) (hd : isDigitStr s = true) (dt : DateTime) :
    epoch "int" (pyInt s) = .ok (some dt) ↔
      (Iso.epochAdmits "int" = true ∧ s.length ≤ maxStrDigits ∧ validDateTime dt = true ∧ dt.micro = 0 ∧
        toEpoch dt = (Nat.ofDigitChars 10 s 0 : Nat)) := by
  have hall : ∀ c ∈ s, c.isDigit = true := by
    simp only [isDigitStr, Bool.and_eq_true, List.all_eq_true] at hd; exact hd.2
  have hne : s ≠ [] := by
    intro e; subst e; simp [isDigitStr] at hd
  unfold epoch
  by_cases hc : Iso.epochAdmits "int" = true
  · rw [if_pos hc]
    by_cases hlen : s.length ≤ maxStrDigits
    · rw [pyInt_digits s hne hall hlen]
      simp only [bind_ok]
      obtain ⟨hin, hout⟩ := fromTimestamp_spec (Nat.ofDigitChars 10 s 0 : Nat)
      constructor
      · intro h
        cases hf : fromTimestamp (Nat.ofDigitChars 10 s 0 : Nat) with
        | error e => rw [hf] at h; cases h
        | ok dt' =>
          rw [hf] at h
          simp only [bind_ok] at h
          injection h with h; injection h with h; subst h
          by_cases hr : minEpoch ≤ ((Nat.ofDigitChars 10 s 0 : Nat) : Int) ∧ ((Nat.ofDigitChars 10 s 0 : Nat) : Int) ≤ maxEpoch
          · obtain ⟨dt2, h2, hv, hm, he⟩ := hin hr
            rw [hf] at h2; injection h2 with h2; subst h2
            exact ⟨hc, hlen, hv, hm, he⟩
          · obtain ⟨e, he⟩ := hout (by omega)
            rw [hf] at he; cases he
      · rintro ⟨_, _, hv, hm, he⟩
        rw [← he, fromTimestamp_toEpoch dt hv]
        cases dt
        simp only [truncSeconds] at hm ⊢
        subst hm
        rfl
    · rw [pyInt_too_long s hall (by omega)]
      constructor
      · intro h; cases h
      · rintro ⟨_, h, _⟩; omega
  · rw [if_neg hc]
    constructor
    · intro h; cases h
    · rintro ⟨h, _⟩; exact absurd h hc

end Iso
