import OrsoVerif.Model.Frame
/-! Helper lemmas for the C03 property theorems. -/
namespace Frame

variable {α : Type}

theorem pyBound_nonneg (n a : Nat) : pyBound n (a : Int) = min a n := by
  unfold pyBound
  have : ¬ ((a : Int) < 0) := by omega
  simp [this]

theorem pySliceFrom_nonneg (rows : List α) (a : Nat) : pySliceFrom rows (a : Int) = rows.drop a := by
  unfold pySliceFrom
  rw [pyBound_nonneg]
  by_cases h : a ≤ rows.length
  · rw [Nat.min_eq_left h]
  · have h' : rows.length ≤ a := by omega
    rw [Nat.min_eq_right h', List.drop_eq_nil_iff.mpr (Nat.le_refl _), List.drop_eq_nil_iff.mpr h']

/-- Python `rows[a : a + l]` for `a, l ≥ 0` is `(rows.drop a).take l`. -/
theorem pySlice_nonneg (rows : List α) (a l : Nat) :
    pySlice rows (a : Int) ((a : Int) + (l : Int)) = (rows.drop a).take l := by
  unfold pySlice
  have e : ((a : Int) + (l : Int)) = ((a + l : Nat) : Int) := by omega
  rw [e, pyBound_nonneg, pyBound_nonneg]
  by_cases h : a ≤ rows.length
  · rw [Nat.min_eq_left h]
    by_cases h2 : a + l ≤ rows.length
    · rw [Nat.min_eq_left h2]
      congr 1; omega
    · have h2' : rows.length ≤ a + l := by omega
      rw [Nat.min_eq_right h2']
      rw [List.take_of_length_le (by simp), List.take_of_length_le (by simp; omega)]
  · have h' : rows.length ≤ a := by omega
    rw [Nat.min_eq_right h', List.drop_eq_nil_iff.mpr (Nat.le_refl _), List.drop_eq_nil_iff.mpr h']
    simp

theorem pickFrom_congr (s : Nat) (f g : Nat → Bool) (rows : List α)
    (h : ∀ i, s ≤ i → f i = g i) : pickFrom s f rows = pickFrom s g rows := by
  induction rows generalizing s with
  | nil => rfl
  | cons r rs ih =>
    have h1 := ih (s + 1) (fun i hi => h i (by omega))
    simp only [pickFrom, h s (Nat.le_refl s), h1]

theorem pickFrom_false (s : Nat) (f : Nat → Bool) (rows : List α)
    (h : ∀ i, s ≤ i → f i = false) : pickFrom s f rows = [] := by
  induction rows generalizing s with
  | nil => rfl
  | cons r rs ih =>
    simp only [pickFrom, h s (Nat.le_refl s)]
    exact ih (s + 1) (fun i hi => h i (by omega))

theorem pickFrom_zipIdx (s : Nat) (sel : Nat → Bool) (rows : List α) :
    pickFrom s sel rows = (rows.zipIdx s).filterMap (fun p => if sel p.2 then some p.1 else none) := by
  induction rows generalizing s with
  | nil => rfl
  | cons r rs ih =>
    simp only [pickFrom, List.zipIdx_cons, List.filterMap_cons]
    by_cases h : sel s = true
    · simp [h, ih]
    · simp [h, ih]

theorem pickFrom_sublist (s : Nat) (sel : Nat → Bool) (rows : List α) :
    (pickFrom s sel rows).Sublist rows := by
  induction rows generalizing s with
  | nil => exact List.Sublist.slnil
  | cons r rs ih =>
    simp only [pickFrom]
    split
    · exact (ih (s + 1)).cons_cons r
    · exact (ih (s + 1)).cons r

theorem filter_pickFrom (rows : List α) (mask pre : List Bool) :
    filter rows mask = pickFrom pre.length (fun i => ((pre ++ mask)[i]?).getD false) rows := by
  induction rows generalizing mask pre with
  | nil => cases mask <;> rfl
  | cons r rs ih =>
    cases mask with
    | nil =>
      simp only [filter]
      symm
      apply pickFrom_false
      intro i hi
      simp [List.getElem?_eq_none_iff.mpr (show pre.length ≤ i from hi)]
    | cons m ms =>
      have h := ih ms (pre ++ [m])
      simp only [List.length_append, List.length_singleton, List.append_assoc, List.singleton_append] at h
      simp only [filter, pickFrom, h]
      simp

theorem query_pickFrom (rows pre : List α) (p : α → Bool) :
    rows.filter p = pickFrom pre.length (fun i => (((pre ++ rows)[i]?).map p).getD false) rows := by
  induction rows generalizing pre with
  | nil => rfl
  | cons r rs ih =>
    have h := ih (pre ++ [r])
    simp only [List.length_append, List.length_singleton, List.append_assoc, List.singleton_append] at h
    simp only [pickFrom, List.filter_cons, h]
    simp

theorem indexOf_some_of_mem (names : List String) (a : String) (h : a ∈ names) :
    ∃ i, indexOf names a = some i ∧ names[i]? = some a ∧ ∀ j, j < i → names[j]? ≠ some a := by
  induction names with
  | nil => cases h
  | cons n ns ih =>
    by_cases hn : n = a
    · refine ⟨0, by simp [indexOf, hn], by simp [hn], ?_⟩
      intro j hj; omega
    · have ha : a ∈ ns := by
        rcases List.mem_cons.mp h with h | h
        · exact absurd h.symm hn
        · exact h
      obtain ⟨i, h1, h2, h3⟩ := ih ha
      refine ⟨i + 1, by simp [indexOf, hn, h1], by simpa using h2, ?_⟩
      intro j hj
      cases j with
      | zero => simpa using hn
      | succ j => simpa using h3 j (by omega)

theorem indexOf_lt (names : List String) (a : String) (i : Nat) (h : indexOf names a = some i) :
    i < names.length := by
  induction names generalizing i with
  | nil => simp [indexOf] at h
  | cons n ns ih =>
    by_cases hn : n = a
    · simp [indexOf, hn] at h; subst h; simp
    · simp only [indexOf, hn, if_false, Option.map_eq_some_iff] at h
      obtain ⟨k, hk, rfl⟩ := h
      have := ih k hk
      simp; omega

theorem mapM_some {β γ : Type} (l : List β) (f : β → Option γ) (g : β → γ)
    (h : ∀ x ∈ l, f x = some (g x)) : l.mapM f = some (l.map g) := by
  induction l with
  | nil => rfl
  | cons x xs ih =>
    have hx := h x (by simp)
    have hxs := ih (fun y hy => h y (by simp [hy]))
    simp [List.mapM_cons, hx, hxs]

section distinct
variable [DecidableEq α]

theorem distinctAux_filter (seen : List α) (x : α) (rows : List α) :
    distinctAux (x :: seen) rows = (distinctAux seen rows).filter (fun y => decide (y ≠ x)) := by
  induction rows generalizing seen x with
  | nil => rfl
  | cons y ys ih =>
    by_cases hy : y ∈ seen
    · have : y ∈ x :: seen := List.mem_cons_of_mem _ hy
      simp only [distinctAux, hy, this, if_true]
      exact ih seen x
    · by_cases hyx : y = x
      · subst hyx
        simp only [distinctAux, List.mem_cons_self, if_true, hy, if_false, List.filter_cons]
        simp only [ne_eq, not_true_eq_false, decide_false, Bool.false_eq_true, if_false]
        rw [ih seen y, List.filter_filter]
        simp
      · have hn : y ∉ x :: seen := by
          intro h; rcases List.mem_cons.mp h with h | h
          · exact hyx h
          · exact hy h
        simp only [distinctAux, hn, hy, if_false, List.filter_cons]
        simp only [ne_eq, hyx, not_false_eq_true, decide_true, if_true]
        congr 1
        rw [ih (x :: seen) y, ih seen x, ih seen y, List.filter_filter, List.filter_filter]
        congr 1
        funext z
        exact Bool.and_comm _ _

theorem distinctAux_mem (seen rows : List α) (x : α) :
    x ∈ distinctAux seen rows ↔ x ∈ rows ∧ x ∉ seen := by
  induction rows generalizing seen with
  | nil => simp [distinctAux]
  | cons y ys ih =>
    by_cases hy : y ∈ seen
    · simp only [distinctAux, hy, if_true, ih, List.mem_cons]
      constructor
      · rintro ⟨h1, h2⟩; exact ⟨Or.inr h1, h2⟩
      · rintro ⟨h1 | h1, h2⟩
        · subst h1; exact absurd hy h2
        · exact ⟨h1, h2⟩
    · simp only [distinctAux, hy, if_false, List.mem_cons, ih]
      constructor
      · rintro (h | ⟨h1, h2⟩)
        · subst h; exact ⟨Or.inl rfl, hy⟩
        · exact ⟨Or.inr h1, fun h => h2 (Or.inr h)⟩
      · rintro ⟨h1 | h1, h2⟩
        · exact Or.inl h1
        · by_cases hxy : x = y
          · exact Or.inl hxy
          · exact Or.inr ⟨h1, fun h => by rcases h with h | h; exact hxy h; exact h2 h⟩

theorem distinctAux_nodup (seen rows : List α) : (distinctAux seen rows).Nodup := by
  induction rows generalizing seen with
  | nil => simp [distinctAux]
  | cons y ys ih =>
    by_cases hy : y ∈ seen
    · simp only [distinctAux, hy, if_true]; exact ih seen
    · simp only [distinctAux, hy, if_false, List.nodup_cons]
      refine ⟨?_, ih _⟩
      rw [distinctAux_mem]
      simp

theorem distinctAux_sublist (seen rows : List α) : (distinctAux seen rows).Sublist rows := by
  induction rows generalizing seen with
  | nil => exact List.Sublist.slnil
  | cons y ys ih =>
    simp only [distinctAux]
    split
    · exact (ih seen).cons y
    · exact (ih _).cons_cons y

end distinct

theorem batchesAux_flatten (size : Nat) (hs : 0 < size) (fuel : Nat) (rows : List α)
    (h : rows.length ≤ fuel) : (batchesAux size fuel rows).flatten = rows := by
  induction fuel generalizing rows with
  | zero =>
    have : rows = [] := List.length_eq_zero_iff.mp (by omega)
    simp [batchesAux, this]
  | succ fuel ih =>
    cases rows with
    | nil => simp [batchesAux]
    | cons r rs =>
      simp only [batchesAux, List.isEmpty_cons, Bool.false_eq_true, if_false, List.flatten_cons]
      rw [ih]
      · exact List.take_append_drop size (r :: rs)
      · simp only [List.length_drop, List.length_cons] at h ⊢; omega

theorem batchesAux_get (size : Nat) (hs : 0 < size) (fuel : Nat) (rows : List α)
    (h : rows.length ≤ fuel) (i : Nat) :
    (batchesAux size fuel rows)[i]? =
      if i * size < rows.length then some ((rows.drop (i * size)).take size) else none := by
  induction fuel generalizing rows i with
  | zero =>
    have : rows = [] := List.length_eq_zero_iff.mp (by omega)
    simp [batchesAux, this]
  | succ fuel ih =>
    cases rows with
    | nil => simp [batchesAux]
    | cons r rs =>
      simp only [batchesAux, List.isEmpty_cons, Bool.false_eq_true, if_false]
      cases i with
      | zero => simp
      | succ i =>
        rw [List.getElem?_cons_succ, ih]
        · simp only [List.length_drop, List.drop_drop]
          have e : (i + 1) * size = size + i * size := by rw [Nat.succ_mul]; omega
          rw [e]
          simp only [List.length_cons]
          by_cases hlt : i * size < rs.length + 1 - size
          · have : size + i * size < rs.length + 1 := by omega
            rw [if_pos hlt, if_pos this]
          · have : ¬ size + i * size < rs.length + 1 := by omega
            rw [if_neg hlt, if_neg this]
        · simp only [List.length_drop, List.length_cons] at h ⊢; omega

/-! ## Round 2: the generated comprehensions / tests / windows equal the reference functions -/

theorem pyIndex_eq (names : List String) (a : String) : Gen.Frame.pyIndex names a = indexOf names a := by
  induction names with
  | nil => rfl
  | cons n ns ih => simp only [Gen.Frame.pyIndex, indexOf, ih]

theorem selectHeader_eq (names attrs : List String) :
    selectHeader names attrs = attrs.filter (fun a => decide (a ∈ names)) := rfl

theorem selectIdx_eq (names attrs : List String) :
    selectIdx names attrs = (selectHeader names attrs).filterMap (indexOf names) := by
  unfold selectIdx Gen.Frame.selectIndices
  congr 1
  funext a
  exact pyIndex_eq names a

theorem project_eq (idxs : List Nat) (row : List α) : project idxs row = idxs.filterMap (row[·]?) := rfl

theorem take_eq (rows : List α) (idxs : List Int) :
    take rows idxs = pick (fun i => decide ((i : Int) ∈ idxs)) rows := by
  unfold take Gen.Frame.takeTest
  rfl

/-- The limit handed to the compiled collector: `-1` (all rows) for `None`, a negative limit or one at
or beyond the row count; the limit itself otherwise. -/
theorem passedLimit_eq (n : Nat) (limit : Option Int) :
    passedLimit n limit = match limit with
      | none => -1
      | some l => if l < 0 ∨ l ≥ n then -1 else l := by
  unfold passedLimit effLimit Gen.Frame.collectClampTest Gen.Frame.collectClampValue Gen.Frame.collectNegTest
    Gen.Frame.collectAllValue
  cases limit with
  | none =>
    simp only
    by_cases h : (-1 : Int) ≥ n
    · simp [h]
    · simp [h]
  | some l =>
    simp only
    by_cases h : l < 0
    · simp only [h, if_true, true_or]
      by_cases h2 : (-1 : Int) ≥ n
      · simp [h2]
      · simp [h2]
    · simp only [h, if_false, false_or]

theorem limitRows_eq (n : Nat) (limit : Option Int) :
    limitRows n limit = match limit with
      | none => n
      | some l => if l < 0 then n else min l.toNat n := by
  unfold limitRows
  rw [passedLimit_eq]
  unfold Gen.Frame.collectTruncTest
  cases limit with
  | none => simp
  | some l =>
    simp only
    by_cases h : l < 0
    · simp only [h, if_true, true_or]; simp
    · simp only [h, if_false, false_or]
      by_cases h2 : l ≥ n
      · simp only [h2, if_true]
        have : ¬ ((-1 : Int) ≥ 0 ∧ (-1 : Int) < n) := by omega
        simp only [this, if_false]; omega
      · simp only [h2, if_false]
        have : l ≥ 0 ∧ l < (n : Int) := by omega
        simp only [this, and_self, if_true]; omega

theorem pyRange_simple (n size : Nat) (hs : 0 < size) :
    pyRange 0 (n : Int) (size : Int) = (List.range ((n + size - 1) / size)).map fun (j : Nat) => ((j * size : Nat) : Int) := by
  unfold pyRange
  have : ¬ ((size : Int) ≤ 0) := by omega
  simp only [this, if_false, Int.sub_zero, Int.toNat_natCast, Int.zero_add]
  apply List.map_congr_left
  intro j _
  simp

theorem batches_get (rows : List α) (size : Nat) (hs : 0 < size) (i : Nat) :
    (batches rows size)[i]? =
      if i * size < rows.length then some ((rows.drop (i * size)).take size) else none := by
  unfold batches Gen.Frame.batchRangeStart Gen.Frame.batchRangeStop Gen.Frame.batchRangeStep
    Gen.Frame.batchLower Gen.Frame.batchUpper
  rw [pyRange_simple rows.length size hs]
  simp only [List.map_map, List.getElem?_map]
  have key : i < (rows.length + size - 1) / size ↔ i * size < rows.length := by
    rw [Nat.lt_iff_add_one_le, Nat.le_div_iff_mul_le hs, Nat.succ_mul]
    omega
  by_cases h : i * size < rows.length
  · have h' := key.mpr h
    simp only [h, if_true]
    rw [List.getElem?_range h']  
    simp only [Option.map_some, Function.comp]
    congr 1
    have := pySlice_nonneg rows (i * size) size
    simpa using this
  · have h' : ¬ i < (rows.length + size - 1) / size := fun x => h (key.mp x)
    simp only [h, if_false]
    rw [List.getElem?_eq_none_iff.mpr (by simp; omega)]
    rfl

theorem batches_eq_chunks (rows : List α) (size : Nat) (hs : 0 < size) : batches rows size = chunks rows size := by
  apply List.ext_getElem?
  intro i
  rw [batches_get rows size hs, chunks, batchesAux_get size hs _ rows (Nat.le_refl _)]

theorem drop_take_succ_getElem? (l : List α) (p c : Nat) :
    (l.drop p).take (c + 1) = (l[p]?).toList ++ (l.drop (p + 1)).take c := by
  cases h : l[p]? with
  | none =>
    have hp : l.length ≤ p := by simpa using h
    simp [List.drop_eq_nil_of_le hp, List.drop_eq_nil_of_le (Nat.le_succ_of_le hp)]
  | some x =>
    obtain ⟨hlt, hx⟩ := List.getElem?_eq_some_iff.mp h
    rw [List.drop_eq_getElem_cons hlt, hx]
    simp

/-- `j` consecutive batches from batch number `p` are the batches of the `j·b` rows from row `p·b`. -/
theorem batches_window (rows : List α) (b p j : Nat) (hb : 0 < b) :
    ((batches rows b).drop p).take j = batches ((rows.drop (p * b)).take (j * b)) b := by
  apply List.ext_getElem?
  intro i
  rw [List.getElem?_take, List.getElem?_drop, batches_get _ _ hb, batches_get _ _ hb]
  simp only [List.length_take, List.length_drop]
  by_cases hij : i < j
  · have h1 : (i + 1) * b ≤ j * b := Nat.mul_le_mul_right b hij
    have h2 : (p + i) * b = p * b + i * b := Nat.add_mul p i b
    have h3 : (i + 1) * b = i * b + b := Nat.succ_mul i b
    simp only [hij, if_true, h2]
    by_cases hlt : p * b + i * b < rows.length
    · have h4 : i * b < min (j * b) (rows.length - p * b) := by omega
      simp only [hlt, h4, if_true]
      congr 1
      rw [List.drop_take, List.drop_drop, List.take_take]
      congr 1
      omega
    · have h4 : ¬ i * b < min (j * b) (rows.length - p * b) := by omega
      simp [hlt, h4]
  · have h1 : j * b ≤ i * b := Nat.mul_le_mul_right b (Nat.le_of_not_gt hij)
    have h4 : ¬ i * b < min (j * b) (rows.length - p * b) := by omega
    simp [hij, h4]

theorem distinctOnAux_injective {κ : Type} [DecidableEq α] [DecidableEq κ] (k : α → κ) (hk : ∀ a b, k a = k b → a = b)
    (seen : List α) (xs : List α) : distinctOnAux k (seen.map k) xs = distinctAux seen xs := by
  induction xs generalizing seen with
  | nil => rfl
  | cons x xs ih =>
    have hm : k x ∈ seen.map k ↔ x ∈ seen := by
      constructor
      · intro h
        obtain ⟨y, hy, hyx⟩ := List.mem_map.mp h
        exact hk y x hyx ▸ hy
      · exact fun h => List.mem_map.mpr ⟨x, h, rfl⟩
    unfold distinctOnAux distinctAux
    by_cases hx : x ∈ seen
    · simp only [hm, hx, if_true]; exact ih seen
    · simp only [hm, hx, if_false]
      have := ih (x :: seen)
      simp only [List.map_cons] at this
      rw [this]

end Frame
