import OrsoVerif.Model.Persist
/-! Helper lemmas for C16 (`Props/C16.lean`). -/
namespace Persist
open TypeName (Str Ty)
open Gen.Persist

variable {V : Type}

instance exceptDecEq {ε α : Type} [DecidableEq ε] [DecidableEq α] : DecidableEq (Except ε α) := fun a b =>
  match a, b with
  | .ok x, .ok y => if h : x = y then isTrue (by rw [h]) else isFalse (by intro h'; cases h'; exact h rfl)
  | .error x, .error y => if h : x = y then isTrue (by rw [h]) else isFalse (by intro h'; cases h'; exact h rfl)
  | .ok _, .error _ => isFalse (by intro h; cases h)
  | .error _, .ok _ => isFalse (by intro h; cases h)

/-! ### the forwarding lists, evaluated (each is re-checked against the generated list) -/

theorem rawOf_eq (c : Col V) : rawOf c =
  { name := some c.name, default := some c.default, type := some (rawTy c.type),
    element_type := some (c.element_type.map rawTy), description := some c.description,
    disposition := some (c.disposition.map RawDisp.member), aliases := some c.aliases, nullable := some c.nullable,
    expectations := some c.expectations, identity := some c.identity, length := some c.length,
    precision := some c.precision, scale := some c.scale, origin := some c.origin,
    highest_value := some c.highest_value, lowest_value := some c.lowest_value, null_count := some c.null_count } := by
  rfl

/-- what `to_flatcolumn` passes: thirteen keywords; disposition, expectations, length and origin are not
forwarded -/
theorem flatRaw_eq (c : Col V) : rawVia flatKwargs c =
  { name := some c.name, default := some c.default, type := some (rawTy c.type),
    element_type := some (c.element_type.map rawTy), description := some c.description,
    aliases := some c.aliases, nullable := some c.nullable, identity := some c.identity,
    precision := some c.precision, scale := some c.scale,
    highest_value := some c.highest_value, lowest_value := some c.lowest_value, null_count := some c.null_count } := by
  rfl

theorem colToDict_eq (c : Col V) : colToDict c =
  { name := some c.name, default := some c.default, type := some (writeTy c.type),
    element_type := some (c.element_type.map writeTy), description := some c.description,
    disposition := some (c.disposition.map writeDisp), aliases := some c.aliases, nullable := some c.nullable,
    expectations := some c.expectations, identity := some c.identity, length := some c.length,
    precision := some c.precision, scale := some c.scale, origin := some c.origin,
    highest_value := some c.highest_value, lowest_value := some c.lowest_value, null_count := some c.null_count } := by
  rfl

/-! ### the steps of `init` on already-normalised attributes -/

theorem fromName_zeroText : TypeName.fromName zeroText = .ok { ty := .zero } := by decide

theorem resolveType_rawTy (ty : Ty) (e : Option RawTy) (l p s : Option Nat) :
    resolveType (rawTy ty) e l p s = .ok ⟨ty, e, l, p, s⟩ := by
  cases ty with
  | member m => rfl
  | zero => simp [rawTy, resolveType, fromNameRaw, fromName_zeroText]

theorem resolveElem_rawTy (e : Option Ty) : resolveElem (e.map rawTy) = .ok e := by
  cases e with
  | none => rfl
  | some t =>
    cases t with
    | member m => rfl
    | zero => simp [rawTy, resolveElem, fromNameRaw, fromName_zeroText]

theorem resolveDisp_member (d : Option String) : resolveDisp (d.map RawDisp.member) = .ok d := by
  cases d <;> rfl

theorem resolveDefault_fixed {K : Caster V} {ty : Ty} {v : V}
    (h : K.truthy v = true → ∃ m, ty = .member m ∧ K.parse m v = some v) :
    resolveDefault K ty v = .ok v := by
  unfold resolveDefault
  by_cases ht : K.truthy v = true
  · obtain ⟨m, rfl, hp⟩ := h ht
    simp [ht, hp]
  · simp [ht]

/-- the DECIMAL defaults are guarded by `is None` (`Gen.Persist.decimalFills`): a declared 0 stays -/
theorem decimalGuard_precision (p : Option Nat) : decimalGuard "precision" p = p.isNone := by
  cases p <;> rfl

theorem decimalGuard_scale (s : Option Nat) : decimalGuard "scale" s = s.isNone := by
  cases s <;> rfl

theorem decimalPrecision_fixed {ty : Ty} {p : Option Nat} (h : isDecimal ty = true → p.isSome = true) :
    decimalPrecision ty p = p := by
  unfold decimalPrecision
  rw [decimalGuard_precision]
  cases hd : isDecimal ty with
  | false => simp
  | true =>
    have := h hd
    cases p with
    | none => simp at this
    | some x => simp

theorem decimalScale_fixed {ty : Ty} {p s : Option Nat} (h : isDecimal ty = true → s.isSome = true) :
    decimalScale ty p s = s := by
  unfold decimalScale
  rw [decimalGuard_scale]
  cases hd : isDecimal ty with
  | false => simp
  | true =>
    have := h hd
    cases s with
    | none => simp at this
    | some x => simp

/-- `init` on keyword arguments that are all present and already normalised returns them. -/
theorem init_normalised (K : Caster V) (fresh : String) (c : Col V)
    (hdec : isDecimal c.type = true → c.precision.isSome = true ∧ c.scale.isSome = true)
    (r : Raw V) (e : Option RawTy) (d : Option RawDisp) (t : RawTy) (dv : V)
    (hr : r = { name := some c.name, default := some dv, type := some t,
                element_type := some e, description := some c.description,
                disposition := some d, aliases := some c.aliases, nullable := some c.nullable,
                expectations := some c.expectations, identity := some c.identity, length := some c.length,
                precision := some c.precision, scale := some c.scale, origin := some c.origin,
                highest_value := some c.highest_value, lowest_value := some c.lowest_value,
                null_count := some c.null_count })
    (ht : resolveType t e c.length c.precision c.scale = .ok ⟨c.type, e, c.length, c.precision, c.scale⟩)
    (he : resolveElem e = .ok c.element_type)
    (hd : resolveDisp d = .ok c.disposition)
    (hdv : resolveDefault K c.type dv = .ok c.default) :
    init K fresh r = .ok c := by
  subst hr
  have h1 : rdReq "name" (some c.name) = some c.name := rfl
  have hp := decimalPrecision_fixed (ty := c.type) (p := c.precision) (fun h => (hdec h).1)
  have hs := decimalScale_fixed (ty := c.type) (p := c.precision) (s := c.scale) (fun h => (hdec h).2)
  unfold init
  simp only [h1]
  have e1 : rd "type" (some t) (RawTy.member missingName) = t := rfl
  have e2 : rd "element_type" (some e) none = e := rfl
  have e3 : rd "length" (some c.length) none = c.length := rfl
  have e4 : rd "precision" (some c.precision) none = c.precision := rfl
  have e5 : rd "scale" (some c.scale) none = c.scale := rfl
  have e6 : rd "disposition" (some d) none = d := rfl
  have e7 : rd "default" (some dv) K.none = dv := rfl
  simp only [e1, e2, e3, e4, e5, e6, e7, ht, he, hd, hdv, hp, hs]
  cases c
  rfl

/-- the constructor applied to every attribute of a constructed column returns the column -/
theorem init_rawOf (K : Caster V) (fresh : String) (c : Col V) (hc : Constructed K c) :
    init K fresh (rawOf c) = .ok c :=
  init_normalised K fresh c hc.2 _ _ _ _ _ (rawOf_eq c) (resolveType_rawTy _ _ _ _ _) (resolveElem_rawTy _)
    (resolveDisp_member _) (resolveDefault_fixed hc.1)

/-! ### what a successful `init` establishes -/

theorem resolveDefault_establishes {K : Caster V}
    (hIdem : ∀ m v w, K.parse m v = some w → K.truthy w = true → K.parse m w = some w)
    {ty : Ty} {v w : V} (h : resolveDefault K ty v = .ok w) :
    K.truthy w = true → ∃ m, ty = .member m ∧ K.parse m w = some w := by
  unfold resolveDefault at h
  by_cases ht : K.truthy v = true
  · simp only [ht, if_true] at h
    cases ty with
    | zero => cases h
    | member m =>
      simp only at h
      cases hp : K.parse m v with
      | none => simp [hp] at h
      | some x =>
        simp only [hp, Except.ok.injEq] at h
        subst h
        intro hw
        exact ⟨m, rfl, hIdem m v x hp hw⟩
  · simp only [ht] at h
    have : v = w := by simpa using h
    subst this
    intro hw
    exact absurd hw ht

theorem decimal_defaults_some (ty : Ty) (p s : Option Nat) (h : isDecimal ty = true) :
    (decimalPrecision ty p).isSome = true ∧ (decimalScale ty (decimalPrecision ty p) s).isSome = true := by
  unfold decimalPrecision decimalScale
  simp only [decimalGuard_precision, decimalGuard_scale]
  cases p <;> cases s <;> simp [h]

theorem init_establishes (K : Caster V)
    (hIdem : ∀ m v w, K.parse m v = some w → K.truthy w = true → K.parse m w = some w)
    (fresh : String) (r : Raw V) (c : Col V) (h : init K fresh r = .ok c) : Constructed K c := by
  unfold init at h
  split at h
  · cases h
  · split at h
    · cases h
    · split at h
      · cases h
      · split at h
        · cases h
        · split at h
          · cases h
          · rename_i t _ _ _ _ _ dflt hdflt
            simp only [Except.ok.injEq] at h
            subst h
            exact ⟨resolveDefault_establishes hIdem hdflt, fun hd => decimal_defaults_some _ _ _ hd⟩

/-! ### `to_flatcolumn` -/

theorem toFlat_eq (K : Caster V) (fresh : String) (c : Col V) (hc : Constructed K c) :
    toFlat K fresh c = .ok { c with disposition := none, expectations := [], length := none, origin := [] } := by
  obtain ⟨hdef, hdec⟩ := hc
  unfold toFlat
  rw [flatRaw_eq]
  have hdflt := resolveDefault_fixed (K := K) (ty := c.type) (v := c.default) hdef
  have hp := decimalPrecision_fixed (ty := c.type) (p := c.precision) (fun h => (hdec h).1)
  have hs := decimalScale_fixed (ty := c.type) (p := c.precision) (s := c.scale) (fun h => (hdec h).2)
  unfold init
  have h1 : rdReq "name" (some c.name) = some c.name := rfl
  have e1 : rd "type" (some (rawTy c.type)) (RawTy.member missingName) = rawTy c.type := rfl
  have e2 : rd "element_type" (some (c.element_type.map rawTy)) none = c.element_type.map rawTy := rfl
  have e3 : rd "length" (none : Option (Option Nat)) none = none := rfl
  have e4 : rd "precision" (some c.precision) none = c.precision := rfl
  have e5 : rd "scale" (some c.scale) none = c.scale := rfl
  have e6 : rd "disposition" (none : Option (Option RawDisp)) none = none := rfl
  have e7 : rd "default" (some c.default) K.none = c.default := rfl
  have e8 : resolveDisp none = .ok none := rfl
  simp only [h1, e1, e2, e3, e4, e5, e6, e7, e8, resolveType_rawTy, resolveElem_rawTy, hdflt, hp, hs]
  cases c
  rfl

/-! ### the written forms read back -/

theorem base_resolves : ∀ m ∈ TypeName.baseTypes, TypeName.fromName (TypeName.valueOf m)
    = .ok { ty := .member m, elem := if m = TypeName.litArray then some TypeName.litVarchar else none } := by
  decide

theorem base_ne_missing : ∀ m ∈ TypeName.baseTypes, TypeName.valueOf m ≠ TypeName.valueOf missingName := by
  decide

theorem disp_resolves : ∀ n ∈ dispositions.map Prod.fst, resolveDisp (some (writeDisp n)) = .ok (some n) := by
  decide

/-- the fills of the type-literal block are guarded by `is None` (`Gen.Persist.initFills`): a given value stays,
whatever it is (0 included) -/
theorem fill_some {α : Type} (attr : String) (falsy : α → Bool) (parsed : String → Option α) (v : α)
    (h : attr = "element_type" ∨ attr = "length" ∨ attr = "precision" ∨ attr = "scale") :
    fill attr falsy parsed (some v) = some v := by
  rcases h with rfl | rfl | rfl | rfl <;> rfl

theorem resolveType_written {m : Str} (hm : m ∈ TypeName.baseTypes) (e : Option RawTy) (l p s : Option Nat)
    (hA : m = TypeName.litArray → e.isSome = true) :
    resolveType (.text (TypeName.valueOf m)) e l p s = .ok ⟨.member m, e, l, p, s⟩ := by
  unfold resolveType
  simp only [fromNameRaw, base_resolves m hm]
  have he : fill "element_type" rawTyFalsy
      (elemField { ty := .member m, elem := if m = TypeName.litArray then some TypeName.litVarchar else none }) e = e := by
    cases e with
    | some x => rfl
    | none =>
      by_cases h : m = TypeName.litArray
      · have := hA h; simp at this
      · show elemField _ "elem" = none
        simp [elemField, h]
  simp only [he]
  cases l <;> cases p <;> cases s <;> rfl

/-! #### `FlatColumn.from_dict`'s statements on a written dictionary -/

/-- what the second statement does to the element type: the value of `_MISSING_TYPE` becomes the member -/
def restoreElem (e : Option (Option RawTy)) : Option (Option RawTy) :=
  match e with
  | some (some t) => if tyEqValue t missingName then some (some (.member missingName)) else e
  | _ => e

def typeIs (d : Raw V) (m : Str) : Bool :=
  match d.type with
  | some t => tyEqValue t m
  | none => false

def elemIsNull (d : Raw V) : Bool :=
  match d.element_type with
  | some none => true
  | _ => false

/-- `from_dict`'s three statements in closed form (checked against `Gen.Persist.fromDictRules` by unfolding) -/
theorem prepare_eq (d : Raw V) : prepare d =
    (let d1 : Raw V := if typeIs d missingName then { d with type := some (.member missingName) } else d
     let d2 : Raw V := { d1 with element_type := restoreElem d1.element_type }
     if typeIs d2 TypeName.litArray && elemIsNull d2 then { d2 with type := some (.member TypeName.litArray) } else d2) := by
  have h0 : prepare d = applyRule (applyRule (applyRule d
      ([("eqValue", "type", "_MISSING_TYPE")], "type", "_MISSING_TYPE"))
      ([("eqValue", "element_type", "_MISSING_TYPE")], "element_type", "_MISSING_TYPE"))
      ([("eqValue", "type", "ARRAY"), ("present", "element_type", ""), ("isNone", "element_type", "")], "type", "ARRAY") := rfl
  have hmn : "_MISSING_TYPE".toList = missingName := by decide
  have har : "ARRAY".toList = TypeName.litArray := by decide
  have h1 : ∀ d : Raw V, applyRule d ([("eqValue", "type", "_MISSING_TYPE")], "type", "_MISSING_TYPE")
      = if typeIs d missingName then { d with type := some (.member missingName) } else d := by
    intro d
    simp only [applyRule, List.all_cons, List.all_nil, Bool.and_true, evalCond, assignMember, typeIs, hmn]
    rfl
  have h2 : ∀ d : Raw V, applyRule d ([("eqValue", "element_type", "_MISSING_TYPE")], "element_type", "_MISSING_TYPE")
      = { d with element_type := restoreElem d.element_type } := by
    intro d
    cases d with
    | mk n df t e =>
      cases e with
      | none => rfl
      | some e =>
        cases e with
        | none => rfl
        | some t' =>
          by_cases h : tyEqValue t' missingName = true
          · simp [applyRule, evalCond, assignMember, restoreElem, h, hmn]
          · simp [applyRule, evalCond, restoreElem, h, hmn]
  have h3 : ∀ d : Raw V, applyRule d
      ([("eqValue", "type", "ARRAY"), ("present", "element_type", ""), ("isNone", "element_type", "")], "type", "ARRAY")
      = if typeIs d TypeName.litArray && elemIsNull d then { d with type := some (.member TypeName.litArray) } else d := by
    intro d
    cases d with
    | mk n df t e =>
      cases e with
      | none => simp [applyRule, evalCond, elemIsNull]
      | some e =>
        cases e with
        | none =>
          simp only [applyRule, List.all_cons, List.all_nil, Bool.and_true, evalCond, elemIsNull, typeIs, assignMember, har,
            Option.isSome_some]
          rfl
        | some t' => simp [applyRule, evalCond, elemIsNull]
  rw [h0, h1, h2, h3]

theorem base_value_array : ∀ m ∈ persistableTypes,
    (TypeName.valueOf m == TypeName.valueOf TypeName.litArray) = (m == TypeName.litArray) := by
  decide

/-- the element type as `from_dict` hands it to the constructor -/
def restoredElem (e : Option Ty) : Option RawTy :=
  match restoreElem (some (e.map writeTy)) with
  | some x => x
  | none => none

theorem restoreElem_written (e : Option Ty) :
    restoreElem (some (e.map writeTy)) = some (restoredElem e) := by
  unfold restoredElem restoreElem
  cases e with
  | none => rfl
  | some t => simp only [Option.map_some]; split <;> rfl

theorem resolveElem_written (e : Option Ty)
    (h : ∀ t, e = some t → ∃ m, t = .member m ∧ m ∈ persistableTypes) :
    resolveElem (restoredElem e) = .ok e := by
  cases e with
  | none => rfl
  | some t =>
    obtain ⟨m, rfl, hm⟩ := h t rfl
    simp only [persistableTypes, List.mem_cons] at hm
    rcases hm with rfl | hm
    · rfl
    · have hne : (TypeName.valueOf m == TypeName.valueOf missingName) = false := by
        simpa using base_ne_missing m hm
      have hw : writeTy (.member m) = .text (TypeName.valueOf m) := rfl
      simp [restoredElem, restoreElem, hw, tyEqValue, hne, resolveElem, fromNameRaw, base_resolves m hm]

theorem restoredElem_isSome (e : Option Ty) (h : e.isSome = true) : (restoredElem e).isSome = true := by
  cases e with
  | none => simp at h
  | some t =>
    by_cases h : tyEqValue (writeTy t) missingName = true <;> simp [restoredElem, restoreElem, h]

theorem restoredElem_none : restoredElem none = none := rfl

theorem resolveDisp_written (d : Option String) (h : ∀ n, d = some n → n ∈ dispositions.map Prod.fst) :
    resolveDisp (d.map writeDisp) = .ok d := by
  cases d with
  | none => rfl
  | some n => exact disp_resolves n (h n rfl)

/-- reading back what `to_dict` / `to_json` wrote for one column, with the default possibly in another
rendering `dv` that casts back to it -/
theorem colFromDict_written (K : Caster V) (fresh : String) (c : Col V)
    (hdec : isDecimal c.type = true → c.precision.isSome = true ∧ c.scale.isSome = true)
    (hp : Persistable c) (dv : V) (hdv : resolveDefault K c.type dv = .ok c.default) :
    colFromDict K fresh { colToDict c with default := some dv } = .ok c := by
  obtain ⟨⟨m, hty, hm⟩, helem, hdisp⟩ := hp
  rw [colToDict_eq]
  unfold colFromDict
  rw [prepare_eq]
  have he := resolveElem_written c.element_type helem
  have hd := resolveDisp_written c.disposition hdisp
  have harr := base_value_array m hm
  simp only [persistableTypes, List.mem_cons] at hm
  rcases hm with rfl | hm
  · -- untyped: the first statement hands the member over
    have hw : writeTy c.type = .text (TypeName.valueOf missingName) := by rw [hty]; rfl
    have t1 : tyEqValue (.text (TypeName.valueOf missingName)) missingName = true := by decide
    have t2 : tyEqValue (.member missingName) TypeName.litArray = false := by decide
    simp only [typeIs, hw, t1, t2, if_true, restoreElem_written, Bool.false_and, Bool.false_eq_true, if_false]
    refine init_normalised K fresh c hdec _ _ _ (.member missingName) dv rfl ?_ he hd hdv
    rw [hty]; rfl
  · have hw : writeTy c.type = .text (TypeName.valueOf m) := by rw [hty]; rfl
    have t1 : tyEqValue (.text (TypeName.valueOf m)) missingName = false := by
      simpa [tyEqValue] using base_ne_missing m hm
    have t2 : tyEqValue (.text (TypeName.valueOf m)) TypeName.litArray = (m == TypeName.litArray) := harr
    simp only [typeIs, hw, t1, t2, Bool.false_eq_true, if_false, restoreElem_written]
    cases hE : c.element_type with
    | none =>
      simp only [restoredElem_none, elemIsNull, Bool.and_true]
      by_cases hA : m = TypeName.litArray
      · -- a bare ARRAY: the third statement hands the member over, so the element type is not defaulted
        have t3 : (m == TypeName.litArray) = true := by simp [hA]
        simp only [t3, if_true]
        refine init_normalised K fresh c hdec _ none _ (.member TypeName.litArray) dv ?_ ?_ ?_ hd hdv
        · rfl
        · rw [hty, hA]; rfl
        · rw [hE]; rfl
      · have t3 : (m == TypeName.litArray) = false := by simp [hA]
        simp only [t3, Bool.false_eq_true, if_false]
        refine init_normalised K fresh c hdec _ none _ (.text (TypeName.valueOf m)) dv ?_ ?_ ?_ hd hdv
        · rfl
        · rw [hty]
          exact resolveType_written hm _ _ _ _ (fun h => absurd h hA)
        · rw [hE]; rfl
    | some t =>
      have hs := restoredElem_isSome (some t) rfl
      cases hr : restoredElem (some t) with
      | none => rw [hr] at hs; cases hs
      | some x =>
        simp only [elemIsNull, Bool.and_false, Bool.false_eq_true, if_false]
        rw [hE, hr] at he
        refine init_normalised K fresh c hdec _ (some x) _ (.text (TypeName.valueOf m)) dv ?_ ?_ ?_ hd hdv
        · rfl
        · rw [hty]
          exact resolveType_written hm _ _ _ _ (fun _ => rfl)
        · rw [hE]; exact he

theorem mapE_written (K : Caster V) (fresh : String) (cs : List (Col V))
    (h : ∀ c ∈ cs, Constructed K c ∧ Persistable c) :
    mapE (load columnLoader K fresh) (cs.map colToDict) = .ok cs := by
  induction cs with
  | nil => rfl
  | cons c cs ih =>
    have hc := h c (List.mem_cons_self)
    have h1 : load columnLoader K fresh (colToDict c) = .ok c := by
      show colFromDict K fresh (colToDict c) = .ok c
      have := colFromDict_written K fresh c hc.1.2 hc.2 c.default (resolveDefault_fixed hc.1.1)
      rw [colToDict_eq] at this ⊢
      exact this
    have h2 := ih (fun c' hc' => h c' (List.mem_cons_of_mem _ hc'))
    simp only [List.map_cons, mapE, h1, h2]

theorem fromDict_toDict_eq (K : Caster V) (fresh : String) (s : Schema V)
    (h : ∀ c ∈ s.columns, Constructed K c ∧ Persistable c) :
    fromDict K fresh (toDict s) = .ok s := by
  have hn : fw fromDictRestores (sName (toDict s)) "name" = some s.name := rfl
  have ha : fw fromDictRestores (sAliases (toDict s)) "aliases" = some s.aliases := rfl
  have hp : fw fromDictRestores (sPrimaryKey (toDict s)) "primary_key" = some s.primary_key := rfl
  have hk : fromDictRestores.lookup "columns" = some "columns" := rfl
  have hc : sColumns (toDict s) "columns" = some (s.columns.map colToDict) := rfl
  unfold fromDict
  simp only [hn, ha, hp, hk, hc, mapE_written K fresh s.columns h, Option.getD_some]

theorem jsonRoundTrip_eq (K : Caster V) (fresh : String) (c : Col V)
    (hc : Constructed K c) (hp : Persistable c) (hn : JsonNative K c) (hd : DefaultSurvivesJson K c) :
    jsonRoundTrip K fresh c = .ok c := by
  obtain ⟨j, hj, hdv⟩ := hd
  obtain ⟨hh, hl, hex, hfit⟩ := hn
  have h1 : colToJson K c = .ok { colToDict c with default := some j } := by
    unfold colToJson
    simp only [hj, hh, hl, hex, hfit, Bool.not_true, Bool.false_eq_true, if_false]
    rw [colToDict_eq]
    rfl
  unfold jsonRoundTrip
  simp only [h1]
  show colFromDict K fresh { colToDict c with default := some j } = .ok c
  exact colFromDict_written K fresh c hc.2 hp j hdv

/-! ### decidable forms of the hypotheses (for concrete instances) -/

def persistableB (c : Col V) : Bool :=
  (match c.type with
    | .member m => persistableTypes.contains m
    | .zero => false)
  && (match c.element_type with
    | none => true
    | some (.member e) => persistableTypes.contains e
    | some .zero => false)
  && (match c.disposition with
    | none => true
    | some n => (dispositions.map Prod.fst).contains n)

theorem persistable_of_B (c : Col V) (h : persistableB c = true) : Persistable c := by
  simp only [persistableB, Bool.and_eq_true] at h
  obtain ⟨⟨h1, h2⟩, h4⟩ := h
  refine ⟨?_, ?_, ?_⟩
  · cases hty : c.type with
    | zero => simp [hty] at h1
    | member m => exact ⟨m, rfl, by simpa [hty] using h1⟩
  · intro e he
    rw [he] at h2
    cases e with
    | zero => simp at h2
    | member m => exact ⟨m, rfl, by simpa using h2⟩
  · intro n hn
    rw [hn] at h4
    simpa using h4

def constructedB [DecidableEq V] (K : Caster V) (c : Col V) : Bool :=
  (!K.truthy c.default ||
    (match c.type with
      | .member m => decide (K.parse m c.default = some c.default)
      | .zero => false))
  && (!isDecimal c.type || (c.precision.isSome && c.scale.isSome))

theorem constructed_of_B [DecidableEq V] (K : Caster V) (c : Col V) (h : constructedB K c = true) :
    Constructed K c := by
  simp only [constructedB, Bool.and_eq_true, Bool.or_eq_true, Bool.not_eq_true'] at h
  obtain ⟨h1, h2⟩ := h
  refine ⟨?_, ?_⟩
  · intro ht
    rcases h1 with h1 | h1
    · rw [ht] at h1; cases h1
    · cases hty : c.type with
      | zero => simp [hty] at h1
      | member m => exact ⟨m, rfl, by simpa [hty] using h1⟩
  · intro hd
    rcases h2 with h2 | h2
    · rw [hd] at h2; cases h2
    · exact h2

theorem typeCode_member_isSome (d : TypeName.Desc) (m : Str) (h : d.ty = .member m) :
    (TypeName.typeCode d).isSome = true := by
  unfold TypeName.typeCode
  rw [h]
  simp only
  split <;> rfl

theorem describeCol_isSome (c : Col V) (hp : Persistable c) : (describeCol c).isSome = true := by
  obtain ⟨⟨m, hty, _⟩, helem, _⟩ := hp
  unfold describeCol
  cases he : c.element_type with
  | none =>
    simp only
    have := typeCode_member_isSome { ty := c.type, length := c.length, precision := c.precision, scale := c.scale, elem := none } m hty
    cases htc : TypeName.typeCode { ty := c.type, length := c.length, precision := c.precision, scale := c.scale, elem := none } with
    | none => rw [htc] at this; cases this
    | some code => rfl
  | some t =>
    obtain ⟨e, rfl, _⟩ := helem t he
    simp only
    have := typeCode_member_isSome { ty := c.type, length := c.length, precision := c.precision, scale := c.scale, elem := some e } m hty
    cases htc : TypeName.typeCode { ty := c.type, length := c.length, precision := c.precision, scale := c.scale, elem := some e } with
    | none => rw [htc] at this; cases this
    | some code => rfl

end Persist
