import OrsoVerif.Model.SchemaOps
/-!
# C17 — a small-scope battery that tells a *different* function from an *unrecognised spelling*

When `orso/schema.py` changes, the extractor (`harness/extractors/c17_fns.py`) translates the new text and
elaborates the equivalence theorems of `Props/C17.lean` against it.  If a proof stops checking there are two
possibilities: the function now means something else (then the theorem must be left broken: that is the
verdict), or the translation is spelled in a way the proof script does not recognise (then the translation
is dropped in favour of the pinned one and the correspondence carries the function, as for any shape the
translator does not know).  The battery decides between the two by *running* the translated function
against the model on every input of a small scope (the same scope the Python correspondence enumerates):
a difference is reported with the input; no difference on the whole scope ⇒ "unrecognised spelling".

Everything is over `Nat` identities and names; "lower-casing" is `· % 2` (so 2 is the upper-case 0).
Nothing here is used by a theorem.
-/
namespace SchemaBattery
open SchemaOps

abbrev C := Col Nat Nat
abbrev S := Schema Nat Nat

def lower (n : Nat) : Nat := n % 2

def aliasShapes : List (Option (List Nat)) := [none, some [], some [0], some [1], some [2], some [1, 0]]

/-- every column kind over one identity: names 0,1,2 × the alias shapes -/
def kinds : List (Nat × Option (List Nat)) :=
  [0, 1, 2].flatMap (fun n => aliasShapes.map (fun a => (n, a)))

/-- all lists of length exactly n over `xs` -/
def listsOfLen {α : Type} (xs : List α) : Nat → List (List α)
  | 0 => [[]]
  | n + 1 => (listsOfLen xs n).flatMap (fun l => xs.map (fun x => x :: l))

/-- all lists of length ≤ n over `xs` -/
def listsUpTo {α : Type} (xs : List α) (n : Nat) : List (List α) :=
  (List.range (n + 1)).flatMap (listsOfLen xs)

def tagged (l : List (Nat × Option (List Nat))) : List C :=
  l.zipIdx.map (fun (x, i) => { tag := i, identity := 10 + i, name := x.1, aliases := x.2 })

/-- every schema of ≤ 3 columns over names {0,1,2} × alias shapes (6 175, as in the Python scope) -/
def lookupSchemas : List S :=
  (listsUpTo kinds 3).map (fun l => { name := 7, aliases := [8], columns := tagged l })

def firstSome {α : Type} (xs : List α) (f : α → Option String) : Option String :=
  xs.foldl (fun acc x => match acc with | some r => some r | none => f x) none

def keys : List Nat := [0, 1, 2, 3]

/-- Instances of the string parameters (`StrOps`) the translated functions are run with: names are numbers here, so
"the name reads as a position" is `toInt n = some n` with every predicate true (names 0, 1, 2 in every order and
multiplicity are in the scope: a name is rarely its own position); then nothing is a number; then a mixture with a
`strip`-like map that identifies names. -/
def strOps : List (String × StrOps Nat) :=
  [("every str predicate true, int(n) = n", ⟨fun _ _ => true, fun _ n => n, fun n => some (n : Int), fun s => s.length⟩),
   ("every str predicate false, int(n) raises, every str method adds one", ⟨fun _ _ => false, fun _ n => n + 1, fun _ => none, fun _ => 0⟩),
   ("predicates: even, str methods: mod 2, int(n) = n - 1 below 2", ⟨fun _ n => n % 2 == 0, fun _ n => n % 2,
      fun n => if n < 2 then some ((n : Int) - 1) else none, fun s => s.length % 3⟩)]

/-- Instances of "the other texts a column carries, read as names" (`ColText`): identities are `10 + position` here, so
"the identity read as a name" is `identity - 10` (every key 0..3 is then some column's identity in a schema wide enough,
and rarely that column's name); then a constant (every column carries the text 1). -/
def colTexts : List (String × ColText Nat Nat) :=
  [("a column's other texts read as names: its identity - 10", ⟨fun _ c => c.identity - 10⟩),
   ("a column's other texts read as names: all 1", ⟨fun _ _ => 1⟩)]

def checkAllNames (f : C → List Nat) : Option String :=
  firstSome ((tagged kinds)) (fun c =>
    if f c = c.allNames then none else some s!"all_names of {repr c}: generated {f c}, model {c.allNames}")

def checkFind (f : StrOps Nat → ColText Nat Nat → (Nat → Nat) → S → Nat → Bool → Option C) : Option String :=
  firstSome colTexts (fun (lblT, ct) => firstSome strOps (fun (lbl, so) => firstSome lookupSchemas (fun s => firstSome keys (fun k => firstSome [false, true] (fun ci =>
    if f so ct lower s k ci = find lower s.columns k ci then none
    else some s!"find_column({k}, case_insensitive={ci}) on {repr s.columns} [{lbl}; {lblT}]: generated {repr (f so ct lower s k ci)}, model {repr (find lower s.columns k ci)}")))))

def columnKeys : List (Key Nat) :=
  [.idx (-4), .idx (-3), .idx (-2), .idx (-1), .idx 0, .idx 1, .idx 2, .idx 3, .flag true, .flag false,
   .name 0, .name 1, .name 2, .name 3]

def showExcept : Except String (Out Nat Nat) → String
  | .ok o => s!"{repr o}"
  | .error e => s!"raises {e}"

def isOk (r : Except String (Out Nat Nat)) (o : Out Nat Nat) : Bool :=
  match r with
  | .ok o' => decide (o' = o)
  | .error _ => false

def checkColumn (f : StrOps Nat → ColText Nat Nat → S → Key Nat → Except String (Out Nat Nat)) : Option String :=
  firstSome colTexts (fun (lblT, ct) => firstSome strOps (fun (lbl, so) => firstSome lookupSchemas (fun s => firstSome columnKeys (fun k =>
    if isOk (f so ct s k) (column s.columns k) then none
    else some s!"column({repr k}) on {repr s.columns} [{lbl}; {lblT}]: generated {showExcept (f so ct s k)}, model {repr (column s.columns k)}"))))

def checkPop (f : StrOps Nat → ColText Nat Nat → S → Nat → Option C × List C) : Option String :=
  firstSome colTexts (fun (lblT, ct) => firstSome strOps (fun (lbl, so) => firstSome lookupSchemas (fun s => firstSome keys (fun k =>
    if f so ct s k = popCol k s.columns then none
    else some s!"pop_column({k}) on {repr s.columns} [{lbl}; {lblT}]: generated {repr (f so ct s k)}, model {repr (popCol k s.columns)}"))))

def checkNames (cn it acn : S → List Nat) (nc : S → Nat) : Option String :=
  firstSome lookupSchemas (fun s =>
    if cn s ≠ columnNames s.columns then some s!"column_names on {repr s.columns}: generated {cn s}"
    else if it s ≠ columnNames s.columns then some s!"__iter__ on {repr s.columns}: generated {it s}"
    else if acn s ≠ allColumnNames s.columns then some s!"all_column_names on {repr s.columns}: generated {acn s}"
    else if nc s ≠ s.columns.length then some s!"num_columns on {repr s.columns}: generated {nc s}"
    else none)

/-- union operands: three identities, two objects (tags) per identity, ≤ 3 columns each side (259² pairs) -/
def unionKinds : List C :=
  [0, 1, 2].flatMap (fun i => [{ tag := 2 * i, identity := i, name := 0, aliases := none },
                               { tag := 2 * i + 1, identity := i, name := 1, aliases := some [0] }])

def unionLists : List (List C) := listsUpTo unionKinds 3

def checkAdd (f : S → S → S) : Option String :=
  firstSome [[8], []] (fun la => firstSome unionLists (fun a => firstSome unionLists (fun b =>
    let sa : S := { name := 7, aliases := la, columns := a }
    let sb : S := { name := 9, aliases := [5], columns := b }
    if f sa sb = union sa sb then none
    else some s!"{repr sa} + {repr sb}: generated {repr (f sa sb)}, model {repr (union sa sb)}")))

/-- iteration in progress: every schema of ≤ 3 columns over the names 0, 1, 2 (no aliases) -/
def iterSchemas : List S :=
  (listsUpTo [((0 : Nat), (none : Option (List Nat))), (1, none), (2, none)] 3).map (fun l => { name := 7, aliases := [8], columns := tagged l })

/-- an iterator obtained, advanced 0, 1 or 2 steps, a removal, the iterator advanced and drained -/
def iterProgs : List (List (IOp Nat)) :=
  [[.mk 0, .ask 0 .drain], [.mk 0, .ask 0 .next, .ask 0 .next, .ask 0 .next, .ask 0 .next, .ask 0 .drain]] ++ keys.flatMap (fun k =>
    [[.mk 0, .base (.on 0 (.pop k)), .ask 0 .drain],
     [.mk 0, .ask 0 .next, .base (.on 0 (.pop k)), .ask 0 .drain],
     [.mk 0, .ask 0 .next, .base (.on 0 (.pop k)), .base (.add 0 0), .mk 0, .ask 0 .next, .ask 1 .drain, .ask 0 .drain],
     [.mk 0, .ask 0 .next, .ask 0 .next, .base (.on 0 (.pop k)), .ask 0 .next, .ask 0 .drain]])

def checkIter (f : S → IterSrc Nat Nat) : Option String :=
  firstSome iterSchemas (fun s => firstSome iterProgs (fun p =>
    let a := (irun f lower ⟨[s], []⟩ p).map (·.2)
    let b := (irun iterSrc lower ⟨[s], []⟩ p).map (·.2)
    if a = b then none
    else some s!"iterator program {repr p} on {repr s.columns}: generated {repr a}, model {repr b}"))

end SchemaBattery
