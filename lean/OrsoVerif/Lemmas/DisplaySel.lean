import OrsoVerif.Model.Display
import OrsoVerif.Lemmas.DisplaySpec
/-! Helper lemmas for C18, part 1: row selection and labelling. -/
namespace Display
variable {α : Type}

theorem dfHead_eq (rows : List α) (limit : Nat) (h : 0 < limit) : dfHead rows limit = rows.take limit := by
  have h0 : limit ≠ 0 := by omega
  have h1 : ¬ ((limit : Int) < 0) := by omega
  simp [dfHead, dfSlice, pySlice, pyIdx, h0, h1]

theorem dfTail_eq (rows : List α) (limit : Nat) (h : 0 < limit) (hn : limit ≤ rows.length) :
    dfTail rows limit = rows.drop (rows.length - limit) := by
  have h0 : limit ≠ 0 := by omega
  simp only [dfTail, dfSlice, pySlice, pyIdx, h0, if_false]
  have e1 : ((0 : Int) - (limit : Int) < 0) := by omega
  simp only [e1, if_true]
  have e2 : ¬ ((rows.length : Int) + (0 - (limit : Int)) + (limit : Int) < 0) := by omega
  have e3 : ¬ ((rows.length : Int) + (0 - (limit : Int)) < 0) := by omega
  simp only [e2, e3, if_false]
  have e4 : min ((rows.length : Int) + (0 - (limit : Int)) + (limit : Int)).toNat rows.length = rows.length := by omega
  have e5 : min ((rows.length : Int) + (0 - (limit : Int))).toNat rows.length = rows.length - limit := by omega
  rw [e4, e5, List.take_length]

theorem labelFrom_append (k : Nat) (xs ys : List α) :
    labelFrom k (xs ++ ys) = labelFrom k xs ++ labelFrom (k + xs.length) ys := by
  induction xs generalizing k with
  | nil => simp [labelFrom]
  | cons x xs ih => simp [labelFrom, ih, Nat.add_assoc, Nat.add_comm 1]

theorem eagerGo_append (A : Arith) (n tlen limit : Nat) (tt : Bool) (i : Nat) (xs ys : List α) :
    eagerGo A n tlen limit tt i (xs ++ ys)
      = eagerGo A n tlen limit tt i xs ++ eagerGo A n tlen limit tt (i + xs.length) ys := by
  induction xs generalizing i with
  | nil => simp [eagerGo]
  | cons x xs ih => simp [eagerGo, ih, Nat.add_assoc, Nat.add_comm 1]

/-- no head/tail split: plain consecutive labels -/
theorem eagerGo_plain (n tlen limit : Nat) (tt : Bool) (h : ¬ (tt = true ∧ 2 * limit < n))
    (i : Nat) (xs : List α) : eagerGo specArith n tlen limit tt i xs = labelFrom (i + 1) xs := by
  induction xs generalizing i with
  | nil => simp [eagerGo, labelFrom]
  | cons x xs ih => simp [eagerGo, labelFrom, eagerLineAt, h, ih]

/-- rows before position `limit`: plain labels -/
theorem eagerGo_before (n tlen limit : Nat) (tt : Bool) (i : Nat) (xs : List α)
    (h : i + xs.length ≤ limit) : eagerGo specArith n tlen limit tt i xs = labelFrom (i + 1) xs := by
  induction xs generalizing i with
  | nil => simp [eagerGo, labelFrom]
  | cons x xs ih =>
    simp only [List.length_cons] at h
    have h1 : ¬ (i = limit) := by omega
    have h2 : ¬ (limit ≤ i) := by omega
    simp only [eagerGo, labelFrom, eagerLineAt, spec_eagerSplit, spec_eagerAtEll, spec_eagerInTail,
      spec_eagerLabel, h1, h2, if_false]
    rw [ih (i + 1) (by omega)]
    split <;> simp

/-- rows after position `limit` in a split table: labels shifted by `base - 2*limit` -/
theorem eagerGo_after (n tlen limit : Nat) (hb : 2 * limit < n) (i : Nat) (xs : List α)
    (h : limit < i) :
    eagerGo specArith n tlen limit true i xs = labelFrom (i + (n - 2 * limit) + 1) xs := by
  induction xs generalizing i with
  | nil => simp [eagerGo, labelFrom]
  | cons x xs ih =>
    have h1 : ¬ (i = limit) := by omega
    have h2 : limit ≤ i := by omega
    simp only [eagerGo, labelFrom, eagerLineAt, spec_eagerSplit, spec_eagerAtEll, spec_eagerInTail,
      spec_eagerLabel, spec_eagerShift, h1, h2, hb, if_false, if_true, and_self, List.nil_append,
      List.cons_append]
    simp only [show ∀ j, j + n - 2 * limit = j + (n - 2 * limit) from fun j => by omega]
    rw [ih (i + 1) (by omega)]
    congr 2
    omega

/-- closed form of the eager lines of a split table, for either label arithmetic -/
theorem eagerLines_split (rows : List α) (limit : Nat) (hl : 0 < limit)
    (hn : 2 * limit < rows.length) :
    eagerLines specArith rows limit true
      = labelFrom 1 (rows.take limit) ++ [Line.ellipsis]
        ++ labelFrom (limit + (rows.length - 2 * limit) + 1) (rows.drop (rows.length - limit)) := by
  have hcut : eagerCut specArith rows limit true = rows.take limit ++ rows.drop (rows.length - limit) := by
    simp only [eagerCut, spec_headTail, spec_eagerHeadSize, spec_eagerTailSize, spec_eagerSliceLen]
    rw [if_neg (by simp), if_pos ⟨hl, trivial⟩, if_pos (by omega), dfHead_eq _ _ hl, dfTail_eq _ _ hl (by omega)]
  have hlen : (rows.take limit ++ rows.drop (rows.length - limit)).length = 2 * limit := by
    simp [List.length_take, List.length_drop]; omega
  simp only [eagerLines, hcut, hlen]
  rw [eagerGo_append, eagerGo_before _ _ _ _ 0 _ (by simp [List.length_take]; omega)]
  have htl : (rows.take limit).length = limit := by simp [List.length_take]; omega
  rw [htl]
  cases hd : rows.drop (rows.length - limit) with
  | nil =>
    have : (rows.drop (rows.length - limit)).length = limit := by simp [List.length_drop]; omega
    rw [hd] at this; simp at this; omega
  | cons y ys =>
    simp only [eagerGo, eagerLineAt, spec_eagerSplit, spec_eagerAtEll, spec_eagerInTail, spec_eagerLabel,
      spec_eagerShift, hn, Nat.zero_add, if_true, and_self, Nat.le_refl, labelFrom,
      List.cons_append, List.nil_append, List.append_assoc]
    simp only [show ∀ j, j + rows.length - 2 * limit = j + (rows.length - 2 * limit) from fun j => by omega]
    rw [eagerGo_after _ _ _ hn _ _ (by omega)]
    have e : ∀ X : Nat, limit + 1 + X + 1 = limit + X + 1 + 1 := by intro X; omega
    rw [e]

theorem foldl_dequePush (m : Nat) (rest d : List α) (hd : d.length ≤ m) :
    rest.foldl (dequePush m) d = (d ++ rest).drop ((d ++ rest).length - m) := by
  induction rest generalizing d with
  | nil =>
    have : d.length - m = 0 := by omega
    simp [this]
  | cons x xs ih =>
    simp only [List.foldl_cons]
    have hpush : dequePush m d x = (d ++ [x]).drop ((d ++ [x]).length - m) ∧ (dequePush m d x).length ≤ m := by
      unfold dequePush
      by_cases hlt : m < (d ++ [x]).length
      · simp only [hlt, if_true]
        have : (d ++ [x]).length - m = 1 := by simp at hlt ⊢; omega
        rw [this]; simp; simp at hlt; omega
      · simp only [hlt, if_false]
        have : (d ++ [x]).length - m = 0 := by omega
        rw [this]; simp; simp at hlt; omega
    rw [ih _ hpush.2, hpush.1]
    have hk : (d ++ [x]).length - m ≤ (d ++ [x]).length := by omega
    rw [← List.drop_append_of_le_length hk, List.drop_drop]
    simp only [List.append_assoc, List.singleton_append, List.length_append, List.length_drop, List.length_cons,
      List.length_nil]
    congr 1
    omega

theorem lazyGo_plain (limit ll : Nat) (h : ¬ (2 * limit < ll)) (i off : Nat) (xs : List α) :
    lazyGo specArith limit ll i off xs = labelFrom (i + off) xs := by
  induction xs generalizing i with
  | nil => simp [lazyGo, labelFrom]
  | cons x xs ih =>
    simp only [lazyGo, spec_lazyEll, spec_lazyLabel, h, and_false, if_false, labelFrom, ih]
    congr 2; omega

theorem lazyGo_before (limit ll : Nat) (i off : Nat) (xs : List α) (h : i + xs.length ≤ limit) :
    lazyGo specArith limit ll i off xs = labelFrom (i + off) xs := by
  induction xs generalizing i with
  | nil => simp [lazyGo, labelFrom]
  | cons x xs ih =>
    simp only [List.length_cons] at h
    have h1 : ¬ (i = limit) := by omega
    simp only [lazyGo, spec_lazyEll, spec_lazyLabel, h1, false_and, if_false, labelFrom]
    rw [ih (i + 1) (by omega)]
    congr 2; omega

theorem lazyGo_after (limit ll : Nat) (i off : Nat) (xs : List α) (h : limit < i) :
    lazyGo specArith limit ll i off xs = labelFrom (i + off) xs := by
  induction xs generalizing i with
  | nil => simp [lazyGo, labelFrom]
  | cons x xs ih =>
    have h1 : ¬ (i = limit) := by omega
    simp only [lazyGo, spec_lazyEll, spec_lazyLabel, h1, false_and, if_false, labelFrom]
    rw [ih (i + 1) (by omega)]
    congr 2; omega

theorem lazyGo_append_before (limit ll : Nat) (i off : Nat) (xs ys : List α) (h : i + xs.length ≤ limit) :
    lazyGo specArith limit ll i off (xs ++ ys) = labelFrom (i + off) xs ++ lazyGo specArith limit ll (i + xs.length) off ys := by
  induction xs generalizing i with
  | nil => simp [labelFrom]
  | cons x xs ih =>
    simp only [List.length_cons] at h
    have h1 : ¬ (i = limit) := by omega
    simp only [List.cons_append, lazyGo, spec_lazyEll, spec_lazyLabel, h1, false_and, if_false, labelFrom]
    rw [ih (i + 1) (by omega)]
    simp only [List.length_cons]
    congr 2
    · congr 1; omega
    · congr 1; omega

theorem lazySelect_tt (rows : List α) (limit : Nat) (hl : 0 < limit) :
    lazySelect specArith rows limit true
      = (rows.take limit ++ (rows.drop limit).drop ((rows.drop limit).length - limit),
         ((rows.drop limit).length - 1) + (rows.take limit).length + 1) := by
  simp only [lazySelect]
  rw [show specArith.lazyHeadTake limit = limit from rfl, show specArith.dequeMax limit = limit from rfl]
  rw [if_neg (by simp), if_pos ⟨hl, trivial⟩, foldl_dequePush _ _ _ (by simp)]
  simp only [spec_lazyLenInit, spec_lazyLenUpd, List.nil_append, Prod.mk.injEq, true_and]
  by_cases he : (List.drop limit rows).isEmpty = true
  · rw [if_pos he]
    have : (rows.drop limit).length = 0 := by
      rw [List.isEmpty_iff] at he; rw [he]; rfl
    omega
  · rw [if_neg he]; omega

end Display

namespace Display
variable {α : Type}

theorem mem_labelFrom (k : Nat) (xs : List α) (l : Nat) (r : α) :
    Line.data l r ∈ labelFrom k xs ↔ ∃ i, xs[i]? = some r ∧ l = k + i := by
  induction xs generalizing k with
  | nil => simp [labelFrom]
  | cons x xs ih =>
    simp only [labelFrom, List.mem_cons, Line.data.injEq, ih]
    constructor
    · rintro (⟨rfl, rfl⟩ | ⟨i, hi, rfl⟩)
      · exact ⟨0, by simp⟩
      · exact ⟨i + 1, by simpa using hi, by omega⟩
    · rintro ⟨i, hi, rfl⟩
      cases i with
      | zero => left; simp at hi; exact ⟨rfl, hi.symm⟩
      | succ i => right; exact ⟨i, by simpa using hi, by omega⟩

theorem ellipsis_not_mem_labelFrom (k : Nat) (xs : List α) : Line.ellipsis ∉ labelFrom k xs := by
  induction xs generalizing k with
  | nil => simp [labelFrom]
  | cons x xs ih => simp [labelFrom, ih]

theorem filter_isEllipsis_labelFrom (k : Nat) (xs : List α) : (labelFrom k xs).filter isEllipsis = [] := by
  induction xs generalizing k with
  | nil => simp [labelFrom]
  | cons x xs ih => simp [labelFrom, isEllipsis, ih]

theorem length_labelFrom (k : Nat) (xs : List α) : (labelFrom k xs).length = xs.length := by
  induction xs generalizing k with
  | nil => simp [labelFrom]
  | cons x xs ih => simp [labelFrom, ih]

/-- closed form of the lazy lines in head-and-tail mode -/
theorem lazyLines_tt (rows : List α) (limit : Nat) (hl : 0 < limit) :
    lazyLines specArith rows limit true =
      if 2 * limit < rows.length then
        labelFrom 1 (rows.take limit) ++ [Line.ellipsis]
          ++ labelFrom (rows.length - limit + 1) (rows.drop (rows.length - limit))
      else labelFrom 1 rows := by
  simp only [lazyLines, lazySelect_tt rows limit hl, spec_lazyOffset0]
  by_cases hn : 2 * limit < rows.length
  · simp only [hn, if_true]
    have htl : (rows.take limit).length = limit := by simp [List.length_take]; omega
    have hll : (rows.drop limit).length - 1 + (rows.take limit).length + 1 = rows.length := by
      simp [List.length_take, List.length_drop]; omega
    have hdrop : (rows.drop limit).drop ((rows.drop limit).length - limit) = rows.drop (rows.length - limit) := by
      rw [List.drop_drop]; congr 1; simp [List.length_drop]; omega
    rw [hll, hdrop, lazyGo_append_before _ _ _ _ _ _ (by omega), htl]
    cases hd : rows.drop (rows.length - limit) with
    | nil =>
      have : (rows.drop (rows.length - limit)).length = limit := by simp [List.length_drop]; omega
      rw [hd] at this; simp at this; omega
    | cons y ys =>
      simp only [lazyGo, spec_lazyEll, spec_lazyLabel, spec_lazyOffsetUpd, Nat.zero_add, hn, and_self, if_true,
        labelFrom, List.append_assoc, List.cons_append, List.nil_append]
      simp only [show ∀ j, j + rows.length - 2 * limit = j + (rows.length - 2 * limit) from fun j => by omega]
      rw [lazyGo_after _ _ _ _ _ (by omega)]
      have e1 : limit + (1 + (rows.length - 2 * limit)) = rows.length - limit + 1 := by omega
      have e2 : limit + 1 + (1 + (rows.length - 2 * limit)) = rows.length - limit + 1 + 1 := by omega
      rw [e1, e2]
  · simp only [hn, if_false]
    by_cases hk : limit < rows.length
    · have hll : (rows.drop limit).length - 1 + (rows.take limit).length + 1 = rows.length := by
        simp [List.length_take, List.length_drop]; omega
      have h0 : (rows.drop limit).length - limit = 0 := by simp [List.length_drop]; omega
      rw [hll, h0, List.drop_zero, List.take_append_drop, lazyGo_plain _ _ hn]
    · have hd : rows.drop limit = [] := List.drop_eq_nil_iff.mpr (by omega)
      have ht : rows.take limit = rows := List.take_of_length_le (by omega)
      rw [hd, ht]
      simp only [List.length_nil, List.drop_nil, List.append_nil]
      rw [lazyGo_plain _ _ (by omega)]

theorem lazyLines_head (rows : List α) (limit : Nat) (hl : 0 < limit) :
    lazyLines specArith rows limit false = labelFrom 1 (rows.take limit) := by
  simp only [lazyLines, lazySelect, spec_lazyHeadOnlyTake, spec_lazyHeadTake, spec_dequeMax]
  rw [if_pos ⟨hl, trivial⟩]
  simp only [spec_lazyOffset0]
  rw [lazyGo_before _ _ _ _ _ (by simp [List.length_take]; omega)]

theorem eagerLines_small (rows : List α) (limit : Nat) (hl : 0 < limit)
    (hn : rows.length ≤ 2 * limit) : eagerLines specArith rows limit true = labelFrom 1 rows := by
  have hcut : eagerCut specArith rows limit true = rows := by
    simp only [eagerCut, spec_headTail, spec_eagerHeadSize, spec_eagerTailSize, spec_eagerSliceLen]
    rw [if_neg (by simp), if_pos ⟨hl, trivial⟩, if_neg (by omega)]
  simp only [eagerLines, hcut]
  rw [eagerGo_plain _ _ _ _ (by omega)]

theorem eagerLines_head (rows : List α) (limit : Nat) (hl : 0 < limit) :
    eagerLines specArith rows limit false = labelFrom 1 (rows.take limit) := by
  have hcut : eagerCut specArith rows limit false = rows.take limit := by
    simp only [eagerCut, spec_eagerSliceLen]
    rw [if_pos ⟨hl, trivial⟩]
    exact dfHead_eq rows limit hl
  simp only [eagerLines, hcut]
  rw [eagerGo_plain _ _ _ _ (by simp)]

end Display
