import OrsoVerif.Model.Display
/-! Helper lemmas for C18, part 0: what the fields of the reference arithmetic `specArith` are. -/
namespace Display

@[simp] theorem spec_headTail (n l : Nat) : (specArith.headTail n l = true) = (2 * l + 1 ≤ n) := by simp [specArith]
@[simp] theorem spec_lazyLenInit : specArith.lazyLenInit = 0 := rfl
@[simp] theorem spec_lazyLenUpd (ll h : Nat) : specArith.lazyLenUpd ll h = ll + (h + 1) := rfl
@[simp] theorem spec_lazyHeadOnly (t : Nat) : specArith.lazyHeadOnly t = t := rfl
@[simp] theorem spec_idxLazy (ll : Nat) : specArith.idxLazy ll = (natStr (ll + 1)).length + 2 := rfl
@[simp] theorem spec_idxEager (n : Nat) : specArith.idxEager n = (natStr n).length + 2 := rfl
@[simp] theorem spec_colWidth (a b c m : Nat) : specArith.colWidth a b c m = min (max (max a b) c) m := rfl
@[simp] theorem spec_lazyHeadOnlyTake (l : Nat) : specArith.lazyHeadOnlyTake l = l := rfl
@[simp] theorem spec_lazyHeadTake (l : Nat) : specArith.lazyHeadTake l = l := rfl
@[simp] theorem spec_dequeMax (l : Nat) : specArith.dequeMax l = l := rfl
@[simp] theorem spec_eagerHeadSize (l : Nat) : specArith.eagerHeadSize l = l := rfl
@[simp] theorem spec_eagerTailSize (l : Nat) : specArith.eagerTailSize l = l := rfl
@[simp] theorem spec_eagerSliceLen (l : Nat) : specArith.eagerSliceLen l = l := rfl
@[simp] theorem spec_measure (t l : Nat) : specArith.measure t l = t := rfl
@[simp] theorem measuredRows_spec (p : Params) (f : Frame) :
    measuredRows specArith p f = cutRows specArith f.rows p.limit p.tt p.lazy := by
  simp [measuredRows]
@[simp] theorem spec_eagerSplit (n l : Nat) : (specArith.eagerSplit n l = true) = (2 * l < n) := by simp [specArith]
@[simp] theorem spec_eagerAtEll (i l : Nat) : (specArith.eagerAtEll i l = true) = (i = l) := by simp [specArith]
@[simp] theorem spec_eagerInTail (i l : Nat) : (specArith.eagerInTail i l = true) = (l ≤ i) := by simp [specArith]
@[simp] theorem spec_eagerShift (i n t l : Nat) : specArith.eagerShift i n t l = i + n - 2 * l := rfl
@[simp] theorem spec_eagerLabel (i : Nat) : specArith.eagerLabel i = i + 1 := rfl
@[simp] theorem spec_labelPad (iw : Nat) : specArith.labelPad iw = iw - 1 := rfl
@[simp] theorem spec_lazyOffset0 : specArith.lazyOffset0 = 1 := rfl
@[simp] theorem spec_lazyEll (i l ll : Nat) : (specArith.lazyEll i l ll = true) = (i = l ∧ 2 * l < ll) := by
  simp [specArith]
@[simp] theorem spec_lazyOffsetUpd (o ll l : Nat) : specArith.lazyOffsetUpd o ll l = o + ll - 2 * l := rfl
@[simp] theorem spec_lazyLabel (i o : Nat) : specArith.lazyLabel i o = i + o := rfl
@[simp] theorem spec_truncStop (o w : Nat) : (specArith.truncStop o w = true) = (w ≤ o) := by simp [specArith]
@[simp] theorem spec_truncPad (w o : Nat) : specArith.truncPad w o = w - o := rfl
@[simp] theorem spec_truncNl (o : Nat) : specArith.truncNl o = o + 1 := rfl
@[simp] theorem spec_mdIdx (n : Nat) : specArith.mdIdx n = (natStr n).length := rfl
@[simp] theorem spec_mdColWidth (a b m : Nat) : specArith.mdColWidth a b m = min (max a b) m := rfl
@[simp] theorem spec_mdHeadPad (iw : Nat) : specArith.mdHeadPad iw = iw - 2 := rfl
@[simp] theorem spec_mdSepLen (iw : Nat) : specArith.mdSepLen iw = iw := rfl
@[simp] theorem spec_mdLabel (i : Nat) : specArith.mdLabel i = i + 1 := rfl
@[simp] theorem spec_mdLabelPad (iw : Nat) : specArith.mdLabelPad iw = iw - 1 := rfl
@[simp] theorem spec_mdFloor : specArith.mdFloor = 4 := rfl
@[simp] theorem spec_hourDiv : specArith.hourDiv = 3600 := rfl
@[simp] theorem spec_minuteDiv : specArith.minuteDiv = 60 := rfl
@[simp] theorem spec_monthDiv : specArith.monthDiv = 12 := rfl

end Display

namespace Display
theorem spec_truncStop' (o w : Nat) : specArith.truncStop o w = decide (w ≤ o) := rfl
end Display
