import OrsoVerif.Model.Sanitise
import OrsoVerif.Lemmas.Sanitise
/-! Helper lemmas for C20: a plain token inside a visible value survives every rendering step. -/
namespace Sanitise

/-! ## occurrences and separators -/

theorem prefix_split (q : Char) : ∀ (x y t : Str), q ∉ t → t <+: x ++ q :: y → t <+: x := by
  intro x
  induction x with
  | nil =>
    intro y t hq h
    rcases List.prefix_cons_iff.mp h with h | ⟨t', ht, _⟩
    · simp [h]
    · subst ht; simp at hq
  | cons a x ih =>
    intro y t hq h
    rcases List.prefix_cons_iff.mp h with h | ⟨t', ht, hp⟩
    · simp [h]
    · subst ht
      have := ih y t' (fun hm => hq (List.mem_cons_of_mem _ hm)) hp
      exact List.prefix_cons_iff.mpr (Or.inr ⟨t', rfl, this⟩)

/-- An occurrence of `t` in `x ++ q :: y` lies in `x` or in `y` when `t` does not contain `q`. -/
theorem infix_split (q : Char) : ∀ (x y t : Str), q ∉ t → t <:+: x ++ q :: y → t <:+: x ∨ t <:+: y := by
  intro x
  induction x with
  | nil =>
    intro y t hq h
    rcases List.infix_cons_iff.mp h with h | h
    · left; exact (prefix_split q [] y t hq h).isInfix
    · right; exact h
  | cons a x ih =>
    intro y t hq h
    rcases List.infix_cons_iff.mp h with h | h
    · left; exact (prefix_split q (a :: x) y t hq h).isInfix
    · rcases ih y t hq h with h | h
      · left; exact List.infix_cons_iff.mpr (Or.inr h)
      · right; exact h

/-! ## quote colouring keeps tokens -/

def NoQuote (t : Str) : Prop := ∀ a ∈ t, a ≠ '\'' ∧ a ≠ '`'

theorem quoteColourF_prefix (c : Colors) : ∀ (t : Str) (n : Nat) (r : Str), NoQuote t → t <+: r →
    t <+: quoteColourF c n r := by
  intro t
  induction t with
  | nil => intro n r _ _; simp
  | cons a t ih =>
    intro n r hq hp
    cases n with
    | zero => exact hp
    | succ n =>
      cases r with
        | nil => simp at hp
        | cons b r =>
          have hab : a = b ∧ t <+: r := by
            rcases List.prefix_cons_iff.mp hp with h | ⟨t', ht, hp'⟩
            · cases h
            · cases ht; exact ⟨rfl, hp'⟩
          obtain ⟨rfl, hp'⟩ := hab
          have ha := hq a (by simp)
          have : quoteColourF c (n + 1) (a :: r) = a :: quoteColourF c n r := by
            simp [quoteColourF, ha.1, ha.2]
          rw [this]
          exact List.prefix_cons_iff.mpr (Or.inr ⟨t, rfl, ih n r (fun x hx => hq x (List.mem_cons_of_mem _ hx)) hp'⟩)

theorem quoteColourF_infix (c : Colors) : ∀ (n : Nat) (s t : Str), NoQuote t → t <:+: s →
    t <:+: quoteColourF c n s := by
  intro n
  induction n with
  | zero => intro s t _ h; exact h
  | succ n ih =>
    intro s t hq h
    cases s with
    | nil =>
      have : t = [] := by simpa using h
      simp [this]
    | cons q r =>
      -- the generic step: the head is copied
      have copy : quoteColourF c (n + 1) (q :: r) = q :: quoteColourF c n r → t <:+: quoteColourF c (n + 1) (q :: r) := by
        intro e
        rw [e]
        rcases List.infix_cons_iff.mp h with hp | hi
        · rcases List.prefix_cons_iff.mp hp with h0 | ⟨t', ht, hp'⟩
          · simp [h0]
          · subst ht
            have := quoteColourF_prefix c t' n r (fun x hx => hq x (List.mem_cons_of_mem _ hx)) hp'
            exact (List.prefix_cons_iff.mpr (Or.inr ⟨t', rfl, this⟩)).isInfix
        · exact List.infix_cons_iff.mpr (Or.inr (ih r t hq hi))
      by_cases hquote : q = '\'' ∨ q = '`'
      · cases hf : findClose q true r with
        | none => exact copy (by simp [quoteColourF, hquote, hf])
        | some p =>
          obtain ⟨inner, rest⟩ := p
          have hr := findClose_spec _ _ _ _ _ hf
          have hqt : q ∉ t := by
            intro hm
            have := hq q hm
            rcases hquote with e | e <;> simp [e] at this
          have e : quoteColourF c (n + 1) (q :: r) =
              q :: (c.yellow ++ inner ++ c.value ++ q :: quoteColourF c n rest) := by
            simp [quoteColourF, hquote, hf]
          rw [e]
          subst hr
          have h' : t <:+: [] ++ q :: (inner ++ q :: rest) := by simpa using h
          rcases infix_split q [] _ t hqt h' with h0 | h1
          · have : t = [] := by simpa using h0
            simp [this]
          · rcases infix_split q inner rest t hqt h1 with hi | hr'
            · refine List.infix_cons_iff.mpr (Or.inr ?_)
              have : t <:+: c.yellow ++ (inner ++ (c.value ++ q :: quoteColourF c n rest)) :=
                List.infix_append_of_infix_right (List.infix_append_of_infix_left hi)
              simpa [List.append_assoc] using this
            · refine List.infix_cons_iff.mpr (Or.inr ?_)
              have h3 : t <:+: q :: quoteColourF c n rest := List.infix_cons_iff.mpr (Or.inr (ih rest t hq hr'))
              exact List.infix_append_of_infix_right h3
      · exact copy (by simp [quoteColourF, hquote])

theorem quoteColour_infix (c : Colors) (s t : Str) (hq : NoQuote t) (h : t <:+: s) : t <:+: quoteColour c s :=
  quoteColourF_infix c _ s t hq h


/-! ## escaping keeps tokens -/

def Plain (t : Str) : Prop := ∀ a ∈ t, plainChar a = true

theorem plainChar_range (a : Char) (ha : plainChar a = true) :
    (48 ≤ a.toNat ∧ a.toNat ≤ 57) ∨ (65 ≤ a.toNat ∧ a.toNat ≤ 90) ∨ (97 ≤ a.toNat ∧ a.toNat ≤ 122) := by
  simp only [plainChar, Bool.or_eq_true, Bool.and_eq_true, decide_eq_true_eq] at ha
  rcases ha with (h | h) | h
  · exact Or.inl h
  · exact Or.inr (Or.inl h)
  · exact Or.inr (Or.inr h)

theorem plainChar_ne (a b : Char) (ha : plainChar a = true) (hb : plainChar b = false) : a ≠ b := by
  intro e; subst e; simp [ha] at hb

theorem plain_noQuote (t : Str) (h : Plain t) : NoQuote t := fun a ha =>
  ⟨plainChar_ne a _ (h a ha) (by decide), plainChar_ne a _ (h a ha) (by decide)⟩

theorem pyEsc_plain (q a : Char) (hq : q = '"' ∨ q = '\'') (ha : plainChar a = true) : pyEsc q a = [a] := by
  have r := plainChar_range a ha
  have h1 : a ≠ q := by rcases hq with e | e <;> (subst e; exact plainChar_ne a _ ha (by decide))
  have h2 : a ≠ '\\' := plainChar_ne a _ ha (by decide)
  have h3 : a ≠ '\n' := plainChar_ne a _ ha (by decide)
  have h4 : a ≠ '\r' := plainChar_ne a _ ha (by decide)
  have h5 : a ≠ '\t' := plainChar_ne a _ ha (by decide)
  have h6 : ¬(a.toNat < 32 ∨ a.toNat = 127 ∨ (128 ≤ a.toNat ∧ a.toNat ≤ 160) ∨ a.toNat = 173) := by omega
  have h7 : ¬((0x200b ≤ a.toNat ∧ a.toNat ≤ 0x200f) ∨ (0x2028 ≤ a.toNat ∧ a.toNat ≤ 0x202e) ∨
      (0x2060 ≤ a.toNat ∧ a.toNat ≤ 0x2064) ∨ a.toNat = 0xfeff) := by omega
  simp [pyEsc, h1, h2, h3, h4, h5, h6, h7]

theorem jsonEsc_plain (a : Char) (ha : plainChar a = true) : jsonEsc a = [a] := by
  have r := plainChar_range a ha
  have h1 : a ≠ '"' := plainChar_ne a _ ha (by decide)
  have h2 : a ≠ '\\' := plainChar_ne a _ ha (by decide)
  have h3 : a ≠ '\n' := plainChar_ne a _ ha (by decide)
  have h4 : a ≠ '\r' := plainChar_ne a _ ha (by decide)
  have h5 : a ≠ '\t' := plainChar_ne a _ ha (by decide)
  have h6 : ¬ a.toNat = 8 := by omega
  have h7 : ¬ a.toNat = 12 := by omega
  have h8 : 32 ≤ a.toNat ∧ a.toNat ≤ 126 := by omega
  simp [jsonEsc, h1, h2, h3, h4, h5, h6, h7, h8]

theorem flatMap_plain (esc : Char → Str) : ∀ t : Str, (∀ a ∈ t, esc a = [a]) → t.flatMap esc = t := by
  intro t
  induction t with
  | nil => intro _; rfl
  | cons a t ih =>
    intro h
    simp [List.flatMap_cons, h a (by simp), ih (fun x hx => h x (List.mem_cons_of_mem _ hx))]

theorem flatMap_infix (esc : Char → Str) (t s : Str) (he : ∀ a ∈ t, esc a = [a]) (h : t <:+: s) :
    t <:+: s.flatMap esc := by
  obtain ⟨a, b, rfl⟩ := h
  simp only [List.flatMap_append, flatMap_plain esc t he]
  exact List.infix_append _ _ _

theorem pyReprStr_infix (t s : Str) (hp : Plain t) (h : t <:+: s) : t <:+: pyReprStr s := by
  simp only [pyReprStr]
  refine List.infix_cons_iff.mpr (Or.inr (List.infix_append_of_infix_left ?_))
  refine flatMap_infix _ t s (fun a ha => pyEsc_plain _ a ?_ (hp a ha)) h
  split <;> simp

theorem jsonStr_infix (t s : Str) (hp : Plain t) (h : t <:+: s) : t <:+: jsonStr s := by
  simp only [jsonStr]
  exact List.infix_cons_iff.mpr (Or.inr (List.infix_append_of_infix_left
    (flatMap_infix _ t s (fun a ha => jsonEsc_plain a (hp a ha)) h)))

theorem commaSep_infix : ∀ (xs : List Str) (x : Str), x ∈ xs → x <:+: commaSep xs := by
  intro xs
  induction xs with
  | nil => intro x h; cases h
  | cons y ys ih =>
    intro x h
    cases ys with
    | nil =>
      simp only [List.mem_singleton] at h
      subst h; exact List.infix_refl _
    | cons z zs =>
      simp only [commaSep]
      rcases List.mem_cons.mp h with e | h'
      · subst e; exact (List.prefix_append _ _).isInfix
      · exact List.infix_append_of_infix_right
          (List.infix_cons_iff.mpr (Or.inr (List.infix_cons_iff.mpr (Or.inr (ih x h')))))

/-- `t` occurs in one of the value texts. -/
def TokenIn (t : Str) (kvs : List (Str × Str)) : Prop := ∃ k v, (k, v) ∈ kvs ∧ t <:+: v

theorem pyReprDict_infix (t : Str) (kvs : List (Str × Str)) (hp : Plain t) (h : TokenIn t kvs) :
    t <:+: pyReprDict kvs := by
  obtain ⟨k, v, hm, hv⟩ := h
  simp only [pyReprDict]
  refine List.infix_cons_iff.mpr (Or.inr (List.infix_append_of_infix_left ?_))
  refine List.IsInfix.trans ?_ (commaSep_infix _ _ (List.mem_map_of_mem (f := fun (p : Str × Str) => pyReprStr p.1 ++ ':' :: ' ' :: pyReprStr p.2) hm))
  exact List.infix_append_of_infix_right
    (List.infix_cons_iff.mpr (Or.inr (List.infix_cons_iff.mpr (Or.inr (pyReprStr_infix t v hp hv)))))

theorem dumps_infix (t : Str) (kvs : List (Str × Str)) (hp : Plain t) (h : TokenIn t kvs) :
    t <:+: dumps kvs := by
  obtain ⟨k, v, hm, hv⟩ := h
  simp only [dumps]
  refine List.infix_cons_iff.mpr (Or.inr (List.infix_append_of_infix_left ?_))
  refine List.IsInfix.trans ?_ (commaSep_infix _ _ (List.mem_map_of_mem (f := fun (p : Str × Str) => jsonStr p.1 ++ ':' :: ' ' :: jsonStr p.2) hm))
  exact List.infix_append_of_infix_right
    (List.infix_cons_iff.mpr (Or.inr (List.infix_cons_iff.mpr (Or.inr (jsonStr_infix t v hp hv)))))

/-! ## the cleaned record keeps visible tokens -/

theorem cleanObj_mem (h : Json → Str) (c : Colors) (d : List (Str × Json)) (k : Str) (v : Json)
    (hm : (k, v) ∈ d) (hk : sensitive k = false) :
    (c.key ++ k ++ c.off, c.value ++ cleanVal h c v ++ c.off) ∈ cleanObj h c d := by
  induction d with
  | nil => cases hm
  | cons kv rest ih =>
    obtain ⟨k', v'⟩ := kv
    simp only [cleanObj, List.mem_cons]
    rcases List.mem_cons.mp hm with heq | hin
    · left; cases heq; simp [hk]
    · right; exact ih hin

theorem cleanVal_leaf (h : Json → Str) (c : Colors) (v : Json) (hv : ∀ kvs, v ≠ .obj kvs) :
    cleanVal h c v = quoteColour c (pyStr v) := by
  cases v <;> first | rfl | (rename_i b; cases b <;> rfl) | exact absurd rfl (hv _)

theorem visible_tokenIn (h : Json → Str) (c : Colors) (t : Str) (hp : Plain t) (d : List (Str × Json))
    (hv : VisibleAt t d) : TokenIn t (cleanObj h c d) := by
  induction hv with
  | leaf d k v hm hk hleaf ht =>
    refine ⟨_, _, cleanObj_mem h c d k v hm hk, ?_⟩
    rw [cleanVal_leaf h c v hleaf]
    exact List.infix_append_of_infix_left
      (List.infix_append_of_infix_right (quoteColour_infix c _ t (plain_noQuote t hp) ht))
  | inner d kvs k hm hk _ ih =>
    refine ⟨_, _, cleanObj_mem h c d k (.obj kvs) hm hk, ?_⟩
    simp only [cleanVal]
    exact List.infix_append_of_infix_left
      (List.infix_append_of_infix_right (pyReprDict_infix t _ hp ih))

end Sanitise
