import OrsoVerif.Model.CallSites
/-! Helper lemmas for the call-site layer of C10. -/
namespace CallSites

theorem mapM_length {β γ : Type} (f : β → Option γ) :
    ∀ (l : List β) (r : List γ), l.mapM f = some r → r.length = l.length := by
  intro l
  induction l with
  | nil => intro r h; simp at h; subst h; rfl
  | cons x xs ih =>
    intro r h
    simp only [List.mapM_cons] at h
    cases hx : f x with
    | none => simp [hx] at h
    | some v =>
      cases hm : xs.mapM f with
      | none => simp [hx, hm] at h
      | some vs =>
        simp [hx, hm] at h
        subst h
        simp [ih vs hm]

theorem indexOf_spec (names : List String) (s : String) :
    ∀ k, DictRow.indexOf names s = some k →
      names[k]? = some s ∧ ∀ j, j < k → names[j]? ≠ some s := by
  induction names with
  | nil => intro k h; simp [DictRow.indexOf] at h
  | cons n ns ih =>
    intro k h
    unfold DictRow.indexOf at h
    by_cases hn : n = s
    · simp [hn] at h
      subst h
      exact ⟨by simp [hn], by intro j hj; omega⟩
    · simp only [hn, if_false, Option.map_eq_some_iff] at h
      obtain ⟨k', hk', rfl⟩ := h
      obtain ⟨h1, h2⟩ := ih k' hk'
      refine ⟨by simpa using h1, ?_⟩
      intro j hj
      cases j with
      | zero => simp [hn]
      | succ j' => simpa using h2 j' (by omega)

theorem indexOf_none (names : List String) (s : String) :
    DictRow.indexOf names s = none → s ∉ names := by
  induction names with
  | nil => intro _; simp
  | cons n ns ih =>
    intro h
    unfold DictRow.indexOf at h
    by_cases hn : n = s
    · simp [hn] at h
    · simp only [hn, if_false, Option.map_eq_none_iff] at h
      have := ih h
      simp [this, Ne.symm hn]

theorem fits_any_false (idxs : List Int) (w : Nat) (hw32 : (w : Int) ≤ 2147483648)
    (hc : ∀ c ∈ idxs, 0 ≤ c ∧ c < (w : Int)) :
    idxs.any (fun i => decide (¬ FitsC i)) = false := by
  rw [List.any_eq_false]
  intro c hcm
  have := hc c hcm
  have hf : FitsC c := by unfold FitsC; omega
  simp [hf]

/-- The positions of an enumerated list are `0 .. length-1`. -/
theorem zipIdx_map_snd {β γ : Type} (l : List β) (g : Nat → γ) :
    l.zipIdx.map (fun p => g p.2) = (List.range l.length).map g := by
  have : ∀ (n : Nat), (l.zipIdx n).map (fun p => g p.2) = (List.range' n l.length).map g := by
    induction l with
    | nil => intro n; simp
    | cons x xs ih => intro n; simp [List.zipIdx_cons, List.range'_succ, ih]
  rw [this 0, List.range_eq_range']

variable {α : Type}

/-- The extraction loop after `k` iterations: the first `k` fields are filled, the rest is still null. -/
theorem loop_prefix (null : α) (fields : List String) (d : List (String × α)) (k : Nat) (hk : k ≤ fields.length) :
    (List.range k).foldl (Kernels.extractStep null fields d) (some (List.replicate fields.length null))
      = some ((fields.take k).map (fun f => (DictRow.lookup f d).getD null) ++ List.replicate (fields.length - k) null) := by
  induction k with
  | zero => simp
  | succ k ih =>
    rw [List.range_succ, List.foldl_append, ih (by omega)]
    have hlt : k < fields.length := by omega
    simp only [List.foldl_cons, List.foldl_nil, Kernels.extractStep, Option.bind_some, List.getElem?_eq_getElem hlt]
    obtain ⟨m, hm⟩ : ∃ m, fields.length - k = m + 1 := ⟨fields.length - k - 1, by omega⟩
    have hxs : ((fields.take k).map (fun f => (DictRow.lookup f d).getD null)).length = k := by
      simp; omega
    rw [hm, List.replicate_succ]
    have hlen : k < ((fields.take k).map (fun f => (DictRow.lookup f d).getD null) ++ null :: List.replicate m null).length := by
      simp; omega
    rw [if_pos hlen]
    congr 1
    have hset : ∀ (xs ys : List α) (v w : α), (xs ++ w :: ys).set xs.length v = (xs ++ [v]) ++ ys := by
      intro xs ys v w
      induction xs with
      | nil => simp
      | cons x xs ih => simp [ih]
    have := hset ((fields.take k).map (fun f => (DictRow.lookup f d).getD null)) (List.replicate m null)
      ((DictRow.lookup fields[k] d).getD null) null
    rw [hxs] at this
    have hm' : fields.length - (k + 1) = m := by omega
    have ht : fields.take (k + 1) = fields.take k ++ [fields[k]] := by
      rw [List.take_add_one, List.getElem?_eq_getElem hlt]; rfl
    rw [this, hm', ht, List.map_append, List.map_cons, List.map_nil]


/-! ## Dictionaries whose keys need not be text -/
open PyDictM

/-- What `extract_dict_columns` finds for a field name is what `data.get(<that name>)` finds. -/
theorem lookup_helperView {α : Type} (f : String) (items : List (PyKey × α)) :
    DictRow.lookup f (helperView items) = lookupId (.text f) items := by
  induction items with
  | nil => rfl
  | cons kv rest ih =>
    obtain ⟨k, v⟩ := kv
    cases hk : k.id with
    | text s =>
      by_cases hs : s = f
      · subst hs; simp [helperView, hk, DictRow.lookup, lookupId]
      · have : ¬ KeyId.text s = KeyId.text f := by intro h; injection h with h; exact hs h
        simp [helperView, hk, DictRow.lookup, lookupId, hs, ih]
    | other n =>
      simp [helperView, hk, lookupId, ih]

/-- The helper's view of a dictionary keyed by text only is that dictionary. -/
theorem helperView_ofTextItems {α : Type} (d : List (String × α)) : helperView (ofTextItems d) = d := by
  induction d with
  | nil => rfl
  | cons kv rest ih =>
    obtain ⟨k, v⟩ := kv
    simp only [ofTextItems, List.map_cons] at ih ⊢
    simp only [helperView, PyKey.ofStr] at ih ⊢
    rw [ih]

end CallSites
