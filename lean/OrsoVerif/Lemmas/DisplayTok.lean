import OrsoVerif.Lemmas.DisplayTable
import OrsoVerif.Lemmas.DisplayColor
/-! Helper lemmas for C18, part 7: every line of the table is in **token form** — text without escape
characters interleaved with colour tokens `ascii_table` uses — also after `trunc_printable` (which never
cuts inside a token).  This is the link between the token-level width theorems and `colorizer`. -/
namespace Display

/-- a character of a text segment: printable ASCII or a box character -/
def TxtC (c : Char) : Prop := Printable c ∨ c ∈ boxChars

theorem txtC_facts {c : Char} (h : TxtC c) : isEsc c = false ∧ c ≠ '\n' ∧ c ≠ '\r' := by
  rcases h with h | h
  · exact printable_not_esc h
  · exact box_facts c h

def GoodSeg : Seg → Prop
  | .txt s => ∀ c ∈ s, TxtC c
  | .tok k => k ∈ usedTokens

/-- token form -/
def TF (s : Str) : Prop := ∃ segs, s = flat segs ∧ ∀ sg ∈ segs, GoodSeg sg

theorem flat_append (a b : List Seg) : flat (a ++ b) = flat a ++ flat b := by simp [flat]

theorem TF_nil : TF [] := ⟨[], rfl, by simp⟩

theorem TF_append {a b : Str} (ha : TF a) (hb : TF b) : TF (a ++ b) := by
  obtain ⟨sa, rfl, ga⟩ := ha
  obtain ⟨sb, rfl, gb⟩ := hb
  exact ⟨sa ++ sb, (flat_append sa sb).symm, fun sg h => (List.mem_append.mp h).elim (ga sg) (gb sg)⟩

theorem TF_tok {k : Str} (h : k ∈ usedTokens) : TF k := ⟨[.tok k], by simp [flat, Seg.flat], by simpa [GoodSeg] using h⟩

theorem TF_txt {s : Str} (h : ∀ c ∈ s, TxtC c) : TF s := ⟨[.txt s], by simp [flat, Seg.flat], by simpa [GoodSeg] using h⟩

theorem TF_pstr {s : Str} (h : PStr s) : TF s := TF_txt (fun c hc => Or.inl (h c hc))

theorem TF_cons {c : Char} {s : Str} (hc : TxtC c) (hs : TF s) : TF (c :: s) :=
  TF_append (a := [c]) (TF_txt (by intro x hx; simp at hx; subst hx; exact hc)) hs

theorem TF_joinWith {sep : Str} (hs : TF sep) : ∀ {xs : List Str}, (∀ x ∈ xs, TF x) → TF (joinWith sep xs)
  | [], _ => TF_nil
  | [x], h => h x (by simp)
  | x :: y :: rest, h => by
    simp only [joinWith]
    exact TF_append (TF_append (h x (by simp)) hs) (TF_joinWith hs (fun z hz => h z (by simp [hz])))

/-- shape of the tokens `ascii_table` uses: marker, a name without `m` and line breaks, `m` -/
theorem usedTokens_shape : ∀ k ∈ usedTokens,
    k = '\x01' :: ((k.drop 1).dropLast ++ ['m']) ∧ ∀ c ∈ (k.drop 1).dropLast, c ≠ 'm' ∧ c ≠ '\n' ∧ c ≠ '\r' := by
  decide

/-- inside a token nothing is counted and nothing is cut; at its closing `m` the width test is made -/
theorem truncGo_ign_exact (A : Arith) (cw : Char → Nat) (w : Nat) (full : Bool) (rest : Str) (off : Nat) :
    ∀ (name : Str), (∀ c ∈ name, c ≠ 'm' ∧ c ≠ '\n' ∧ c ≠ '\r') →
      truncGo A cw w full (name ++ 'm' :: rest) off true
        = name ++ 'm' :: (if A.truncStop off w = true then T_OFF else truncGo A cw w full rest off false)
  | [], _ => by
    simp only [List.nil_append]
    rw [truncGo]
    rw [if_neg (by decide), if_neg (by decide)]
    simp only [Bool.true_or, if_true, beq_self_eq_true, Bool.and_self, Bool.not_false, Bool.true_and]
    split <;> rfl
  | c :: cs, h => by
    obtain ⟨hm, hn, hr⟩ := h c (by simp)
    have ih := truncGo_ign_exact A cw w full rest off cs (fun x hx => h x (by simp [hx]))
    simp only [List.cons_append]
    rw [truncGo]
    rw [if_neg hn, if_neg hr]
    have hbm : (c == 'm') = false := by simpa using hm
    simp only [Bool.true_or, if_true, hbm, Bool.and_false, Bool.false_eq_true, if_false, Bool.not_true, Bool.false_and]
    rw [ih]

theorem truncGo_token (A : Arith) (cw : Char → Nat) (w : Nat) (full : Bool) (k rest : Str) (off : Nat)
    (hk : k ∈ usedTokens) :
    truncGo A cw w full (k ++ rest) off false
      = k ++ (if A.truncStop off w = true then T_OFF else truncGo A cw w full rest off false) := by
  obtain ⟨e, hn⟩ := usedTokens_shape k hk
  generalize (k.drop 1).dropLast = name at e hn
  subst e
  simp only [List.cons_append, List.append_assoc]
  rw [truncGo]
  rw [if_neg (by decide), if_neg (by decide)]
  have e1 : isEsc '\x01' = true := by decide
  have e2 : ('\x01' == 'm') = false := by decide
  simp only [e1, Bool.or_true, if_true, e2, Bool.and_false, Bool.false_eq_true, if_false, Bool.not_true, Bool.false_and]
  simp only [List.nil_append]
  rw [truncGo_ign_exact A cw w full rest off name hn]

/-- `trunc_printable` keeps token form -/
theorem truncGo_TF (cw : Char → Nat) (w : Nat) (full : Bool) :
    ∀ (segs : List Seg), (∀ sg ∈ segs, GoodSeg sg) → ∀ off, TF (truncGo specArith cw w full (flat segs) off false)
  | [], _, off => by
    simp only [flat, List.flatMap_nil]
    rw [truncGo]
    exact TF_append (TF_tok (by simp [usedTokens])) (by split; exact TF_pstr (pstr_spaces _); exact TF_nil)
  | .tok k :: rest, h, off => by
    have hk : k ∈ usedTokens := h (.tok k) (by simp)
    have ih := truncGo_TF cw w full rest (fun sg hs => h sg (by simp [hs]))
    rw [flat_cons]
    simp only [Seg.flat]
    rw [truncGo_token specArith cw w full k (flat rest) off hk]
    refine TF_append (TF_tok hk) ?_
    split
    · exact TF_tok (by simp [usedTokens])
    · exact ih off
  | .txt s :: rest, h, off => by
    have hs : ∀ c ∈ s, TxtC c := h (.txt s) (by simp)
    have ih := truncGo_TF cw w full rest (fun sg hs => h sg (by simp [hs]))
    rw [flat_cons]
    simp only [Seg.flat]
    clear h
    induction s generalizing off with
    | nil => simpa using ih off
    | cons c cs ihs =>
      obtain ⟨he, hn, hr⟩ := txtC_facts (hs c (by simp))
      simp only [List.cons_append]
      rw [truncGo]
      rw [if_neg hn, if_neg hr]
      simp only [he, Bool.or_false, Bool.false_eq_true, if_false, Bool.false_and, Bool.not_false, Bool.true_and]
      split
      · exact TF_cons (hs c (by simp)) (TF_tok (by simp [usedTokens]))
      · exact TF_cons (hs c (by simp)) (ihs _ (fun x hx => hs x (by simp [hx])))

theorem truncPrintable_TF (cw : Char → Nat) (w : Nat) (full : Bool) {s : Str} (h : TF s) :
    TF (truncPrintable specArith cw s w full) := by
  obtain ⟨segs, rfl, g⟩ := h
  exact truncGo_TF cw w full segs g 0


/-- a literal of printable / box characters -/
theorem TF_lit (s : Str) (h : s.all (fun c => decide (Printable c) || boxChars.contains c) = true) : TF s := by
  refine TF_txt ?_
  intro c hc
  have := List.all_eq_true.mp h c hc
  simp only [Bool.or_eq_true, decide_eq_true_eq, List.contains_iff_mem] at this
  exact this

theorem TF_replicate_box (n : Nat) (c : Char) (hc : TxtC c) : TF (List.replicate n c) :=
  TF_txt (fun x hx => by rw [(List.mem_replicate.mp hx).2]; exact hc)

theorem TF_dictText {kvs : List (Str × Str)} (h : ∀ kv ∈ kvs, PStr kv.1 ∧ PStr kv.2) : TF (dictText kvs) := by
  have tk : ∀ {t}, t ∈ usedTokens → TF t := TF_tok
  unfold dictText
  refine TF_append (TF_append (TF_append (TF_append (tk (by simp [usedTokens])) (TF_lit _ (by decide))) ?_)
    (TF_lit _ (by decide))) (tk (by simp [usedTokens]))
  refine TF_joinWith (TF_append (tk (by simp [usedTokens])) (TF_lit _ (by decide))) ?_
  intro x hx
  simp only [List.mem_map] at hx
  obtain ⟨kv, hkv, rfl⟩ := hx
  unfold dictItem
  exact TF_append (TF_append (TF_append (TF_append (TF_append (TF_append (TF_append (TF_lit _ (by decide))
    (tk (by simp [usedTokens]))) (TF_pstr (h kv hkv).1)) (tk (by simp [usedTokens]))) (TF_lit _ (by decide)))
    (tk (by simp [usedTokens]))) (TF_pstr (h kv hkv).2)) (tk (by simp [usedTokens])) |> fun x => TF_append x (TF_lit _ (by decide))

theorem TF_listText {xs : List Str} (h : ∀ s ∈ xs, PStr s) : TF (listText xs) := by
  have tk : ∀ {t}, t ∈ usedTokens → TF t := TF_tok
  unfold listText
  refine TF_append (TF_append (TF_append (TF_append (TF_append (tk (by simp [usedTokens])) (TF_lit _ (by decide)))
    (tk (by simp [usedTokens]))) ?_) (tk (by simp [usedTokens]))) (TF_lit _ (by decide)) |> fun x => TF_append x (tk (by simp [usedTokens]))
  exact TF_joinWith (TF_append (TF_append (tk (by simp [usedTokens])) (TF_lit _ (by decide))) (tk (by simp [usedTokens])))
    (fun x hx => TF_pstr (h x hx))

theorem TF_intervalText {ps : List Str} (h : ∀ s ∈ ps, PStr s) : TF (intervalText ps) := by
  unfold intervalText
  exact TF_append (TF_append (TF_tok (by simp [usedTokens])) (TF_joinWith (TF_lit _ (by decide)) (fun x hx => TF_pstr (h x hx))))
    (TF_tok (by simp [usedTokens]))

/-- every formatted cell is in token form -/
theorem formatCell_TF (cw : Char → Nat) (strict : Bool) (c : Cell) (w : Nat) (hc : CellAscii c) (s : Str)
    (h : formatCell specArith cw strict c w = .ok s) : TF s := by
  have tk : ∀ {t}, t ∈ usedTokens → TF t := TF_tok
  have wrap : ∀ {tok mid : Str}, tok ∈ usedTokens → TF mid → TF (tok ++ mid ++ T_OFF) :=
    fun ht hm => TF_append (TF_append (tk ht) hm) (tk (by simp [usedTokens]))
  cases c with
  | null =>
    simp only [formatCell, Except.ok.injEq] at h; subst h
    exact wrap (by simp [usedTokens]) (TF_pstr (pstr_take w (pstr_rjust w pstr_nullStr)))
  | bool b =>
    simp only [formatCell, Except.ok.injEq] at h; subst h
    exact wrap (by simp [usedTokens]) (TF_pstr (pstr_take w (pstr_rjust w (pstr_boolStr b))))
  | int i =>
    simp only [formatCell, Except.ok.injEq] at h; subst h
    exact wrap (by simp [usedTokens]) (TF_pstr (pstr_take w (pstr_rjust w (pstr_intStr i))))
  | num t n =>
    simp only [formatCell, Except.ok.injEq] at h; subst h
    exact wrap (by simp [usedTokens]) (TF_pstr (pstr_take w (pstr_rjust w hc)))
  | text t =>
    simp only [formatCell, Except.ok.injEq] at h; subst h
    exact wrap (by simp [usedTokens]) (truncPrintable_TF cw w true (TF_pstr (pstr_ljust w hc)))
  | datetime d t n =>
    simp only [formatCell, Except.ok.injEq] at h; subst h
    refine wrap (by simp [usedTokens]) (truncPrintable_TF cw w true ?_)
    unfold rjust
    exact TF_append (TF_pstr (pstr_spaces _))
      (TF_append (TF_append (TF_append (TF_pstr hc.1) (TF_lit _ (by decide))) (tk (by simp [usedTokens]))) (TF_pstr hc.2))
  | date d n =>
    simp only [formatCell, Except.ok.injEq] at h; subst h
    exact wrap (by simp [usedTokens]) (truncPrintable_TF cw w true (TF_pstr (pstr_rjust w hc)))
  | bytes b n =>
    obtain ⟨t, ht, hp⟩ := utf8Decode_ascii strict b hc
    simp only [formatCell, ht, Except.ok.injEq] at h; subst h
    exact wrap (by simp [usedTokens]) (truncPrintable_TF cw w true (TF_pstr (pstr_ljust w hp)))
  | dict kvs n =>
    simp only [formatCell, Except.ok.injEq] at h; subst h
    exact truncPrintable_TF cw w true (TF_dictText hc)
  | interval ps n =>
    simp only [formatCell, Except.ok.injEq] at h; subst h
    exact truncPrintable_TF cw w true (TF_intervalText hc)
  | intervalInt mo d sc n =>
    simp only [formatCell, Except.ok.injEq] at h; subst h
    exact truncPrintable_TF cw w true (TF_intervalText (pstr_intervalParts specArith mo d sc))
  | list xs n =>
    simp only [formatCell, Except.ok.injEq] at h; subst h
    exact truncPrintable_TF cw w true (TF_listText hc)
  | other t =>
    simp only [formatCell, Except.ok.injEq] at h; subst h
    exact TF_pstr (pstr_take w (pstr_ljust w hc))

theorem formatRow_TF (cw : Char → Nat) (strict : Bool) :
    ∀ (row : List Cell) (ws : List Nat) (cells : List Str), (∀ c ∈ row, CellAscii c) →
      formatRow specArith cw strict row ws = .ok cells → ∀ x ∈ cells, TF x
  | [], _, cells, _, h => by simp [formatRow] at h; subst h; simp
  | _ :: _, [], cells, _, h => by simp [formatRow] at h; subst h; simp
  | c :: cs, w :: ws, cells, hc, h => by
    simp only [formatRow] at h
    split at h
    · simp at h
    · rename_i s hs
      split at h
      · simp at h
      · rename_i rest hr
        simp only [Except.ok.injEq] at h; subst h
        intro x hx
        rcases List.mem_cons.mp hx with rfl | hx
        · exact formatCell_TF cw strict c w (hc c (by simp)) _ hs
        · exact formatRow_TF cw strict cs ws rest (fun y hy => hc y (by simp [hy])) hr x hx

theorem TF_border (l m r fill : Char) (iw : Nat) (ws : List Nat) (hl : TxtC l) (hm : TxtC m) (hr : TxtC r)
    (hf : TxtC fill) : TF (border l m r fill iw ws) := by
  unfold border
  have one : ∀ {c}, TxtC c → TF [c] := fun h => TF_txt (by intro x hx; simp at hx; subst hx; exact h)
  have two : ∀ {a b}, TxtC a → TxtC b → TF [a, b] := fun ha hb =>
    TF_txt (by intro x hx; simp at hx; rcases hx with rfl | rfl <;> assumption)
  have three : ∀ {a b c}, TxtC a → TxtC b → TxtC c → TF [a, b, c] := fun ha hb hc =>
    TF_txt (by intro x hx; simp at hx; rcases hx with rfl | rfl | rfl <;> assumption)
  refine TF_append (TF_append (TF_append (TF_append (one hl) (TF_replicate_box iw fill hf)) (two hm hf)) ?_) (two hf hr)
  refine TF_joinWith (three hf hm hf) ?_
  intro x hx
  simp only [List.mem_map] at hx
  obtain ⟨w, _, rfl⟩ := hx
  exact TF_replicate_box w fill hf

theorem TF_headerLine (token : Str) (ht : token ∈ usedTokens) (iw : Nat) :
    ∀ (vs : List Str) (ws : List Nat), (∀ v ∈ vs, PStr v) → TF (headerLine token iw vs ws) := by
  intro vs ws hv
  unfold headerLine
  have cells : ∀ (vs : List Str) (ws : List Nat), (∀ v ∈ vs, PStr v) → ∀ x ∈ zipWithTrunc (headCell token) vs ws, TF x := by
    intro vs
    induction vs with
    | nil => intro ws _ x hx; simp [zipWithTrunc] at hx
    | cons v vs ih =>
      intro ws hv x hx
      cases ws with
      | nil => simp [zipWithTrunc] at hx
      | cons w ws =>
        simp only [zipWithTrunc, List.mem_cons] at hx
        rcases hx with rfl | hx
        · unfold headCell
          exact TF_append (TF_append (TF_tok ht) (TF_pstr (pstr_take w (pstr_center w (hv v (by simp)))))) (TF_tok (by simp [usedTokens]))
        · exact ih ws (fun y hy => hv y (by simp [hy])) x hx
  exact TF_append (TF_append (TF_append (TF_append (TF_lit _ (by decide)) (TF_pstr (pstr_spaces _))) (TF_lit _ (by decide)))
    (TF_joinWith (TF_lit _ (by decide)) (cells vs ws hv))) (TF_lit _ (by decide))

theorem TF_dataLine (iw label : Nat) (cells : List Str) (h : ∀ x ∈ cells, TF x) : TF (dataLine specArith iw label cells) := by
  unfold dataLine
  exact TF_append (TF_append (TF_append (TF_append (TF_append (TF_append (TF_lit _ (by decide)) (TF_tok (by simp [usedTokens])))
    (TF_pstr (pstr_rjust _ (pstr_natStr label)))) (TF_tok (by simp [usedTokens]))) (TF_lit _ (by decide)))
    (TF_joinWith (TF_lit _ (by decide)) h)) (TF_lit _ (by decide))

theorem TF_ellipsis (lazy : Bool) : TF (ellipsisLine lazy) := by
  unfold ellipsisLine
  split
  · exact TF_lit _ (by decide)
  · exact TF_append (TF_append (TF_tok (by simp [usedTokens])) (TF_lit _ (by decide))) (TF_tok (by simp [usedTokens]))

theorem bodyLines_TF (cw : Char → Nat) (p : Params) (iw : Nat) (ws : List Nat) :
    ∀ (ls : List (Line (List Cell))) (out : List Tagged),
      (∀ label row, Line.data label row ∈ ls → ∀ c ∈ row, CellAscii c) →
      bodyLines specArith cw p iw ws ls = .ok out → ∀ l ∈ out, TF l.2
  | [], out, _, h => by simp [bodyLines] at h; subst h; simp
  | .ellipsis :: rest, out, hc, h => by
    simp only [bodyLines] at h
    split at h
    · simp at h
    · rename_i ls hls
      simp only [Except.ok.injEq] at h; subst h
      intro l hl
      rcases List.mem_cons.mp hl with rfl | hl
      · exact TF_ellipsis p.lazy
      · exact bodyLines_TF cw p iw ws rest ls (fun a b hm => hc a b (by simp [hm])) hls l hl
  | .data label row :: rest, out, hc, h => by
    simp only [bodyLines] at h
    split at h
    · simp at h
    · rename_i cells hcells
      split at h
      · simp at h
      · rename_i ls hls
        simp only [Except.ok.injEq] at h; subst h
        intro l hl
        rcases List.mem_cons.mp hl with rfl | hl
        · exact TF_dataLine iw label cells (formatRow_TF cw p.strict row ws cells (hc label row (by simp)) hcells)
        · exact bodyLines_TF cw p iw ws rest ls (fun a b hm => hc a b (by simp [hm])) hls l hl

/-- **Every line `ascii_table` joins is in token form** (printable-ASCII frame), before and after the
final cut to the display width. -/
theorem renderLines_TF (cw : Char → Nat) (p : Params) (f : Frame) (hf : FrameAscii f) (hl : 1 ≤ p.limit)
    (lines : List Tagged) (h : renderLines specArith cw p f = .ok lines) : ∀ l ∈ lines, TF l.2 := by
  unfold renderLines at h
  split at h
  · simp at h
  · rename_i raw hraw
    simp only [Except.ok.injEq] at h; subst h
    have hrawTF : ∀ l ∈ raw, TF l.2 := by
      unfold rawLines at hraw
      simp only at hraw
      split at hraw
      · simp at hraw
      · rename_i body hbody
        simp only [Except.ok.injEq] at hraw; subst hraw
        have hb := bodyLines_TF cw p _ _ _ body (by
          intro label row hmem
          obtain ⟨hrow, _, _⟩ := visibleRows_data f.rows p.limit p.tt p.lazy hl label row hmem
          exact hf.cells row hrow) hbody
        have bx : ∀ c ∈ boxChars, TxtC c := fun c hc => Or.inr hc
        intro l hl
        simp only [List.mem_append, List.mem_cons, List.not_mem_nil, or_false] at hl
        rcases hl with ((((rfl | rfl) | hl) | rfl) | hl) | rfl
        · exact TF_border _ _ _ _ _ _ (bx _ (by decide)) (bx _ (by decide)) (bx _ (by decide)) (bx _ (by decide))
        · exact TF_headerLine T_HEAD (by simp [usedTokens]) _ _ _ hf.names
        · split at hl
          · simp only [List.mem_cons, List.not_mem_nil, or_false] at hl; subst hl
            exact TF_headerLine T_TYPE (by simp [usedTokens]) _ _ _ hf.types
          · simp at hl
        · exact TF_border _ _ _ _ _ _ (bx _ (by decide)) (bx _ (by decide)) (bx _ (by decide)) (bx _ (by decide))
        · exact hb l hl
        · exact TF_border _ _ _ _ _ _ (bx _ (by decide)) (bx _ (by decide)) (bx _ (by decide)) (bx _ (by decide))
    intro l hl
    simp only [List.mem_map] at hl
    obtain ⟨r, hr, rfl⟩ := hl
    exact truncPrintable_TF cw p.displayWidth false (hrawTF r hr)

end Display
