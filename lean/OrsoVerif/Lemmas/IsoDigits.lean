import OrsoVerif.Model.IsoPrim
/-! Helper lemmas for C08: digit characters, `int()` on digit text. -/
namespace Iso

@[simp] theorem bind_ok {α β : Type} (a : α) (f : α → Except Exc β) : (Except.ok a).bind f = f a := rfl
@[simp] theorem bind_error {α β : Type} (e : Exc) (f : α → Except Exc β) :
    (Except.error e : Except Exc α).bind f = .error e := rfl

theorem valid_bounds {dt : DateTime} (h : validDateTime dt = true) :
    1 ≤ dt.year ∧ dt.year ≤ 9999 ∧ 1 ≤ dt.month ∧ dt.month ≤ 12 ∧ 1 ≤ dt.day ∧
    dt.day ≤ daysInMonth dt.year dt.month ∧ dt.hour ≤ 23 ∧ dt.minute ≤ 59 ∧ dt.second ≤ 59 ∧
    dt.micro ≤ 999999 := by
  simp only [validDateTime, validDate, Bool.and_eq_true, decide_eq_true_eq] at h
  omega

theorem daysInMonth_le (y m : Nat) : daysInMonth y m ≤ 31 := by
  unfold daysInMonth daysInMonthL
  split <;> try omega
  split <;> omega

theorem ne_of_isDigit {c d : Char} (h : c.isDigit = true) (hd : d.isDigit = false) : c ≠ d := by
  intro e; subst e; rw [h] at hd; cases hd

theorem isWs_of_isDigit {c : Char} (h : c.isDigit = true) : isWs c = false := by
  have h1 := ne_of_isDigit h (d := ' ') (by decide)
  have h2 := ne_of_isDigit h (d := '\t') (by decide)
  have h3 := ne_of_isDigit h (d := '\n') (by decide)
  have h4 := ne_of_isDigit h (d := '\r') (by decide)
  have h5 := ne_of_isDigit h (d := Char.ofNat 11) (by decide)
  have h6 := ne_of_isDigit h (d := Char.ofNat 12) (by decide)
  simp [isWs, h1, h2, h3, h4, h5, h6]

theorem digit_cases (P : Char → Prop) (h : ∀ k, k < 10 → P (Char.ofNat (48 + k))) (n : Nat) : P (digit n) :=
  h (n % 10) (Nat.mod_lt _ (by decide))

@[simp] theorem isDigit_digit (n : Nat) : (digit n).isDigit = true :=
  digit_cases (fun c => c.isDigit = true) (by decide) n

@[simp] theorem digitVal_digit (n : Nat) : digitVal (digit n) = n % 10 := by
  have : ∀ k, k < 10 → digitVal (Char.ofNat (48 + k)) = k := by decide
  exact this (n % 10) (Nat.mod_lt _ (by decide))

@[simp] theorem isWs_digit (n : Nat) : isWs (digit n) = false := isWs_of_isDigit (isDigit_digit n)

theorem digit_ne {n : Nat} {d : Char} (hd : d.isDigit = false) : digit n ≠ d :=
  ne_of_isDigit (isDigit_digit n) hd

theorem rstrip_of_no_ws : ∀ (l : List Char), (∀ c ∈ l, isWs c = false) → rstrip l = l
  | [], _ => rfl
  | c :: r, h => by
    have ih := rstrip_of_no_ws r (fun x hx => h x (List.mem_cons_of_mem _ hx))
    have hc := h c (List.mem_cons_self)
    unfold rstrip
    rw [ih]
    cases r with
    | nil => simp [hc]
    | cons a t => rfl

theorem strip_of_no_ws (l : List Char) (h : ∀ c ∈ l, isWs c = false) : strip l = l := by
  unfold strip
  have : l.dropWhile isWs = l := by
    cases l with
    | nil => rfl
    | cons a t => simp [List.dropWhile, h a List.mem_cons_self]
  rw [this, rstrip_of_no_ws l h]

theorem digitsGo_digits : ∀ (ds : List Char) (acc : Nat), (∀ c ∈ ds, c.isDigit = true) →
    digitsGo acc true ds = some (Nat.ofDigitChars 10 ds acc)
  | [], acc, _ => by simp [digitsGo]
  | c :: r, acc, h => by
    have hc := h c List.mem_cons_self
    have ih := digitsGo_digits r (10 * acc + digitVal c) (fun x hx => h x (List.mem_cons_of_mem _ hx))
    simp only [digitsGo, hc, if_true, ih, Nat.ofDigitChars_cons]
    rfl

theorem pyNat_digits (ds : List Char) (hne : ds ≠ []) (h : ∀ c ∈ ds, c.isDigit = true)
    (hlen : ds.length ≤ maxStrDigits) : pyNat ds = .ok (Nat.ofDigitChars 10 ds 0) := by
  unfold pyNat
  have hf : (ds.filter Char.isDigit).length ≤ maxStrDigits :=
    Nat.le_trans (List.length_filter_le _ _) hlen
  rw [if_neg (by omega)]
  cases ds with
  | nil => exact absurd rfl hne
  | cons c r =>
    have hc := h c List.mem_cons_self
    have := digitsGo_digits r (10 * 0 + digitVal c) (fun x hx => h x (List.mem_cons_of_mem _ hx))
    simp only [digitsGo, hc, if_true, this, Nat.ofDigitChars_cons]
    rfl

/-- `int(s)` of non-empty all-digit text is the number it denotes. -/
theorem pyInt_digits (ds : List Char) (hne : ds ≠ []) (h : ∀ c ∈ ds, c.isDigit = true)
    (hlen : ds.length ≤ maxStrDigits) : pyInt ds = .ok (Nat.ofDigitChars 10 ds 0 : Nat) := by
  unfold pyInt
  rw [strip_of_no_ws ds (fun c hc => isWs_of_isDigit (h c hc))]
  cases ds with
  | nil => exact absurd rfl hne
  | cons c r =>
    have hc := h c List.mem_cons_self
    have h1 : c ≠ '-' := ne_of_isDigit hc (by decide)
    have h2 : c ≠ '+' := ne_of_isDigit hc (by decide)
    simp only [h1, h2, if_false, pyNat_digits (c :: r) hne h hlen]
    rfl

theorem pyInt_pad2 (n : Nat) (h : n < 100) : pyInt (pad2 n) = .ok (n : Int) := by
  have := pyInt_digits (pad2 n) (by simp [pad2]) (by simp [pad2]) (by simp [pad2, maxStrDigits])
  rw [this]
  simp only [pad2, Nat.ofDigitChars_cons, Nat.ofDigitChars_nil]
  have e1 : (digit (n / 10)).toNat - '0'.toNat = n / 10 % 10 := digitVal_digit _
  have e2 : (digit n).toNat - '0'.toNat = n % 10 := digitVal_digit _
  rw [e1, e2]
  congr 2
  omega

theorem pyInt_pad4 (n : Nat) (h : n < 10000) : pyInt (pad4 n) = .ok (n : Int) := by
  have := pyInt_digits (pad4 n) (by simp [pad4]) (by simp [pad4]) (by simp [pad4, maxStrDigits])
  rw [this]
  simp only [pad4, Nat.ofDigitChars_cons, Nat.ofDigitChars_nil]
  have e1 : (digit (n / 1000)).toNat - '0'.toNat = n / 1000 % 10 := digitVal_digit _
  have e2 : (digit (n / 100)).toNat - '0'.toNat = n / 100 % 10 := digitVal_digit _
  have e3 : (digit (n / 10)).toNat - '0'.toNat = n / 10 % 10 := digitVal_digit _
  have e4 : (digit n).toNat - '0'.toNat = n % 10 := digitVal_digit _
  rw [e1, e2, e3, e4]
  congr 2
  omega

end Iso
