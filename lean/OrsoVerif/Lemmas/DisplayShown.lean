import OrsoVerif.Lemmas.DisplayTable
/-! Helper lemmas for C18, part 5: the values of the shown rows are shown — every column is at least as
wide as each value printed in it (up to the column-width limit), so `[:width]` / `trunc_printable`
cut nothing from a value that fits the limit. -/
namespace Display
variable {α : Type}

theorem eagerGo_rows (A : Arith) (n tlen limit : Nat) (tt : Bool) (label : Nat) (row : α) :
    ∀ (i : Nat) (xs : List α), Line.data label row ∈ eagerGo A n tlen limit tt i xs → row ∈ xs
  | _, [], h => by simp [eagerGo] at h
  | i, x :: xs, h => by
    simp only [eagerGo, List.mem_append] at h
    rcases h with h | h
    · unfold eagerLineAt at h
      split at h
      · simp only [List.mem_append, List.mem_singleton, Line.data.injEq] at h
        rcases h with h | h
        · split at h <;> simp at h
        · simp [h.2]
      · simp only [List.mem_singleton, Line.data.injEq] at h
        simp [h.2]
    · exact List.mem_cons_of_mem _ (eagerGo_rows A n tlen limit tt label row (i + 1) xs h)

theorem lazyGo_rows (A : Arith) (limit ll : Nat) (label : Nat) (row : α) :
    ∀ (i off : Nat) (xs : List α), Line.data label row ∈ lazyGo A limit ll i off xs → row ∈ xs
  | _, _, [], h => by simp [lazyGo] at h
  | i, off, x :: xs, h => by
    unfold lazyGo at h
    split at h
    · simp only [List.mem_cons, reduceCtorEq, Line.data.injEq, false_or] at h
      rcases h with h | h
      · simp [h.2]
      · exact List.mem_cons_of_mem _ (lazyGo_rows A limit ll label row _ _ xs h)
    · simp only [List.mem_cons, Line.data.injEq] at h
      rcases h with h | h
      · simp [h.2]
      · exact List.mem_cons_of_mem _ (lazyGo_rows A limit ll label row _ _ xs h)

/-- Every data line shows a row of the printed frame `t` (whatever the arithmetic). -/
theorem visibleRows_in_cut (A : Arith) (rows : List α) (limit : Nat) (tt lazy : Bool) (label : Nat) (row : α)
    (h : Line.data label row ∈ visibleRows A rows limit tt lazy) : row ∈ cutRows A rows limit tt lazy := by
  unfold visibleRows at h
  unfold cutRows
  cases lazy with
  | false => simpa using eagerGo_rows A _ _ limit tt label row 0 _ (by simpa [eagerLines] using h)
  | true => simpa using lazyGo_rows A limit _ label row 0 _ _ (by simpa [lazyLines] using h)

theorem foldl_max_ge (f : Cell → Nat) (col : List Cell) : ∀ (m : Nat),
    m ≤ col.foldl (fun m c => max m (f c)) m ∧ ∀ c ∈ col, f c ≤ col.foldl (fun m c => max m (f c)) m := by
  induction col with
  | nil => intro m; simp
  | cons x xs ih =>
    intro m
    have := ih (max m (f x))
    simp only [List.foldl_cons, List.mem_cons]
    refine ⟨by omega, ?_⟩
    rintro c (rfl | hc)
    · omega
    · exact this.2 c hc

theorem dataWidth_ge_mem (col : List Cell) (c : Cell) (h : c ∈ col) : cellSlen c ≤ dataWidth col :=
  (foldl_max_ge cellSlen col 4).2 c h

theorem column_mem (t : List (List Cell)) (row : List Cell) (j : Nat) (c : Cell) (hr : row ∈ t)
    (hc : row[j]? = some c) : c ∈ column t j := by
  unfold column
  exact List.mem_filterMap.mpr ⟨row, hr, hc⟩

theorem colWidthsGo_get (A : Arith) (st : Bool) (mc : Nat) (t : List (List Cell)) :
    ∀ (i : Nat) (ns tys : List Str) (j w : Nat), (colWidthsGo A st mc t i ns tys)[j]? = some w →
      ∃ n ty, w = A.colWidth n (if st then ty else 0) (dataWidth (column t (i + j))) mc
  | _, [], _, j, w, h => by simp [colWidthsGo] at h
  | _, _ :: _, [], j, w, h => by simp [colWidthsGo] at h
  | i, n :: ns, ty :: tys, 0, w, h => by
    simp only [colWidthsGo, List.getElem?_cons_zero, Option.some.injEq] at h
    exact ⟨n.length, ty.length, by simpa using h.symm⟩
  | i, n :: ns, ty :: tys, j + 1, w, h => by
    simp only [colWidthsGo, List.getElem?_cons_succ] at h
    obtain ⟨a, b, e⟩ := colWidthsGo_get A st mc t (i + 1) ns tys j w h
    exact ⟨a, b, by rw [e]; congr 3; omega⟩

/-- **The column is wide enough for every value printed in it** (reference arithmetic): for a row of
the printed frame, cell `j` of length `len(str(v))` and column width `w`: `min len max_column_width ≤ w`. -/
theorem column_fits_spec (p : Params) (f : Frame) (row : List Cell) (j w : Nat) (c : Cell)
    (hr : row ∈ cutRows specArith f.rows p.limit p.tt p.lazy) (hc : row[j]? = some c)
    (hw : (colWidths specArith p f)[j]? = some w) : min (cellSlen c) p.maxCol ≤ w := by
  unfold colWidths at hw
  obtain ⟨a, b, e⟩ := colWidthsGo_get specArith p.showTypes p.maxCol _ 0 f.names f.types j w hw
  rw [measuredRows_spec] at e
  have := dataWidth_ge_mem _ c (column_mem _ row j c hr hc)
  simp only [spec_colWidth, Nat.zero_add] at e
  omega

theorem take_of_length_le {β : Type} (l : List β) (w : Nat) (h : l.length ≤ w) : l.take w = l :=
  List.take_of_length_le h

/-- `str(value).rjust(width)[:width]` is `rjust` itself when the value fits. -/
theorem take_rjust_fits (w : Nat) (s : Str) (h : s.length ≤ w) : (rjust w s).take w = spaces (w - s.length) ++ s := by
  unfold rjust
  apply List.take_of_length_le
  simp [spaces]; omega

/-- `trunc_printable(text.ljust(width), width)` on printable text that fits: nothing is cut. -/
theorem truncGo_fits (cw : Char → Nat) (hcw : ∀ c, Printable c → cw c = 1) (width : Nat) (full : Bool) :
    ∀ (l : Str) (off : Nat), PStr l → off + l.length = width → 0 < l.length →
      truncGo specArith cw width full l off false = l ++ T_OFF
  | [], off, _, _, h0 => by simp at h0
  | c :: cs, off, hp, hlen, _ => by
    have hc : Printable c := hp c (by simp)
    have hnl := (ok_not_nl (Or.inl hc))
    have hesc : isEsc c = false := pstr_noesc hp c (by simp)
    have hm : ¬ (c = 'm' ∧ False) := by simp
    unfold truncGo
    rw [if_neg hnl.1, if_neg hnl.2]
    simp only [hesc, Bool.or_false, Bool.false_eq_true, if_false, Bool.false_and, hcw c hc, Bool.not_false,
      Bool.true_and, spec_truncStop']
    by_cases hcs : cs = []
    · subst hcs
      simp only [List.length_cons, List.length_nil] at hlen
      simp [show width ≤ off + 1 by omega]
    · have hpos : 0 < cs.length := List.length_pos_iff.mpr hcs
      simp only [List.length_cons] at hlen
      have : ¬ (width ≤ off + 1) := by omega
      simp only [this, decide_false, Bool.false_eq_true, if_false, List.cons_append, List.cons.injEq, true_and]
      exact truncGo_fits cw hcw width full cs (off + 1) (fun x hx => hp x (by simp [hx])) (by omega) hpos

end Display

namespace Display

/-- which name / type name and which measured column make up the width of column `j` -/
theorem colWidthsGo_get' (A : Arith) (st : Bool) (mc : Nat) (t : List (List Cell)) :
    ∀ (i : Nat) (ns tys : List Str) (j w : Nat), (colWidthsGo A st mc t i ns tys)[j]? = some w →
      ∃ n ty, ns[j]? = some n ∧ tys[j]? = some ty
        ∧ w = A.colWidth n.length (if st then ty.length else 0) (dataWidth (column t (i + j))) mc
  | _, [], _, j, w, h => by simp [colWidthsGo] at h
  | _, _ :: _, [], j, w, h => by simp [colWidthsGo] at h
  | i, n :: ns, ty :: tys, 0, w, h => by
    simp only [colWidthsGo, List.getElem?_cons_zero, Option.some.injEq] at h
    exact ⟨n, ty, by simp, by simp, by simpa using h.symm⟩
  | i, n :: ns, ty :: tys, j + 1, w, h => by
    simp only [colWidthsGo, List.getElem?_cons_succ] at h
    obtain ⟨a, b, ha, hb, e⟩ := colWidthsGo_get' A st mc t (i + 1) ns tys j w h
    exact ⟨a, b, by simpa using ha, by simpa using hb, by rw [e]; congr 3; omega⟩

/-- **Every column is wide enough for its name and (when types are shown) its type name**, up to the
column-width limit (reference arithmetic). -/
theorem column_fits_name_spec (p : Params) (f : Frame) (j w : Nat) (h : (colWidths specArith p f)[j]? = some w) :
    ∃ n ty, f.names[j]? = some n ∧ f.types[j]? = some ty
      ∧ min n.length p.maxCol ≤ w ∧ (p.showTypes = true → min ty.length p.maxCol ≤ w) := by
  unfold colWidths at h
  obtain ⟨n, ty, hn, hty, e⟩ := colWidthsGo_get' specArith p.showTypes p.maxCol _ 0 f.names f.types j w h
  refine ⟨n, ty, hn, hty, ?_, ?_⟩
  · simp only [spec_colWidth] at e; omega
  · intro hs; simp only [spec_colWidth, hs, if_true] at e; omega

/-- `v.center(w)[:w]` shows `v` in full, between blanks, when it fits. -/
theorem headCell_fits (tok v : Str) (w : Nat) (h : v.length ≤ w) :
    ∃ l r, headCell tok v w = tok ++ (spaces l ++ v ++ spaces r) ++ T_OFF ∧ l + v.length + r = w := by
  let l := (w - v.length) / 2 + (if (w - v.length) % 2 = 1 ∧ w % 2 = 1 then 1 else 0)
  have hl : l ≤ w - v.length := by
    show (w - v.length) / 2 + (if (w - v.length) % 2 = 1 ∧ w % 2 = 1 then 1 else 0) ≤ w - v.length
    split <;> omega
  refine ⟨l, (w - v.length) - l, ?_, by omega⟩
  have hc : center w v = spaces l ++ v ++ spaces ((w - v.length) - l) := rfl
  unfold headCell
  rw [hc, List.take_of_length_le]
  simp only [List.length_append, spaces, List.length_replicate]
  omega

end Display
