import OrsoVerif.Lemmas.IsoText
/-! Helper lemmas for C08: every exception the body of `parse_iso` can raise is caught. -/
namespace Iso

/-- Every error `x` can produce is caught by the extracted `except` tuple. -/
def Safe {α : Type} (x : Except Exc α) : Prop := ∀ e, x = .error e → caughtBy Gen.Iso.caught e = true

theorem Safe.ok {α : Type} (a : α) : Safe (Except.ok a : Except Exc α) := by
  intro e h; cases h

theorem Safe.bind {α β : Type} {x : Except Exc α} {f : α → Except Exc β} (hx : Safe x)
    (hf : ∀ a, Safe (f a)) : Safe (x.bind f) := by
  intro e h
  cases x with
  | error e' => simp only [bind_error] at h; cases h; exact hx _ rfl
  | ok a => exact hf a e h

theorem Safe.ite {α : Type} {c : Prop} [Decidable c] {x y : Except Exc α} (hx : Safe x) (hy : Safe y) :
    Safe (if c then x else y) := by
  split <;> assumption

theorem Safe.ite' {α : Type} {c : Prop} [Decidable c] {x y : Except Exc α} (hx : c → Safe x)
    (hy : ¬c → Safe y) : Safe (if c then x else y) := by
  split
  · exact hx ‹_›
  · exact hy ‹_›

/-- **What totality needs from the extracted `except` tuple and the generated guards**: the four
classes the primitives raise are caught, and every subscript is covered by the guard it is read
under.  Proved in `Props/C08.lean` (`guards_cover_subscripts_and_exceptions`) against the source
as extracted on this run. -/
structure Covers : Prop where
  catches : caughtBy Gen.Iso.caught .valueError = true ∧ caughtBy Gen.Iso.caught .unicodeDecodeError = true ∧
    caughtBy Gen.Iso.caught .overflowError = true ∧ caughtBy Gen.Iso.caught .osError = true
  window : ∀ n : Int, Gen.Iso.lenWindow n → 10 ≤ n
  plus : ∀ n : Int, ¬ Gen.Iso.plusReject n → 9 ≤ n
  dashIdx : Gen.Iso.dashA < 9 ∧ Gen.Iso.dashB < 9
  time : ∀ n : Int, Gen.Iso.timeLenTest n → (Gen.Iso.sepIdx : Int) < n ∧ (Gen.Iso.colonA : Int) < n
  sec : ∀ n : Int, Gen.Iso.secLenTest n → (Gen.Iso.colonB : Int) < n
  arity : (Gen.Iso.slicesDate.length = 3 ∨ Gen.Iso.slicesDate.length = 5 ∨ Gen.Iso.slicesDate.length = 6) ∧
    (Gen.Iso.slicesSec.length = 3 ∨ Gen.Iso.slicesSec.length = 5 ∨ Gen.Iso.slicesSec.length = 6) ∧
    (Gen.Iso.slicesMin.length = 3 ∨ Gen.Iso.slicesMin.length = 5 ∨ Gen.Iso.slicesMin.length = 6)

theorem safe_valueError (C : Covers) {α : Type} : Safe (.error .valueError : Except Exc α) := by
  intro e h; cases h; exact C.catches.1
theorem safe_unicodeDecodeError (C : Covers) {α : Type} : Safe (.error .unicodeDecodeError : Except Exc α) := by
  intro e h; cases h; exact C.catches.2.1
theorem safe_overflowError (C : Covers) {α : Type} : Safe (.error .overflowError : Except Exc α) := by
  intro e h; cases h; exact C.catches.2.2.1
theorem safe_osError (C : Covers) {α : Type} : Safe (.error .osError : Except Exc α) := by
  intro e h; cases h; exact C.catches.2.2.2

theorem pyNat_safe (C : Covers) (s : List Char) : Safe (pyNat s) := by
  unfold pyNat
  split
  · exact (safe_valueError C)
  · split
    · exact Safe.ok _
    · exact (safe_valueError C)

theorem pyInt_safe (C : Covers) (s : List Char) : Safe (pyInt s) := by
  unfold pyInt
  split
  · exact (safe_valueError C)
  · split
    · exact Safe.bind (pyNat_safe C _) (fun _ => Safe.ok _)
    · split
      · exact Safe.bind (pyNat_safe C _) (fun _ => Safe.ok _)
      · exact Safe.bind (pyNat_safe C _) (fun _ => Safe.ok _)

theorem buildDatetime_safe (C : Covers) (y m d H M S : Int) : Safe (buildDatetime y m d H M S) := by
  unfold buildDatetime
  repeat (first | exact (safe_overflowError C) | exact (safe_valueError C) | exact Safe.ok _ | split)

theorem ints_length (v : List Char) : ∀ (sl : List (Nat × Nat)) (xs : List Int),
    ints v sl = .ok xs → xs.length = sl.length
  | [], xs, h => by simp [ints] at h; subst h; rfl
  | ab :: r, xs, h => by
    simp only [ints] at h
    cases h1 : pyInt (slice v ab) with
    | error e => rw [h1] at h; simp at h
    | ok x =>
      rw [h1] at h; simp only [bind_ok] at h
      cases h2 : ints v r with
      | error e => rw [h2] at h; simp at h
      | ok ys =>
        rw [h2] at h; simp only [bind_ok] at h
        cases h
        simp [ints_length v r ys h2]

theorem ints_safe (C : Covers) (v : List Char) : ∀ (sl : List (Nat × Nat)), Safe (ints v sl)
  | [] => Safe.ok _
  | ab :: r => by
    unfold ints
    exact Safe.bind (pyInt_safe C _) (fun x => Safe.bind (ints_safe C v r) (fun xs => Safe.ok _))

/-- `datetime(*args)` with 3, 5 or 6 integers never raises `TypeError`. -/
theorem mkDatetime_safe (C : Covers) (xs : List Int) (h : xs.length = 3 ∨ xs.length = 5 ∨ xs.length = 6) :
    Safe (mkDatetime xs) := by
  rcases xs with _ | ⟨a, _ | ⟨b, _ | ⟨c, _ | ⟨d, _ | ⟨e, _ | ⟨f, _ | ⟨g, t⟩⟩⟩⟩⟩⟩⟩ <;>
    first
    | exact buildDatetime_safe C _ _ _ _ _ _
    | (exfalso; simp at h)
    | (exfalso; simp at h; omega)

theorem fields_safe (C : Covers) (v : List Char) (sl : List (Nat × Nat))
    (h : sl.length = 3 ∨ sl.length = 5 ∨ sl.length = 6) : Safe (fields v sl) := by
  unfold fields
  intro e he
  cases h1 : ints v sl with
  | error e' => rw [h1] at he; simp only [bind_error] at he; cases he; exact ints_safe C v sl _ h1
  | ok xs =>
    rw [h1] at he; simp only [bind_ok] at he
    have hl := ints_length v sl xs h1
    exact Safe.bind (mkDatetime_safe C xs (by omega)) (fun dt => Safe.ok _) e he

theorem idx_ok (v : List Char) (i : Nat) (h : i < v.length) : ∃ c, idx v i = .ok c := by
  unfold idx
  rw [List.getElem?_eq_getElem h]
  exact ⟨_, rfl⟩

theorem idx_safe (v : List Char) (i : Nat) (h : i < v.length) : Safe (idx v i) := by
  obtain ⟨c, hc⟩ := idx_ok v i h
  rw [hc]; exact Safe.ok _

theorem shortCircuit_safe (j a : Bool) (b : Except Exc Bool) (hb : (if j then a = true else a = false) → Safe b) :
    Safe (shortCircuit j a b) := by
  unfold shortCircuit
  cases j <;> cases a <;> simp only [if_true, if_false, Bool.false_eq_true] <;>
    first | exact Safe.ok _ | exact hb (by simp)

/-- The dash test reads `value[4]` and `value[7]`: nine characters are enough. -/
theorem dashReject_safe (C : Covers) (v : List Char) (h9 : 9 ≤ v.length) : Safe (dashReject v) := by
  unfold dashReject
  have := C.dashIdx
  refine Safe.bind (idx_safe v _ (by omega)) (fun c4 => ?_)
  exact shortCircuit_safe _ _ _ (fun _ =>
    Safe.bind (idx_safe v _ (by omega)) (fun _ => Safe.ok _))

/-- The separator test is only evaluated under the generated `timeLenTest`, which covers both indices. -/
theorem sepReject_safe (C : Covers) (v : List Char) (h : Gen.Iso.timeLenTest (v.length : Int)) : Safe (sepReject v) := by
  have := C.time _ h
  unfold sepReject
  refine Safe.bind (idx_safe v _ (by omega)) (fun c10 => ?_)
  exact shortCircuit_safe _ _ _ (fun _ =>
    Safe.bind (idx_safe v _ (by omega)) (fun _ => Safe.ok _))

/-- `value[16]` is only read under the generated `secLenTest`, which covers it. -/
theorem hasSeconds_safe (C : Covers) (v : List Char) : Safe (hasSeconds v) := by
  unfold hasSeconds
  refine shortCircuit_safe _ _ _ (fun ha => ?_)
  have h : Gen.Iso.secLenTest (v.length : Int) := of_decide_eq_true ha
  have := C.sec _ h
  exact Safe.bind (idx_safe v _ (by omega)) (fun _ => Safe.ok _)

/-- No `IndexError`: nine characters are enough for every index `shaped` reads unguarded. -/
theorem shaped_safe (C : Covers) (v : List Char) (h9 : 9 ≤ v.length) : Safe (shaped v) := by
  unfold shaped
  refine Safe.bind (dashReject_safe C v h9) (fun rej => ?_)
  refine Safe.ite (Safe.ok _) ?_
  refine Safe.ite (fields_safe C v _ C.arity.1) ?_
  refine Safe.ite' (fun h16 => ?_) (fun _ => Safe.ok _)
  refine Safe.bind (sepReject_safe C v h16) (fun rej => ?_)
  refine Safe.ite (Safe.ok _) ?_
  refine Safe.bind (hasSeconds_safe C v) (fun secs => ?_)
  refine Safe.ite (fields_safe C v _ C.arity.2.1) ?_
  exact Safe.ite (fields_safe C v _ C.arity.2.2) (Safe.ok _)

theorem textPath_safe (C : Covers) (v : List Char) : Safe (textPath v) := by
  unfold textPath
  refine Safe.ite' (fun hw => ?_) (fun _ => Safe.ok _)
  have h10 : 10 ≤ v.length := by have := C.window _ hw; omega
  have hv1 : 9 ≤ (if v.getLast? = some Gen.Iso.zChar then v.dropLast else v).length := by
    split
    · simp; omega
    · omega
  dsimp only
  generalize (if v.getLast? = some Gen.Iso.zChar then v.dropLast else v) = v1 at hv1 ⊢
  refine Safe.ite' (fun _ => ?_) (fun _ => shaped_safe C _ hv1)
  refine Safe.ite' (fun _ => Safe.ok _) (fun hw2 => ?_)
  have : 9 ≤ (List.takeWhile (fun x => x != Gen.Iso.plusChar) v1).length := by
    have := C.plus _ hw2; omega
  exact shaped_safe C _ this

theorem fromTimestamp_safe (C : Covers) (n : Int) : Safe (fromTimestamp n) := by
  unfold fromTimestamp
  split
  · exact (safe_overflowError C)
  · dsimp only
    split
    · exact (safe_osError C)
    · split
      · exact (safe_valueError C)
      · exact Safe.ok _

theorem intOfFloat_safe (C : Covers) (b : UInt64) : Safe (intOfFloat b) := by
  unfold intOfFloat
  split
  · exact (safe_valueError C)
  · exact (safe_overflowError C)
  · exact Safe.ok _

theorem epoch_safe (C : Covers) (ty : String) (n : Except Exc Int) (hn : Safe n) : Safe (epoch ty n) := by
  unfold epoch
  split
  · exact Safe.bind hn (fun k => Safe.bind (fromTimestamp_safe C k) (fun dt => Safe.ok _))
  · exact Safe.ok _

theorem strBody_safe (C : Covers) (R : Refines) (s : List Char) : Safe (strBody s) := by
  unfold strBody
  split
  · exact epoch_safe C _ _ (pyInt_safe C s)
  · rw [R.text]; exact textPath_safe C s

theorem body_safe (C : Covers) (R : Refines) (i : Input) : Safe (body i) := by
  cases i with
  | int n => exact epoch_safe C _ _ (Safe.ok _)
  | npInt n => exact epoch_safe C _ _ (Safe.ok _)
  | num ty n => exact epoch_safe C _ _ (Safe.ok _)
  | float b => exact epoch_safe C _ _ (intOfFloat_safe C b)
  | npFloat b => exact epoch_safe C _ _ (intOfFloat_safe C b)
  | str s => exact strBody_safe C R s
  | bytes b =>
    simp only [body]
    split
    · exact (safe_unicodeDecodeError C)
    · exact strBody_safe C R _
  | date y m d => exact Safe.ok _
  | datetime dt => exact Safe.ok _
  | other => exact Safe.ok _
  | time H M S us => exact Safe.ok _
  | strSub s => exact Safe.ok _

end Iso
