import OrsoVerif.Lemmas.IsoText
/-! Helper lemmas for C08: every exception the body of `parse_iso` can raise is caught. -/
namespace Iso

/-- Every error `x` can produce is caught by the extracted `except` tuple. -/
def Safe {α : Type} (x : Except Exc α) : Prop := ∀ e, x = .error e → caughtBy Gen.Iso.caught e = true

theorem Safe.ok {α : Type} (a : α) : Safe (Except.ok a : Except Exc α) := by
  intro e h; cases h

theorem Safe.bind {α β : Type} {x : Except Exc α} {f : α → Except Exc β} (hx : Safe x)
    (hf : ∀ a, Safe (f a)) : Safe (x.bind f) := by
  intro e h
  cases x with
  | error e' => simp only [bind_error] at h; cases h; exact hx _ rfl
  | ok a => exact hf a e h

theorem Safe.ite {α : Type} {c : Prop} [Decidable c] {x y : Except Exc α} (hx : Safe x) (hy : Safe y) :
    Safe (if c then x else y) := by
  split <;> assumption

theorem Safe.ite' {α : Type} {c : Prop} [Decidable c] {x y : Except Exc α} (hx : c → Safe x)
    (hy : ¬c → Safe y) : Safe (if c then x else y) := by
  split
  · exact hx ‹_›
  · exact hy ‹_›

theorem safe_valueError {α : Type} : Safe (.error .valueError : Except Exc α) := by
  intro e h; cases h; decide
theorem safe_overflowError {α : Type} : Safe (.error .overflowError : Except Exc α) := by
  intro e h; cases h; decide
theorem safe_osError {α : Type} : Safe (.error .osError : Except Exc α) := by
  intro e h; cases h; decide
theorem safe_unicodeDecodeError {α : Type} : Safe (.error .unicodeDecodeError : Except Exc α) := by
  intro e h; cases h; decide

theorem pyNat_safe (s : List Char) : Safe (pyNat s) := by
  unfold pyNat
  split
  · exact safe_valueError
  · split
    · exact Safe.ok _
    · exact safe_valueError

theorem pyInt_safe (s : List Char) : Safe (pyInt s) := by
  unfold pyInt
  split
  · exact safe_valueError
  · split
    · exact Safe.bind (pyNat_safe _) (fun _ => Safe.ok _)
    · split
      · exact Safe.bind (pyNat_safe _) (fun _ => Safe.ok _)
      · exact Safe.bind (pyNat_safe _) (fun _ => Safe.ok _)

theorem buildDatetime_safe (y m d H M S : Int) : Safe (buildDatetime y m d H M S) := by
  unfold buildDatetime
  repeat (first | exact safe_overflowError | exact safe_valueError | exact Safe.ok _ | split)

theorem ints_length (v : List Char) : ∀ (sl : List (Nat × Nat)) (xs : List Int),
    ints v sl = .ok xs → xs.length = sl.length
  | [], xs, h => by simp [ints] at h; subst h; rfl
  | ab :: r, xs, h => by
    simp only [ints] at h
    cases h1 : pyInt (slice v ab) with
    | error e => rw [h1] at h; simp at h
    | ok x =>
      rw [h1] at h; simp only [bind_ok] at h
      cases h2 : ints v r with
      | error e => rw [h2] at h; simp at h
      | ok ys =>
        rw [h2] at h; simp only [bind_ok] at h
        cases h
        simp [ints_length v r ys h2]

theorem ints_safe (v : List Char) : ∀ (sl : List (Nat × Nat)), Safe (ints v sl)
  | [] => Safe.ok _
  | ab :: r => by
    unfold ints
    exact Safe.bind (pyInt_safe _) (fun x => Safe.bind (ints_safe v r) (fun xs => Safe.ok _))

/-- `datetime(*args)` with 3, 5 or 6 integers never raises `TypeError`. -/
theorem mkDatetime_safe (xs : List Int) (h : xs.length = 3 ∨ xs.length = 5 ∨ xs.length = 6) :
    Safe (mkDatetime xs) := by
  rcases xs with _ | ⟨a, _ | ⟨b, _ | ⟨c, _ | ⟨d, _ | ⟨e, _ | ⟨f, _ | ⟨g, t⟩⟩⟩⟩⟩⟩⟩ <;>
    first
    | exact buildDatetime_safe _ _ _ _ _ _
    | (exfalso; simp at h)
    | (exfalso; simp at h; omega)

theorem fields_safe (v : List Char) (sl : List (Nat × Nat))
    (h : sl.length = 3 ∨ sl.length = 5 ∨ sl.length = 6) : Safe (fields v sl) := by
  unfold fields
  intro e he
  cases h1 : ints v sl with
  | error e' => rw [h1] at he; simp only [bind_error] at he; cases he; exact ints_safe v sl _ h1
  | ok xs =>
    rw [h1] at he; simp only [bind_ok] at he
    have hl := ints_length v sl xs h1
    exact Safe.bind (mkDatetime_safe xs (by omega)) (fun dt => Safe.ok _) e he

theorem idx_ok (v : List Char) (i : Nat) (h : i < v.length) : ∃ c, idx v i = .ok c := by
  unfold idx
  rw [List.getElem?_eq_getElem h]
  exact ⟨_, rfl⟩

theorem idx_safe (v : List Char) (i : Nat) (h : i < v.length) : Safe (idx v i) := by
  obtain ⟨c, hc⟩ := idx_ok v i h
  rw [hc]; exact Safe.ok _

theorem shortCircuit_safe (j a : Bool) (b : Except Exc Bool) (hb : (if j then a = true else a = false) → Safe b) :
    Safe (shortCircuit j a b) := by
  unfold shortCircuit
  cases j <;> cases a <;> simp only [if_true, if_false, Bool.false_eq_true] <;>
    first | exact Safe.ok _ | exact hb (by simp)

/-- The dash test reads `value[4]` and `value[7]`: nine characters are enough. -/
theorem dashReject_safe (v : List Char) (h9 : 9 ≤ v.length) : Safe (dashReject v) := by
  unfold dashReject
  refine Safe.bind (idx_safe v _ (by simp only [Gen.Iso.dashA]; omega)) (fun c4 => ?_)
  exact shortCircuit_safe _ _ _ (fun _ =>
    Safe.bind (idx_safe v _ (by simp only [Gen.Iso.dashB]; omega)) (fun _ => Safe.ok _))

/-- The separator test is only evaluated under the generated `timeLenTest`, which covers both indices. -/
theorem sepReject_safe (v : List Char) (h : Gen.Iso.timeLenTest (v.length : Int)) : Safe (sepReject v) := by
  have h16 : 16 ≤ v.length := by unfold Gen.Iso.timeLenTest at h; omega
  unfold sepReject
  refine Safe.bind (idx_safe v _ (by simp only [Gen.Iso.sepIdx]; omega)) (fun c10 => ?_)
  exact shortCircuit_safe _ _ _ (fun _ =>
    Safe.bind (idx_safe v _ (by simp only [Gen.Iso.colonA]; omega)) (fun _ => Safe.ok _))

/-- `value[16]` is only read under the generated `secLenTest`, which covers it. -/
theorem hasSeconds_safe (v : List Char) : Safe (hasSeconds v) := by
  unfold hasSeconds
  refine shortCircuit_safe _ _ _ (fun ha => ?_)
  have h : Gen.Iso.secLenTest (v.length : Int) := of_decide_eq_true ha
  have h19 : 19 ≤ v.length := by unfold Gen.Iso.secLenTest at h; omega
  exact Safe.bind (idx_safe v _ (by simp only [Gen.Iso.colonB]; omega)) (fun _ => Safe.ok _)

/-- No `IndexError`: nine characters are enough for every index `shaped` reads unguarded. -/
theorem shaped_safe (v : List Char) (h9 : 9 ≤ v.length) : Safe (shaped v) := by
  unfold shaped
  refine Safe.bind (dashReject_safe v h9) (fun rej => ?_)
  refine Safe.ite (Safe.ok _) ?_
  refine Safe.ite (fields_safe v _ (by decide)) ?_
  refine Safe.ite' (fun h16 => ?_) (fun _ => Safe.ok _)
  refine Safe.bind (sepReject_safe v h16) (fun rej => ?_)
  refine Safe.ite (Safe.ok _) ?_
  refine Safe.bind (hasSeconds_safe v) (fun secs => ?_)
  refine Safe.ite (fields_safe v _ (by decide)) ?_
  exact Safe.ite (fields_safe v _ (by decide)) (Safe.ok _)

theorem textPath_safe (v : List Char) : Safe (textPath v) := by
  unfold textPath
  refine Safe.ite' (fun hw => ?_) (fun _ => Safe.ok _)
  have h10 : 10 ≤ v.length := by unfold Gen.Iso.lenWindow at hw; omega
  have hv1 : 9 ≤ (if v.getLast? = some Gen.Iso.zChar then v.dropLast else v).length := by
    split
    · simp; omega
    · omega
  dsimp only
  generalize (if v.getLast? = some Gen.Iso.zChar then v.dropLast else v) = v1 at hv1 ⊢
  refine Safe.ite' (fun _ => ?_) (fun _ => shaped_safe _ hv1)
  refine Safe.ite' (fun _ => Safe.ok _) (fun hw2 => ?_)
  have : 9 ≤ (List.takeWhile (fun x => x != Gen.Iso.plusChar) v1).length := by
    unfold Gen.Iso.plusReject at hw2; omega
  exact shaped_safe _ this

theorem fromTimestamp_safe (n : Int) : Safe (fromTimestamp n) := by
  unfold fromTimestamp
  split
  · exact safe_overflowError
  · dsimp only
    split
    · exact safe_osError
    · split
      · exact safe_valueError
      · exact Safe.ok _

theorem intOfFloat_safe (b : UInt64) : Safe (intOfFloat b) := by
  unfold intOfFloat
  split
  · exact safe_valueError
  · exact safe_overflowError
  · exact Safe.ok _

theorem epoch_safe (ty : String) (n : Except Exc Int) (hn : Safe n) : Safe (epoch ty n) := by
  unfold epoch
  split
  · exact Safe.bind hn (fun k => Safe.bind (fromTimestamp_safe k) (fun dt => Safe.ok _))
  · exact Safe.ok _

theorem strBody_safe (s : List Char) : Safe (strBody s) := by
  unfold strBody
  split
  · exact epoch_safe _ _ (pyInt_safe s)
  · exact textPath_safe s

theorem body_safe (i : Input) : Safe (body i) := by
  cases i with
  | int n => exact epoch_safe _ _ (Safe.ok _)
  | npInt n => exact epoch_safe _ _ (Safe.ok _)
  | float b => exact epoch_safe _ _ (intOfFloat_safe b)
  | npFloat b => exact epoch_safe _ _ (intOfFloat_safe b)
  | str s => exact strBody_safe s
  | bytes b =>
    simp only [body]
    split
    · exact safe_unicodeDecodeError
    · exact strBody_safe _
  | date y m d => exact Safe.ok _
  | datetime dt => exact Safe.ok _
  | other => exact Safe.ok _
  | time H M S us => exact Safe.ok _

end Iso
