import OrsoVerif.Lemmas.Cast
/-! Helper lemmas for C07: the decimal text paths (reader, canonical rendering, zero padding, rounding). -/
namespace Cast

/-! ### list helpers -/

theorem takeWhile_all {α : Type} (p : α → Bool) : ∀ (l : List α), (∀ c ∈ l, p c = true) → l.takeWhile p = l
  | [], _ => rfl
  | a :: l, h => by
    simp only [List.takeWhile_cons, h a List.mem_cons_self, if_true]
    rw [takeWhile_all p l (fun c hc => h c (List.mem_cons_of_mem _ hc))]

theorem dropWhile_all {α : Type} (p : α → Bool) : ∀ (l : List α), (∀ c ∈ l, p c = true) → l.dropWhile p = []
  | [], _ => rfl
  | a :: l, h => by
    simp only [List.dropWhile_cons, h a List.mem_cons_self, if_true]
    exact dropWhile_all p l (fun c hc => h c (List.mem_cons_of_mem _ hc))

theorem takeWhile_stop {α : Type} (p : α → Bool) (a : α) (r : List α) (ha : p a = false) :
    ∀ (l : List α), (∀ c ∈ l, p c = true) → (l ++ a :: r).takeWhile p = l
  | [], _ => by simp [List.takeWhile_cons, ha]
  | b :: l, h => by
    simp only [List.cons_append, List.takeWhile_cons, h b List.mem_cons_self, if_true]
    rw [takeWhile_stop p a r ha l (fun c hc => h c (List.mem_cons_of_mem _ hc))]

theorem dropWhile_stop {α : Type} (p : α → Bool) (a : α) (r : List α) (ha : p a = false) :
    ∀ (l : List α), (∀ c ∈ l, p c = true) → (l ++ a :: r).dropWhile p = a :: r
  | [], _ => by simp [List.dropWhile_cons, ha]
  | b :: l, h => by
    simp only [List.cons_append, List.dropWhile_cons, h b List.mem_cons_self, if_true]
    exact dropWhile_stop p a r ha l (fun c hc => h c (List.mem_cons_of_mem _ hc))

/-! ### digit characters -/

theorem notE_of_isDigit {c : Char} (h : c.isDigit = true) : notE c = true := by
  have h1 : c ≠ 'e' := Iso.ne_of_isDigit h (by decide)
  have h2 : c ≠ 'E' := Iso.ne_of_isDigit h (by decide)
  simp [notE, h1, h2]

theorem notDot_of_isDigit {c : Char} (h : c.isDigit = true) : notDot c = true := by
  have h1 : c ≠ '.' := Iso.ne_of_isDigit h (by decide)
  simp [notDot, h1]

theorem allDigits_iff (l : List Char) : allDigits l = true ↔ ∀ c ∈ l, c.isDigit = true := by
  simp [allDigits, List.all_eq_true]

theorem natOf_toDigits (n : Nat) : natOf (Nat.toDigits 10 n) = n := Nat.ofDigitChars_ten_toDigits

theorem splitSign_digit (c : Char) (r : List Char) (h : c.isDigit = true) : splitSign (c :: r) = (false, c :: r) := by
  have h1 : c ≠ '-' := Iso.ne_of_isDigit h (by decide)
  have h2 : c ≠ '+' := Iso.ne_of_isDigit h (by decide)
  simp [splitSign, h1, h2]

/-- The exponent part written by `"%+d"`. -/
def expText : Option (Bool × Nat) → List Char
  | none => []
  | some (nneg, x) => 'E' :: (if nneg then '-' else '+') :: Nat.toDigits 10 x

def expVal : Option (Bool × Nat) → Int
  | none => 0
  | some (nneg, x) => if nneg then -(x : Int) else (x : Int)

theorem parseExp_expText (ex : Option (Bool × Nat)) : parseExp (expText ex) = some (expVal ex) := by
  match ex with
  | none => rfl
  | some (nneg, x) =>
    have hd := toDigits_isDigit x
    have hne : (Nat.toDigits 10 x).isEmpty = false := by
      cases h : Nat.toDigits 10 x with
      | nil => exact absurd h Nat.toDigits_ne_nil
      | cons a t => rfl
    have hs : splitSign ((if nneg then '-' else '+') :: Nat.toDigits 10 x) = (nneg, Nat.toDigits 10 x) := by
      cases nneg <;> simp [splitSign]
    simp only [expText, parseExp, hs, hne, Bool.not_false, Bool.true_and, (allDigits_iff _).mpr hd, if_true,
      natOf_toDigits, expVal]

/-- `decNumber` on `ip [. fp] [exponent]`. -/
theorem decNumber_shape (neg : Bool) (ip fp : List Char) (dot : Bool) (ex : Option (Bool × Nat))
    (hip : ∀ c ∈ ip, c.isDigit = true) (hfp : ∀ c ∈ fp, c.isDigit = true) (hne : ip ≠ [])
    (hdot : dot = false → fp = []) :
    decNumber neg (ip ++ (if dot then '.' :: fp else []) ++ expText ex)
      = some (.fin neg (natOf (ip ++ fp)) (expVal ex - fp.length)) := by
  have hmant : ∀ c ∈ ip ++ (if dot then '.' :: fp else []), notE c = true := by
    intro c hc
    rcases List.mem_append.mp hc with h | h
    · exact notE_of_isDigit (hip c h)
    · cases dot
      · simp at h
      · simp only [if_true, List.mem_cons] at h
        rcases h with rfl | h
        · decide
        · exact notE_of_isDigit (hfp c h)
  have h1 : (ip ++ (if dot then '.' :: fp else []) ++ expText ex).takeWhile notE
      = ip ++ (if dot then '.' :: fp else []) := by
    match ex with
    | none => simp only [expText, List.append_nil]; exact takeWhile_all _ _ hmant
    | some (nneg, x) => exact takeWhile_stop notE 'E' _ (by decide) _ hmant
  have h2 : (ip ++ (if dot then '.' :: fp else []) ++ expText ex).dropWhile notE = expText ex := by
    match ex with
    | none => simp only [expText, List.append_nil]; exact dropWhile_all _ _ hmant
    | some (nneg, x) => exact dropWhile_stop notE 'E' _ (by decide) _ hmant
  have hipd : ∀ c ∈ ip, notDot c = true := fun c hc => notDot_of_isDigit (hip c hc)
  have h3 : (ip ++ (if dot then '.' :: fp else [])).takeWhile notDot = ip := by
    cases dot
    · simp only [Bool.false_eq_true, if_false, List.append_nil]; exact takeWhile_all _ _ hipd
    · exact takeWhile_stop notDot '.' _ (by decide) _ hipd
  have h4 : ((ip ++ (if dot then '.' :: fp else [])).dropWhile notDot).drop 1 = fp := by
    cases dot
    · simp only [Bool.false_eq_true, if_false, List.append_nil]
      rw [dropWhile_all _ _ hipd, hdot rfl]; rfl
    · simp only [if_true]
      rw [dropWhile_stop notDot '.' _ (by decide) _ hipd]; rfl
  have h5 : ip.isEmpty = false := by
    cases ip with
    | nil => exact absurd rfl hne
    | cons a t => rfl
  simp only [decNumber, h1, h2, h3, h4, (allDigits_iff _).mpr hip, (allDigits_iff _).mpr hfp, Bool.and_self,
    Bool.not_true, h5, Bool.false_and, Bool.or_self, Bool.false_eq_true, if_false, parseExp_expText]

theorem upperC_digit {c : Char} (h : c.isDigit = true) : upperC c = c := by
  unfold upperC
  rw [if_neg]
  intro ⟨h1, _⟩
  simp only [Char.isDigit, Bool.and_eq_true, decide_eq_true_eq] at h
  have h2 := h.2
  rw [Char.le_def] at h1
  simp only [UInt32.le_iff_toNat_le] at h1 h2
  have : 'a'.val.toNat = 97 := by decide
  have : '9'.val.toNat = 57 := by decide
  omega

/-- The reader on `[-] ip [. fp] [exponent]` (digits first, so no special value). -/
theorem decOfText_shape (neg : Bool) (ip fp : List Char) (dot : Bool) (ex : Option (Bool × Nat))
    (hip : ∀ c ∈ ip, c.isDigit = true) (hfp : ∀ c ∈ fp, c.isDigit = true) (hne : ip ≠ [])
    (hdot : dot = false → fp = []) :
    decOfText ((if neg then ['-'] else []) ++ (ip ++ (if dot then '.' :: fp else []) ++ expText ex))
      = some (.fin neg (natOf (ip ++ fp)) (expVal ex - fp.length)) := by
  rw [← decNumber_shape neg ip fp dot ex hip hfp hne hdot]
  obtain ⟨c0, ip', rfl⟩ : ∃ c0 ip', ip = c0 :: ip' := by
    cases ip with
    | nil => exact absurd rfl hne
    | cons a t => exact ⟨a, t, rfl⟩
  have hc : c0.isDigit = true := hip c0 List.mem_cons_self
  generalize hr : ip' ++ (if dot then '.' :: fp else []) ++ expText ex = r
  have e1 : c0 :: ip' ++ (if dot then '.' :: fp else []) ++ expText ex = c0 :: r := by
    rw [← hr]; rfl
  rw [e1]
  have hs : splitSign ((if neg then ['-'] else []) ++ c0 :: r) = (neg, c0 :: r) := by
    cases neg
    · simpa using splitSign_digit c0 r hc
    · simp [splitSign]
  have hu : ∀ (x : Char) (xs : List Char), x.isDigit = false → (upper (c0 :: r) == x :: xs) = false := by
    intro x xs hx
    have hne' : c0 ≠ x := Iso.ne_of_isDigit hc hx
    simp [upper, upperC_digit hc, hne']
  have i1 : "INF".toList = 'I' :: ['N', 'F'] := rfl
  have i2 : "INFINITY".toList = 'I' :: ['N', 'F', 'I', 'N', 'I', 'T', 'Y'] := rfl
  have i3 : "NAN".toList = 'N' :: ['A', 'N'] := rfl
  have i4 : "SNAN".toList = 'S' :: ['N', 'A', 'N'] := rfl
  simp only [decOfText, hs, i1, i2, i3, i4, hu _ _ (by decide : 'I'.isDigit = false),
    hu _ _ (by decide : 'N'.isDigit = false), hu _ _ (by decide : 'S'.isDigit = false), Bool.or_self,
    Bool.false_eq_true, if_false]

theorem natOf_zero_pad (k : Nat) (ds : List Char) : natOf ('0' :: (List.replicate k '0' ++ ds)) = natOf ds := by
  simp [natOf, Nat.ofDigitChars_cons, Nat.ofDigitChars_append]

theorem renderExp_eq (x : Int) :
    ∃ ex, renderExp x = expText ex ∧ expVal ex = x := by
  unfold renderExp
  by_cases h : x = 0
  · exact ⟨none, by rw [if_pos h]; rfl, by rw [h]; rfl⟩
  · refine ⟨some (decide (x < 0), x.natAbs), ?_, ?_⟩
    · rw [if_neg h]
      by_cases hx : x < 0 <;> simp [expText, hx]
    · by_cases hx : x < 0
      · simp only [expVal, hx, decide_true, if_true]; omega
      · simp only [expVal, hx, decide_false, Bool.false_eq_true, if_false]; omega

/-- The reader on a sign, a rendered body and a rendered exponent. -/
theorem decOfText_renderFin (neg : Bool) (ds : List Char) (e : Int)
    (hds : ∀ c ∈ ds, c.isDigit = true) (hne : ds ≠ []) :
    decOfText (renderFin neg ds e) = some (.fin neg (natOf ds) e) := by
  have hlen : 1 ≤ ds.length := by
    cases ds with
    | nil => exact absurd rfl hne
    | cons a t => simp
  unfold renderFin
  generalize hleft : e + (ds.length : Int) = left
  obtain ⟨ex, hex, hval⟩ := renderExp_eq (left - dotPlace e left)
  rw [hex]
  unfold dotPlace at hval ⊢
  by_cases hA : e ≤ 0 ∧ left > -6
  · rw [if_pos hA] at hval ⊢
    unfold renderBody
    by_cases h1 : left ≤ 0
    · rw [if_pos h1]
      have := decOfText_shape neg ['0'] (List.replicate (-left).toNat '0' ++ ds) true ex
        (by intro x hx; simp at hx; subst hx; decide)
        (by
          intro x hx
          rcases List.mem_append.mp hx with h | h
          · rw [List.mem_replicate] at h; rw [h.2]; decide
          · exact hds x h)
        (by simp) (by simp)
      simp only [List.append_assoc, List.cons_append, List.nil_append, if_true, Bool.false_eq_true, if_false, List.append_nil] at this ⊢
      rw [this, natOf_zero_pad]
      simp only [List.length_append, List.length_replicate]
      congr 2
      omega
    · rw [if_neg h1]
      by_cases h2 : left ≥ ds.length
      · rw [if_pos h2]
        have hz : (left - (ds.length : Int)).toNat = 0 := by omega
        have := decOfText_shape neg ds [] false ex hds (by simp) hne (by simp)
        rw [hz]
        simp only [List.append_assoc, List.cons_append, List.nil_append, if_true, Bool.false_eq_true, if_false, List.append_nil] at this ⊢
        simp only [List.replicate_zero, List.nil_append] at this ⊢
        rw [this]
        simp only [List.length_nil, List.append_nil]
        congr 2
        omega
      · rw [if_neg h2]
        have hk : 1 ≤ left.toNat ∧ left.toNat < ds.length := by omega
        have hk' : (left.toNat : Int) = left := by omega
        generalize left.toNat = k at hk hk'
        have := decOfText_shape neg (ds.take k) (ds.drop k) true ex
          (fun x hx => hds x (List.mem_of_mem_take hx)) (fun x hx => hds x (List.mem_of_mem_drop hx))
          (by
            intro h0
            have := congrArg List.length h0
            rw [List.length_take] at this
            simp only [List.length_nil] at this
            omega)
          (by simp)
        simp only [List.append_assoc, List.cons_append, List.nil_append, if_true, Bool.false_eq_true, if_false, List.append_nil] at this ⊢
        rw [this, List.take_append_drop]
        simp only [List.length_drop]
        congr 2
        omega
  · rw [if_neg hA] at hval ⊢
    unfold renderBody
    have h0 : ¬ ((1 : Int) ≤ 0) := by omega
    simp only [h0, if_false]
    by_cases h2 : (1 : Int) ≥ ds.length
    · rw [if_pos h2]
      have hz : ((1 : Int) - (ds.length : Int)).toNat = 0 := by omega
      have := decOfText_shape neg ds [] false ex hds (by simp) hne (by simp)
      rw [hz]
      simp only [List.append_assoc, List.cons_append, List.nil_append, if_true, Bool.false_eq_true, if_false, List.append_nil] at this ⊢
      simp only [List.replicate_zero, List.nil_append] at this ⊢
      rw [this]
      simp only [List.length_nil, List.append_nil]
      congr 2
      omega
    · rw [if_neg h2]
      have e1 : (1 : Int).toNat = 1 := rfl
      rw [e1]
      have := decOfText_shape neg (ds.take 1) (ds.drop 1) true ex
        (fun x hx => hds x (List.mem_of_mem_take hx)) (fun x hx => hds x (List.mem_of_mem_drop hx))
        (by
          intro h0
          have := congrArg List.length h0
          rw [List.length_take] at this
          simp only [List.length_nil] at this
          omega)
        (by simp)
      simp only [List.append_assoc, List.cons_append, List.nil_append, if_true, Bool.false_eq_true, if_false, List.append_nil] at this ⊢
      rw [this, List.take_append_drop]
      simp only [List.length_drop]
      congr 2
      omega

/-- **`Decimal(str(d)) = d`** for every decimal of the model: sign, coefficient and exponent of a
finite value, the sign of an infinity, NaN. -/
theorem decOfText_renderDec (d : Dec) : decOfText (renderDec d) = some d := by
  match d with
  | .nan => decide
  | .inf true => decide
  | .inf false => decide
  | .fin neg c e =>
    have := decOfText_renderFin neg (Nat.toDigits 10 c) e (toDigits_isDigit c) Nat.toDigits_ne_nil
    rw [natOf_toDigits] at this
    exact this


/-! ### zero padding of all-digit text -/

theorem dropWhile_none {α : Type} (p : α → Bool) : ∀ (l : List α), (∀ c ∈ l, p c = false) → l.dropWhile p = l
  | [], _ => rfl
  | a :: l, h => by simp [List.dropWhile_cons, h a List.mem_cons_self]

theorem stripD_id (l : List Char) (h : ∀ c ∈ l, isWsD c = false) : stripD l = l := by
  unfold stripD
  rw [dropWhile_none _ l h, dropWhile_none _ l.reverse (fun c hc => h c (List.mem_reverse.mp hc)),
    List.reverse_reverse]

theorem isWsD_of_isDigit {c : Char} (h : c.isDigit = true) : isWsD c = false := by
  simp only [Char.isDigit, Bool.and_eq_true, decide_eq_true_eq] at h
  have h1 := h.1
  simp only [UInt32.le_iff_toNat_le] at h1
  have e0 : '0'.val.toNat = 48 := by decide
  have hn : 48 ≤ c.toNat := by show 48 ≤ c.val.toNat; omega
  have hne : (c == ' ') = false := by
    rw [beq_eq_false_iff_ne]; intro hc; subst hc; revert hn; decide
  simp only [isWsD, hne, Bool.false_or, Bool.or_eq_false_iff, Bool.and_eq_false_iff, decide_eq_false_iff_not]
  omega

theorem natOf_pad (t : List Char) (k : Nat) : natOf (t ++ List.replicate k '0') = natOf t * 10 ^ k := by
  simp [natOf, Nat.ofDigitChars_append, Nat.mul_comm]

/-- The value `create_decimal` reads from zero-padded all-digit text. -/
theorem created_digits (prec s : Nat) (t : List Char) (hne : t ≠ []) (ht : ∀ c ∈ t, c.isDigit = true) :
    created prec s (.inl t)
      = some (roundTo prec (.fin false (natOf t * 10 ^ (Gen.Cast.padCount s).toNat)
          (-((Gen.Cast.padCount s).toNat : Int)))) := by
  have h1 : (!t.isEmpty && allDigits t) = true := by
    cases t with
    | nil => exact absurd rfl hne
    | cons a r => simp [(allDigits_iff _).mpr ht]
  simp only [created, padText, h1, if_true]
  generalize (Gen.Cast.padCount s).toNat = k
  have hz : ∀ c ∈ List.replicate k '0', c.isDigit = true := by
    intro c hc; rw [List.mem_replicate] at hc; rw [hc.2]; decide
  have hws : ∀ c ∈ t ++ '.' :: List.replicate k '0', isWsD c = false := by
    intro c hc
    rcases List.mem_append.mp hc with h | h
    · exact isWsD_of_isDigit (ht c h)
    · rcases List.mem_cons.mp h with rfl | h
      · decide
      · exact isWsD_of_isDigit (hz c h)
  have := decOfText_shape false t (List.replicate k '0') true none ht hz hne (by simp)
  simp only [Bool.false_eq_true, if_false, if_true, List.nil_append, expText, List.append_nil, expVal,
    List.length_replicate, natOf_pad] at this
  simp only [stripD_id _ hws, this, Option.map_some]
  congr 3
  omega

/-! ### rounding half to even -/

/-- `roundQuot c k` is a nearest multiple of `10^k` to `c`, and on a tie the even one. -/
theorem roundQuot_spec (c k : Nat) :
    2 * (roundQuot c k * 10 ^ k) ≤ 2 * c + 10 ^ k ∧ 2 * c ≤ 2 * (roundQuot c k * 10 ^ k) + 10 ^ k ∧
    ((2 * (roundQuot c k * 10 ^ k) = 2 * c + 10 ^ k ∨ 2 * c = 2 * (roundQuot c k * 10 ^ k) + 10 ^ k) →
      roundQuot c k % 2 = 0) ∧
    (roundQuot c k = c / 10 ^ k ∨ roundQuot c k = c / 10 ^ k + 1) := by
  have hT : 0 < 10 ^ k := Nat.pow_pos (by decide)
  have hdm := Nat.div_add_mod c (10 ^ k)
  have hr := Nat.mod_lt c hT
  unfold roundQuot
  simp only []
  generalize 10 ^ k = T at *
  generalize hq : c / T = q at *
  generalize hrr : c % T = r at *
  have hX : (q + 1) * T = T * q + T := by rw [Nat.add_mul, Nat.one_mul, Nat.mul_comm]
  have hX0 : q * T = T * q := Nat.mul_comm _ _
  generalize T * q = X at *
  by_cases hc : 2 * r > T ∨ (2 * r = T ∧ q % 2 = 1)
  · rw [if_pos hc, hX]
    refine ⟨by omega, by omega, ?_, Or.inr rfl⟩
    intro h
    rcases hc with h1 | ⟨h1, h2⟩ <;> omega
  · rw [if_neg hc, hX0]
    refine ⟨by omega, by omega, ?_, Or.inl rfl⟩
    intro h
    omega

theorem numDigits_le_iff (n p : Nat) (hp : 0 < p) : numDigits n ≤ p ↔ n < 10 ^ p :=
  Nat.length_toDigits_le_iff (by decide) hp

/-- `create_decimal`'s rounding: unchanged when the coefficient has at most `p` digits; otherwise the
coefficient is the half-even quotient by `10^k` (`k` = surplus digits), renormalised by one digit
when it carries to `10^p`; the result has at most `p` digits and denotes `roundQuot c k · 10^(e+k)`. -/
theorem roundTo_spec (p : Nat) (hp : 0 < p) (neg : Bool) (c : Nat) (e : Int) :
    (numDigits c ≤ p → roundTo p (.fin neg c e) = .fin neg c e) ∧
    (p < numDigits c →
      ∃ c' j, roundTo p (.fin neg c e) = .fin neg c' (e + (numDigits c - p : Nat) + (j : Nat)) ∧
        c' * 10 ^ j = roundQuot c (numDigits c - p) ∧ numDigits c' ≤ p) := by
  refine ⟨roundTo_id p neg c e, ?_⟩
  intro h
  obtain ⟨_, _, _, hq⟩ := roundQuot_spec c (numDigits c - p)
  have hk : 0 < numDigits c - p := by omega
  have hcl : c < 10 ^ (numDigits c) := (numDigits_le_iff c _ (by omega)).mp (Nat.le_refl _)
  generalize hkk : numDigits c - p = k at *
  have hcl' : c < 10 ^ p * 10 ^ k := by
    rw [← Nat.pow_add]; have : p + k = numDigits c := by omega
    rw [this]; exact hcl
  have hqlt : c / 10 ^ k < 10 ^ p := (Nat.div_lt_iff_lt_mul (Nat.pow_pos (by decide))).mpr hcl'
  have hle : roundQuot c k ≤ 10 ^ p := by rcases hq with h | h <;> omega
  have hnle : ¬ numDigits c ≤ p := by omega
  simp only [roundTo, hnle, if_false, hkk]
  by_cases hd : numDigits (roundQuot c k) > p
  · rw [if_pos hd]
    have hge : 10 ^ p ≤ roundQuot c k := by
      have h1 : ¬ numDigits (roundQuot c k) ≤ p := by omega
      have h2 : ¬ roundQuot c k < 10 ^ p := fun hlt => h1 ((numDigits_le_iff (roundQuot c k) p hp).mpr hlt)
      omega
    have heq : roundQuot c k = 10 ^ p := by omega
    obtain ⟨p', rfl⟩ : ∃ p', p = p' + 1 := ⟨p - 1, by omega⟩
    refine ⟨roundQuot c k / 10, 1, by simp [Int.add_assoc], ?_, ?_⟩
    · rw [heq, Nat.pow_succ, Nat.mul_div_cancel _ (by decide)]
    · rw [heq, Nat.pow_succ, Nat.mul_div_cancel _ (by decide)]
      rw [numDigits_le_iff _ _ (by omega), Nat.pow_succ]
      have : 0 < 10 ^ p' := Nat.pow_pos (by decide)
      omega
  · rw [if_neg hd]
    exact ⟨roundQuot c k, 0, by simp, by simp, by omega⟩

/-! ### quantisation and the `InvalidOperation` fallback -/

/-- The quantised coefficient: exact scaling when the exponent is not below the target, half-even
rounding of the dropped digits otherwise. -/
theorem rescale_spec (c : Nat) (e target : Int) :
    (target ≤ e → rescale c e target = c * 10 ^ (e - target).toNat) ∧
    (e < target → rescale c e target = roundQuot c (target - e).toNat) := by
  unfold rescale
  constructor
  · intro h; rw [if_pos h]
  · intro h; rw [if_neg (by omega)]

/-- What the factory returns for a value that is already a decimal (`T` = generated quantisation
exponent): the rounded value rescaled to `T` when that fits the precision, else — the
`InvalidOperation` fallback — the rounded, unquantised value; infinities fall back, NaN stays NaN. -/
theorem factory_spec (F : FactoryFacts) (p s : Nat) (hp : 1 ≤ p) (d : Dec) :
    factory p s (.inr d) = .ok (.dec (
      match roundTo p d with
      | .fin neg c e =>
        if numDigits (rescale c e (Gen.Cast.quantExp (Gen.Cast.quantScale s))) ≤ p
        then .fin neg (rescale c e (Gen.Cast.quantExp (Gen.Cast.quantScale s))) (Gen.Cast.quantExp (Gen.Cast.quantScale s))
        else .fin neg c e
      | .inf n => .inf n
      | .nan => .nan)) := by
  unfold factory
  rw [F.prec p, if_neg (by omega)]
  simp only [created, Int.toNat_natCast]
  cases hr : roundTo p d with
  | nan => simp [quantize]
  | inf n => simp [quantize]
  | fin neg c e =>
    simp only [quantize]
    by_cases h : numDigits (rescale c e (Gen.Cast.quantExp (Gen.Cast.quantScale s))) ≤ p
    · rw [if_neg (by omega), if_pos h]
    · rw [if_pos (by omega), if_neg h]


/-! ### the canonical rendering contains no white space -/

theorem isWsD_renderFin (neg : Bool) (ds : List Char) (e : Int) (hds : ∀ c ∈ ds, c.isDigit = true) :
    ∀ c ∈ renderFin neg ds e, isWsD c = false := by
  have hdig : ∀ c : Char, c.isDigit = true → isWsD c = false := fun c h => isWsD_of_isDigit h
  have hrep : ∀ k, ∀ c ∈ List.replicate k '0', isWsD c = false := by
    intro k c hc; rw [List.mem_replicate] at hc; rw [hc.2]; decide
  intro c hc
  unfold renderFin at hc
  rcases List.mem_append.mp hc with hc | hc
  · rcases List.mem_append.mp hc with hc | hc
    · cases neg
      · simp at hc
      · simp at hc; subst hc; decide
    · unfold renderBody at hc
      split at hc
      · rcases List.mem_cons.mp hc with rfl | hc
        · decide
        · rcases List.mem_cons.mp hc with rfl | hc
          · decide
          · rcases List.mem_append.mp hc with hc | hc
            · exact hrep _ c hc
            · exact hdig c (hds c hc)
      · split at hc
        · rcases List.mem_append.mp hc with hc | hc
          · exact hdig c (hds c hc)
          · exact hrep _ c hc
        · rcases List.mem_append.mp hc with hc | hc
          · exact hdig c (hds c (List.mem_of_mem_take hc))
          · rcases List.mem_cons.mp hc with rfl | hc
            · decide
            · exact hdig c (hds c (List.mem_of_mem_drop hc))
  · unfold renderExp at hc
    split at hc
    · simp at hc
    · rcases List.mem_cons.mp hc with rfl | hc
      · decide
      · rcases List.mem_cons.mp hc with rfl | hc
        · split <;> decide
        · exact hdig c (toDigits_isDigit _ c hc)

theorem stripD_renderDec (d : Dec) : stripD (renderDec d) = renderDec d := by
  match d with
  | .nan => decide
  | .inf true => decide
  | .inf false => decide
  | .fin neg c e => exact stripD_id _ (isWsD_renderFin neg _ e (toDigits_isDigit c))

theorem numDigits_mono {a b p : Nat} (hp : 0 < p) (hab : a ≤ b) (hb : numDigits b ≤ p) : numDigits a ≤ p := by
  rw [numDigits_le_iff _ _ hp] at hb ⊢
  omega

end Cast
