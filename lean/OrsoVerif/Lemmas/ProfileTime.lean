import OrsoVerif.Lemmas.IsoEpochTotal
import OrsoVerif.Model.ProfileTime
/-! Helper lemmas for C15: the conversion of temporal cells to epoch seconds (`Model/ProfileTime.lean`). -/
namespace Profile

theorem wrap64_id (x : Int) (h1 : -9223372036854775808 ≤ x) (h2 : x ≤ 9223372036854775807) : wrap64 x = x := by
  unfold wrap64; omega

/-- Every valid date-time of year 1..9999 lies between the first and the last representable second
(exact calendar arithmetic: `fromtimestamp` inverts `toEpoch`, and fails outside that range). -/
theorem toEpoch_range (dt : Iso.DateTime) (h : Iso.validDateTime dt = true) :
    -62135596800 ≤ Iso.toEpoch dt ∧ Iso.toEpoch dt ≤ 253402300799 := by
  have inv := Iso.fromTimestamp_toEpoch dt h
  have spec := (Iso.fromTimestamp_spec (Iso.toEpoch dt)).2
  simp only [Iso.minEpoch, Iso.maxEpoch] at spec
  refine Classical.byContradiction fun hc => ?_
  obtain ⟨e, he⟩ := spec (by omega)
  rw [inv] at he
  cases he

/-- The seconds of a calendar cell are CPython's ordinal arithmetic, shifted by the UTC offset; the
microseconds are floored away. -/
theorem civil_trueSeconds (dt : Iso.DateTime) (off : Int) (h : Iso.validDateTime dt = true) :
    (DateCell.civil dt off).trueSeconds = Iso.toEpoch dt - 60 * off := by
  have hm := (Iso.valid_bounds h).2.2.2.2.2.2.2.2.2
  simp only [DateCell.trueSeconds, DateCell.instant]
  omega

/-- The instant of a covered cell lies within a day of year 1..9999. -/
theorem inRange_instant (c : DateCell) (h : c.inRange) : instantLo ≤ c.instant ∧ c.instant < instantHi := by
  unfold instantLo instantHi
  cases c with
  | civil dt off =>
    obtain ⟨hv, h1, h2⟩ := h
    have hr := toEpoch_range dt hv
    have hm := (Iso.valid_bounds hv).2.2.2.2.2.2.2.2.2
    simp only [DateCell.instant]
    omega
  | ticks u n => simp only [DateCell.inRange] at h; simp only [DateCell.instant]; omega
  | stamp u n => simp only [DateCell.inRange] at h; simp only [DateCell.instant]; omega

theorem inRange_seconds (c : DateCell) (h : c.inRange) :
    -62135596800 - 86400 ≤ c.trueSeconds ∧ c.trueSeconds < 253402300799 + 86400 := by
  have := inRange_instant c h
  unfold instantLo instantHi at this
  unfold DateCell.trueSeconds
  omega

/-- `.value` is the instant when it exists, and then the instant fits 64 bits. -/
theorem value_ok (c : DateCell) (v : Int) (h : c.value = .ok v) :
    v = c.instant ∧ -9223372036854775808 ≤ v ∧ v ≤ 9223372036854775807 := by
  cases c with
  | civil dt off => simp [DateCell.value] at h
  | ticks u n => simp [DateCell.value] at h
  | stamp u n =>
    simp only [DateCell.value] at h
    split at h
    · rename_i hr
      cases h
      exact ⟨rfl, hr.1, hr.2⟩
    · cases h

theorem value_error (c : DateCell) (e : String) (h : c.value = .error e) :
    e = "OverflowError" ∨ e = "AttributeError" := by
  cases c with
  | civil dt off => simp [DateCell.value] at h; exact Or.inr h.symm
  | ticks u n => simp [DateCell.value] at h; exact Or.inr h.symm
  | stamp u n =>
    simp only [DateCell.value] at h
    split at h
    · cases h
    · cases h; exact Or.inl rfl

/-- The comprehension of the pandas path: it converts every cell, or ends with one of the two exceptions. -/
theorem convertValues_cases (chain : List DType)
    (hchain : ∀ v, -9223372036854775808 ≤ v → v ≤ 9223372036854775807 → runChain chain v = v / 1000000000) :
    ∀ cells : List (Option DateCell),
      (∃ e, (e = "OverflowError" ∨ e = "AttributeError") ∧ convertValues chain cells = .error e) ∨
      convertValues chain cells = .ok (cells.map (Option.map DateCell.trueSeconds)) := by
  intro cells
  induction cells with
  | nil => right; rfl
  | cons c rest ih =>
    cases c with
    | none =>
      rcases ih with ⟨e, he, h⟩ | h
      · left; exact ⟨e, he, by simp only [convertValues, h]⟩
      · right; simp only [convertValues, h, List.map_cons, Option.map_none]
    | some c =>
      cases hv : c.value with
      | error e =>
        left; exact ⟨e, value_error c e hv, by simp only [convertValues, hv]⟩
      | ok v =>
        obtain ⟨e1, e2, e3⟩ := value_ok c v hv
        rcases ih with ⟨e, he, h⟩ | h
        · left; exact ⟨e, he, by simp only [convertValues, hv, h]⟩
        · right
          simp only [convertValues, hv, h, List.map_cons, Option.map_some]
          rw [hchain v e2 e3, e1]
          rfl

theorem plainPath_spec (chain : List DType)
    (hchain : ∀ t, instantLo ≤ t → t < instantHi → runChain chain t = t / 1000000000)
    (cells : List (Option DateCell)) (h : ∀ c ∈ present cells, c.inRange) :
    plainPath chain cells = cells.map (Option.map DateCell.trueSeconds) := by
  unfold plainPath
  apply List.map_congr_left
  intro oc hoc
  cases oc with
  | none => rfl
  | some c =>
    have hc : c ∈ present cells := by
      unfold present
      exact List.mem_filterMap.mpr ⟨some c, hoc, rfl⟩
    obtain ⟨h1, h2⟩ := inRange_instant c (h c hc)
    simp only [Option.map_some, hchain c.instant h1 h2]
    rfl

/-- No covered cell converts to the null sentinel. -/
theorem sentinel_filter (sentinel : Int) (hs : sentinel < -62135596800 - 86400 ∨ 253402300799 + 86400 ≤ sentinel)
    (cells : List (Option DateCell)) (h : ∀ c ∈ present cells, c.inRange) :
    (cells.map (Option.map DateCell.trueSeconds)).map (dropSentinel sentinel)
      = cells.map (Option.map DateCell.trueSeconds) := by
  rw [List.map_map]
  apply List.map_congr_left
  intro oc hoc
  cases oc with
  | none => rfl
  | some c =>
    have hc : c ∈ present cells := by
      unfold present
      exact List.mem_filterMap.mpr ⟨some c, hoc, rfl⟩
    have := inRange_seconds c (h c hc)
    simp only [Function.comp, Option.map_some, dropSentinel]
    rw [if_neg (by omega)]

/-- **`DateProfiler`'s conversion is the epoch seconds of every covered cell**, for any pair of chains that
are right on the instants they are used on, as long as both exceptions of `.value` lead to the general path
and the sentinel is not a reachable second. -/
theorem dateSecondsWith_spec (plain pandas : List DType) (caught : List String) (sentinel : Int)
    (hplain : ∀ t, instantLo ≤ t → t < instantHi → runChain plain t = t / 1000000000)
    (hpandas : ∀ v, -9223372036854775808 ≤ v → v ≤ 9223372036854775807 → runChain pandas v = v / 1000000000)
    (hover : caught.contains "OverflowError" = true) (hattr : caught.contains "AttributeError" = true)
    (hs : sentinel < -62135596800 - 86400 ∨ 253402300799 + 86400 ≤ sentinel)
    (cells : List (Option DateCell)) (h : ∀ c ∈ present cells, c.inRange) :
    dateSecondsWith plain pandas caught sentinel cells = .ok (cells.map (Option.map DateCell.trueSeconds)) := by
  have hcaught : ∀ e, (e = "OverflowError" ∨ e = "AttributeError") → caught.contains e = true := by
    intro e he; rcases he with rfl | rfl <;> assumption
  have hP := plainPath_spec plain hplain cells h
  have hF := sentinel_filter sentinel hs cells h
  -- the pandas path yields nothing, the right seconds, or a caught exception
  have key : (pandasPath pandas cells = .ok none) ∨
      (pandasPath pandas cells = .ok (some (cells.map (Option.map DateCell.trueSeconds)))) ∨
      (∃ e, caught.contains e = true ∧ pandasPath pandas cells = .error e) := by
    cases cells with
    | nil => left; rfl
    | cons c0 rest =>
      cases c0 with
      | none => left; rfl
      | some c =>
        cases hv : c.value with
        | error e =>
          rcases value_error c e hv with rfl | rfl
          · right; right
            exact ⟨"OverflowError", hover, by simp [pandasPath, DateCell.hasValue, hv]⟩
          · left; simp [pandasPath, DateCell.hasValue, hv]
        | ok v =>
          rcases convertValues_cases pandas hpandas (some c :: rest) with ⟨e, he, hc⟩ | hc
          · right; right
            exact ⟨e, hcaught e he, by simp only [pandasPath, DateCell.hasValue, hv, hc]⟩
          · right; left
            simp only [pandasPath, DateCell.hasValue, hv, hc]
  unfold dateSecondsWith
  rcases key with k | k | ⟨e, he, k⟩
  · simp only [k, hP, hF]
  · simp only [k, hF]
  · simp only [k, he, if_true, hP, hF]

end Profile
