import OrsoVerif.Lemmas.DistogramState
import OrsoVerif.Lemmas.DistogramRefine
import OrsoVerif.Model.HistObj
import OrsoVerif.Lemmas.EstimatorsTop
/-! Helper lemmas for the object-level theorems of `Props/C14.lean`. -/
namespace Distogram

set_option linter.unusedSectionVars false
variable {K : Type} [Field K] [LinearOrder K] [IsStrictOrderedRing K]

/-- A fold of reference updates extends a history. -/
theorem built_mergeRef {s : RState K} {L : List (K × K)} {B : List K} (h : Built s L B) :
    ∀ (us : List (K × K)), (∀ u ∈ us, 0 < u.2) → Built (mergeRef s us) (L ++ us) (B ++ us.map (·.1))
  | [], _ => by simpa [mergeRef] using h
  | u :: us, hp => by
    have h1 : Built (updateRef s u.1 u.2) (L ++ [(u.1, u.2)]) (B ++ [u.1]) :=
      Built.update u.1 u.2 h (hp u (by simp))
    have h2 := built_mergeRef h1 us (fun x hx => hp x (by simp [hx]))
    simpa [mergeRef, List.append_assoc] using h2

/-- The first bin *is* the minimum (and an empty histogram reports none): what holds of a histogram
whose first bin was never merged. -/
def HeadMin (s : RState K) : Prop :=
  match s.bins.head? with
  | none => s.min = none
  | some b => s.min = some b.1

/-- No update of the stream `us`, started from `s`, ever exceeds the bin limit (so `_trim` never merges). -/
def fitsFrom (s : RState K) : List (K × K) → Prop
  | [] => True
  | u :: us => (insertRef u.1 u.2 s.bins).length ≤ s.cap ∧ fitsFrom (updateRef s u.1 u.2) us

theorem headMin_init (cap : Nat) : HeadMin (RState.init cap : RState K) := by
  simp [HeadMin, RState.init]

theorem updateRef_bins_of_fits (s : RState K) (v c : K) (h : (insertRef v c s.bins).length ≤ s.cap) :
    (updateRef s v c).bins = insertRef v c s.bins := by
  show trimRef s.cap _ _ = _
  exact trimRef_noop s.cap _ _ h

theorem updateRef_headMin (s : RState K) (v c : K) (hm : HeadMin s)
    (h : (insertRef v c s.bins).length ≤ s.cap) : HeadMin (updateRef s v c) := by
  unfold HeadMin at hm ⊢
  rw [updateRef_bins_of_fits s v c h, updateRef_min]
  cases hb : s.bins with
  | nil =>
    rw [hb] at hm
    simp only [List.head?_nil] at hm
    simp [insertRef, hm, minO]
  | cons b rest =>
    obtain ⟨w, f⟩ := b
    rw [hb] at hm
    simp only [List.head?_cons] at hm
    rw [hm]
    simp only [insertRef, minO]
    by_cases h1 : v < w
    · simp [h1]
    · by_cases h2 : w < v
      · simp [h1, h2]
      · simp [h1, h2]

theorem mergeRef_headMin : ∀ (us : List (K × K)) (s : RState K), HeadMin s → fitsFrom s us → HeadMin (mergeRef s us)
  | [], s, hm, _ => by simpa [mergeRef] using hm
  | u :: us, s, hm, hf => by
    rw [mergeRef_cons]
    exact mergeRef_headMin us _ (updateRef_headMin s u.1 u.2 hm hf.1) hf.2

/-- A stream that is no longer than the room left in the histogram never exceeds the bin limit. -/
theorem fitsFrom_of_length : ∀ (us : List (K × K)) (s : RState K), s.bins.length + us.length ≤ s.cap → fitsFrom s us
  | [], _, _ => trivial
  | u :: us, s, h => by
    have h1 := insertRef_length_le u.1 u.2 s.bins
    simp only [List.length_cons] at h
    have hfit : (insertRef u.1 u.2 s.bins).length ≤ s.cap := by omega
    refine ⟨hfit, fitsFrom_of_length us _ ?_⟩
    rw [updateRef_bins_of_fits s u.1 u.2 hfit, updateRef_cap]
    omega

theorem headMin_leftTailOK {s : RState K} (hm : HeadMin s) {lo : K} (hlo : s.min = some lo) :
    LeftTailOK s.bins lo := by
  intro v0 f0 hh
  unfold HeadMin at hm
  rw [hh] at hm
  simp only at hm
  rw [hlo] at hm
  exact Or.inl (Option.some.inj hm)

set_option linter.unusedSimpArgs false in
/-- Writing back the state an object already holds changes what no register answers. -/
theorem ObjHeap.get_put_same (s : ObjHeap K) (r o : Nat) (h : Hist K) (hg : s.get r = some (o, h)) (r' : Nat) :
    (s.put o h).get r' = s.get r' := by
  unfold ObjHeap.get ObjHeap.put at *
  simp only
  cases hr : s.regs.find? (·.1 == r) with
  | none => simp [hr] at hg
  | some p =>
    obtain ⟨_, o0⟩ := p
    simp only [hr, Option.map_eq_some_iff] at hg
    obtain ⟨q, hq, hq2⟩ := hg
    have hqo : q.1 = o0 := by simpa using List.find?_some hq
    obtain ⟨rfl, rfl⟩ : o0 = o ∧ q.2 = h := by simpa using hq2
    cases hr' : s.regs.find? (·.1 == r') with
    | none => rfl
    | some p' =>
      obtain ⟨_, o'⟩ := p'
      simp only
      by_cases ho : o' = o0
      · subst ho
        simp [hq, hqo]
      · have hf : (fun a : Nat × Hist K => !decide (a.1 = o0) && decide (a.1 = o')) = (fun x => x.1 == o') := by
          funext a
          by_cases ha : a.1 = o'
          · simp [ha, ho]
          · simp [ha]
        simp [List.find?_filter, Ne.symm ho, hf]

end Distogram
