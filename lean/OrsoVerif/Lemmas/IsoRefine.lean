import OrsoVerif.Lemmas.IsoDigits
import OrsoVerif.Model.Iso
/-! Helper lemmas for C08: the Python text primitives of the generated string branch
(`Gen.IsoText`) in terms of the primitives of the hand skeleton. Nothing here unfolds anything
generated. -/
namespace Iso

theorem pyIdx_nonneg (v : List Char) (i : Int) (h : 0 ≤ i) : pyIdx v i = idx v i.toNat := by
  unfold pyIdx; rw [if_neg (by omega)]

/-- `v[-1]` is the last character (`IndexError` on the empty text). -/
theorem pyIdx_neg_one (v : List Char) :
    pyIdx v (-1) = match v.getLast? with | some c => .ok c | none => .error .indexError := by
  unfold pyIdx
  rw [if_pos (by omega), List.getLast?_eq_getElem?]
  cases v with
  | nil => simp
  | cons a l =>
    have e : (-1 + ((a :: l).length : Int)).toNat = (a :: l).length - 1 := by simp; omega
    rw [if_neg (by simp; omega), e]
    unfold idx
    cases (a :: l)[(a :: l).length - 1]? <;> rfl

theorem pySlice_bounds (v : List Char) (a b : Int) (ha : 0 ≤ a) (hb : 0 ≤ b) :
    pySlice v (some a) (some b) = slice v (a.toNat, b.toNat) := by
  simp only [pySlice, pyBound]; rw [if_neg (by omega), if_neg (by omega)]

theorem pySlice_upto (v : List Char) (b : Int) (hb : 0 ≤ b) :
    pySlice v none (some b) = slice v (0, b.toNat) := by
  simp only [pySlice, pyBound]; rw [if_neg (by omega)]

/-- `v[:-1]` drops the last character. -/
theorem pySlice_dropLast (v : List Char) : pySlice v none (some (-1)) = v.dropLast := by
  simp only [pySlice, pyBound, slice]
  rw [if_pos (by omega)]
  have : (-1 + (v.length : Int)).toNat = v.length - 1 := by omega
  rw [this, List.dropLast_eq_take]
  simp

theorem intsOf_slices (v : List Char) : ∀ sl : List (Nat × Nat), intsOf (sl.map (slice v)) = ints v sl
  | [] => rfl
  | ab :: r => by simp only [List.map_cons, intsOf, ints, intsOf_slices v r]

/-- `datetime(*map(int, [v[a:b], …]))` written with slices of one text is `fields`. -/
theorem datetimeOfStrs_slices (v : List Char) (sl : List (Nat × Nat)) :
    datetimeOfStrs (sl.map (slice v)) = fields v sl := by
  unfold datetimeOfStrs fields; rw [intsOf_slices]

theorem pyOr_idx (v : List Char) (a : Nat) (p : Char → Bool) (y : Except Exc Bool) :
    pyOr ((idx v a).bind fun t => .ok (p t)) y = (idx v a).bind fun t => shortCircuit false (p t) y := by
  cases idx v a <;> rfl

theorem pyAnd_idx (v : List Char) (a : Nat) (p : Char → Bool) (y : Except Exc Bool) :
    pyAnd ((idx v a).bind fun t => .ok (p t)) y = (idx v a).bind fun t => shortCircuit true (p t) y := by
  cases idx v a <;> rfl

theorem pyAnd_ok (a : Bool) (y : Except Exc Bool) : pyAnd (.ok a) y = shortCircuit true a y := by
  cases a <;> rfl

theorem pyOr_ok (a : Bool) (y : Except Exc Bool) : pyOr (.ok a) y = shortCircuit false a y := by
  cases a <;> rfl

end Iso
