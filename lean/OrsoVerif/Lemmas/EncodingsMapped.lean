import OrsoVerif.Model.Encodings
import OrsoVerif.Lemmas.Encodings
/-! Lemma for C09: the scatter of a scan whose stored values went through a function `g` before
the scatter, over an array filled with any value `dd` (the default as it is in the result dtype). -/
namespace Enc

variable {α β : Type}

/-- The scatter of a mapped scan: positions the scan stored hold `g x`; positions it dropped hold
the fill value `dd`, which is `g x` there by `h`. -/
theorem scatter_scan_to (ne : α → α → Bool) (d : α) (g : α → β) (dd : β) (xs : List α)
    (h : ∀ x ∈ xs, ne x d = false → g x = dd) (pre : List β) :
    scatter (pre ++ List.replicate xs.length dd)
      ((sparseScan ne d pre.length xs).map fun p => (p.1, g p.2)) = some (pre ++ xs.map g) := by
  induction xs generalizing pre with
  | nil => simp [sparseScan, scatter]
  | cons x t ih =>
    have ht : ∀ y ∈ t, ne y d = false → g y = dd := fun y hy => h y (by simp [hy])
    have key := ih ht (pre ++ [g x])
    simp only [List.length_append, List.length_cons, List.length_nil, Nat.zero_add,
      List.append_assoc, List.singleton_append] at key
    unfold sparseScan
    split
    · simp only [List.map_cons, scatter, List.length_append, List.length_cons,
        List.length_replicate]
      have hlt : pre.length < pre.length + (t.length + 1) := by omega
      simp only [hlt, if_true]
      have hset : (pre ++ List.replicate (t.length + 1) dd).set pre.length (g x)
          = pre ++ g x :: List.replicate t.length dd := by
        rw [List.set_append_right _ _ (Nat.le_refl _)]
        simp [List.replicate_succ]
      rw [hset, key]
    · rename_i hx
      have hx' : ne x d = false := by simpa using hx
      have hc := h x (by simp) hx'
      simp only [List.length_cons, List.replicate_succ, List.map_cons]
      rw [hc] at key ⊢
      exact key

end Enc
