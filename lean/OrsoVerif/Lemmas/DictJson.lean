import OrsoVerif.Model.DictJson
import OrsoVerif.Lemmas.CastJson
/-! `readObj (renderObj members) = members`: the object reader of `Model/DictJson.lean` inverts its writer
(helper lemmas for C02's theorem about the text of `as_json`). -/
set_option linter.unusedSimpArgs false
namespace DictJson
open Cast.Json

theorem stop_cons (c : Char) (r : List Char) (hc : isNumChar c = false) : Stop (c :: r) := by
  intro d hd
  simp only [List.head?_cons, Option.some.injEq] at hd
  subst hd; exact hc

theorem renderMember_append (rep : UInt64 → List Char) (p : List Char × J) (rest : List Char) :
    renderMember rep p ++ rest = '"' :: (escBody p.1 ++ '"' :: (':' :: (render Ws.compact rep p.2 ++ rest))) := by
  simp [renderMember, renderStr]

/-- One member followed by anything that cannot continue a number. -/
theorem readMember_render (fot : List Char → Option UInt64) (rep : UInt64 → List Char) (p : List Char × J)
    (rest : List Char) (hw : Wf fot rep p.2) (hs : Stop rest) :
    readMember fot (renderMember rep p ++ rest) = .ok (p, rest) := by
  obtain ⟨k, v⟩ := p
  simp only at hw
  obtain ⟨c, r, hx, hc1, _⟩ := render_head fot rep Ws.compact v hw
  have hfuel : k.length < (escBody k ++ '"' :: (':' :: (render Ws.compact rep v ++ rest))).length + 1 := by
    have := length_escBody k
    simp only [List.length_append, List.length_cons]; omega
  have hstr := readStr_escBody k _ (':' :: (render Ws.compact rep v ++ rest)) hfuel
  have hsk : skipWs (render Ws.compact rep v ++ rest) = render Ws.compact rep v ++ rest := by
    rw [hx, List.cons_append]; exact skipWs_cons c _ hc1
  have hd : depth v ≤ (render Ws.compact rep v ++ rest).length := by
    have := depth_le_length rep Ws.compact v
    simp only [List.length_append]; omega
  have hval := readValue_render fot rep Ws.compact ⟨by simp [Ws.compact], by simp [Ws.compact], by simp [Ws.compact]⟩
    v _ rest hw hd hs
  have hcolon : skipWs (':' :: (render Ws.compact rep v ++ rest)) = ':' :: (render Ws.compact rep v ++ rest) :=
    skipWs_cons ':' _ (by decide)
  rw [renderMember_append]
  simp only [readMember, if_true, hstr, hcolon, hsk, hval]

theorem renderRest_head (rep : UInt64 → List Char) (ps : List (List Char × J)) :
    ∃ c r, renderRest rep ps = c :: r ∧ (c = '}' ∨ c = ',') := by
  cases ps with
  | nil => exact ⟨'}', [], rfl, Or.inl rfl⟩
  | cons p ps => exact ⟨',', _, rfl, Or.inr rfl⟩

theorem stop_renderRest (rep : UInt64 → List Char) (ps : List (List Char × J)) (rest : List Char) :
    Stop (renderRest rep ps ++ rest) := by
  obtain ⟨c, r, h, hc⟩ := renderRest_head rep ps
  rw [h, List.cons_append]
  apply stop_cons
  rcases hc with rfl | rfl <;> decide

def WfM (fot : List Char → Option UInt64) (rep : UInt64 → List Char) (ps : List (List Char × J)) : Prop :=
  ∀ p ∈ ps, Wf fot rep p.2

/-- The members after the first one. -/
theorem readMembers_render (fot : List Char → Option UInt64) (rep : UInt64 → List Char) :
    ∀ (ps : List (List Char × J)) (p : List Char × J) (fuel : Nat) (rest : List Char),
      Wf fot rep p.2 → WfM fot rep ps → ps.length < fuel →
      readMembers fot fuel (renderMember rep p ++ (renderRest rep ps ++ rest)) = .ok (p :: ps, rest) := by
  intro ps
  induction ps with
  | nil =>
    intro p fuel rest hp _ hf
    obtain ⟨f, rfl⟩ : ∃ f, fuel = f + 1 := ⟨fuel - 1, by simp at hf; omega⟩
    have hm := readMember_render fot rep p (renderRest rep [] ++ rest) hp (stop_renderRest rep [] rest)
    simp only [readMembers, hm]
    simp only [renderRest, List.cons_append, List.nil_append]
    rw [skipWs_cons '}' _ (by decide)]
    simp
  | cons q qs ih =>
    intro p fuel rest hp hps hf
    obtain ⟨f, rfl⟩ : ∃ f, fuel = f + 1 := ⟨fuel - 1, by simp at hf; omega⟩
    have hm := readMember_render fot rep p (renderRest rep (q :: qs) ++ rest) hp (stop_renderRest rep (q :: qs) rest)
    have hq : Wf fot rep q.2 := hps q (List.mem_cons_self ..)
    have hqs : WfM fot rep qs := fun x hx => hps x (List.mem_cons_of_mem _ hx)
    have hrec := ih q f rest hq hqs (by simp at hf; omega)
    have hsk : skipWs (renderMember rep q ++ (renderRest rep qs ++ rest)) = renderMember rep q ++ (renderRest rep qs ++ rest) := by
      rw [renderMember_append]; exact skipWs_cons '"' _ (by decide)
    simp only [readMembers, hm]
    simp only [renderRest, List.cons_append, List.append_assoc]
    rw [skipWs_cons ',' _ (by decide)]
    simp only [show (',' : Char) ≠ '}' by decide, if_false, if_true, hsk, hrec]

/-- **The object reader inverts the object writer.** -/
theorem readObj_renderObj (fot : List Char → Option UInt64) (rep : UInt64 → List Char) (ps : List (List Char × J))
    (hw : WfM fot rep ps) : readObj fot (renderObj rep ps) = .ok ps := by
  cases ps with
  | nil => simp [readObj, renderObj, skipWs, isWs]
  | cons p ps =>
    have hp : Wf fot rep p.2 := hw p (List.mem_cons_self ..)
    have hps : WfM fot rep ps := fun x hx => hw x (List.mem_cons_of_mem _ hx)
    have hsk : skipWs (renderMember rep p ++ renderRest rep ps) = renderMember rep p ++ renderRest rep ps := by
      rw [renderMember_append]; exact skipWs_cons '"' _ (by decide)
    have hlen : ∀ qs : List (List Char × J), qs.length < (renderRest rep qs).length := by
      intro qs
      induction qs with
      | nil => simp [renderRest]
      | cons q qs ih => simp only [renderRest, List.length_cons, List.length_append]; omega
    have hrec := readMembers_render fot rep ps p ((renderMember rep p ++ renderRest rep ps).length + 1) [] hp hps (by
      have := hlen ps
      simp only [List.length_append]; omega)
    simp only [List.append_nil] at hrec
    have hhead : (renderMember rep p ++ renderRest rep ps).head? ≠ some '}' := by
      rw [renderMember_append]; simp
    simp only [readObj, renderObj]
    rw [skipWs_cons '{' _ (by decide)]
    simp only [if_true, hsk, hhead, if_false, hrec]
    simp [skipWs]

end DictJson
