import OrsoVerif.Model.DictViews
/-! Helper lemmas for the view-object theorems of C02 (not property theorems). -/
namespace C02
open DictRow DictViews

variable {α : Type}

theorem slotOf_mem (v : View) (c : Content α) : ∀ l : List (View × Content α), slotOf v l = some c → (v, c) ∈ l := by
  intro l
  induction l with
  | nil => intro h; simp [slotOf] at h
  | cons p rest ih =>
    obtain ⟨w, d⟩ := p
    intro h
    by_cases hw : w = v
    · simp only [slotOf, hw, if_true, Option.some.injEq] at h
      subst hw; subst h; simp
    · simp only [slotOf, hw, if_false] at h
      exact List.mem_cons_of_mem _ (ih h)

/-- reading a list of views, each of which returns the view of the row and keeps the object in order -/
theorem readDeps_good (fields : List String) (row : List α)
    (rd : View → Obj α → Option (Obj α × Content α)) :
    ∀ (ws : List View),
      (∀ w ∈ ws, ∀ o, Good fields row o → ∃ o', rd w o = some (o', spec fields row w) ∧ Good fields row o') →
      ∀ (o : Obj α) (e : Env α), Good fields row o →
        ∃ o', readDeps rd ws (o, e) = some (o', envOf fields row ws e) ∧ Good fields row o' := by
  intro ws
  induction ws with
  | nil => intro _ o e hg; exact ⟨o, rfl, hg⟩
  | cons w ws ih =>
    intro h o e hg
    obtain ⟨o1, h1, g1⟩ := h w (by simp) o hg
    obtain ⟨o2, h2, g2⟩ := ih (fun w' hw' => h w' (by simp [hw'])) o1 (e.set w (spec fields row w)) g1
    exact ⟨o2, by simp only [readDeps, h1, envOf]; exact h2, g2⟩

/-- a read on an object in order returns the view of the row and leaves the object in order -/
theorem readView_good (cfg : Cfg α) (fields : List String) (row : List α) (hs : Safe cfg fields row) :
    ∀ (n : Nat) (v : View) (o : Obj α), Good fields row o → cfg.rank v < n →
      ∃ o', readView cfg n v o = some (o', spec fields row v) ∧ Good fields row o' := by
  intro n
  induction n with
  | zero => intro v o _ h; omega
  | succ n ih =>
    intro v o hg hr
    unfold readView
    cases hc : (if cfg.cached v then slotOf v o.slots else none) with
    | some c =>
      have hm : slotOf v o.slots = some c := by
        by_cases hcv : cfg.cached v = true
        · simpa [hcv] using hc
        · simp [hcv] at hc
      have := hg.2.2 _ (slotOf_mem v c _ hm)
      simp only at this
      exact ⟨o, by simp [this], hg⟩
    | none =>
      obtain ⟨o', h1, g1⟩ := readDeps_good fields row (readView cfg n) (cfg.deps v)
        (fun w hw o2 g2 => ih w o2 g2 (by have := hs.acyclic v w hw; omega)) o {} hg
      have hb : cfg.body o'.fields o'.row (envOf fields row (cfg.deps v) {}) v = spec fields row v := by
        rw [g1.1, g1.2.1]; exact hs.bodySpec v
      simp only [h1, hb]
      by_cases hcv : cfg.cached v = true
      · refine ⟨{ o' with slots := (v, spec fields row v) :: o'.slots }, by simp [hcv], g1.1, g1.2.1, ?_⟩
        intro p hp
        simp only [List.mem_cons] at hp
        rcases hp with hp | hp
        · subst hp; rfl
        · exact g1.2.2 p hp
      · exact ⟨o', by simp [hcv], g1⟩

/-- under `Safe` nothing a caller does to an object it was handed reaches the row -/
theorem change_id (cfg : Cfg α) (fields : List String) (row : List α) (hs : Safe cfg fields row)
    (o : Obj α) (v : View) (f : Content α → Content α) : change cfg o v f = o := by
  have h1 : (cfg.cached v && cfg.mutable v) = false := by
    cases hc : cfg.cached v with
    | false => rfl
    | true => simp [hs.noAlias v hc]
  have h2 : (cfg.aliasesFields v && cfg.fieldsMutable) = false := by
    cases hc : cfg.aliasesFields v with
    | false => rfl
    | true => simp [hs.fieldsFixed v hc]
  simp [change, h1, h2]

/-- every read of every sequence of caller actions returns the view of the row -/
theorem run_spec (cfg : Cfg α) (fields : List String) (row : List α) (hs : Safe cfg fields row) :
    ∀ (acts : List (Act α)) (o : Obj α), Good fields row o →
      ∀ p ∈ runActs cfg o acts, p.2 = some (spec fields row p.1) := by
  intro acts
  induction acts with
  | nil => intro o _ p hp; simp [runActs] at hp
  | cons a rest ih =>
    intro o hg p hp
    cases a with
    | read v =>
      obtain ⟨o', h1, g1⟩ := readView_good cfg fields row hs fuel v o hg (hs.bounded v)
      simp only [runActs, h1, List.mem_cons] at hp
      rcases hp with hp | hp
      · subst hp; rfl
      · exact ih o' g1 p hp
    | change v f =>
      simp only [runActs, change_id cfg fields row hs] at hp
      exact ih o hg p hp

end C02
