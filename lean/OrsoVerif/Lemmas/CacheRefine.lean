import OrsoVerif.Lemmas.CacheSeq
/-! C19: the statement-level LRU machine equals the declarative specification. -/
namespace Cache
set_option linter.unusedSectionVars false
set_option linter.unusedSimpArgs false
variable {K : Type} [DecidableEq K]

/-- keys are unique: two stored entries with equal keys are the same entry -/
def KeyInj (c : List (LEntry K)) : Prop := ∀ e ∈ c, ∀ e' ∈ c, e.key = e'.key → e = e'

/-- state invariant of the LRU cache: unique keys, at most `maxSize` entries -/
def LruInv (maxSize : Nat) (s : LState K) : Prop := KeyInj s.cache ∧ s.cache.length ≤ maxSize

theorem KeyInj.sublist {c c' : List (LEntry K)} (h : KeyInj c) (hs : ∀ e ∈ c', e ∈ c) : KeyInj c' :=
  fun e he e' he' hk => h e (hs e he) e' (hs e' he') hk

/-- Under unique keys the loop `for k in expired_keys: del cache[k]` keeps exactly the unexpired entries. -/
theorem sweep_eq_filter (valid : Option Int) (now : Int) (c : List (LEntry K)) (h : KeyInj c) :
    sweep valid now c = c.filter (fun e => fresh valid now e.time) := by
  unfold sweep
  rw [foldl_delKey]
  apply List.filter_congr
  intro e he
  cases hf : fresh valid now e.time with
  | true =>
    simp only [decide_eq_true_eq]
    intro hmem
    simp only [expiredKeys, List.mem_map, List.mem_filter] at hmem
    obtain ⟨e', ⟨he', hf'⟩, hk⟩ := hmem
    have := h e' he' e he hk
    subst this
    simp [hf] at hf'
  | false =>
    simp only [decide_eq_false_iff_not]
    intro hn
    apply hn
    simp only [expiredKeys, List.mem_map, List.mem_filter]
    exact ⟨e, ⟨he, by simp [hf]⟩, rfl⟩

theorem length_filter_lt {α : Type} (p : α → Bool) : ∀ (l : List α) (x : α), x ∈ l → p x = false →
    (l.filter p).length < l.length := by
  intro l
  induction l with
  | nil => intro x hx; cases hx
  | cons a l ih =>
    intro x hx hp
    rcases List.mem_cons.mp hx with h | h
    · subst h
      have := List.length_filter_le p l
      simp only [List.filter_cons, hp, Bool.false_eq_true, if_false, List.length_cons]; omega
    · have := ih x h hp
      rw [List.filter_cons]
      split
      · simp only [List.length_cons]; omega
      · simp only [List.length_cons]; omega

theorem lruCall_eq_spec (maxSize : Nat) (valid : Option Int) (cost : K → Int) (s : LState K) (k : K)
    (hinv : LruInv maxSize s) : lruCall maxSize valid cost s k = specCall maxSize valid cost s k := by
  unfold lruCall specCall
  simp only [sweep_eq_filter valid s.now s.cache hinv.1]
  cases hfind : (s.cache.filter (fun e => fresh valid s.now e.time)).find? (fun e => decide (e.key = k)) with
  | some e => simp [delKey]
  | none =>
    simp only
    have hlen : (s.cache.filter (fun e => fresh valid s.now e.time)).length ≤ maxSize :=
      Nat.le_trans (List.length_filter_le _ _) hinv.2
    congr 2
    split
    · rename_i hgt
      simp only [List.length_append, List.length_singleton] at hgt ⊢
      have : (s.cache.filter (fun e => fresh valid s.now e.time)).length + 1 - maxSize = 1 := by omega
      rw [this]; simp
    · rename_i hgt
      simp only [List.length_append, List.length_singleton] at hgt ⊢
      have : (s.cache.filter (fun e => fresh valid s.now e.time)).length + 1 - maxSize = 0 := by omega
      rw [this]; simp

theorem specCall_inv (maxSize : Nat) (valid : Option Int) (cost : K → Int) (s : LState K) (k : K)
    (hinv : LruInv maxSize s) : LruInv maxSize (specCall maxSize valid cost s k).1 := by
  have hheld : KeyInj (s.cache.filter (fun e => fresh valid s.now e.time)) :=
    hinv.1.sublist (fun e he => (List.mem_filter.mp he).1)
  have hlen : (s.cache.filter (fun e => fresh valid s.now e.time)).length ≤ maxSize :=
    Nat.le_trans (List.length_filter_le _ _) hinv.2
  cases hfind : (s.cache.filter (fun e => fresh valid s.now e.time)).find? (fun e => decide (e.key = k)) with
  | some e =>
    have hmem := List.mem_of_find?_eq_some hfind
    have hk : e.key = k := by simpa using List.find?_some hfind
    simp only [LruInv, specCall, hfind]
    refine ⟨?_, ?_⟩
    · intro x hx y hy hxy
      rcases List.mem_append.mp hx with hx1 | hx1 <;> rcases List.mem_append.mp hy with hy1 | hy1
      · exact hheld x (List.mem_filter.mp hx1).1 y (List.mem_filter.mp hy1).1 hxy
      · have hye : y = e := by simpa using hy1
        have := (List.mem_filter.mp hx1).2
        simp [hxy, hye, hk] at this
      · have hxe : x = e := by simpa using hx1
        have := (List.mem_filter.mp hy1).2
        simp [← hxy, hxe, hk] at this
      · have hxe : x = e := by simpa using hx1
        have hye : y = e := by simpa using hy1
        rw [hxe, hye]
    · have := length_filter_lt (fun e' : LEntry K => decide (e'.key ≠ k))
        (s.cache.filter (fun e => fresh valid s.now e.time)) e hmem (by simp [hk])
      simp only [List.length_append, List.length_singleton]
      omega
  | none =>
    have hno : ∀ x ∈ s.cache.filter (fun e => fresh valid s.now e.time), x.key ≠ k := by
      intro x hx; simpa using List.find?_eq_none.mp hfind x hx
    simp only [LruInv, specCall, hfind]
    refine ⟨?_, ?_⟩
    · have hall : KeyInj (s.cache.filter (fun e => fresh valid s.now e.time) ++
          [{ key := k, time := s.now, res := s.log.length }]) := by
        intro x hx y hy hxy
        rcases List.mem_append.mp hx with hx1 | hx1 <;> rcases List.mem_append.mp hy with hy1 | hy1
        · exact hheld x hx1 y hy1 hxy
        · have hye : y = { key := k, time := s.now, res := s.log.length } := by simpa using hy1
          rw [hye] at hxy
          exact absurd hxy (hno x hx1)
        · have hxe : x = { key := k, time := s.now, res := s.log.length } := by simpa using hx1
          rw [hxe] at hxy
          exact absurd hxy.symm (hno y hy1)
        · have hxe : x = { key := k, time := s.now, res := s.log.length } := by simpa using hx1
          have hye : y = { key := k, time := s.now, res := s.log.length } := by simpa using hy1
          rw [hxe, hye]
      exact hall.sublist (fun e he => List.mem_of_mem_drop he)
    · simp only [List.length_drop, List.length_append, List.length_singleton]
      omega

theorem lruRun_eq_specRun (maxSize : Nat) (valid : Option Int) (cost : K → Int) (ops : List (Op K)) :
    ∀ s : LState K, LruInv maxSize s →
      lruRun maxSize valid cost s ops = specRun maxSize valid cost s ops ∧
      LruInv maxSize (specRun maxSize valid cost s ops).1 := by
  induction ops with
  | nil => intro s h; exact ⟨rfl, h⟩
  | cons op ops ih =>
    intro s h
    cases op with
    | advance d =>
      simp only [lruRun, specRun]
      exact ih { s with now := s.now + d } h
    | call k =>
      simp only [lruRun, specRun]
      rw [lruCall_eq_spec maxSize valid cost s k h]
      obtain ⟨h1, h2⟩ := ih _ (specCall_inv maxSize valid cost s k h)
      rw [h1]
      exact ⟨rfl, h2⟩

end Cache
