import OrsoVerif.Lemmas.DistogramCacheOps
/-!
# Once the cache of adjacent differences is set it stays set

`h.diffs` is `None` until `_search_in_place_index` first computes it, or is set by `load()` — to the EMPTY list for a
histogram with a single bin.  No operation of the faithful machine ever un-sets it: every path of `update` (exact hit,
in-place merge, append, insert, every turn of `_trim`) hands on a cache that `is not None`.  Together with
`cache_coherent` (a set cache is exactly the adjacent gaps with their minimum) this says that a histogram that was
loaded, however small, is served by a live and correct cache for the rest of its life — the statement a truthiness
test on the cache (`if h.diffs:`) breaks for the empty list.
-/
namespace Distogram
set_option linter.unusedSectionVars false

variable {K : Type} [Field K] [LinearOrder K] [IsStrictOrderedRing K]

theorem updateDiffs_isSome {h h' : Hist K} {i : Nat} (hok : updateDiffs h i = .ok h') :
    h'.diffs.isSome = h.diffs.isSome := by
  rw [updateDiffs_def] at hok
  split at hok
  · simp only [Except.ok.injEq] at hok
    subst hok; rfl
  · rename_i d0 hd
    obtain ⟨s1, _, hok⟩ := bind_eq_ok hok
    obtain ⟨s2, _, hok⟩ := bind_eq_ok hok
    obtain ⟨md, _, hok⟩ := bind_eq_ok hok
    simp only [Except.ok.injEq] at hok
    subst hok
    rw [hd]; rfl

theorem trimStep_isSome {h h' : Hist K} (hok : trimStep h = .ok h') : h'.diffs.isSome = h.diffs.isSome := by
  rw [trimStep_def] at hok
  obtain ⟨i, _, hok⟩ := bind_eq_ok hok
  split at hok
  · simp only at hok
    split at hok
    · rename_i d hd
      split at hok
      · simp at hok
      · obtain ⟨h1, hu, hok⟩ := bind_eq_ok hok
        have e := updateDiffs_isSome hu
        split at hok
        · simp only [Except.ok.injEq] at hok
          subst hok
          rw [hd]
          simpa using e
        · simp at hok
    · rename_i hd
      simp only [Except.ok.injEq] at hok
      subst hok
      rfl
  · simp at hok

theorem trim_isSome : ∀ (fuel : Nat) {h h' : Hist K}, trim fuel h = .ok h' → h'.diffs.isSome = h.diffs.isSome
  | 0, h, h', hok => by
    simp only [trim, Except.ok.injEq] at hok
    subst hok; rfl
  | fuel + 1, h, h', hok => by
    rw [trim_succ] at hok
    split at hok
    · obtain ⟨h1, hs, hok⟩ := bind_eq_ok hok
      rw [trim_isSome fuel hok, trimStep_isSome hs]
    · simp only [Except.ok.injEq] at hok
      subst hok; rfl

theorem insertBin_isSome {h h' : Hist K} {neg : Bool} {idx : Nat} {v c : K} (hok : insertBin h neg idx v c = .ok h') :
    h'.diffs.isSome = h.diffs.isSome := by
  rw [insertBin_def] at hok
  cases neg with
  | true =>
    simp only [if_true] at hok
    split at hok
    · rename_i d bl hd hl
      simp only [Except.ok.injEq] at hok
      subst hok
      rw [hd]; rfl
    · simp only [Except.ok.injEq] at hok
      subst hok; rfl
  | false =>
    simp only [Bool.false_eq_true, if_false] at hok
    split at hok
    · rename_i d hd
      have e := updateDiffs_isSome hok
      rw [hd]
      simpa using e
    · simp only [Except.ok.injEq] at hok
      subst hok; rfl

theorem trimInPlace_isSome {h h' : Hist K} {v c : K} {ib : Nat} (hok : trimInPlace h v c ib = .ok h') :
    h'.diffs.isSome = h.diffs.isSome := by
  unfold trimInPlace at hok
  split at hok
  · have e := updateDiffs_isSome hok
    simpa using e
  · simp at hok

theorem insertTrim_isSome {h h' : Hist K} {neg : Bool} {idx : Nat} {v c : K} (hok : insertTrim h neg idx v c = .ok h') :
    h'.diffs.isSome = h.diffs.isSome := by
  unfold insertTrim at hok
  obtain ⟨h2, hi, hok⟩ := bind_eq_ok hok
  rw [trim_isSome _ hok, bumpBounds_diffs, insertBin_isSome hi]

/-- **A cache that is set stays set** through every path of `update`; a missing one is left missing or computed. -/
theorem update_isSome {h h' : Hist K} {v c : K} (hok : update h v c = .ok h') (hd : h.diffs.isSome = true) :
    h'.diffs.isSome = true := by
  rw [update_def] at hok
  split at hok
  · simp at hok
  have key : afterHit h (locate h.bins v).1 (locate h.bins v).2 v c = .ok h' → h'.diffs.isSome = true := by
    intro ha
    rw [afterHit_def] at ha
    split at ha
    · obtain ⟨h1, hcd, ha⟩ := bind_eq_ok ha
      have h1s : h1.diffs.isSome = true := by
        split at hcd
        · exact (coherent_computeDiffs hcd).2.2.2.2.2
        · simp only [Except.ok.injEq] at hcd
          subst hcd; exact hd
      obtain ⟨r, _, ha⟩ := bind_eq_ok ha
      split at ha
      · split at ha
        · rw [trimInPlace_isSome ha]; exact h1s
        · rw [insertTrim_isSome ha]; exact h1s
      · rw [insertTrim_isSome ha]; exact h1s
    · rw [insertTrim_isSome ha]; exact hd
  split at hok
  · split at hok
    · simp only [Except.ok.injEq] at hok
      subst hok; exact hd
    · exact key hok
  · split at hok
    · simp at hok
    · exact key hok

theorem foldUpdate_isSome : ∀ (bs : List (K × K)) {h h' : Hist K},
    bs.foldlM (fun acc b => update acc b.1 b.2) h = .ok h' → h.diffs.isSome = true → h'.diffs.isSome = true
  | [], h, h', hok, hd => by
    simp only [List.foldlM_nil, pure, Except.pure, Except.ok.injEq] at hok
    subst hok; exact hd
  | b :: bs, h, h', hok, hd => by
    simp only [List.foldlM_cons, bind] at hok
    obtain ⟨h1, hu, hok⟩ := bind_eq_ok hok
    exact foldUpdate_isSome bs hok (update_isSome hu hd)

end Distogram
