import OrsoVerif.Model.ProfileEst
import OrsoVerif.Lemmas.EstimatorsTop
import OrsoVerif.Lemmas.DistogramState
/-!
# Lemmas for C14: sequences on one column profile (estimate, add, estimate again)

* the cache discipline of the source (`CacheDiscipline`, established in `Props/C14.lean` from the generated
  `Gen.ProfileEst.addDropsCache` / `estimateUsesCache`) makes `view = fresh` an
  invariant of every profile reachable by building, estimating and adding — for *any* histogram merge;
* over the reference merge of C13 a sum of two well-formed profiles is well formed (`ProfOK`):
  centres increasing, counts positive, at most `binCount` bins, counts adding up to
  `count - missing`, centres within `[minimum, maximum]`.
-/
namespace Distogram
set_option linter.unusedSectionVars false
open Gen.ProfileEst (estimateUsesCache addDropsCache addCount addMissing addSwapTest)

variable {K : Type} [Field K] [LinearOrder K] [IsStrictOrderedRing K]

/-- The cache discipline the sequence theorems need of the source: a sum does not inherit the
`Distogram` an earlier estimate left on its left operand, or the estimators never reuse one.
`C14.cache_discipline` (Props/C14.lean) establishes it from the generated definitions. -/
def CacheDiscipline : Prop := addDropsCache = true ∨ estimateUsesCache = false

/-- `distogram.load` hands the estimators the bounds it is given (`dgram.min = minimum`, `dgram.max = maximum`);
`C14.load_keeps_bounds` (Props/C14.lean) establishes it from the generated definitions. -/
def LoadGiven : Prop := Gen.ProfileEst.loadMin = .given ∧ Gen.ProfileEst.loadMax = .given

theorem fresh_eq (hl : LoadGiven) (p : EProf K) : p.fresh = ⟨p.hist, p.minimum, p.maximum⟩ := by
  unfold EProf.fresh
  rw [hl.1, hl.2]
  rfl

/-- Profiles reachable from base profiles on which nothing was estimated yet, by estimating
(`touch`: the object keeps the `Distogram` it worked on) and adding (`addWith addDropsCache mrg`;
`deep_copy` is the identity on values). -/
inductive Reach (mrg : View K → List (K × K) → Except String (List (K × K))) (Base : EProf K → Prop) :
    EProf K → Prop
  | base {p} : Base p → p.cache = none → Reach mrg Base p
  | touch {p} : Reach mrg Base p → Reach mrg Base p.touch
  | add {a b c} : Reach mrg Base a → Reach mrg Base b →
      EProf.addWith addDropsCache mrg a b = .ok c → Reach mrg Base c

theorem fresh_touch (p : EProf K) : p.touch.fresh = p.fresh := rfl

theorem view_of_none {p : EProf K} (h : p.cache = none) : p.view = p.fresh := by
  unfold EProf.view; rw [h]; simp

theorem view_touch {p : EProf K} (h : p.view = p.fresh) : p.touch.view = p.touch.fresh := by
  rw [fresh_touch]
  unfold EProf.view EProf.touch
  by_cases c : estimateUsesCache = true
  · simp only [c, if_true, Option.getD_some]; exact h
  · simp only [c]; rfl

theorem addWith_ok {drop : Bool} {mrg : View K → List (K × K) → Except String (List (K × K))}
    {a b c : EProf K} (h : EProf.addWith drop mrg a b = .ok c) :
    ∃ hh, mergedHist mrg a b = .ok hh ∧
      c = { count := addCount a.count b.count, missing := addMissing a.missing b.missing,
            minimum := optMin a.minimum b.minimum, maximum := optMax a.maximum b.maximum,
            hist := hh, cache := if drop then none else a.cache } := by
  unfold EProf.addWith at h
  cases hm : mergedHist mrg a b with
  | error e => rw [hm] at h; simp [Except.map] at h
  | ok hh =>
    rw [hm] at h
    simp only [Except.map, Except.ok.injEq] at h
    exact ⟨hh, rfl, h.symm⟩

theorem view_add (hd : CacheDiscipline) {mrg : View K → List (K × K) → Except String (List (K × K))} {a b c : EProf K}
    (h : EProf.addWith addDropsCache mrg a b = .ok c) : c.view = c.fresh := by
  obtain ⟨hh, _, rfl⟩ := addWith_ok h
  rcases hd with d | u
  · exact view_of_none (by simp [d])
  · unfold EProf.view; simp [u]

/-- **No stale histogram**: on every reachable profile an estimate works on the profile's own
current `histogram`, `minimum` and `maximum`. -/
theorem reach_view_fresh (hd : CacheDiscipline) {mrg : View K → List (K × K) → Except String (List (K × K))}
    {Base : EProf K → Prop} {p : EProf K} (h : Reach mrg Base p) : p.view = p.fresh := by
  induction h with
  | base _ hc => exact view_of_none hc
  | touch _ ih => exact view_touch ih
  | add _ _ hadd _ _ => exact view_add hd hadd

/-! ## well-formed profiles and the reference merge -/

/-- What the estimators need of a profile: C13's invariants of its histogram, at most `binCount`
bins, counts adding up to the non-null values, centres within `[minimum, maximum]`. -/
structure ProfOK (p : EProf K) : Prop where
  inc : Inc p.hist
  pos : Pos p.hist
  len : p.hist.length ≤ Gen.Distogram.binCount
  mass : mass p.hist = p.count - p.missing
  bounds : p.hist ≠ [] → ∃ lo hi, p.minimum = some lo ∧ p.maximum = some hi ∧ Within lo hi p.hist

theorem within_widen {lo hi lo' hi' : K} {l : List (K × K)} (h : Within lo hi l) (h1 : lo' ≤ lo) (h2 : hi ≤ hi') :
    Within lo' hi' l := fun b hb => ⟨le_trans h1 (h b hb).1, le_trans (h b hb).2 h2⟩

theorem optMin_some_some (x y : K) : ∃ z, optMin (some x) (some y) = some z ∧ z ≤ x ∧ z ≤ y := by
  by_cases c : y < x
  · exact ⟨y, by simp [optMin, c], le_of_lt c, le_refl _⟩
  · exact ⟨x, by simp [optMin, c], le_refl _, not_lt.mp c⟩

theorem optMax_some_some (x y : K) : ∃ z, optMax (some x) (some y) = some z ∧ x ≤ z ∧ y ≤ z := by
  by_cases c : x < y
  · exact ⟨y, by simp [optMax, c], le_of_lt c, le_refl _⟩
  · exact ⟨x, by simp [optMax, c], le_refl _, not_lt.mp c⟩

theorem optMin_le {a b : Option K} {x z : K} (ha : a = some x) (h : optMin a b = some z) : z ≤ x := by
  subst ha
  cases b with
  | none => simp [optMin] at h; rw [← h]
  | some y => obtain ⟨w, hw, h1, _⟩ := optMin_some_some x y; rw [hw] at h; simp at h; rw [← h]; exact h1

theorem optMin_le_right {a b : Option K} {y z : K} (hb : b = some y) (h : optMin a b = some z) : z ≤ y := by
  subst hb
  cases a with
  | none => simp [optMin] at h; rw [← h]
  | some x => obtain ⟨w, hw, _, h2⟩ := optMin_some_some x y; rw [hw] at h; simp at h; rw [← h]; exact h2

theorem optMax_ge {a b : Option K} {x z : K} (ha : a = some x) (h : optMax a b = some z) : x ≤ z := by
  subst ha
  cases b with
  | none => simp [optMax] at h; rw [← h]
  | some y => obtain ⟨w, hw, h1, _⟩ := optMax_some_some x y; rw [hw] at h; simp at h; rw [← h]; exact h1

theorem optMax_ge_right {a b : Option K} {y z : K} (hb : b = some y) (h : optMax a b = some z) : y ≤ z := by
  subst hb
  cases a with
  | none => simp [optMax] at h; rw [← h]
  | some x => obtain ⟨w, hw, _, h2⟩ := optMax_some_some x y; rw [hw] at h; simp at h; rw [← h]; exact h2

theorem optMin_isSome {a b : Option K} (h : a.isSome ∨ b.isSome) : ∃ z, optMin a b = some z := by
  cases a with
  | none =>
    cases b with
    | none => simp at h
    | some y => exact ⟨y, rfl⟩
  | some x =>
    cases b with
    | none => exact ⟨x, rfl⟩
    | some y => obtain ⟨z, hz, _⟩ := optMin_some_some x y; exact ⟨z, hz⟩

theorem optMax_isSome {a b : Option K} (h : a.isSome ∨ b.isSome) : ∃ z, optMax a b = some z := by
  cases a with
  | none =>
    cases b with
    | none => simp at h
    | some y => exact ⟨y, rfl⟩
  | some x =>
    cases b with
    | none => exact ⟨x, rfl⟩
    | some y => obtain ⟨z, hz, _⟩ := optMax_some_some x y; exact ⟨z, hz⟩

/-- The reference merge of one well-formed histogram (`sb`, bounds `sl ≤ … ≤ sh`) with the bins of
another (`ob`, inside `[ol, oh]`): C13's invariants, at most `binCount` bins, the masses add up,
every centre inside any interval containing both ranges. -/
theorem refMerge_facts (sb ob : List (K × K)) (sl sh ol oh : K)
    (hi : Inc sb) (hp : Pos sb) (hlen : sb.length ≤ Gen.Distogram.binCount) (hw : Within sl sh sb) (hne : sb ≠ [])
    (hop : Pos ob) (how : Within ol oh ob) :
    let m := (mergeRef ⟨sb, some sl, some sh, Gen.Distogram.binCount⟩ ob).bins
    Inc m ∧ Pos m ∧ m.length ≤ Gen.Distogram.binCount ∧ mass m = mass sb + mass ob ∧
    ∀ lo hi', lo ≤ sl → lo ≤ ol → sh ≤ hi' → oh ≤ hi' → Within lo hi' m := by
  intro m
  have hslh : sl ≤ sh := by
    cases sb with
    | nil => exact absurd rfl hne
    | cons b _ => exact le_trans (hw b (by simp)).1 (hw b (by simp)).2
  let s : RState K := ⟨sb, some sl, some sh, Gen.Distogram.binCount⟩
  have hs : Inv s := ⟨hi, hp, hlen, by show 1 ≤ Gen.Distogram.binCount; decide, by intro h; simp [s] at h,
    by intro h; simp [s] at h, by
      intro a b ha hb
      simp only [s, Option.some.injEq] at ha hb
      subst ha; subst hb; exact hw⟩
  have hmin : IsMinOf s.min [sl, sh] := by
    show IsMinOf (some sl) [sl, sh]
    refine ⟨by simp, ?_⟩
    intro b hb; simp at hb; rcases hb with rfl | rfl
    · exact le_refl _
    · exact hslh
  have hmax : IsMaxOf s.max [sl, sh] := by
    show IsMaxOf (some sh) [sl, sh]
    refine ⟨by simp, ?_⟩
    intro b hb; simp at hb; rcases hb with rfl | rfl
    · exact hslh
    · exact le_refl _
  obtain ⟨mi, mc, mm, _, mmin, mmax⟩ := mergeRef_facts ob s [sl, sh] hs hop hmin hmax
  refine ⟨mi.inc, mi.pos, ?_, mm, ?_⟩
  · have := mi.len; rw [mc] at this; exact this
  · intro lo hi' h1 h2 h3 h4
    cases hmn : (mergeRef s ob).min with
    | none =>
      rw [hmn] at mmin
      simp [IsMinOf] at mmin
    | some x =>
      cases hmx : (mergeRef s ob).max with
      | none =>
        rw [hmx] at mmax
        simp [IsMaxOf] at mmax
      | some y =>
        rw [hmn] at mmin; rw [hmx] at mmax
        have hx : lo ≤ x := by
          have := mmin.1
          simp only [List.mem_append, List.mem_cons, List.not_mem_nil, or_false, List.mem_map] at this
          rcases this with (rfl | rfl) | ⟨b, hb, rfl⟩
          · exact h1
          · exact le_trans h1 hslh
          · exact le_trans h2 (how b hb).1
        have hy : y ≤ hi' := by
          have := mmax.1
          simp only [List.mem_append, List.mem_cons, List.not_mem_nil, or_false, List.mem_map] at this
          rcases this with (rfl | rfl) | ⟨b, hb, rfl⟩
          · exact le_trans hslh h3
          · exact h3
          · exact le_trans (how b hb).2 h4
        exact within_widen (mi.within x y hmn hmx) hx hy

theorem mass_nil : mass ([] : List (K × K)) = 0 := by simp [mass]

theorem addCount_eq (a b : K) : addCount a b - addMissing a' b' = (a - a') + (b - b') := by
  simp only [addCount, addMissing]; ring

/-- **A sum of two well-formed profiles is well formed** (over the reference merge). -/
theorem addRef_profOK (hl : LoadGiven) {drop : Bool} {a b c : EProf K} (ha : ProfOK a) (hb : ProfOK b)
    (h : EProf.addWith drop refMerge a b = .ok c) : ProfOK c := by
  obtain ⟨hh, hm, rfl⟩ := addWith_ok h
  have hmass : ∀ l : List (K × K), mass l = mass a.hist + mass b.hist →
      mass l = addCount a.count b.count - addMissing a.missing b.missing := by
    intro l hl; rw [hl, ha.mass, hb.mass, addCount_eq]
  unfold mergedHist at hm
  cases hah : a.hist with
  | nil =>
    cases hbh : b.hist with
    | nil =>
      rw [hah, hbh] at hm
      simp only [Except.ok.injEq] at hm
      subst hm
      exact ⟨List.Pairwise.nil, by intro x hx; simp at hx, by simp, hmass _ (by rw [hah, hbh, mass_nil]; simp),
        fun hne => absurd rfl hne⟩
    | cons b0 bt =>
      rw [hah, hbh] at hm
      simp only [Except.ok.injEq] at hm
      subst hm
      obtain ⟨lo, hi, hlo, hhi, hw⟩ := hb.bounds (by rw [hbh]; simp)
      have hbi := hb.inc; have hbp := hb.pos; have hbl := hb.len
      rw [hbh] at hbi hbp hbl hw
      refine ⟨hbi, hbp, hbl, hmass _ (by rw [hah, mass_nil, hbh]; simp), fun _ => ?_⟩
      obtain ⟨z, hz⟩ := optMin_isSome (a := a.minimum) (b := b.minimum) (Or.inr (by rw [hlo]; rfl))
      obtain ⟨w, hw'⟩ := optMax_isSome (a := a.maximum) (b := b.maximum) (Or.inr (by rw [hhi]; rfl))
      exact ⟨z, w, hz, hw', within_widen hw (optMin_le_right hlo hz) (optMax_ge_right hhi hw')⟩
  | cons a0 at' =>
    obtain ⟨alo, ahi, halo, hahi, haw⟩ := ha.bounds (by rw [hah]; simp)
    obtain ⟨z, hz⟩ := optMin_isSome (a := a.minimum) (b := b.minimum) (Or.inl (by rw [halo]; rfl))
    obtain ⟨w, hw'⟩ := optMax_isSome (a := a.maximum) (b := b.maximum) (Or.inl (by rw [hahi]; rfl))
    cases hbh : b.hist with
    | nil =>
      rw [hah, hbh] at hm
      simp only [Except.ok.injEq] at hm
      subst hm
      have hai := ha.inc; have hap := ha.pos; have hal := ha.len
      rw [hah] at hai hap hal haw
      exact ⟨hai, hap, hal, hmass _ (by rw [hbh, mass_nil, hah]; simp),
        fun _ => ⟨z, w, hz, hw', within_widen haw (optMin_le halo hz) (optMax_ge hahi hw')⟩⟩
    | cons b0 bt =>
      obtain ⟨blo, bhi, hblo, hbhi, hbw⟩ := hb.bounds (by rw [hbh]; simp)
      rw [hah, hbh] at hm
      simp only at hm
      rw [← hah, ← hbh] at hm
      by_cases sw : addSwapTest a.hist.length b.hist.length = true
      · rw [if_pos sw] at hm
        simp only [refMerge, fresh_eq hl, Except.ok.injEq, hblo, hbhi] at hm
        subst hm
        obtain ⟨i, p, l, m, wi⟩ := refMerge_facts b.hist a.hist blo bhi alo ahi hb.inc hb.pos hb.len hbw
          (by rw [hbh]; simp) ha.pos haw
        refine ⟨i, p, l, hmass _ (by rw [m]; ring), fun _ => ⟨z, w, hz, hw', ?_⟩⟩
        exact wi z w (optMin_le_right hblo hz) (optMin_le halo hz) (optMax_ge_right hbhi hw') (optMax_ge hahi hw')
      · rw [if_neg sw] at hm
        simp only [refMerge, fresh_eq hl, Except.ok.injEq, halo, hahi] at hm
        subst hm
        obtain ⟨i, p, l, m, wi⟩ := refMerge_facts a.hist b.hist alo ahi blo bhi ha.inc ha.pos ha.len haw
          (by rw [hah]; simp) hb.pos hbw
        refine ⟨i, p, l, hmass _ m, fun _ => ⟨z, w, hz, hw', ?_⟩⟩
        exact wi z w (optMin_le halo hz) (optMin_le_right hblo hz) (optMax_ge hahi hw') (optMax_ge_right hbhi hw')

theorem touch_profOK {p : EProf K} (h : ProfOK p) : ProfOK p.touch := ⟨h.inc, h.pos, h.len, h.mass, h.bounds⟩

/-- Every profile reachable from well-formed base profiles is well formed. -/
theorem reach_profOK (hl : LoadGiven) {p : EProf K} (h : Reach refMerge ProfOK p) : ProfOK p := by
  induction h with
  | base hb _ => exact hb
  | touch _ ih => exact touch_profOK ih
  | add _ _ hadd iha ihb => exact addRef_profOK hl iha ihb hadd

/-- A well-formed profile with a non-empty histogram satisfies the hypothesis of the estimator theorems. -/
theorem profOK_histOK {p : EProf K} (h : ProfOK p) (hne : p.hist ≠ []) :
    ∃ lo hi, p.minimum = some lo ∧ p.maximum = some hi ∧ HistOK p.hist lo hi := by
  obtain ⟨lo, hi, h1, h2, hw⟩ := h.bounds hne
  exact ⟨lo, hi, h1, h2, h.inc, h.pos, hne, hw⟩

/-! ## small facts used by the round-2 theorems of `Props/C14.lean` -/

theorem mem_le_mass : ∀ (l : List (K × K)) (b : K × K), Pos l → b ∈ l → b.2 ≤ mass l
  | [], _, _, h => by simp at h
  | c :: rest, b, hp, h => by
    have hrest : Pos rest := fun x hx => hp x (by simp [hx])
    have h0 := mass_nonneg hrest
    simp only [mass, List.map_cons, List.sum_cons] at h0 ⊢
    rcases List.mem_cons.mp h with rfl | h'
    · linarith
    · have := mem_le_mass rest b hrest h'
      have hc : 0 < c.2 := hp c (by simp)
      simp only [mass] at this
      linarith

/-- Right of the first centre `count_at` does not look at the minimum: the histogram with its
minimum moved onto the first centre answers the same. -/
theorem countAt_min_irrelevant (v0 f0 : K) (tail : List (K × K)) (vl fl lo hi z : K)
    (hl : ((v0, f0) :: tail).getLast? = some (vl, fl)) (hlo : lo ≤ v0) (hz : v0 < z) (hzhi : z ≤ hi) :
    countAt ((v0, f0) :: tail) (some v0) (some hi) z = countAt ((v0, f0) :: tail) (some lo) (some hi) z := by
  have n1 : ¬ (z < v0 ∨ hi < z) := by intro h; rcases h with h | h <;> linarith
  have n2 : ¬ (z < lo ∨ hi < z) := by intro h; rcases h with h | h <;> linarith
  have n3 : z ≠ v0 := ne_of_gt hz
  have n4 : z ≠ lo := ne_of_gt (lt_of_le_of_lt hlo hz)
  have n5 : ¬ z ≤ v0 := not_le.mpr hz
  rw [countAt_unfold v0 f0 tail vl fl v0 hi z hl, countAt_unfold v0 f0 tail vl fl lo hi z hl]
  simp [n1, n2, n3, n4, n5]

end Distogram
