import OrsoVerif.Lemmas.IsoChar
/-! Helper lemmas for C08: soundness of the text path — whatever it returns is a valid date-time
whose date fields are the integer readings of the fixed columns of a date-shaped text. -/
namespace Iso

/-- **What soundness needs from the generated dash test**: when it does not reject, both
characters are `-`.  Proved in `Props/C08.lean` (`dash_test_keeps_only_dashes`). -/
structure DashSound : Prop where
  keep : ∀ (a : Char) (x : Except Exc Bool),
    shortCircuit Gen.Iso.dashJoinAnd (decide (Gen.Iso.dashTestA a)) x = .ok false → a = '-' ∧ x = .ok false
  second : ∀ b : Char, ¬ Gen.Iso.dashTestB b → b = '-'

theorem buildDatetime_ok (y m d H M S : Int) (dt : DateTime) (h : buildDatetime y m d H M S = .ok dt) :
    validDateTime dt = true ∧ dt.micro = 0 ∧ (dt.year : Int) = y ∧ (dt.month : Int) = m ∧ (dt.day : Int) = d ∧
      (dt.hour : Int) = H ∧ (dt.minute : Int) = M ∧ (dt.second : Int) = S := by
  unfold buildDatetime at h
  split at h
  · cases h
  · split at h
    · cases h
    · split at h
      · cases h
      · split at h
        · cases h
        · split at h
          · cases h
          · split at h
            · cases h
            · split at h
              · cases h
              · injection h with h
                subst h
                dsimp only
                simp only [validDateTime, validDate, Bool.and_eq_true, decide_eq_true_eq]
                refine ⟨?_, trivial, ?_, ?_, ?_, ?_, ?_, ?_⟩ <;> omega

theorem mkDatetime_ok (xs : List Int) (dt : DateTime) (h : mkDatetime xs = .ok dt) :
    validDateTime dt = true ∧ dt.micro = 0 ∧
      ∃ y m d r, xs = y :: m :: d :: r ∧ (dt.year : Int) = y ∧ (dt.month : Int) = m ∧ (dt.day : Int) = d := by
  rcases xs with _ | ⟨a, _ | ⟨b, _ | ⟨c, _ | ⟨d, _ | ⟨e, _ | ⟨f, _ | ⟨g, t⟩⟩⟩⟩⟩⟩⟩ <;>
    simp only [mkDatetime] at h <;>
    first
    | (cases h; done)
    | (obtain ⟨h1, h2, h3, h4, h5, _⟩ := buildDatetime_ok _ _ _ _ _ _ dt h
       exact ⟨h1, h2, _, _, _, _, rfl, h3, h4, h5⟩)

/-- A successful `fields` over slices that start with the three date columns. -/
theorem fields_value (v : List Char) (r : List (Nat × Nat)) (dt : DateTime)
    (h : fields v ((0, 4) :: (5, 7) :: (8, 10) :: r) = .ok (some dt)) :
    validDateTime dt = true ∧ dt.micro = 0 ∧ pyInt (slice v (0, 4)) = .ok (dt.year : Int) ∧
      pyInt (slice v (5, 7)) = .ok (dt.month : Int) ∧ pyInt (slice v (8, 10)) = .ok (dt.day : Int) := by
  unfold fields at h
  simp only [ints] at h
  cases h1 : pyInt (slice v (0, 4)) with
  | error e => rw [h1] at h; cases h
  | ok y =>
    cases h2 : pyInt (slice v (5, 7)) with
    | error e => rw [h1, h2] at h; cases h
    | ok m =>
      cases h3 : pyInt (slice v (8, 10)) with
      | error e => rw [h1, h2, h3] at h; cases h
      | ok d =>
        rw [h1, h2, h3] at h
        simp only [bind_ok] at h
        cases h4 : ints v r with
        | error e => rw [h4] at h; cases h
        | ok xs =>
          rw [h4] at h
          simp only [bind_ok] at h
          cases h5 : mkDatetime (y :: m :: d :: xs) with
          | error e => rw [h5] at h; cases h
          | ok dt' =>
            rw [h5] at h
            simp only [bind_ok] at h
            injection h with h; injection h with h; subst h
            obtain ⟨v1, v2, y', m', d', r', e, ey, em, ed⟩ := mkDatetime_ok _ _ h5
            injection e with e1 e; injection e with e2 e; injection e with e3 e
            subst e1 e2 e3
            exact ⟨v1, v2, by rw [ey], by rw [em], by rw [ed]⟩

/-- Whatever `shaped` returns is valid, in whole seconds, and read from a date-shaped text. -/
theorem shaped_value (A : Accepts) (C : Covers) (Rj : Rejects) (D : DashSound) (v : List Char) (dt : DateTime)
    (h : shaped v = .ok (some dt)) :
    10 ≤ v.length ∧ v[4]? = some '-' ∧ v[7]? = some '-' ∧ validDateTime dt = true ∧ dt.micro = 0 ∧
      pyInt (slice v (0, 4)) = .ok (dt.year : Int) ∧ pyInt (slice v (5, 7)) = .ok (dt.month : Int) ∧
      pyInt (slice v (8, 10)) = .ok (dt.day : Int) := by
  obtain ⟨x4, x7, _, _, _⟩ := A.idx
  obtain ⟨sl1, sl2, sl3⟩ := A.slices
  unfold shaped at h
  cases hd : dashReject v with
  | error e => rw [hd] at h; cases h
  | ok rej =>
    rw [hd] at h
    simp only [bind_ok] at h
    cases rej with
    | true => simp at h
    | false =>
      simp only [Bool.false_eq_true, if_false] at h
      -- both characters are dashes
      have hdash : v[4]? = some '-' ∧ v[7]? = some '-' := by
        unfold dashReject at hd
        rw [x4, x7] at hd
        cases h4 : idx v 4 with
        | error e => rw [h4] at hd; cases hd
        | ok a =>
          rw [h4] at hd
          simp only [bind_ok] at hd
          obtain ⟨ea, hx⟩ := D.keep a _ hd
          cases h7 : idx v 7 with
          | error e => rw [h7] at hx; cases hx
          | ok b =>
            rw [h7] at hx
            simp only [bind_ok] at hx
            injection hx with hx
            have eb := D.second b (of_decide_eq_false hx)
            exact ⟨by rw [← ea]; exact (idx_eq_ok_iff v 4 a).mp h4, by rw [← eb]; exact (idx_eq_ok_iff v 7 b).mp h7⟩
      have fin : ∀ r, 10 ≤ v.length → fields v ((0, 4) :: (5, 7) :: (8, 10) :: r) = .ok (some dt) →
          (10 ≤ v.length ∧ v[4]? = some '-' ∧ v[7]? = some '-' ∧ validDateTime dt = true ∧ dt.micro = 0 ∧
            pyInt (slice v (0, 4)) = .ok (dt.year : Int) ∧ pyInt (slice v (5, 7)) = .ok (dt.month : Int) ∧
            pyInt (slice v (8, 10)) = .ok (dt.day : Int)) :=
        fun r hl hf => ⟨hl, hdash.1, hdash.2, fields_value v r dt hf⟩
      split at h
      · next hdl =>
        have := Rj.dateLo _ hdl
        rw [sl1] at h
        exact fin _ (by omega) h
      · split at h
        · next htl =>
          have hlen := C.time _ htl
          rw [A.idx.2.2.1] at hlen
          cases hs : sepReject v with
          | error e => rw [hs] at h; cases h
          | ok rej2 =>
            rw [hs] at h
            simp only [bind_ok] at h
            cases rej2 with
            | true => simp at h
            | false =>
              simp only [Bool.false_eq_true, if_false] at h
              cases hsec : hasSeconds v with
              | error e => rw [hsec] at h; cases h
              | ok secs =>
                rw [hsec] at h
                simp only [bind_ok] at h
                cases secs with
                | true =>
                  simp only [if_true] at h
                  rw [sl2] at h
                  exact fin _ (by omega) h
                | false =>
                  simp only [Bool.false_eq_true, if_false] at h
                  split at h
                  · rw [sl3] at h
                    exact fin _ (by omega) h
                  · cases h
        · cases h

/-- A value returned by the text path comes from `shaped` on a prefix of the text. -/
theorem textPath_value (s : List Char) (dt : DateTime) (h : textPath s = .ok (some dt)) :
    ∃ v, v <+: s ∧ shaped v = .ok (some dt) := by
  unfold textPath at h
  split at h
  · have hv1 : (if s.getLast? = some Gen.Iso.zChar then s.dropLast else s) <+: s := by
      split
      · exact List.dropLast_prefix s
      · exact List.prefix_refl s
    dsimp only at h
    generalize (if s.getLast? = some Gen.Iso.zChar then s.dropLast else s) = v1 at hv1 h
    split at h
    · split at h
      · cases h
      · exact ⟨_, (List.takeWhile_prefix _).trans hv1, h⟩
    · exact ⟨v1, hv1, h⟩
  · cases h

theorem textPath_sound (A : Accepts) (C : Covers) (Rj : Rejects) (D : DashSound) (s : List Char) (dt : DateTime)
    (h : textPath s = .ok (some dt)) :
    s[4]? = some '-' ∧ s[7]? = some '-' ∧ validDateTime dt = true ∧ dt.micro = 0 ∧
      pyInt (slice s (0, 4)) = .ok (dt.year : Int) ∧ pyInt (slice s (5, 7)) = .ok (dt.month : Int) ∧
      pyInt (slice s (8, 10)) = .ok (dt.day : Int) := by
  obtain ⟨v, hp, hs⟩ := textPath_value s dt h
  obtain ⟨hl, h4, h7, hv, hm, y, m, d⟩ := shaped_value A C Rj D v dt hs
  refine ⟨?_, ?_, hv, hm, ?_, ?_, ?_⟩
  · rw [← prefix_getElem? hp (by omega : 4 < v.length)]; exact h4
  · rw [← prefix_getElem? hp (by omega : 7 < v.length)]; exact h7
  · rw [← prefix_slice hp 0 4 (by omega)]; exact y
  · rw [← prefix_slice hp 5 7 (by omega)]; exact m
  · rw [← prefix_slice hp 8 10 (by omega)]; exact d

end Iso
