import OrsoVerif.Lemmas.GroupByCode
import OrsoVerif.Lemmas.GroupByEq
/-! C12: the code-level interpreter with an identity that is not injective (equal keys written
differently): seen through the identity, `aggregateC` is the pass over the identities. -/
namespace GroupByCode
open GroupBy GroupByIR

section
variable {ρ κ ι : Type} [DecidableEq κ] [DecidableEq ι]

omit [DecidableEq κ] in
theorem registerRows_consistent (ident : κ → ι) (keyOf : ρ → κ) (rows : List ρ) (st : List (ι × κ))
    (hst : Consistent ident st) : Consistent ident (registerRows ident keyOf st rows) := by
  unfold registerRows
  induction rows generalizing st with
  | nil => exact hst
  | cons r rs ih =>
    simp only [List.foldl_cons]
    split
    · exact ih st hst
    · apply ih
      intro e he
      rcases List.mem_append.mp he with he | he
      · exact hst e he
      · simp only [List.mem_singleton] at he
        subst he
        rfl

omit [DecidableEq κ] in
/-- Forgetting the stored key values: the registry over the identities themselves. -/
theorem registerRows_map_ident (ident : κ → ι) (keyOf : ρ → κ) (rows : List ρ) (st : List (ι × κ)) :
    (registerRows ident keyOf st rows).map (fun e => (e.1, e.1)) =
      registerRows (fun x : ι => x) (fun r => ident (keyOf r)) (st.map fun e => (e.1, e.1)) rows := by
  unfold registerRows
  induction rows generalizing st with
  | nil => rfl
  | cons r rs ih =>
    simp only [List.foldl_cons]
    have hany : ((st.map fun e => (e.1, e.1)).any fun e => decide (e.1 = ident (keyOf r)))
        = st.any fun e => decide (e.1 = ident (keyOf r)) := by
      rw [List.any_map]
      rfl
    rw [hany]
    split
    · exact ih st
    · rw [ih]
      simp

omit [DecidableEq κ] in
theorem lookupKey_map_ident (st : List (ι × κ)) (g : ι) :
    lookupKey (st.map fun e => (e.1, e.1)) g = (lookupKey st g).map fun _ => g := by
  unfold lookupKey
  induction st with
  | nil => rfl
  | cons e st ih =>
    simp only [List.map_cons, List.find?_cons]
    by_cases he : e.1 = g
    · simp [he]
    · simp only [he, decide_false]
      exact ih

omit [DecidableEq κ] in
theorem lookupKey_ident {ident : κ → ι} {st : List (ι × κ)} (hst : Consistent ident st) {g : ι} {k : κ}
    (h : lookupKey st g = some k) : ident k = g := by
  unfold lookupKey at h
  cases hf : st.find? (fun e => decide (e.1 = g)) with
  | none => rw [hf] at h; cases h
  | some e =>
    rw [hf] at h
    simp only [Option.map_some, Option.some.injEq] at h
    have hp := List.find?_some hf
    have hm := List.mem_of_find?_eq_some hf
    simp only [decide_eq_true_eq] at hp
    rw [← h, ← hst e hm, hp]

/-- An object's state with the stored key values forgotten (every entry holds its own identity). -/
def forget (st : ObjState ι κ) : ObjState ι ι :=
  { keys := st.keys.map fun e => (e.1, e.1), vmap := st.vmap }

/-- A result with every key replaced by `f` of it. -/
def mapOutC (f : κ → ι) : OutC κ → OutC ι
  | .table t => .table (t.map fun rows => rows.map fun ka => (f ka.1, ka.2))
  | .keys ks => .keys (ks.map f)

omit [DecidableEq κ] in
/-- `aggregate` with any identity function, and the same call on the frame keyed by identity: same
state (up to the stored key values), same table (up to the shown key values). -/
theorem aggregateC_forget (P : Program) (hr : P.registers = true) (ident : κ → ι) (keyOf : ρ → κ)
    (cell : ρ → String → Option Int) (st : ObjState ι κ) (hst : Consistent ident st.keys) (rows : List ρ)
    (reqs : List Req) :
    forget (aggregateC P ident keyOf cell st rows reqs).1
        = (aggregateC P (fun x : ι => x) (fun r => ident (keyOf r)) cell (forget st) rows reqs).1
    ∧ ((aggregateC P ident keyOf cell st rows reqs).2.map fun t => t.map fun ka => (ident ka.1, ka.2))
        = (aggregateC P (fun x : ι => x) (fun r => ident (keyOf r)) cell (forget st) rows reqs).2 := by
  unfold aggregateC forget
  simp only [hr, if_true]
  rw [← registerRows_map_ident]
  have hcons := registerRows_consistent ident keyOf rows st.keys hst
  have hmt : mapTriples P.yieldGuards (fun x : ι => x) (fun r => ident (keyOf r)) cell (collectCols P.collect reqs) rows
      = mapTriples P.yieldGuards ident keyOf cell (collectCols P.collect reqs) rows := rfl
  rw [hmt]
  generalize registerRows ident keyOf st.keys rows = st' at hcons ⊢
  generalize (if P.freshValueMap = true then
      collectLoop P.body (mapTriples P.yieldGuards ident keyOf cell (collectCols P.collect reqs) rows)
    else collectFrom P.body st.vmap (mapTriples P.yieldGuards ident keyOf cell (collectCols P.collect reqs) rows)) = m
  refine ⟨rfl, ?_⟩
  have hall : (m.groups.all fun g => (lookupKey (st'.map fun e => (e.1, e.1)) g).isSome)
      = m.groups.all fun g => (lookupKey st' g).isSome := by
    congr 1
    funext g
    rw [lookupKey_map_ident]
    cases lookupKey st' g <;> rfl
  rw [hall]
  split
  · simp only [Option.map_some, Option.some.injEq, List.map_filterMap]
    congr 1
    funext g
    rw [lookupKey_map_ident]
    cases hl : lookupKey st' g with
    | none => rfl
    | some k => simp [lookupKey_ident hcons hl]
  · rfl

omit [DecidableEq κ] in
/-- **Seen through the identity, `aggregate` as written is the pass over the identities** — for any
identity function, injective or not: the rows of the result, with the key each shows replaced by its
identity, are the partition-and-fold table of the frame keyed by identity. -/
theorem aggregateC_by_identity (P : Program) (hb : bodyOk P.body = true) (hy : yieldOk P.yieldGuards = true)
    (hr : P.registers = true) (hf : P.freshValueMap = true) (reqs : List Req)
    (hcols : (collectCols P.collect reqs).Nodup
      ∧ ∀ c, c ∈ collectCols P.collect reqs ↔ c ∈ reqs.map (·.2))
    (hagg : ∀ f vs, evalA (aggOf P f) (vs.map some) = AVal.ofAgg (fold f vs))
    (ident : κ → ι) (keyOf : ρ → κ)
    (cell : ρ → String → Option Int) (st : ObjState ι κ) (hst : Consistent ident st.keys) (rows : List ρ) :
    ((aggregateC P ident keyOf cell st rows reqs).2.map fun t => t.map fun ka => (ident ka.1, ka.2)) =
       some ((aggregate (fun r => ident (keyOf r)) cell rows reqs).map fun ka => (ka.1, ka.2.map AVal.ofAgg)) := by
  rw [(aggregateC_forget P hr ident keyOf cell st hst rows reqs).2]
  exact (aggregateC_ok P hb hy hr hf reqs hcols hagg (ident := fun x : ι => x) (fun _ _ h => h)
    (fun r => ident (keyOf r)) cell (forget st)
    (fun e he => by
      obtain ⟨e', _, rfl⟩ := List.mem_map.mp he
      rfl) rows).2

omit [DecidableEq κ] in
/-- One call, any identity function: same state and same result as the call on the frame keyed by
identity, up to the stored / shown key values; the registry stays consistent. -/
theorem stepC_forget (P : Program) (hr : P.registers = true) (ident : κ → ι) (keyOf : ρ → κ)
    (cell : ρ → String → Option Int) (rows : List ρ) (st : ObjState ι κ) (hst : Consistent ident st.keys)
    (op : Op) :
    forget (stepC P ident keyOf cell rows st op).1
        = (stepC P (fun x : ι => x) (fun r => ident (keyOf r)) cell rows (forget st) op).1
    ∧ mapOutC ident (stepC P ident keyOf cell rows st op).2
        = (stepC P (fun x : ι => x) (fun r => ident (keyOf r)) cell rows (forget st) op).2
    ∧ Consistent ident (stepC P ident keyOf cell rows st op).1.keys := by
  cases op with
  | aggregate reqs =>
    obtain ⟨h1, h2⟩ := aggregateC_forget P hr ident keyOf cell st hst rows reqs
    refine ⟨h1, ?_, ?_⟩
    · simp only [stepC, mapOutC]
      rw [← h2]
    · simp only [stepC, aggregateC, hr, if_true]
      exact registerRows_consistent ident keyOf rows st.keys hst
  | groups =>
    have hcons := registerRows_consistent ident keyOf rows st.keys hst
    simp only [stepC, hr, if_true, forget, mapOutC]
    rw [← registerRows_map_ident]
    refine ⟨rfl, ?_, hcons⟩
    congr 1
    rw [List.map_map, List.map_map]
    apply List.map_congr_left
    intro e he
    exact (hcons e he).symm

omit [DecidableEq κ] in
/-- Any sequence of calls on any number of objects, any identity function: the results, with every key
replaced by its identity, are those of the same calls on the frame keyed by identity. -/
theorem runCallsC_forget (P : Program) (hr : P.registers = true) (ident : κ → ι) (keyOfs : Nat → ρ → κ)
    (cell : ρ → String → Option Int) (calls : List (Nat × Op)) :
    ∀ (src : Source ρ) (sts : Nat → ObjState ι κ), (∀ g, Consistent ident (sts g).keys) →
      (runCallsC P ident keyOfs cell src sts calls).map (mapOutC ident)
        = runCallsC P (fun x : ι => x) (fun g r => ident (keyOfs g r)) cell src (fun g => forget (sts g)) calls := by
  induction calls with
  | nil => intro _ _ _; rfl
  | cons c calls ih =>
    intro src sts hsts
    obtain ⟨g, op⟩ := c
    simp only [runCallsC, List.map_cons]
    obtain ⟨h1, h2, h3⟩ := stepC_forget P hr ident (keyOfs g) cell (iterate P src).1 (sts (slot P g)) (hsts _) op
    rw [h2, ih]
    · congr 2
      funext j
      by_cases hj : j = slot P g
      · simp only [hj, if_true]
        exact h1
      · simp only [hj, if_false]
    · intro j
      by_cases hj : j = slot P g
      · simp only [hj, if_true]
        exact h3
      · simp only [hj, if_false]
        exact hsts j

omit [DecidableEq κ] in
/-- **Any sequence of calls on any number of fresh objects of one frame, any identity function** (equal
keys written differently included): every result, with each key replaced by its identity, is what the
functional model returns for that call alone on the frame keyed by identity. -/
theorem runCallsC_by_identity {P : Program} (G : Good P) (ident : κ → ι) (keyOfs : Nat → ρ → κ)
    (cell : ρ → String → Option Int) (rows : List ρ) (calls : List (Nat × Op)) (src : Source ρ)
    (hsrc : src = .list rows ∨ src = .gen rows false) :
    (runCallsC P ident keyOfs cell src (fun _ => ObjState.empty) calls).map (mapOutC ident)
      = calls.map fun c => liftOut (stepS (fun r => ident (keyOfs c.1 r)) cell rows [] c.2).2 := by
  rw [runCallsC_forget P G.registers ident keyOfs cell calls src _ (fun g e he => by simp [ObjState.empty] at he)]
  exact runCallsC_ok G (ident := fun x : ι => x) (fun _ _ h => h) (fun g r => ident (keyOfs g r)) cell rows calls src _
    hsrc (fun g => ⟨fun e he => by simp [forget, ObjState.empty] at he, Or.inl (by simp [forget, ObjState.empty])⟩)

/-- Relabelling the keys injectively relabels the reference table. -/
theorem reference_map_inj {f : κ → ι} (hf : Function.Injective f) (keyOf : ρ → κ)
    (cell : ρ → String → Option Int) (rows : List ρ) (reqs : List Req) :
    reference (fun r => f (keyOf r)) cell rows reqs =
      (reference keyOf cell rows reqs).map fun ka => (f ka.1, ka.2) := by
  unfold reference groupKeys
  have : rows.map (fun r => f (keyOf r)) = (rows.map keyOf).map f := by rw [List.map_map]; rfl
  rw [this, firstSeen_map_inj hf, List.map_map, List.map_map]
  apply List.map_congr_left
  intro k _
  simp only [Function.comp]
  rw [members_ident hf]

end

/-- The identity of `tuple(…)` is the key as `==` sees it, tagged. -/
theorem identKeyOf_tuple (k : List PyVal) :
    identKeyOf .tuple k = (keyCanon k).map fun c => ((0 : Nat), c) := by
  simp [identKeyOf, keyCanon, List.map_map, Function.comp_def]

theorem tag_injective : Function.Injective (fun l : List CKey => l.map fun c => ((0 : Nat), c)) := by
  intro a b h
  induction a generalizing b with
  | nil => cases b with
    | nil => rfl
    | cons y ys => simp at h
  | cons x xs ih => cases b with
    | nil => simp at h
    | cons y ys =>
      simp only [List.map_cons, List.cons.injEq, Prod.mk.injEq, true_and] at h
      rw [h.1, ih h.2]

end GroupByCode
