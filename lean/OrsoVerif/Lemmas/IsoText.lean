import OrsoVerif.Lemmas.IsoDigits
import OrsoVerif.Model.Iso
/-! Helper lemmas for C08: the fixed-offset text path on canonical renderings. -/
namespace Iso

theorem buildDatetime_valid (dt : DateTime) (h : validDateTime dt = true) :
    buildDatetime dt.year dt.month dt.day dt.hour dt.minute dt.second = .ok (truncSeconds dt) := by
  obtain ⟨h1, h2, h3, h4, h5, h6, h7, h8, h9, _⟩ := valid_bounds h
  have h6' := daysInMonth_le dt.year dt.month
  unfold buildDatetime
  have hc : (cIntOk dt.year && cIntOk dt.month && cIntOk dt.day && cIntOk dt.hour && cIntOk dt.minute
      && cIntOk dt.second) = true := by
    simp only [cIntOk, Bool.and_eq_true, decide_eq_true_eq]; omega
  rw [hc]
  simp only [Bool.not_true, Bool.false_eq_true, if_false, Int.toNat_natCast]
  rw [if_neg (by omega), if_neg (by omega), if_neg (by omega), if_neg (by omega), if_neg (by omega),
    if_neg (by omega)]
  rfl


theorem date_facts (y m d : Nat) (t : List Char) :
    (renderDate y m d ++ t).length = 10 + t.length ∧
    idx (renderDate y m d ++ t) 4 = .ok '-' ∧ idx (renderDate y m d ++ t) 7 = .ok '-' ∧
    slice (renderDate y m d ++ t) (0, 4) = pad4 y ∧ slice (renderDate y m d ++ t) (5, 7) = pad2 m ∧
    slice (renderDate y m d ++ t) (8, 10) = pad2 d := by
  simp [renderDate, pad4, pad2, idx, slice]
  omega

theorem minute_facts (dt : DateTime) (sep : Char) (t : List Char) :
    renderMinute dt sep ++ t
      = renderDate dt.year dt.month dt.day ++ (sep :: pad2 dt.hour ++ ':' :: pad2 dt.minute ++ t) ∧
    (renderMinute dt sep ++ t).length = 16 + t.length ∧
    idx (renderMinute dt sep ++ t) 10 = .ok sep ∧ idx (renderMinute dt sep ++ t) 13 = .ok ':' ∧
    slice (renderMinute dt sep ++ t) (11, 13) = pad2 dt.hour ∧
    slice (renderMinute dt sep ++ t) (14, 16) = pad2 dt.minute := by
  simp [renderMinute, renderDate, pad4, pad2, idx, slice]
  omega

theorem second_facts (dt : DateTime) (sep : Char) (t : List Char) :
    renderSecond dt sep ++ t = renderMinute dt sep ++ (':' :: pad2 dt.second ++ t) ∧
    (renderSecond dt sep ++ t).length = 19 + t.length ∧
    idx (renderSecond dt sep ++ t) 16 = .ok ':' ∧
    slice (renderSecond dt sep ++ t) (17, 19) = pad2 dt.second := by
  simp [renderSecond, renderMinute, renderDate, pad4, pad2, idx, slice]
  omega

theorem ints_date (v : List Char) (y m d : Nat) (hy : y ≤ 9999) (hm : m ≤ 12) (hd : d ≤ 31)
    (s1 : slice v (0, 4) = pad4 y) (s2 : slice v (5, 7) = pad2 m) (s3 : slice v (8, 10) = pad2 d)
    (r : List (Nat × Nat)) :
    ints v ((0, 4) :: (5, 7) :: (8, 10) :: r) = (ints v r).bind fun xs => .ok ((y : Int) :: (m : Int) :: (d : Int) :: xs) := by
  simp only [ints, s1, s2, s3, pyInt_pad4 y (by omega), pyInt_pad2 m (by omega), pyInt_pad2 d (by omega), bind_ok]
  cases ints v r <;> rfl

/-- Pure value of Python's `a and b` / `a or b`. -/
def scb (j a b : Bool) : Bool := if j then a && b else a || b

theorem shortCircuit_ok (j a b : Bool) : shortCircuit j a (.ok b) = .ok (scb j a b) := by
  cases j <;> cases a <;> cases b <;> rfl

/-- **What the round-trip lemmas need from the generated guards and offsets** (`Gen.Iso`): they
accept the canonical renderings.  Proved in `Props/C08.lean` (`guards_accept_canonical_renderings`)
against the expressions extracted from the source on this run. -/
structure Accepts : Prop where
  idx : Gen.Iso.dashA = 4 ∧ Gen.Iso.dashB = 7 ∧ Gen.Iso.sepIdx = 10 ∧ Gen.Iso.colonA = 13 ∧ Gen.Iso.colonB = 16
  slices : Gen.Iso.slicesDate = [(0, 4), (5, 7), (8, 10)] ∧
    Gen.Iso.slicesSec = [(0, 4), (5, 7), (8, 10), (11, 13), (14, 16), (17, 19)] ∧
    Gen.Iso.slicesMin = [(0, 4), (5, 7), (8, 10), (11, 13), (14, 16)]
  chars : Gen.Iso.zChar = 'Z' ∧ Gen.Iso.plusChar = '+'
  window : ∀ n : Int, 10 ≤ n → n ≤ 33 → Gen.Iso.lenWindow n
  plus : ∀ n : Int, 10 ≤ n → n ≤ 28 → ¬ Gen.Iso.plusReject n
  dash : scb Gen.Iso.dashJoinAnd (decide (Gen.Iso.dashTestA '-')) (decide (Gen.Iso.dashTestB '-')) = false
  sep : ∀ c, c = 'T' ∨ c = ' ' →
    scb Gen.Iso.sepJoinAnd (decide (Gen.Iso.sepTestA c)) (decide (Gen.Iso.sepTestB ':')) = false
  dateLen : Gen.Iso.dateLenTest 10
  timeLen : ∀ n : Int, 16 ≤ n → ¬ Gen.Iso.dateLenTest n ∧ Gen.Iso.timeLenTest n
  minLen : Gen.Iso.minLenTest 16 ∧ ¬ Gen.Iso.secLenTest 16
  secLen : ∀ n : Int, 19 ≤ n → Gen.Iso.secLenTest n
  secChar : Gen.Iso.secCharTest ':'

/-- The three shapes of `shaped`, from abstract facts about the text. -/
theorem shaped_of_facts (A : Accepts) (v : List Char) (dt : DateTime) (h : validDateTime dt = true)
    (i4 : idx v 4 = .ok '-') (i7 : idx v 7 = .ok '-')
    (s1 : slice v (0, 4) = pad4 dt.year) (s2 : slice v (5, 7) = pad2 dt.month)
    (s3 : slice v (8, 10) = pad2 dt.day) :
    (v.length = 10 → dt.hour = 0 → dt.minute = 0 → dt.second = 0 →
      shaped v = .ok (some (truncSeconds dt))) ∧
    (∀ sep, (sep = 'T' ∨ sep = ' ') → idx v 10 = .ok sep → idx v 13 = .ok ':' →
      slice v (11, 13) = pad2 dt.hour → slice v (14, 16) = pad2 dt.minute →
      ((v.length = 16 → dt.second = 0 → shaped v = .ok (some (truncSeconds dt))) ∧
       (19 ≤ v.length → idx v 16 = .ok ':' → slice v (17, 19) = pad2 dt.second →
          shaped v = .ok (some (truncSeconds dt))))) := by
  obtain ⟨h1, h2, h3, h4, h5, h6, h7, h8, h9, _⟩ := valid_bounds h
  obtain ⟨x4, x7, x10, x13, x16⟩ := A.idx
  obtain ⟨sl1, sl2, sl3⟩ := A.slices
  have h6' := daysInMonth_le dt.year dt.month
  have hI := ints_date v dt.year dt.month dt.day h2 h4 (by omega) s1 s2 s3
  have hb := buildDatetime_valid dt h
  have hdash : dashReject v = .ok false := by
    simp only [dashReject, x4, x7, i4, i7, bind_ok, shortCircuit_ok, A.dash]
  refine ⟨?_, ?_⟩
  · intro hl hH hM hS
    have hb0 : buildDatetime dt.year dt.month dt.day 0 0 0 = .ok (truncSeconds dt) := by
      have := hb; rw [hH, hM, hS] at this; exact this
    have t1 : Gen.Iso.dateLenTest (v.length : Int) := by
      rw [show (v.length : Int) = 10 by omega]; exact A.dateLen
    simp only [shaped, hdash, bind_ok, Bool.false_eq_true, if_false, t1, if_true, fields, sl1,
      hI, ints, mkDatetime, hb0]
  · intro sep hsep i10 i13 s4 s5
    have hrej : sepReject v = .ok false := by
      simp only [sepReject, x10, x13, i10, i13, bind_ok, shortCircuit_ok, A.sep sep hsep]
    have p4 := pyInt_pad2 dt.hour (by omega)
    have p5 := pyInt_pad2 dt.minute (by omega)
    refine ⟨?_, ?_⟩
    · intro hl hS
      have e16 : (v.length : Int) = 16 := by omega
      have hsec : hasSeconds v = .ok false := by
        have a1 : decide (Gen.Iso.secLenTest (v.length : Int)) = false :=
          decide_eq_false (by rw [e16]; exact A.minLen.2)
        simp only [hasSeconds, shortCircuit, a1, if_true, Bool.false_eq_true, if_false]
      have hb0 : buildDatetime dt.year dt.month dt.day dt.hour dt.minute 0 = .ok (truncSeconds dt) := by
        have := hb; rw [hS] at this; exact this
      obtain ⟨t1, t2⟩ := A.timeLen (v.length : Int) (by omega)
      have t3 : Gen.Iso.minLenTest (v.length : Int) := by rw [e16]; exact A.minLen.1
      simp only [shaped, hdash, hrej, hsec, bind_ok, Bool.false_eq_true, if_false, t1, t2, t3, if_true, fields,
        sl3, hI, ints, s4, s5, p4, p5, mkDatetime, hb0]
    · intro hl i16 s6
      have hsec : hasSeconds v = .ok true := by
        have a1 : decide (Gen.Iso.secLenTest (v.length : Int)) = true :=
          decide_eq_true (A.secLen _ (by omega))
        have a2 : decide (Gen.Iso.secCharTest ':') = true := decide_eq_true A.secChar
        simp only [hasSeconds, shortCircuit, a1, if_true, x16, i16, bind_ok, a2]
      have p6 := pyInt_pad2 dt.second (by omega)
      obtain ⟨t1, t2⟩ := A.timeLen (v.length : Int) (by omega)
      simp only [shaped, hdash, hrej, hsec, bind_ok, Bool.false_eq_true, if_false, t1, t2, if_true, fields,
        sl2, hI, ints, s4, s5, s6, p4, p5, p6, mkDatetime, hb]

/-- Canonical seconds-form text followed by anything parses to the date-time. -/
theorem shaped_second (A : Accepts) (dt : DateTime) (h : validDateTime dt = true) (sep : Char)
    (hsep : sep = 'T' ∨ sep = ' ') (t : List Char) :
    shaped (renderSecond dt sep ++ t) = .ok (some (truncSeconds dt)) := by
  obtain ⟨e1, l1, i16, s6⟩ := second_facts dt sep t
  obtain ⟨e2, _, i10, i13, s4, s5⟩ := minute_facts dt sep (':' :: pad2 dt.second ++ t)
  obtain ⟨_, i4, i7, s1, s2, s3⟩ := date_facts dt.year dt.month dt.day
    (sep :: pad2 dt.hour ++ ':' :: pad2 dt.minute ++ (':' :: pad2 dt.second ++ t))
  rw [← e2, ← e1] at i4 i7 s1 s2 s3
  rw [← e1] at i10 i13 s4 s5
  exact ((shaped_of_facts A _ dt h i4 i7 s1 s2 s3).2 sep hsep i10 i13 s4 s5).2 (by omega) i16 s6

/-- Canonical minute-form text (exactly 16 characters). -/
theorem shaped_minute (A : Accepts) (dt : DateTime) (h : validDateTime dt = true) (hS : dt.second = 0) (sep : Char)
    (hsep : sep = 'T' ∨ sep = ' ') :
    shaped (renderMinute dt sep) = .ok (some (truncSeconds dt)) := by
  obtain ⟨e2, l2, i10, i13, s4, s5⟩ := minute_facts dt sep []
  obtain ⟨_, i4, i7, s1, s2, s3⟩ := date_facts dt.year dt.month dt.day
    (sep :: pad2 dt.hour ++ ':' :: pad2 dt.minute ++ [])
  rw [← e2] at i4 i7 s1 s2 s3
  simp only [List.append_nil] at *
  exact ((shaped_of_facts A _ dt h i4 i7 s1 s2 s3).2 sep hsep i10 i13 s4 s5).1 (by omega) hS

/-- Canonical date-only text (exactly 10 characters). -/
theorem shaped_date (A : Accepts) (y m d : Nat) (h : validDate y m d = true) :
    shaped (renderDate y m d) = .ok (some ⟨y, m, d, 0, 0, 0, 0⟩) := by
  obtain ⟨l, i4, i7, s1, s2, s3⟩ := date_facts y m d []
  simp only [List.append_nil] at *
  have hv : validDateTime ⟨y, m, d, 0, 0, 0, 0⟩ = true := by simp [validDateTime, h]
  exact (shaped_of_facts A _ ⟨y, m, d, 0, 0, 0, 0⟩ hv i4 i7 s1 s2 s3).1 (by omega) rfl rfl rfl

/-! ### The `Z` strip and the `+` split -/

/-- Neither `Z` nor `+`. -/
def plainC (c : Char) : Bool := c != 'Z' && c != '+'

theorem plainC_digit (n : Nat) : plainC (digit n) = true := by
  have h1 : digit n ≠ 'Z' := digit_ne (by decide)
  have h2 : digit n ≠ '+' := digit_ne (by decide)
  simp [plainC, h1, h2]

theorem plainC_of_isDigit {c : Char} (h : c.isDigit = true) : plainC c = true := by
  have h1 : c ≠ 'Z' := ne_of_isDigit h (by decide)
  have h2 : c ≠ '+' := ne_of_isDigit h (by decide)
  simp [plainC, h1, h2]

theorem noZ_last (l : List Char) (h : ∀ c ∈ l, c ≠ 'Z') : l.getLast? ≠ some 'Z' := by
  intro e
  exact h 'Z' (List.mem_of_getLast? e) rfl

theorem noPlus_contains (l : List Char) (h : ∀ c ∈ l, c ≠ '+') : l.contains '+' = false := by
  rw [Bool.eq_false_iff]
  intro e
  rw [List.contains_iff_mem] at e
  exact h '+' e rfl

theorem takeWhile_plus (l r : List Char) (h : ∀ c ∈ l, c ≠ '+') :
    (l ++ '+' :: r).takeWhile (· != '+') = l := by
  induction l with
  | nil => simp
  | cons a t ih =>
    have ha : a ≠ '+' := h a List.mem_cons_self
    simp only [List.cons_append, List.takeWhile_cons, bne_iff_ne, ne_eq, ha, not_false_eq_true, if_true]
    rw [ih (fun c hc => h c (List.mem_cons_of_mem _ hc))]

theorem plain_split {l : List Char} (h : l.all plainC = true) :
    (∀ c ∈ l, c ≠ 'Z') ∧ (∀ c ∈ l, c ≠ '+') := by
  rw [List.all_eq_true] at h
  constructor <;> intro c hc <;> have := h c hc <;> simp [plainC] at this <;> simp [this]

/-- No `Z` at the end and no `+`: the text goes to `shaped` unchanged. -/
theorem textPath_plain (A : Accepts) (v : List Char) (h : v.all plainC = true) (h1 : 10 ≤ v.length) (h2 : v.length ≤ 33) :
    textPath v = shaped v := by
  obtain ⟨hz, hp⟩ := plain_split h
  have hw : Gen.Iso.lenWindow (v.length : Int) := A.window _ (by omega) (by omega)
  have hl : ¬ (v.getLast? = some Gen.Iso.zChar) := by rw [A.chars.1]; exact noZ_last v hz
  have hc : v.contains Gen.Iso.plusChar = false := by rw [A.chars.2]; exact noPlus_contains v hp
  simp only [textPath, hw, hl, hc, if_true, if_false, Bool.false_eq_true]

/-- A trailing `Z` is dropped. -/
theorem textPath_z (A : Accepts) (v : List Char) (h : v.all plainC = true) (h1 : 9 ≤ v.length) (h2 : v.length ≤ 32) :
    textPath (v ++ ['Z']) = shaped v := by
  obtain ⟨hz, hp⟩ := plain_split h
  have hw : Gen.Iso.lenWindow ((v ++ ['Z']).length : Int) :=
    A.window _ (by simp only [List.length_append, List.length_cons, List.length_nil]; omega)
      (by simp only [List.length_append, List.length_cons, List.length_nil]; omega)
  have hl : (v ++ ['Z']).getLast? = some Gen.Iso.zChar := by rw [A.chars.1]; simp
  have hd : (v ++ ['Z']).dropLast = v := by simp
  have hc : v.contains Gen.Iso.plusChar = false := by rw [A.chars.2]; exact noPlus_contains v hp
  simp only [textPath, hw, hl, hd, hc, if_true, if_false, Bool.false_eq_true]

/-- Everything from the first `+` on is dropped. -/
theorem textPath_plus (A : Accepts) (v r : List Char) (h : v.all plainC = true) (hr : ∀ c ∈ r, c ≠ 'Z')
    (h1 : 10 ≤ v.length) (h2 : v.length ≤ 28) (h3 : v.length + 1 + r.length ≤ 33) :
    textPath (v ++ '+' :: r) = shaped v := by
  obtain ⟨hz, hp⟩ := plain_split h
  have hz' : ∀ c ∈ v ++ '+' :: r, c ≠ 'Z' := by
    intro c hc
    rcases List.mem_append.mp hc with hc | hc
    · exact hz c hc
    · rcases List.mem_cons.mp hc with rfl | hc
      · decide
      · exact hr c hc
  have hc : (v ++ '+' :: r).contains Gen.Iso.plusChar = true := by
    rw [A.chars.2, List.contains_iff_mem]; simp
  have hw : Gen.Iso.lenWindow ((v ++ '+' :: r).length : Int) :=
    A.window _ (by simp only [List.length_append, List.length_cons]; omega)
      (by simp only [List.length_append, List.length_cons]; omega)
  have hl : ¬ ((v ++ '+' :: r).getLast? = some Gen.Iso.zChar) := by rw [A.chars.1]; exact noZ_last _ hz'
  have ht : (v ++ '+' :: r).takeWhile (· != Gen.Iso.plusChar) = v := by
    rw [A.chars.2]; exact takeWhile_plus v r hp
  have hw2 : ¬ Gen.Iso.plusReject (v.length : Int) := A.plus _ (by omega) (by omega)
  simp only [textPath, hw, hl, hc, ht, hw2, if_true, if_false]

/-! ### Character sets and lengths of the renderings -/

theorem plain_renderSecond (dt : DateTime) (sep : Char) (hsep : sep = 'T' ∨ sep = ' ') :
    (renderSecond dt sep).all plainC = true ∧ (renderSecond dt sep).length = 19 := by
  have hs : plainC sep = true := by rcases hsep with rfl | rfl <;> decide
  have hd : plainC '-' = true := by decide
  have hc : plainC ':' = true := by decide
  simp [renderSecond, renderMinute, renderDate, pad4, pad2, plainC_digit, hs, hd, hc]

theorem plain_renderMinute (dt : DateTime) (sep : Char) (hsep : sep = 'T' ∨ sep = ' ') :
    (renderMinute dt sep).all plainC = true ∧ (renderMinute dt sep).length = 16 := by
  have hs : plainC sep = true := by rcases hsep with rfl | rfl <;> decide
  have hd : plainC '-' = true := by decide
  have hc : plainC ':' = true := by decide
  simp [renderMinute, renderDate, pad4, pad2, plainC_digit, hs, hd, hc]

theorem plain_renderDate (y m d : Nat) :
    (renderDate y m d).all plainC = true ∧ (renderDate y m d).length = 10 := by
  have hd : plainC '-' = true := by decide
  simp [renderDate, pad4, pad2, plainC_digit, hd]

theorem plain_fraction (micro k : Nat) :
    (fraction micro k).all plainC = true ∧ (fraction micro k).length ≤ 7 := by
  unfold fraction
  split
  · simp
  · have hdot : plainC '.' = true := by decide
    refine ⟨?_, ?_⟩
    · simp only [List.all_cons, hdot, Bool.true_and, List.all_eq_true]
      intro c hc
      have := List.mem_of_mem_take hc
      simp only [pad6, List.mem_cons, List.not_mem_nil, or_false] at this
      rcases this with rfl | rfl | rfl | rfl | rfl | rfl <;> exact plainC_digit _
    · simp only [List.length_cons, List.length_take, pad6, List.length_nil]
      omega

theorem plain_offset (h m : Nat) :
    (pad2 h ++ ':' :: pad2 m).all plainC = true ∧ (pad2 h ++ ':' :: pad2 m).length = 5 := by
  have hc : plainC ':' = true := by decide
  simp [pad2, plainC_digit, hc]

theorem plain_offsetBasic (h m : Nat) :
    (pad2 h ++ pad2 m).all plainC = true ∧ (pad2 h ++ pad2 m).length = 4 := by
  simp [pad2, plainC_digit]

theorem plain_pad2 (h : Nat) : (pad2 h).all plainC = true ∧ (pad2 h).length = 2 := by
  simp [pad2, plainC_digit]

end Iso

namespace Iso
theorem decodeUtf8_toUTF8 (s : String) : decodeUtf8 s.toUTF8.data.toList = some s.toList := by
  unfold decodeUtf8
  have : (ByteArray.mk s.toUTF8.data.toList.toArray) = s.toUTF8 := by simp
  rw [this]
  simp only [String.fromUTF8?, String.toUTF8_eq_toByteArray]
  rw [dif_pos s.isValidUTF8]
  rfl
end Iso

namespace Iso
theorem notDigit_renderDate (y m d : Nat) (t : List Char) : isDigitStr (renderDate y m d ++ t) = false := by
  have : '-'.isDigit = false := by decide
  simp [isDigitStr, renderDate, pad4, pad2, this]

/-- **The generated string branch is the skeleton.**  `Gen.IsoText.textBranch` is the program
written by `harness/pystmt.py` from the statements of `parse_iso`'s string branch on this run and
is what `parseIso` runs; `textPath` is the hand-written skeleton the lemmas reason about.  Proved in
`Props/C08.lean` (`text_branch_refines_skeleton`) for every text. -/
structure Refines : Prop where
  text : ∀ v : List Char, Gen.IsoText.textBranch v = textPath v

theorem strBody_skel (R : Refines) (s : List Char) : strBody s = strBodySkel s := by
  unfold strBody strBodySkel; rw [R.text]

theorem parseIso_text (R : Refines) (v : List Char) (hd : isDigitStr v = false) (dt : DateTime)
    (h : textPath v = .ok (some dt)) : parseIso (.str v) = .value dt := by
  simp [parseIso, parseIsoWith, body, strBody, hd, R.text, h]

theorem textPath_dropped (A : Accepts) (v : List Char) (hp : v.all plainC = true) (h1 : 10 ≤ v.length)
    (h2 : v.length ≤ 26) (suf : Suffix) (hs : suf.dropped = true) :
    textPath (v ++ suf.text) = shaped v := by
  cases suf with
  | none => simp only [Suffix.text, List.append_nil]; exact textPath_plain A v hp h1 (by omega)
  | z => exact textPath_z A v hp (by omega) (by omega)
  | plus hh mm =>
    obtain ⟨p3, l3⟩ := plain_offset hh mm
    have e : Suffix.text (.plus hh mm) = '+' :: (pad2 hh ++ ':' :: pad2 mm) := rfl
    rw [e]
    exact textPath_plus A v _ hp (plain_split p3).1 h1 (by omega) (by omega)
  | minus hh mm => cases hs
  | plusBasic hh mm =>
    obtain ⟨p3, l3⟩ := plain_offsetBasic hh mm
    have e : Suffix.text (.plusBasic hh mm) = '+' :: (pad2 hh ++ pad2 mm) := rfl
    rw [e]
    exact textPath_plus A v _ hp (plain_split p3).1 h1 (by omega) (by omega)
  | minusBasic hh mm => cases hs
  | plusHour hh =>
    obtain ⟨p3, l3⟩ := plain_pad2 hh
    have e : Suffix.text (.plusHour hh) = '+' :: pad2 hh := rfl
    rw [e]
    exact textPath_plus A v _ hp (plain_split p3).1 h1 (by omega) (by omega)
  | minusHour hh => cases hs

end Iso
