import OrsoVerif.Lemmas.DistogramState
/-!
# Stage 2 of C13, part 1: the cache of the faithful machine is coherent

After every operation of the faithful machine (`update`, `merge`, `+`, bulk load, `load`), whenever
`diffs` is set it is the list of adjacent differences of the bins and `min_diff` is its minimum.
-/
namespace Distogram
set_option linter.unusedSectionVars false
set_option linter.unusedVariables false

variable {K : Type} [Field K] [LinearOrder K] [IsStrictOrderedRing K]

theorem bind_eq_ok {α β : Type} {x : Except String α} {f : α → Except String β} {b : β}
    (h : x.bind f = .ok b) : ∃ a, x = .ok a ∧ f a = .ok b := by
  cases x with
  | error e => simp [Except.bind] at h
  | ok a => exact ⟨a, rfl, by simpa [Except.bind] using h⟩

/-- The gap right of bin `k`, if both bins exist. -/
def gapAt (bins : List (K × K)) (k : Nat) : Option K :=
  match bins[k]?, bins[k + 1]? with
  | some a, some b => some (b.1 - a.1)
  | _, _ => none

theorem gaps_getElem? : ∀ (bins : List (K × K)) (k : Nat), (gaps bins)[k]? = gapAt bins k
  | [], k => by simp [gaps, gapAt]
  | [a], k => by cases k <;> simp [gaps, gapAt]
  | a :: b :: rest, 0 => by simp [gaps, gapAt]
  | a :: b :: rest, k + 1 => by
    have := gaps_getElem? (b :: rest) k
    simp only [gaps, List.getElem?_cons_succ, this, gapAt]

theorem eq_gaps_iff (d : List K) (bins : List (K × K)) : d = gaps bins ↔ ∀ k, d[k]? = gapAt bins k := by
  constructor
  · intro h k; rw [h, gaps_getElem?]
  · intro h; apply List.ext_getElem?; intro k; rw [h k, gaps_getElem?]

/-- `md` is the minimum of `d` (`none` = +∞ exactly when `d` is empty). -/
def IsMinOpt (md : Option K) (d : List K) : Prop :=
  match md with
  | none => d = []
  | some m => m ∈ d ∧ ∀ x ∈ d, m ≤ x

theorem foldl_min_spec : ∀ (xs : List K) (x : K),
    (xs.foldl (fun m y => if y < m then y else m) x ∈ x :: xs) ∧
    ∀ y ∈ x :: xs, xs.foldl (fun m y => if y < m then y else m) x ≤ y
  | [], x => by simp
  | z :: zs, x => by
    simp only [List.foldl_cons]
    by_cases hzx : z < x
    · rw [if_pos hzx]
      obtain ⟨hm, hall⟩ := foldl_min_spec zs z
      refine ⟨List.mem_cons_of_mem _ hm, ?_⟩
      intro y hy
      simp only [List.mem_cons] at hy
      rcases hy with rfl | hy
      · exact le_trans (hall z (by simp)) (le_of_lt hzx)
      · exact hall y (by simpa using hy)
    · rw [if_neg hzx]
      obtain ⟨hm, hall⟩ := foldl_min_spec zs x
      constructor
      · simp only [List.mem_cons] at hm ⊢
        rcases hm with h | h
        · exact Or.inl h
        · exact Or.inr (Or.inr h)
      · intro y hy
        simp only [List.mem_cons] at hy
        rcases hy with rfl | rfl | hy
        · exact hall _ (by simp)
        · exact le_trans (hall x (by simp)) (not_lt.mp hzx)
        · exact hall y (by simp [hy])

theorem listMin_isMin (d : List K) : IsMinOpt (listMin d) d := by
  cases d with
  | nil => simp [listMin, IsMinOpt]
  | cons x xs =>
    simp only [listMin, IsMinOpt]
    exact foldl_min_spec xs x

theorem ltMinDiff_iff (x : K) (m : Option K) : ltMinDiff x m = true ↔ ∀ y, m = some y → x < y := by
  cases m <;> simp [ltMinDiff_def]

theorem eqMinDiff_iff (x : K) (m : Option K) : eqMinDiff x m = true ↔ m = some x := by
  cases m with
  | none => simp [eqMinDiff_def]
  | some y =>
    simp only [eqMinDiff_def, Option.some.injEq]
    unfold eqK Gen.DistogramExpr.eqK
    simp only [Bool.and_eq_true, decide_eq_true_eq]
    exact ⟨fun h => le_antisymm h.2 h.1, fun h => by rw [h]; exact ⟨le_refl _, le_refl _⟩⟩

/-- The cache of a faithful state: when `diffs` is set, the histogram is not empty, `diffs` are the
adjacent differences and `min_diff` is their minimum. -/
def Coherent (h : Hist K) : Prop :=
  ∀ d, h.diffs = some d → h.bins ≠ [] ∧ d = gaps h.bins ∧ IsMinOpt h.minDiff d

/-! ## one block of `_update_diffs` -/

/-- `min_diff` tracking while some positions `P` of the cache are still stale: unless a recomputation
is already scheduled, `min_diff` bounds every settled entry and is attained somewhere. -/
def Track (P : Nat → Prop) (st : List K × Option K × Bool) : Prop :=
  st.2.2 = false →
    (∀ k x, ¬ P k → st.1[k]? = some x → ∃ m, st.2.1 = some m ∧ m ≤ x) ∧
    (∀ m, st.2.1 = some m → ∃ k : Nat, st.1[k]? = some m)

theorem pointUpdate_ok {st st' : List K × Option K × Bool} {j : Nat} {nd : K}
    (h : pointUpdate st j nd = .ok st') :
    ∃ old, st.1[j]? = some old ∧ st'.1 = st.1.set j nd ∧
      st'.2.1 = (if ltMinDiff nd st.2.1 then some nd else st.2.1) ∧
      st'.2.2 = (st.2.2 || eqMinDiff old st.2.1) := by
  unfold pointUpdate at h
  split at h
  · rename_i old ho
    simp only [Except.ok.injEq] at h
    exact ⟨old, ho, by rw [← h], by rw [← h], by rw [← h]⟩
  · simp at h

theorem pointUpdate_track {P : Nat → Prop} {st st' : List K × Option K × Bool} {j : Nat} {nd : K}
    (ht : Track P st) (h : pointUpdate st j nd = .ok st') :
    Track (fun k => P k ∧ k ≠ j) st' := by
  obtain ⟨old, ho, hd, hm, hu⟩ := pointUpdate_ok h
  have hj : j < st.1.length := (List.getElem?_eq_some_iff.mp ho).1
  unfold Track at ht ⊢
  intro hf
  rw [hu] at hf
  simp only [Bool.or_eq_false_iff] at hf
  obtain ⟨hf1, hf2⟩ := hf
  obtain ⟨lb, att⟩ := ht hf1
  have hne : st.2.1 ≠ some old := fun hc => by
    have := (eqMinDiff_iff old st.2.1).mpr hc
    rw [this] at hf2; cases hf2
  constructor
  · intro k x hk hx
    rw [hd, List.getElem?_set] at hx
    by_cases hjk : j = k
    · rw [if_pos hjk, if_pos hj] at hx
      simp only [Option.some.injEq] at hx
      subst hx
      rw [hm]
      by_cases hl : ltMinDiff nd st.2.1 = true
      · rw [if_pos hl]; exact ⟨nd, rfl, le_refl _⟩
      · rw [if_neg hl]
        cases hmd : st.2.1 with
        | none => rw [hmd] at hl; simp [ltMinDiff_def] at hl
        | some m =>
          rw [hmd] at hl
          simp only [ltMinDiff_def, decide_eq_true_eq] at hl
          exact ⟨m, rfl, not_lt.mp hl⟩
    · rw [if_neg hjk] at hx
      have hPk : ¬ P k := fun hp => hk ⟨hp, fun e => hjk e.symm⟩
      obtain ⟨m, hm1, hm2⟩ := lb k x hPk hx
      rw [hm]
      by_cases hl : ltMinDiff nd st.2.1 = true
      · rw [if_pos hl]
        have := (ltMinDiff_iff nd st.2.1).mp hl m hm1
        exact ⟨nd, rfl, le_trans (le_of_lt this) hm2⟩
      · rw [if_neg hl]; exact ⟨m, hm1, hm2⟩
  · intro m hm'
    rw [hm] at hm'
    by_cases hl : ltMinDiff nd st.2.1 = true
    · rw [if_pos hl] at hm'
      simp only [Option.some.injEq] at hm'
      subst hm'
      exact ⟨j, by rw [hd, List.getElem?_set, if_pos rfl, if_pos hj]⟩
    · rw [if_neg hl] at hm'
      obtain ⟨k, hk⟩ := att m hm'
      have hkj : j ≠ k := by
        intro e; subst e
        rw [ho] at hk
        simp only [Option.some.injEq] at hk
        exact hne (by rw [hm', hk])
      exact ⟨k, by rw [hd, List.getElem?_set, if_neg hkj]; exact hk⟩

/-- With nothing stale left, the tracked `min_diff` (or its recomputation) is the minimum. -/
theorem track_done {st : List K × Option K × Bool} {md : Option K} (ht : Track (fun _ => False) st)
    (hmd : finishMin st = .ok md) : IsMinOpt md st.1 := by
  unfold Track at ht
  unfold finishMin at hmd
  cases hu : st.2.2 with
  | true =>
    rw [hu] at hmd
    simp only [if_true] at hmd
    have := listMin_isMin st.1
    cases hl : listMin st.1 with
    | none => rw [hl] at hmd; simp at hmd
    | some m =>
      rw [hl] at hmd this
      simp only [Except.ok.injEq] at hmd
      rw [← hmd]; exact this
  | false =>
    rw [hu] at hmd
    simp only [Bool.false_eq_true, if_false, Except.ok.injEq] at hmd
    obtain ⟨lb, att⟩ := ht hu
    rw [← hmd]
    cases hm : st.2.1 with
    | none =>
      simp only [IsMinOpt]
      cases hd : st.1 with
      | nil => rfl
      | cons x xs =>
        obtain ⟨m, h1, _⟩ := lb 0 x (fun h => h) (by rw [hd]; rfl)
        rw [hm] at h1; cases h1
    | some m =>
      simp only [IsMinOpt]
      obtain ⟨k, hk⟩ := att m hm
      refine ⟨List.mem_of_getElem? hk, ?_⟩
      intro x hx
      obtain ⟨k', hk'⟩ := List.getElem?_of_mem hx
      obtain ⟨m', h1, h2⟩ := lb k' x (fun h => h) hk'
      rw [hm] at h1
      simp only [Option.some.injEq] at h1
      rw [h1]; exact h2

/-! ## `_update_diffs` as a whole -/

/-- The cache positions `_update_diffs(h, i)` rewrites: the gap left of bin `i` and the gap right of it. -/
def Pend (len i : Nat) (k : Nat) : Prop := (0 < i ∧ k = i - 1) ∨ (i + 1 < len ∧ k = i)

theorem track_congr {P Q : Nat → Prop} {st : List K × Option K × Bool} (h : ∀ k, P k ↔ Q k) (ht : Track P st) :
    Track Q st := by
  unfold Track at ht ⊢
  intro hf
  obtain ⟨lb, att⟩ := ht hf
  exact ⟨fun k x hk hx => lb k x (fun hp => hk ((h k).mp hp)) hx, att⟩

/-- One optional block: either it does not run, or it is a `pointUpdate` at `j` storing the gap right of bin `j`. -/
theorem block_spec {bins : List (K × K)} {st st' : List K × Option K × Bool} {c : Bool}
    {j : Nat} {P : Nat → Prop}
    (hb : diffBlock bins st c j = .ok st')
    (ht : Track P st) (hpt : ∀ k, ¬ P k → st.1[k]? = gapAt bins k) :
    Track (fun k => P k ∧ ¬ (c = true ∧ k = j)) st' ∧
    (∀ k, ¬ (P k ∧ ¬ (c = true ∧ k = j)) → st'.1[k]? = gapAt bins k) ∧
    st'.1.length = st.1.length := by
  rw [diffBlock_def] at hb
  by_cases hc : c = true
  · rw [if_pos hc] at hb
    split at hb
    · rename_i bn bi hbn hbi
      have htr := pointUpdate_track ht hb
      obtain ⟨old, ho, hd, _, _⟩ := pointUpdate_ok hb
      have hj : j < st.1.length := (List.getElem?_eq_some_iff.mp ho).1
      refine ⟨track_congr (fun k => by simp [hc]) htr, ?_, by rw [hd]; simp⟩
      intro k hk
      rw [hd, List.getElem?_set]
      by_cases hjk : j = k
      · subst hjk
        rw [if_pos rfl, if_pos hj]
        simp [gapAt, hbn, hbi]
      · rw [if_neg hjk]
        apply hpt
        intro hp
        exact hk ⟨hp, fun ⟨_, e⟩ => hjk e.symm⟩
    · simp at hb
  · rw [if_neg hc] at hb
    simp only [Except.ok.injEq] at hb
    subst hb
    refine ⟨track_congr (fun k => by simp [hc]) ht, ?_, rfl⟩
    intro k hk
    apply hpt
    intro hp
    exact hk ⟨hp, fun ⟨c', _⟩ => hc c'⟩

theorem updateDiffs_none {h : Hist K} {i : Nat} (hd : h.diffs = none) : updateDiffs h i = .ok h := by
  rw [updateDiffs_def, hd]

theorem updateDiffs_coherent {h h' : Hist K} {i : Nat} (hok : updateDiffs h i = .ok h')
    (hne : h.bins ≠ [])
    (hpre : ∀ d, h.diffs = some d →
      (∀ k, ¬ Pend h.bins.length i k → d[k]? = gapAt h.bins k) ∧
      Track (Pend h.bins.length i) (d, h.minDiff, false)) :
    h'.bins = h.bins ∧ h'.min = h.min ∧ h'.max = h.max ∧ h'.cap = h.cap ∧
    (h.diffs = none → h'.diffs = none) ∧ Coherent h' := by
  cases hd : h.diffs with
  | none =>
    rw [updateDiffs_none hd] at hok
    simp only [Except.ok.injEq] at hok
    subst hok
    exact ⟨rfl, rfl, rfl, rfl, fun _ => hd, fun d hd' => by rw [hd] at hd'; cases hd'⟩
  | some d0 =>
    obtain ⟨hpt, htr⟩ := hpre d0 hd
    rw [updateDiffs_def] at hok
    rw [hd] at hok
    simp only at hok
    obtain ⟨s1, h1, hok⟩ := bind_eq_ok hok
    obtain ⟨s2, h2, hok⟩ := bind_eq_ok hok
    obtain ⟨md, h3, hok⟩ := bind_eq_ok hok
    simp only [Except.ok.injEq] at hok
    obtain ⟨t1, p1, l1⟩ := block_spec h1 htr hpt
    obtain ⟨t2, p2, l2⟩ := block_spec h2 t1 p1
    have hP : ∀ k, ((Pend h.bins.length i k ∧ ¬ (decide (0 < i) = true ∧ k = i - 1)) ∧
        ¬ (decide (i + 1 < h.bins.length) = true ∧ k = i)) ↔ False := by
      intro k; unfold Pend; simp only [decide_eq_true_eq]; tauto
    have t3 := track_congr hP t2
    have hmin := track_done t3 h3
    subst hok
    refine ⟨rfl, rfl, rfl, rfl, ?_, ?_⟩
    · intro hn; exact absurd hn (by simp)
    intro d hd'
    simp only [Option.some.injEq] at hd'
    subst hd'
    refine ⟨hne, ?_, hmin⟩
    rw [eq_gaps_iff]
    intro k
    exact p2 k (fun hp => (hP k).mp hp)

end Distogram
