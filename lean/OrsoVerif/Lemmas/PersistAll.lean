import OrsoVerif.Lemmas.Persist
import OrsoVerif.Lemmas.TypeName
/-! C16, round 2: the dictionary round trip for **every** column the constructor builds - the stored type may be
the int `0` too (`'VARIANT'`/`'0'`), and so may the element type.  `Writable` is what the written form carries; every
column that came out of `init` from keyword arguments whose enum members are real members is `Writable`
(`init_writable`), by C06's totality of `from_name` (`fromName_wf`: a resolved name is a member or the int 0). -/
namespace Persist
open TypeName (Str Ty)
open Gen.Persist

variable {V : Type}

/-- the written forms carry it: the type is a member (base type or untyped) or the int 0, so is the element type if
there is one, and the disposition is a member -/
def Writable (c : Col V) : Prop :=
  (c.type = .zero ∨ ∃ m, c.type = .member m ∧ m ∈ persistableTypes)
  ∧ (∀ e, c.element_type = some e → e = .zero ∨ ∃ m, e = .member m ∧ m ∈ persistableTypes)
  ∧ (∀ n, c.disposition = some n → n ∈ dispositions.map Prod.fst)

theorem writable_of_persistable (c : Col V) (h : Persistable c) : Writable c :=
  ⟨.inr h.1, fun e he => .inr (h.2.1 e he), h.2.2⟩

/-- keyword arguments are well typed: an `OrsoTypes` / `ColumnDisposition` member passed in is a member of the enum -/
def WellTyped (r : Raw V) : Prop :=
  (∀ m, r.type = some (.member m) → m ∈ persistableTypes)
  ∧ (∀ m, r.element_type = some (some (.member m)) → m ∈ persistableTypes)
  ∧ (∀ n, r.disposition = some (some (.member n)) → n ∈ dispositions.map Prod.fst)

/-! ### `from_name` gives a member or the int 0 (C06's totality, re-derived from its lemmas) -/

theorem fromName_total' (name : Str) : TypeName.Total (TypeName.fromName name) :=
  TypeName.fromNameU_total TypeName.Chars.ascii TypeName.Chars.ascii_sane.int_err name

theorem members_persistable : ∀ m ∈ TypeName.memberNames, m ∈ persistableTypes := by decide

theorem isMember_persistable {m : Str} (h : TypeName.isMember m = true) : m ∈ persistableTypes := by
  apply members_persistable
  simpa [TypeName.isMember] using h

theorem fromName_wf {name : Str} {d : TypeName.Desc} (h : TypeName.fromName name = .ok d) :
    (d.ty = .zero ∨ ∃ m, d.ty = .member m ∧ m ∈ persistableTypes)
    ∧ (∀ e, d.elem = some e → e ∈ persistableTypes) := by
  rcases fromName_total' name with ⟨d', hd, hwf⟩ | he
  · rw [h] at hd
    cases hd
    unfold TypeName.wfOut at hwf
    cases hty : d.ty with
    | zero =>
      refine ⟨.inl rfl, ?_⟩
      intro e he
      simp [hty, he] at hwf
    | member m =>
      simp only [hty, Bool.and_eq_true] at hwf
      obtain ⟨⟨⟨hm, _⟩, _⟩, helem⟩ := hwf
      refine ⟨.inr ⟨m, rfl, isMember_persistable hm⟩, ?_⟩
      intro e he
      simp only [he, Bool.and_eq_true] at helem
      exact isMember_persistable helem.1.1.2
  · rw [h] at he; cases he

theorem fromNameRaw_wf {t : RawTy} {d : TypeName.Desc} (h : fromNameRaw t = .ok d) :
    (d.ty = .zero ∨ ∃ m, d.ty = .member m ∧ m ∈ persistableTypes)
    ∧ (∀ e, d.elem = some e → e ∈ persistableTypes) := by
  cases t with
  | member m => exact fromName_wf h
  | text s => exact fromName_wf h
  | zero => exact fromName_wf (name := zeroText) h

/-! ### what the constructor's literal mappings give -/

/-- a raw type literal is "good" when, if it is a member, it is a real member -/
def GoodRaw (t : RawTy) : Prop := ∀ m, t = .member m → m ∈ persistableTypes

theorem fill_elem_good (d : TypeName.Desc) (e : Option RawTy) (he : ∀ x, e = some x → GoodRaw x)
    (hwf : ∀ e', d.elem = some e' → e' ∈ persistableTypes) :
    ∀ x, fill "element_type" rawTyFalsy (elemField d) e = some x → GoodRaw x := by
  intro x hx
  cases e with
  | some v =>
    -- a given element type stays (the fill is guarded by `is None`)
    have : fill "element_type" rawTyFalsy (elemField d) (some v) = some v := fill_some _ _ _ _ (Or.inl rfl)
    rw [this] at hx
    cases hx
    exact he _ rfl
  | none =>
    have : fill "element_type" rawTyFalsy (elemField d) none = d.elem.map RawTy.member := rfl
    rw [this] at hx
    cases hde : d.elem with
    | none => rw [hde] at hx; cases hx
    | some e' =>
      rw [hde] at hx
      cases hx
      intro m' hm'
      cases hm'
      exact hwf _ hde

theorem resolveType_writable {t : RawTy} {e : Option RawTy} {l p s : Option Nat} {r : Resolved}
    (h : resolveType t e l p s = .ok r) (ht : GoodRaw t) (he : ∀ x, e = some x → GoodRaw x) :
    (r.ty = .zero ∨ ∃ m, r.ty = .member m ∧ m ∈ persistableTypes)
    ∧ (∀ x, r.elem = some x → GoodRaw x) := by
  unfold resolveType at h
  split at h
  · rename_i m
    cases h
    exact ⟨.inr ⟨m, rfl, ht m rfl⟩, he⟩
  · split at h
    · cases h
    · rename_i d hd
      have hwf := fromNameRaw_wf hd
      split at h
      · cases h
        exact ⟨.inl rfl, he⟩
      · rename_i m hm
        cases h
        refine ⟨.inr ⟨m, rfl, ?_⟩, ?_⟩
        · rcases hwf.1 with hz | ⟨m', hm', hp⟩
          · rw [hm] at hz; cases hz
          · rw [hm] at hm'; cases hm'; exact hp
        · exact fill_elem_good d e he hwf.2

theorem resolveElem_writable {e : Option RawTy} {r : Option Ty} (h : resolveElem e = .ok r)
    (he : ∀ x, e = some x → GoodRaw x) :
    ∀ t, r = some t → t = .zero ∨ ∃ m, t = .member m ∧ m ∈ persistableTypes := by
  intro t ht
  subst ht
  unfold resolveElem at h
  split at h
  · cases h
  · rename_i m
    cases h
    exact .inr ⟨m, rfl, he _ rfl m rfl⟩
  · split at h
    · cases h
    · rename_i d hd
      cases h
      exact (fromNameRaw_wf hd).1

theorem resolveDisp_writable {d : Option RawDisp} {r : Option String} (h : resolveDisp d = .ok r)
    (hd : ∀ n, d = some (.member n) → n ∈ dispositions.map Prod.fst) :
    ∀ n, r = some n → n ∈ dispositions.map Prod.fst := by
  intro n hn
  subst hn
  unfold resolveDisp at h
  split at h
  · cases h
  · cases h
    exact hd _ rfl
  · split at h
    · rename_i p hp
      cases h
      exact List.mem_map_of_mem (List.mem_of_find?_eq_some hp)
    · cases h

/-- **every column the constructor builds from well-typed keyword arguments is writable** -/
theorem init_writable (K : Caster V) (fresh : String) (r : Raw V) (c : Col V)
    (h : init K fresh r = .ok c) (hw : WellTyped r) : Writable c := by
  obtain ⟨hwt, hwe, hwd⟩ := hw
  unfold init at h
  split at h
  · cases h
  · split at h
    · cases h
    · rename_i t ht
      split at h
      · cases h
      · rename_i elem helem
        split at h
        · cases h
        · rename_i disp hdisp
          split at h
          · cases h
          · simp only [Except.ok.injEq] at h
            subst h
            have gt : GoodRaw (rd "type" r.type (.member missingName)) := by
              intro m hm
              unfold rd at hm
              split at hm
              · cases hty : r.type with
                | none =>
                  rw [hty] at hm
                  simp only [Option.getD_none, RawTy.member.injEq] at hm
                  subst hm
                  decide
                | some t' =>
                  rw [hty] at hm
                  simp only [Option.getD_some] at hm
                  subst hm
                  exact hwt m hty
              · simp only [RawTy.member.injEq] at hm
                subst hm
                decide
            have ge : ∀ x, rd "element_type" r.element_type none = some x → GoodRaw x := by
              intro x hx m hm
              subst hm
              unfold rd at hx
              split at hx
              · cases hel : r.element_type with
                | none => rw [hel] at hx; cases hx
                | some e' =>
                  rw [hel] at hx
                  simp only [Option.getD_some] at hx
                  subst hx
                  exact hwe m hel
              · cases hx
            have gd : ∀ n, rd "disposition" r.disposition none = some (.member n) → n ∈ dispositions.map Prod.fst := by
              intro n hn
              unfold rd at hn
              split at hn
              · cases hdp : r.disposition with
                | none => rw [hdp] at hn; cases hn
                | some d' =>
                  rw [hdp] at hn
                  simp only [Option.getD_some] at hn
                  subst hn
                  exact hwd n hdp
              · cases hn
            have h1 := resolveType_writable ht gt ge
            exact ⟨h1.1, resolveElem_writable helem h1.2, resolveDisp_writable hdisp gd⟩

/-! ### reading back the written form of a writable column -/

theorem resolveElem_written' (e : Option Ty)
    (h : ∀ t, e = some t → t = .zero ∨ ∃ m, t = .member m ∧ m ∈ persistableTypes) :
    resolveElem (restoredElem e) = .ok e := by
  cases e with
  | none => rfl
  | some t =>
    rcases h t rfl with rfl | ⟨m, rfl, hm⟩
    · decide
    · exact resolveElem_written (some (.member m)) (fun t ht => by cases ht; exact ⟨m, rfl, hm⟩)

/-- reading back what `to_dict` / `to_json` wrote for one writable column -/
theorem colFromDict_written' (K : Caster V) (fresh : String) (c : Col V)
    (hdec : isDecimal c.type = true → c.precision.isSome = true ∧ c.scale.isSome = true)
    (hp : Writable c) (dv : V) (hdv : resolveDefault K c.type dv = .ok c.default) :
    colFromDict K fresh { colToDict c with default := some dv } = .ok c := by
  obtain ⟨hty, helem, hdisp⟩ := hp
  have he := resolveElem_written' c.element_type helem
  have hd := resolveDisp_written c.disposition hdisp
  rcases hty with hz | ⟨m, hm, hmem⟩
  · -- the stored type is the int 0: written as 0, no statement of from_dict applies, read back as 0
    rw [colToDict_eq]
    unfold colFromDict
    rw [prepare_eq]
    have hw : writeTy c.type = .zero := by rw [hz]; rfl
    have t1 : ∀ m, tyEqValue .zero m = false := fun _ => rfl
    simp only [typeIs, hw, t1, Bool.false_eq_true, if_false, restoreElem_written, Bool.false_and]
    refine init_normalised K fresh c hdec _ _ _ .zero dv rfl ?_ he hd hdv
    rw [hz]
    exact resolveType_rawTy .zero _ _ _ _
  · -- a member: as before, with the element type possibly the int 0
    by_cases hez : c.element_type = some .zero
    · rw [colToDict_eq]
      unfold colFromDict
      rw [prepare_eq]
      have harr := base_value_array m hmem
      have hr : restoredElem (some Ty.zero) = some .zero := by decide
      simp only [persistableTypes, List.mem_cons] at hmem
      rcases hmem with rfl | hmem
      · have hw : writeTy c.type = .text (TypeName.valueOf missingName) := by rw [hm]; rfl
        have t1 : tyEqValue (.text (TypeName.valueOf missingName)) missingName = true := by decide
        have t2 : tyEqValue (.member missingName) TypeName.litArray = false := by decide
        simp only [typeIs, hw, t1, t2, if_true, restoreElem_written, Bool.false_and, Bool.false_eq_true, if_false]
        refine init_normalised K fresh c hdec _ _ _ (.member missingName) dv rfl ?_ he hd hdv
        rw [hm]; rfl
      · have hw : writeTy c.type = .text (TypeName.valueOf m) := by rw [hm]; rfl
        have t1 : tyEqValue (.text (TypeName.valueOf m)) missingName = false := by
          simpa [tyEqValue] using base_ne_missing m hmem
        have t2 : tyEqValue (.text (TypeName.valueOf m)) TypeName.litArray = (m == TypeName.litArray) := harr
        simp only [typeIs, hw, t1, t2, Bool.false_eq_true, if_false, restoreElem_written, hez, hr, elemIsNull,
          Bool.and_false]
        rw [hez, hr] at he
        refine init_normalised K fresh c hdec _ (some .zero) _ (.text (TypeName.valueOf m)) dv ?_ ?_ ?_ hd hdv
        · rfl
        · rw [hm]
          exact resolveType_written hmem _ _ _ _ (fun _ => rfl)
        · rw [hez]; exact he
    · refine colFromDict_written K fresh c hdec ⟨⟨m, hm, hmem⟩, ?_, hdisp⟩ dv hdv
      intro e hee
      rcases helem e hee with rfl | h
      · exact absurd hee hez
      · exact h

theorem mapE_written' (K : Caster V) (fresh : String) (cs : List (Col V))
    (h : ∀ c ∈ cs, Constructed K c ∧ Writable c) :
    mapE (load columnLoader K fresh) (cs.map colToDict) = .ok cs := by
  induction cs with
  | nil => rfl
  | cons c cs ih =>
    have hc := h c (List.mem_cons_self)
    have h1 : load columnLoader K fresh (colToDict c) = .ok c := by
      show colFromDict K fresh (colToDict c) = .ok c
      have := colFromDict_written' K fresh c hc.1.2 hc.2 c.default (resolveDefault_fixed hc.1.1)
      rw [colToDict_eq] at this ⊢
      exact this
    have h2 := ih (fun c' hc' => h c' (List.mem_cons_of_mem _ hc'))
    simp only [List.map_cons, mapE, h1, h2]

theorem fromDict_toDict_eq' (K : Caster V) (fresh : String) (s : Schema V)
    (h : ∀ c ∈ s.columns, Constructed K c ∧ Writable c) :
    fromDict K fresh (toDict s) = .ok s := by
  have hn : fw fromDictRestores (sName (toDict s)) "name" = some s.name := rfl
  have ha : fw fromDictRestores (sAliases (toDict s)) "aliases" = some s.aliases := rfl
  have hp : fw fromDictRestores (sPrimaryKey (toDict s)) "primary_key" = some s.primary_key := rfl
  have hk : fromDictRestores.lookup "columns" = some "columns" := rfl
  have hc : sColumns (toDict s) "columns" = some (s.columns.map colToDict) := rfl
  unfold fromDict
  simp only [hn, ha, hp, hk, hc, mapE_written' K fresh s.columns h, Option.getD_some]

theorem jsonRoundTrip_eq' (K : Caster V) (fresh : String) (c : Col V)
    (hc : Constructed K c) (hp : Writable c) (hn : JsonNative K c) (hd : DefaultSurvivesJson K c) :
    jsonRoundTrip K fresh c = .ok c := by
  obtain ⟨j, hj, hdv⟩ := hd
  obtain ⟨hh, hl, hex, hfit⟩ := hn
  have h1 : colToJson K c = .ok { colToDict c with default := some j } := by
    unfold colToJson
    simp only [hj, hh, hl, hex, hfit, Bool.not_true, Bool.false_eq_true, if_false]
    rw [colToDict_eq]
    rfl
  unfold jsonRoundTrip
  simp only [h1]
  show colFromDict K fresh { colToDict c with default := some j } = .ok c
  exact colFromDict_written' K fresh c hc.2 hp j hdv

/-- decidable form of `WellTyped`, for concrete keyword arguments -/
def wellTypedB (r : Raw V) : Bool :=
  (match r.type with
    | some (.member m) => persistableTypes.contains m
    | _ => true)
  && (match r.element_type with
    | some (some (.member m)) => persistableTypes.contains m
    | _ => true)
  && (match r.disposition with
    | some (some (.member n)) => (dispositions.map Prod.fst).contains n
    | _ => true)

theorem wellTyped_of_B (r : Raw V) (h : wellTypedB r = true) : WellTyped r := by
  simp only [wellTypedB, Bool.and_eq_true] at h
  obtain ⟨⟨h1, h2⟩, h3⟩ := h
  refine ⟨?_, ?_, ?_⟩
  · intro m hm; rw [hm] at h1; simpa using h1
  · intro m hm; rw [hm] at h2; simpa using h2
  · intro n hn; rw [hn] at h3; simpa using h3

end Persist
