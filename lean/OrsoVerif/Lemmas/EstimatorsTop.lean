import OrsoVerif.Lemmas.Estimators
/-!
# Lemmas for C14, continued: the three branches of `count_at` put together, and `quantile`
-/
namespace Distogram
set_option linter.unusedSectionVars false

variable {K : Type} [Field K] [LinearOrder K] [IsStrictOrderedRing K]

/-- C13's invariants, as C14 assumes them: centres strictly increasing, counts positive, at least
one bin, every centre within `[lo, hi]`. -/
structure HistOK (bins : List (K × K)) (lo hi : K) : Prop where
  inc : Inc bins
  pos : Pos bins
  ne : bins ≠ []
  within : Within lo hi bins

theorem eqK_iff (a b : K) : eqK a b = true ↔ a = b := by
  unfold eqK Gen.DistogramExpr.eqK
  simp only [Bool.and_eq_true, decide_eq_true_eq]
  exact ⟨fun h => le_antisymm h.1 h.2, fun h => by rw [h]; exact ⟨le_refl _, le_refl _⟩⟩

/-! ## `count_at` -/

theorem countAt_unfold (v0 f0 : K) (tail : List (K × K)) (vl fl lo hi x : K)
    (hl : ((v0, f0) :: tail).getLast? = some (vl, fl)) :
    countAt ((v0, f0) :: tail) (some lo) (some hi) x =
      if x < lo ∨ hi < x then none
      else if x = lo then some 0
      else if x = hi then some (mass ((v0, f0) :: tail))
      else if x ≤ v0 then some ((x - lo) / (v0 - lo) * v0 / 2)
      else if vl ≤ x then some ((1 + (x - vl) / (hi - vl)) * fl / 2 + mass ((v0, f0) :: tail).dropLast)
      else interior ((v0, f0) :: tail) x := by
  have e : ∀ a b : K, Gen.DistogramExpr.eqK a b = true ↔ a = b := eqK_iff
  unfold countAt
  simp only [List.head?_cons, hl, sumCounts_eq_mass, Gen.DistogramExpr.countOutside, Gen.DistogramExpr.countAtMin,
    Gen.DistogramExpr.countAtMax, Gen.DistogramExpr.countLeftTest, Gen.DistogramExpr.countLeftRatio,
    Gen.DistogramExpr.countLeftResult, Gen.DistogramExpr.countRightTest, Gen.DistogramExpr.countRightRatio,
    Gen.DistogramExpr.countRightResult, e, gt_iff_lt, ge_iff_le, decide_eq_true_eq, not_and_or, not_le]

theorem left_bounds {lo v0 w x : K} (h1 : lo < x) (h2 : x ≤ v0) (hf : 0 ≤ w) :
    0 ≤ (x - lo) / (v0 - lo) * w / 2 ∧ (x - lo) / (v0 - lo) * w / 2 ≤ w / 2 := by
  have hd : 0 < v0 - lo := by linarith
  have hr0 : 0 ≤ (x - lo) / (v0 - lo) := div_nonneg (by linarith) (le_of_lt hd)
  have hr1 : (x - lo) / (v0 - lo) ≤ 1 := by rw [div_le_one hd]; linarith
  constructor
  · positivity
  · have : (x - lo) / (v0 - lo) * w ≤ 1 * w := mul_le_mul_of_nonneg_right hr1 hf
    linarith

theorem left_mono {lo v0 w x y : K} (h1 : lo < x) (hxy : x ≤ y) (h2 : y ≤ v0) (hf : 0 ≤ w) :
    (x - lo) / (v0 - lo) * w / 2 ≤ (y - lo) / (v0 - lo) * w / 2 := by
  have hd : 0 < v0 - lo := by linarith
  have : (x - lo) / (v0 - lo) ≤ (y - lo) / (v0 - lo) := div_le_div_of_nonneg_right (by linarith) (le_of_lt hd)
  have := mul_le_mul_of_nonneg_right this hf
  linarith

/-- The condition under which the left tail of `count_at` as it exists (`ratio * v0 / 2`) behaves:
either the first centre is the minimum (the branch is then unreachable — true of histograms that
never merged their first bin and of column profiles, whose first bin is numpy's first left edge),
or the first centre happens to satisfy `0 ≤ v0 ≤ f0`. -/
def LeftTailOK (bins : List (K × K)) (lo : K) : Prop :=
  ∀ v0 f0, bins.head? = some (v0, f0) → lo = v0 ∨ (0 ≤ v0 ∧ v0 ≤ f0)

theorem right_bounds {hi vl fl D x : K} (h1 : vl ≤ x) (h2 : x < hi) (hf : 0 < fl) :
    D + fl / 2 ≤ (1 + (x - vl) / (hi - vl)) * fl / 2 + D ∧ (1 + (x - vl) / (hi - vl)) * fl / 2 + D ≤ D + fl := by
  have hd : 0 < hi - vl := by linarith
  have hr0 : 0 ≤ (x - vl) / (hi - vl) := div_nonneg (by linarith) (le_of_lt hd)
  have hr1 : (x - vl) / (hi - vl) ≤ 1 := by rw [div_le_one hd]; linarith
  have a := mul_le_mul_of_nonneg_right hr0 (le_of_lt hf)
  have b := mul_le_mul_of_nonneg_right hr1 (le_of_lt hf)
  constructor <;> nlinarith

theorem right_mono {hi vl fl D x y : K} (h1 : vl ≤ x) (hxy : x ≤ y) (h2 : y < hi) (hf : 0 < fl) :
    (1 + (x - vl) / (hi - vl)) * fl / 2 + D ≤ (1 + (y - vl) / (hi - vl)) * fl / 2 + D := by
  have hd : 0 < hi - vl := by linarith
  have : (x - vl) / (hi - vl) ≤ (y - vl) / (hi - vl) := div_le_div_of_nonneg_right (by linarith) (le_of_lt hd)
  have := mul_le_mul_of_nonneg_right this (le_of_lt hf)
  nlinarith

/-- Which branch answers, with the band its answer lies in:
`0 ≤ left ≤ f0/2 ≤ interior ≤ topK ≤ right ≤ mass`. -/
theorem countAt_class (v0 f0 : K) (tail : List (K × K)) (vl fl lo hi x : K)
    (ok : HistOK ((v0, f0) :: tail) lo hi) (hleft : LeftTailOK ((v0, f0) :: tail) lo)
    (hl : ((v0, f0) :: tail).getLast? = some (vl, fl))
    (hx : lo ≤ x) (hx' : x ≤ hi) :
    ∃ r, countAt ((v0, f0) :: tail) (some lo) (some hi) x = some r ∧
      ((x = lo ∧ r = 0) ∨
       (lo < x ∧ x = hi ∧ r = mass ((v0, f0) :: tail)) ∨
       (lo < x ∧ x < hi ∧ x ≤ v0 ∧ r = (x - lo) / (v0 - lo) * v0 / 2 ∧ 0 ≤ v0 ∧ 0 ≤ r ∧ r ≤ f0 / 2) ∨
       (lo < x ∧ x < hi ∧ v0 < x ∧ vl ≤ x ∧
          r = (1 + (x - vl) / (hi - vl)) * fl / 2 + mass ((v0, f0) :: tail).dropLast ∧
          topK ((v0, f0) :: tail) ≤ r ∧ r ≤ mass ((v0, f0) :: tail)) ∨
       (lo < x ∧ x < hi ∧ v0 < x ∧ x < vl ∧ interior ((v0, f0) :: tail) x = some r ∧
          f0 / 2 ≤ r ∧ r ≤ topK ((v0, f0) :: tail))) := by
  have hf0 : 0 < f0 := ok.pos (v0, f0) (by simp)
  have hmem := getLast?_mem _ _ hl
  have hfl : 0 < fl := ok.pos (vl, fl) hmem
  have htop := topK_eq (v0, f0) tail (vl, fl) hl
  have hmass : mass ((v0, f0) :: tail) = mass ((v0, f0) :: tail).dropLast + fl := by
    have := List.dropLast_append_getLast? (vl, fl) (by simpa using hl)
    conv_lhs => rw [← this]
    simp [mass, List.map_append, List.sum_append]
  rw [countAt_unfold v0 f0 tail vl fl lo hi x hl]
  have hno : ¬ (x < lo ∨ hi < x) := by
    intro h; rcases h with h | h <;> linarith
  rw [if_neg hno]
  by_cases h1 : x = lo
  · exact ⟨0, by rw [if_pos h1], Or.inl ⟨h1, rfl⟩⟩
  · have hlo : lo < x := lt_of_le_of_ne hx (Ne.symm h1)
    rw [if_neg h1]
    by_cases h2 : x = hi
    · exact ⟨_, by rw [if_pos h2], Or.inr (Or.inl ⟨hlo, h2, rfl⟩)⟩
    · have hhi : x < hi := lt_of_le_of_ne hx' h2
      rw [if_neg h2]
      by_cases h3 : x ≤ v0
      · have hv : 0 ≤ v0 ∧ v0 ≤ f0 := by
          rcases hleft v0 f0 rfl with h | h
          · rw [h] at hlo; exact absurd (lt_of_lt_of_le hlo h3) (lt_irrefl _)
          · exact h
        have hb := left_bounds hlo h3 hv.1
        exact ⟨_, by rw [if_pos h3], Or.inr (Or.inr (Or.inl ⟨hlo, hhi, h3, rfl, hv.1, hb.1, by linarith [hb.2, hv.2]⟩))⟩
      · have h3' : v0 < x := not_le.mp h3
        rw [if_neg h3]
        by_cases h4 : vl ≤ x
        · have hb := right_bounds (D := mass ((v0, f0) :: tail).dropLast) h4 hhi hfl
          refine ⟨_, by rw [if_pos h4], Or.inr (Or.inr (Or.inr (Or.inl ⟨hlo, hhi, h3', h4, rfl, ?_, ?_⟩)))⟩
          · rw [htop]; exact hb.1
          · rw [hmass]; exact hb.2
        · have h4' : x < vl := not_le.mp h4
          rw [if_neg h4]
          obtain ⟨r, hr, hlo', hup⟩ := interior_range (v0, f0) tail x ok.inc ok.pos h3' ⟨(vl, fl), hmem, le_of_lt h4'⟩
          exact ⟨r, hr, Or.inr (Or.inr (Or.inr (Or.inr ⟨hlo, hhi, h3', h4', hr, hlo', hup⟩)))⟩

/-! ## `quantile` -/

/-- Sum of `mids[i] = (f[i] + f[i+1]) / 2`. -/
def sumMids : List (K × K) → K
  | a :: b :: rest => (a.2 + b.2) / 2 + sumMids (b :: rest)
  | _ => 0

theorem sumMids_eq : ∀ (b : K × K) (rest : List (K × K)) (bl : K × K), (b :: rest).getLast? = some bl →
    sumMids (b :: rest) = mass (b :: rest) - b.2 / 2 - bl.2 / 2
  | b, [], bl, h => by
    simp only [List.getLast?_singleton, Option.some.injEq] at h
    simp [sumMids, mass, ← h]
    ring
  | b, c :: rest, bl, h => by
    have h' : (c :: rest).getLast? = some bl := by simpa [List.getLast?_cons_cons] using h
    have := sumMids_eq c rest bl h'
    simp only [sumMids, mass, List.map_cons, List.sum_cons] at this ⊢
    rw [this]; ring

theorem scanQ_cons_cons (acc : K) (vi fi vj fj : K) (rest : List (K × K)) (mb : K) :
    scanQ acc ((vi, fi) :: (vj, fj) :: rest) mb =
      if mb < acc + (fi + fj) / 2 then some (vi + (mb - acc) / ((fi + fj) / 2) * (vj - vi))
      else scanQ (acc + (fi + fj) / 2) ((vj, fj) :: rest) mb := by
  simp only [scanQ, Gen.DistogramExpr.quantMid, Gen.DistogramExpr.quantWalkTest, Gen.DistogramExpr.quantInteriorResult,
    Gen.DistogramExpr.quantInteriorFraction]
  by_cases c : mb < acc + (fi + fj) / 2 <;> simp [c]

/-- The interior walk answers between the first centre and some later centre. -/
theorem scanQ_range : ∀ (b0 : K × K) (tail : List (K × K)) (acc mb r : K), Inc (b0 :: tail) →
    Pos (b0 :: tail) → acc ≤ mb → scanQ acc (b0 :: tail) mb = some r →
    b0.1 ≤ r ∧ ∃ b ∈ b0 :: tail, r ≤ b.1
  | b0, [], acc, mb, r, _, _, _, h => by simp [scanQ] at h
  | (vi, fi), (vj, fj) :: rest, acc, mb, r, hi, hp, hacc, h => by
    have hv : vi < vj := (List.pairwise_cons.mp hi).1 (vj, fj) (by simp)
    have hfi : 0 < fi := hp (vi, fi) (by simp)
    have hfj : 0 < fj := hp (vj, fj) (by simp)
    have hmid : 0 < (fi + fj) / 2 := by positivity
    rw [scanQ_cons_cons] at h
    split at h
    · rename_i hlt
      simp only [Option.some.injEq] at h
      have hfr0 : 0 ≤ (mb - acc) / ((fi + fj) / 2) := div_nonneg (by linarith) (le_of_lt hmid)
      have hfr1 : (mb - acc) / ((fi + fj) / 2) ≤ 1 := by rw [div_le_one hmid]; linarith
      have h1 := mul_le_mul_of_nonneg_right hfr1 (by linarith : (0 : K) ≤ vj - vi)
      have h0 : 0 ≤ (mb - acc) / ((fi + fj) / 2) * (vj - vi) := mul_nonneg hfr0 (by linarith)
      refine ⟨by rw [← h]; linarith, (vj, fj), by simp, ?_⟩
      rw [← h]; show vi + _ ≤ vj; linarith
    · rename_i hge
      have := scanQ_range (vj, fj) rest _ mb r (List.pairwise_cons.mp hi).2
        (fun c hc => hp c (by simp [hc])) (not_lt.mp hge) h
      obtain ⟨h1, b, hb, hrb⟩ := this
      exact ⟨le_trans (le_of_lt hv) h1, b, by simp [hb], hrb⟩

theorem scanQ_mono : ∀ (b0 : K × K) (tail : List (K × K)) (acc m1 m2 r1 r2 : K), Inc (b0 :: tail) →
    Pos (b0 :: tail) → acc ≤ m1 → m1 ≤ m2 → scanQ acc (b0 :: tail) m1 = some r1 →
    scanQ acc (b0 :: tail) m2 = some r2 → r1 ≤ r2
  | b0, [], acc, m1, m2, r1, r2, _, _, _, _, h, _ => by simp [scanQ] at h
  | (vi, fi), (vj, fj) :: rest, acc, m1, m2, r1, r2, hi, hp, hacc, h12, h1, h2 => by
    have hv : vi < vj := (List.pairwise_cons.mp hi).1 (vj, fj) (by simp)
    have hfi : 0 < fi := hp (vi, fi) (by simp)
    have hfj : 0 < fj := hp (vj, fj) (by simp)
    have hmid : 0 < (fi + fj) / 2 := by positivity
    have hi' := (List.pairwise_cons.mp hi).2
    have hp' : Pos ((vj, fj) :: rest) := fun c hc => hp c (by simp [hc])
    rw [scanQ_cons_cons] at h1 h2
    by_cases c2 : m2 < acc + (fi + fj) / 2
    · have c1 : m1 < acc + (fi + fj) / 2 := lt_of_le_of_lt h12 c2
      rw [if_pos c1] at h1
      rw [if_pos c2] at h2
      simp only [Option.some.injEq] at h1 h2
      have : (m1 - acc) / ((fi + fj) / 2) ≤ (m2 - acc) / ((fi + fj) / 2) :=
        div_le_div_of_nonneg_right (by linarith) (le_of_lt hmid)
      have := mul_le_mul_of_nonneg_right this (by linarith : (0 : K) ≤ vj - vi)
      rw [← h1, ← h2]; linarith
    · rw [if_neg c2] at h2
      have hr2 := (scanQ_range (vj, fj) rest _ m2 r2 hi' hp' (not_lt.mp c2) h2).1
      by_cases c1 : m1 < acc + (fi + fj) / 2
      · rw [if_pos c1] at h1
        simp only [Option.some.injEq] at h1
        have hfr1 : (m1 - acc) / ((fi + fj) / 2) ≤ 1 := by rw [div_le_one hmid]; linarith
        have := mul_le_mul_of_nonneg_right hfr1 (by linarith : (0 : K) ≤ vj - vi)
        rw [← h1]; show vi + _ ≤ r2
        have : vj ≤ r2 := hr2
        linarith
      · rw [if_neg c1] at h1
        exact scanQ_mono (vj, fj) rest _ m1 m2 r1 r2 hi' hp' (not_lt.mp c1) h12 h1 h2

theorem scanQ_defined : ∀ (b0 : K × K) (tail : List (K × K)) (acc mb : K), acc ≤ mb →
    mb < acc + sumMids (b0 :: tail) → ∃ r, scanQ acc (b0 :: tail) mb = some r
  | b0, [], acc, mb, h0, h => by simp [sumMids] at h; exact absurd h (not_lt.mpr h0)
  | (vi, fi), (vj, fj) :: rest, acc, mb, _, h => by
    rw [scanQ_cons_cons]
    by_cases c : mb < acc + (fi + fj) / 2
    · exact ⟨_, by rw [if_pos c]⟩
    · rw [if_neg c]
      apply scanQ_defined (vj, fj) rest _ _ (not_lt.mp c)
      simp only [sumMids] at h
      linarith

theorem quantileQ_unfold (v0 f0 : K) (tail : List (K × K)) (vl fl lo hi q : K)
    (hl : ((v0, f0) :: tail).getLast? = some (vl, fl)) :
    quantileQ ((v0, f0) :: tail) (some lo) (some hi) q =
      if q ≤ f0 / 2 then some (lo + q / (f0 / 2) * (v0 - lo))
      else if mass ((v0, f0) :: tail) - fl / 2 ≤ q then
        some (vl + (q - (mass ((v0, f0) :: tail) - fl / 2)) / (fl / 2) * (hi - vl))
      else scanQ 0 ((v0, f0) :: tail) (q - f0 / 2) := by
  unfold quantileQ
  simp only [List.head?_cons, hl, sumCounts_eq_mass, Gen.DistogramExpr.quantLeftTest, Gen.DistogramExpr.quantLeftFraction,
    Gen.DistogramExpr.quantLeftResult, Gen.DistogramExpr.quantRightTest, Gen.DistogramExpr.quantRightBase,
    Gen.DistogramExpr.quantRightFraction, Gen.DistogramExpr.quantRightResult, Gen.DistogramExpr.quantMb, ge_iff_le,
    decide_eq_true_eq]

/-- Which branch of `quantile` answers for `0 ≤ q ≤ total`, with its band:
`lo ≤ left ≤ v0 ≤ interior ≤ vl ≤ right ≤ hi`. -/
theorem quantileQ_class (v0 f0 : K) (tail : List (K × K)) (vl fl lo hi q : K)
    (ok : HistOK ((v0, f0) :: tail) lo hi) (hl : ((v0, f0) :: tail).getLast? = some (vl, fl))
    (hq : 0 ≤ q) (hq' : q ≤ mass ((v0, f0) :: tail)) :
    ∃ r, quantileQ ((v0, f0) :: tail) (some lo) (some hi) q = some r ∧
      ((q ≤ f0 / 2 ∧ r = lo + q / (f0 / 2) * (v0 - lo) ∧ lo ≤ r ∧ r ≤ v0) ∨
       (f0 / 2 < q ∧ mass ((v0, f0) :: tail) - fl / 2 ≤ q ∧
          r = vl + (q - (mass ((v0, f0) :: tail) - fl / 2)) / (fl / 2) * (hi - vl) ∧ vl ≤ r ∧ r ≤ hi) ∨
       (f0 / 2 < q ∧ q < mass ((v0, f0) :: tail) - fl / 2 ∧
          scanQ 0 ((v0, f0) :: tail) (q - f0 / 2) = some r ∧ v0 ≤ r ∧ r ≤ vl)) := by
  have hf0 : 0 < f0 := ok.pos (v0, f0) (by simp)
  have hmem := getLast?_mem _ _ hl
  have hfl : 0 < fl := ok.pos (vl, fl) hmem
  have hlo0 : lo ≤ v0 := (ok.within (v0, f0) (by simp)).1
  have hlhi : vl ≤ hi := (ok.within (vl, fl) hmem).2
  rw [quantileQ_unfold v0 f0 tail vl fl lo hi q hl]
  by_cases h1 : q ≤ f0 / 2
  · rw [if_pos h1]
    have hh : 0 < f0 / 2 := by positivity
    have hfr0 : 0 ≤ q / (f0 / 2) := div_nonneg hq (le_of_lt hh)
    have hfr1 : q / (f0 / 2) ≤ 1 := by rw [div_le_one hh]; exact h1
    have a := mul_nonneg hfr0 (by linarith : (0 : K) ≤ v0 - lo)
    have b := mul_le_mul_of_nonneg_right hfr1 (by linarith : (0 : K) ≤ v0 - lo)
    exact ⟨_, rfl, Or.inl ⟨h1, rfl, by linarith, by linarith⟩⟩
  · have h1' : f0 / 2 < q := not_le.mp h1
    rw [if_neg h1]
    by_cases h2 : mass ((v0, f0) :: tail) - fl / 2 ≤ q
    · rw [if_pos h2]
      have hh : 0 < fl / 2 := by positivity
      have hfr0 : 0 ≤ (q - (mass ((v0, f0) :: tail) - fl / 2)) / (fl / 2) := div_nonneg (by linarith) (le_of_lt hh)
      have hfr1 : (q - (mass ((v0, f0) :: tail) - fl / 2)) / (fl / 2) ≤ 1 := by rw [div_le_one hh]; linarith
      have a := mul_nonneg hfr0 (by linarith : (0 : K) ≤ hi - vl)
      have b := mul_le_mul_of_nonneg_right hfr1 (by linarith : (0 : K) ≤ hi - vl)
      exact ⟨_, rfl, Or.inr (Or.inl ⟨h1', h2, rfl, by linarith, by linarith⟩)⟩
    · have h2' : q < mass ((v0, f0) :: tail) - fl / 2 := not_le.mp h2
      rw [if_neg h2]
      have hs := sumMids_eq (v0, f0) tail (vl, fl) hl
      obtain ⟨r, hr⟩ := scanQ_defined (v0, f0) tail 0 (q - f0 / 2) (by linarith) (by rw [hs]; simp only; linarith)
      obtain ⟨ha, b, hb, hrb⟩ := scanQ_range (v0, f0) tail 0 (q - f0 / 2) r ok.inc ok.pos (by linarith) hr
      have := inc_le_last _ (vl, fl) ok.inc hl b hb
      exact ⟨r, hr, Or.inr (Or.inr ⟨h1', h2', hr, ha, le_trans hrb this⟩)⟩

variable {bins : List (K × K)} {lo hi : K}

/-- A non-empty list has a head and a last element. -/
theorem shape (ok : HistOK bins lo hi) :
    ∃ v0 f0 tail vl fl, bins = (v0, f0) :: tail ∧ ((v0, f0) :: tail).getLast? = some (vl, fl) := by
  obtain ⟨inc, pos, ne, within⟩ := ok
  match bins, ne with
  | (v0, f0) :: tail, _ =>
    cases h : ((v0, f0) :: tail).getLast? with
    | none => simp at h
    | some bl => obtain ⟨a, b⟩ := bl; exact ⟨v0, f0, tail, a, b, rfl, h⟩

theorem quantile_eq (floor : K → K) (ok : HistOK bins lo hi) {value : K} (h0 : 0 ≤ value) (h1 : value ≤ 1) :
    quantile floor bins (some lo) (some hi) value =
      quantileQ bins (some lo) (some hi) (floor (mass bins * value)) := by
  unfold quantile
  have : bins.isEmpty = false := by
    cases hb : bins with
    | nil => exact absurd hb ok.ne
    | cons _ _ => rfl
  rw [this, sumCounts_eq_mass]
  simp [Gen.DistogramExpr.quantInRange, Gen.DistogramExpr.quantCountArg, h0, h1]

end Distogram
