import OrsoVerif.Model.GroupByCode
import OrsoVerif.Lemmas.GroupBy
/-! Helper lemmas for the code-level model of C12 (`Model/GroupByCode.lean`): every program that
passes the decidable conditions computes what the functional model computes. -/
namespace GroupByCode
open GroupBy GroupByIR

/-! ### the tests on `value` only tell null, zero and non-zero apart -/

/-- the representative of a value's kind -/
def cls : Option Int → Option Int
  | none => none
  | some x => if x = 0 then some 0 else some 1

theorem holds_cls (g : Guard) (v : Option Int) : holds g v = holds g (cls v) := by
  cases v with
  | none => rfl
  | some x =>
    by_cases hx : x = 0
    · subst hx; rfl
    · cases g <;> simp [holds, cls, hx]

theorem guardsHold_cls (gs : List Guard) (v : Option Int) : guardsHold gs v = guardsHold gs (cls v) := by
  unfold guardsHold
  induction gs with
  | nil => rfl
  | cons g gs ih => simp only [List.all_cons, ih, ← holds_cls]

theorem effect_cls (body : List (List Guard × Action)) (v : Option Int) :
    effect body v = effect body (cls v) := by
  unfold effect
  congr 1
  apply List.filter_congr
  intro ga _
  exact guardsHold_cls ga.1 v

theorem cls_cases (v : Option Int) : (v = none ∧ cls v = none) ∨ (v.isSome ∧ (cls v = some 0 ∨ cls v = some 1)) := by
  cases v with
  | none => exact Or.inl ⟨rfl, rfl⟩
  | some x =>
    refine Or.inr ⟨rfl, ?_⟩
    by_cases hx : x = 0
    · exact Or.inl (by simp [cls, hx])
    · exact Or.inr (by simp [cls, hx])

theorem yieldOk_all {gs : List Guard} (h : yieldOk gs = true) (v : Option Int) : guardsHold gs v = true := by
  unfold yieldOk at h
  simp only [Bool.and_eq_true] at h
  rw [guardsHold_cls]
  rcases cls_cases v with ⟨_, h2⟩ | ⟨_, h2 | h2⟩ <;> rw [h2]
  · exact h.1.1
  · exact h.1.2
  · exact h.2

theorem clean_map_some (vs : List Int) : clean (vs.map some) = some vs := by
  induction vs with
  | nil => rfl
  | cons v vs ih => simp [clean, ih]

/-! ### the aggregator bodies: a decidable sufficient condition, proved sound

`evalA e vs` on a list of non-null values depends on `vs` only through its emptiness, its length,
its sum, its least and its greatest member.  `symA e` evaluates `e` symbolically for a non-empty
list (`unknown` when the outcome would depend on the values, as in `sum(values) or None`);
`aggOk f e` asks that `e` gives `f`'s convention on the empty list (by evaluation) and `f`'s fold
symbolically on a non-empty one.  So any way of writing the five functions inside the grammar of
`AExpr` that is right is accepted, and `sum(values) or None`, `max(values, default=0)`,
`min(values)` (raises on no values) … are refused. -/

inductive Sym where
  | none | lit (i : Int) | len | sum | min | max | avg | favg | err (c : String) | unknown
  deriving DecidableEq, Repr

/-- the meaning of a symbolic result for a non-empty list of non-null values -/
def denote (xs : List Int) : Sym → AVal
  | .none => .none
  | .lit i => .int i
  | .len => .int xs.length
  | .sum => .int (total xs)
  | .min => match least xs with | some m => .int m | none => .none
  | .max => match greatest xs with | some m => .int m | none => .none
  | .avg => .ratio (total xs) xs.length
  | .favg => .fratio (total xs) xs.length
  | .err c => .err c
  | .unknown => .none

def symA : AExpr → Sym
  | .none => .none
  | .lit i => .lit i
  | .len => .len
  | .sum => .sum
  | .minE => .min
  | .maxE => .max
  | .minD _ => .min
  | .maxD _ => .max
  | .decimal e => match symA e with | .none => .err "TypeError" | s => s
  | .div a b => match symA a, symA b with
    | .sum, .len => if isDec a || isDec b then .avg else .favg
    | _, _ => .unknown
  | .orElse a b =>
    match symA a with
    | .none => symA b
    | .len => .len
    | .lit i => if i = 0 then symA b else .lit i
    | _ => .unknown
  | .ifEmpty _ b => symA b
  | .raise => .err "KeyError"

def symOf : Func → Sym
  | .min => .min | .max => .max | .count => .len | .avg => .avg | .sum => .sum

/-- The decidable condition on the body of the aggregator registered under `f`. -/
def aggOk (f : Func) (e : AExpr) : Bool :=
  decide (evalA e [] = AVal.ofAgg (fold f [])) && decide (symA e = symOf f)

theorem symA_sound (e : AExpr) (x : Int) (xs : List Int) (h : symA e ≠ .unknown) :
    evalA e ((x :: xs).map some) = denote (x :: xs) (symA e) := by
  have hc : clean ((x :: xs).map some) = some (x :: xs) := clean_map_some _
  have hl : least (x :: xs) = some (xs.foldl min x) := rfl
  have hg : greatest (x :: xs) = some (xs.foldl max x) := rfl
  induction e with
  | none => rfl
  | lit i => rfl
  | len => simp [evalA, symA, denote]
  | sum => simp only [evalA, hc, symA, denote]
  | minE => simp only [evalA, hc, symA, denote, hl]
  | maxE => simp only [evalA, hc, symA, denote, hg]
  | minD d _ => simp only [evalA, hc, symA, denote, hl]
  | maxD d _ => simp only [evalA, hc, symA, denote, hg]
  | decimal e ih =>
    simp only [symA] at h ⊢
    simp only [evalA]
    cases hs : symA e with
    | unknown => rw [hs] at h; exact absurd rfl h
    | none => rw [ih (by rw [hs]; simp), hs]; rfl
    | lit i => rw [ih (by rw [hs]; simp), hs]; rfl
    | len => rw [ih (by rw [hs]; simp), hs]; rfl
    | sum => rw [ih (by rw [hs]; simp), hs]; rfl
    | min => rw [ih (by rw [hs]; simp), hs]; simp only [denote, hl]
    | max => rw [ih (by rw [hs]; simp), hs]; simp only [denote, hg]
    | avg => rw [ih (by rw [hs]; simp), hs]; rfl
    | favg => rw [ih (by rw [hs]; simp), hs]; rfl
    | err c => rw [ih (by rw [hs]; simp), hs]; rfl
  | div a b iha ihb =>
    simp only [symA] at h ⊢
    cases ha : symA a <;> rw [ha] at h <;> try exact absurd rfl h
    cases hb : symA b <;> rw [hb] at h <;> try exact absurd rfl h
    simp only [evalA, iha (by rw [ha]; simp), ihb (by rw [hb]; simp), ha, hb, denote]
    have hpos : (0 : Int) < (((x :: xs).length : Nat) : Int) := by
      simp only [List.length_cons]; omega
    simp only [hpos, if_true, Int.toNat_natCast]
    split <;> rfl
  | orElse a b iha ihb =>
    simp only [symA] at h ⊢
    simp only [evalA]
    cases ha : symA a with
    | none =>
      rw [ha] at h
      simp only at h
      rw [iha (by rw [ha]; simp), ha]
      simp only [denote, AVal.falsy, if_true]
      exact ihb h
    | len =>
      rw [iha (by rw [ha]; simp), ha]
      have hne : ¬ (((x :: xs).length : Nat) : Int) = 0 := by
        simp only [List.length_cons]; omega
      simp only [denote, AVal.falsy, hne, decide_false, Bool.false_eq_true, if_false]
    | lit i =>
      rw [ha] at h
      simp only at h
      rw [iha (by rw [ha]; simp), ha]
      by_cases hi : i = 0
      · simp only [hi, if_true] at h ⊢
        simp only [denote, AVal.falsy, decide_true, if_true]
        exact ihb h
      · simp [denote, AVal.falsy, hi]
    | sum => rw [ha] at h; exact absurd rfl h
    | min => rw [ha] at h; exact absurd rfl h
    | max => rw [ha] at h; exact absurd rfl h
    | avg => rw [ha] at h; exact absurd rfl h
    | favg => rw [ha] at h; exact absurd rfl h
    | err c => rw [ha] at h; exact absurd rfl h
    | unknown => rw [ha] at h; exact absurd rfl h
  | ifEmpty a b _ ihb =>
    simp only [symA] at h ⊢
    simp only [evalA, List.map_cons, List.isEmpty_cons, Bool.false_eq_true, if_false]
    exact ihb h
  | raise => rfl

/-- **Soundness of the condition**: an accepted body computes the fold of its function on every
list of non-null values. -/
theorem aggOk_sound {f : Func} {e : AExpr} (h : aggOk f e = true) (vs : List Int) :
    evalA e (vs.map some) = AVal.ofAgg (fold f vs) := by
  unfold aggOk at h
  simp only [Bool.and_eq_true, decide_eq_true_eq] at h
  cases vs with
  | nil => exact h.1
  | cons x xs =>
    rw [symA_sound e x xs (by rw [h.2]; cases f <;> simp [symOf]), h.2]
    cases f <;> simp [symOf, denote, fold, AVal.ofAgg, least, greatest]

section Core
variable {ρ κ ι : Type} [DecidableEq κ] [DecidableEq ι]

theorem insKey_eq_ins (seen : List ι) (x : ι) : insKey seen x = ins seen x := rfl

theorem insKey_idem (seen : List ι) (x : ι) : insKey (insKey seen x) x = insKey seen x :=
  ins_ins_same seen x

/-! ### the actions of one pass of the loop body -/

theorem stepBody_eq_effect (body : List (List Guard × Action)) (m : CVM ι) (t : ι × String × Option Int) :
    stepBody body m t = (effect body t.2.2).foldl (fun m a => act m t a) m := by
  unfold stepBody effect
  induction body generalizing m with
  | nil => rfl
  | cons ga body ih =>
    simp only [List.foldl_cons, List.filter_cons]
    by_cases h : guardsHold ga.1 t.2.2 = true
    · simp only [h, if_true, List.map_cons, List.foldl_cons]
      exact ih _
    · simp only [h]
      exact ih _

/-- registering only: any non-empty run of `touch`es -/
theorem acts_touch (as : List Action) (hne : as ≠ []) (hall : as.all (· == .touch) = true)
    (m : CVM ι) (t : ι × String × Option Int) :
    as.foldl (fun m a => act m t a) m = { groups := insKey m.groups t.1, log := m.log } := by
  induction as generalizing m with
  | nil => exact absurd rfl hne
  | cons a as ih =>
    simp only [List.all_cons, Bool.and_eq_true, beq_iff_eq] at hall
    obtain ⟨ha, hrest⟩ := hall
    subst ha
    simp only [List.foldl_cons]
    cases as with
    | nil => rfl
    | cons a' as' =>
      rw [ih (by simp) hrest]
      simp only [act, insKey_idem]

/-- a run without `append` after the group is registered changes nothing -/
theorem acts_no_append (as : List Action) (h0 : (as.filter isAppend).length = 0)
    (groups : List ι) (log : List (ι × String × Option Int)) (t : ι × String × Option Int) :
    as.foldl (fun m a => act m t a) { groups := insKey groups t.1, log := log }
      = { groups := insKey groups t.1, log := log } := by
  induction as with
  | nil => rfl
  | cons a as ih =>
    cases a with
    | append => simp [List.filter_cons, isAppend] at h0
    | touch =>
      simp only [List.foldl_cons, act, insKey_idem]
      apply ih
      simpa [List.filter_cons, isAppend] using h0

/-- exactly one `append` among any number of `touch`es: the group is registered and the triple is
appended once -/
theorem acts_one_append (as : List Action) (h1 : (as.filter isAppend).length = 1)
    (m : CVM ι) (t : ι × String × Option Int) :
    as.foldl (fun m a => act m t a) m = { groups := insKey m.groups t.1, log := m.log ++ [t] } := by
  induction as generalizing m with
  | nil => simp at h1
  | cons a as ih =>
    cases a with
    | append =>
      have h0 : (as.filter isAppend).length = 0 := by
        simpa [List.filter_cons, isAppend] using h1
      simp only [List.foldl_cons, act]
      exact acts_no_append as h0 m.groups (m.log ++ [t]) t
    | touch =>
      have h1' : (as.filter isAppend).length = 1 := by
        simpa [List.filter_cons, isAppend] using h1
      simp only [List.foldl_cons]
      rw [ih h1']
      simp only [act, insKey_idem]

/-- **One pass of a good body**: register the group; append the value iff it is not null. -/
theorem stepBody_ok {body : List (List Guard × Action)} (hb : bodyOk body = true) (m : CVM ι)
    (t : ι × String × Option Int) :
    stepBody body m t =
      { groups := insKey m.groups t.1, log := if t.2.2.isSome then m.log ++ [t] else m.log } := by
  unfold bodyOk at hb
  simp only [Bool.and_eq_true, bne_iff_ne, ne_eq, beq_iff_eq] at hb
  obtain ⟨⟨⟨hne, hall⟩, h0⟩, h1⟩ := hb
  rw [stepBody_eq_effect, effect_cls]
  rcases cls_cases t.2.2 with ⟨hv, hc⟩ | ⟨hv, hc | hc⟩
  · rw [hc, acts_touch _ hne hall, hv]; rfl
  · rw [hc, acts_one_append _ h0, hv]; rfl
  · rw [hc, acts_one_append _ h1, hv]; rfl

/-- **The whole loop with a good body**: the groups in order of first occurrence among the triples,
and the log of the non-null triples. -/
theorem collectLoop_ok {body : List (List Guard × Action)} (hb : bodyOk body = true)
    (s : List (ι × String × Option Int)) :
    collectLoop body s = { groups := firstSeen (s.map (·.1)), log := s.filter (·.2.2.isSome) } := by
  unfold collectLoop collectFrom
  rw [firstSeen_eq]
  suffices h : ∀ (m : CVM ι), s.foldl (stepBody body) m
      = { groups := (s.map (·.1)).foldl ins m.groups, log := m.log ++ s.filter (·.2.2.isSome) } by
    simpa using h { groups := [], log := [] }
  induction s with
  | nil => intro m; simp
  | cons t s ih =>
    intro m
    rw [List.foldl_cons, ih, stepBody_ok hb]
    simp only [List.map_cons, List.foldl_cons, insKey_eq_ins, List.filter_cons]
    cases h : t.2.2.isSome <;> simp

/-- `column_value_map[g].get(c, [])` after a good loop: the non-null values of the triples of `g`
and `c` — what the functional model calls `collected`. -/
theorem get_filter_isSome (s : List (ι × String × Option Int)) (groups : List ι) (g : ι) (c : String) :
    CVM.get { groups := groups, log := s.filter (·.2.2.isSome) } g c = (collected s g c).map some := by
  unfold CVM.get collected
  induction s with
  | nil => rfl
  | cons t s ih =>
    obtain ⟨tg, tc, tv⟩ := t
    cases tv with
    | none =>
      simp only [List.filter_cons, Option.isSome_none, Bool.false_eq_true, if_false, List.filterMap_cons]
      by_cases h : tg = g ∧ tc = c
      · simp only [h, and_self, if_true]; exact ih
      · simp only [h, if_false]; exact ih
    | some v =>
      simp only [List.filter_cons, Option.isSome_some, if_true, List.filterMap_cons]
      by_cases h : tg = g ∧ tc = c
      · simp only [h, and_self, if_true, List.map_cons]; rw [ih]
      · simp only [h, if_false]; exact ih

/-! ### `_map` -/

omit [DecidableEq κ] [DecidableEq ι] in
theorem mapTriples_ok {gs : List Guard} (hy : yieldOk gs = true) (ident : κ → ι) (keyOf : ρ → κ)
    (cell : ρ → String → Option Int) (cols : List String) (rows : List ρ) :
    mapTriples gs ident keyOf cell cols rows = emit (fun r => ident (keyOf r)) cell cols rows := by
  unfold mapTriples emit
  congr 1
  funext r
  apply List.filter_eq_self.mpr
  intro t _
  exact yieldOk_all hy _

/-! ### `_group_keys` -/

/-- every entry of `_group_keys` sits under the identity of its own key -/
def Consistent (ident : κ → ι) (st : List (ι × κ)) : Prop := ∀ e ∈ st, e.1 = ident e.2

omit [DecidableEq κ] in
theorem any_ident_iff {ident : κ → ι} (hinj : Function.Injective ident) {st : List (ι × κ)}
    (hst : Consistent ident st) (k : κ) :
    (st.any fun e => decide (e.1 = ident k)) = true ↔ k ∈ st.map (·.2) := by
  simp only [List.any_eq_true, decide_eq_true_eq, List.mem_map]
  constructor
  · rintro ⟨e, he, h⟩
    exact ⟨e, he, hinj (by rw [← hst e he, h])⟩
  · rintro ⟨e, he, rfl⟩
    exact ⟨e, he, hst e he⟩

/-- Registering the rows: the key values held are those registered before, then the new keys in
order of first occurrence — and every entry still sits under the identity of its key. -/
theorem registerRows_keys {ident : κ → ι} (hinj : Function.Injective ident) (keyOf : ρ → κ)
    (rows : List ρ) (st : List (ι × κ)) (hst : Consistent ident st) :
    (registerRows ident keyOf st rows).map (·.2) = register (st.map (·.2)) (rows.map keyOf)
    ∧ Consistent ident (registerRows ident keyOf st rows) := by
  unfold registerRows
  rw [register_eq]
  induction rows generalizing st with
  | nil => exact ⟨rfl, hst⟩
  | cons r rs ih =>
    simp only [List.foldl_cons, List.map_cons]
    by_cases h : (st.any fun e => decide (e.1 = ident (keyOf r))) = true
    · rw [if_pos h]
      have hm := (any_ident_iff hinj hst _).mp h
      have : ins (st.map (·.2)) (keyOf r) = st.map (·.2) := by unfold ins; rw [if_pos hm]
      rw [this]
      exact ih st hst
    · rw [if_neg h]
      have hm : keyOf r ∉ st.map (·.2) := fun hm => h ((any_ident_iff hinj hst _).mpr hm)
      have : ins (st.map (·.2)) (keyOf r) = (st ++ [(ident (keyOf r), keyOf r)]).map (·.2) := by
        unfold ins; rw [if_neg hm]; simp
      rw [this]
      apply ih
      intro e he
      rcases List.mem_append.mp he with he | he
      · exact hst e he
      · simp only [List.mem_singleton] at he; subst he; rfl

omit [DecidableEq κ] in
/-- `self._group_keys[ident k]` is `k` itself once `k` is registered (and a `KeyError` before). -/
theorem lookupKey_consistent {ident : κ → ι} (hinj : Function.Injective ident) {st : List (ι × κ)}
    (hst : Consistent ident st) {k : κ} (hk : k ∈ st.map (·.2)) :
    lookupKey st (ident k) = some k := by
  unfold lookupKey
  induction st with
  | nil => simp at hk
  | cons e st ih =>
    rw [List.find?_cons]
    by_cases he : e.1 = ident k
    · simp only [he, decide_true, Option.map_some]
      congr 1
      exact hinj (by rw [← hst e (by simp), he])
    · simp only [he, decide_false]
      apply ih (fun e' he' => hst e' (List.mem_cons_of_mem _ he'))
      simp only [List.map_cons, List.mem_cons] at hk
      rcases hk with rfl | hk
      · exact absurd (hst e (by simp)) he
      · exact hk

/-! ### injective identities change nothing -/

theorem firstSeen_map_inj {α β : Type} [DecidableEq α] [DecidableEq β] {f : α → β}
    (hf : Function.Injective f) (xs : List α) : firstSeen (xs.map f) = (firstSeen xs).map f := by
  rw [firstSeen_eq, firstSeen_eq]
  suffices h : ∀ acc : List α, (xs.map f).foldl ins (acc.map f) = (xs.foldl ins acc).map f by
    simpa using h []
  induction xs with
  | nil => intro acc; rfl
  | cons x xs ih =>
    intro acc
    simp only [List.map_cons, List.foldl_cons]
    have : ins (acc.map f) (f x) = (ins acc x).map f := by
      unfold ins
      by_cases hx : x ∈ acc
      · rw [if_pos hx, if_pos (List.mem_map_of_mem hx)]
      · have : f x ∉ acc.map f := by
          intro h
          obtain ⟨y, hy, hxy⟩ := List.mem_map.mp h
          exact hx (hf hxy ▸ hy)
        rw [if_neg hx, if_neg this]; simp
    rw [this, ih]

omit [DecidableEq κ] [DecidableEq ι] in
theorem members_ident {ident : κ → ι} [DecidableEq κ] [DecidableEq ι] (hinj : Function.Injective ident)
    (keyOf : ρ → κ) (rows : List ρ) (k : κ) :
    members (fun r => ident (keyOf r)) rows (ident k) = members keyOf rows k := by
  unfold members
  apply List.filter_congr
  intro r _
  by_cases h : keyOf r = k
  · simp [h]
  · have : ident (keyOf r) ≠ ident k := fun h' => h (hinj h')
    simp [h, this]

omit [DecidableEq κ] [DecidableEq ι] in
theorem filterMap_eq_map_of {α β : Type} (f : α → Option β) (g : α → β) (l : List α)
    (h : ∀ x ∈ l, f x = some (g x)) : l.filterMap f = l.map g := by
  induction l with
  | nil => rfl
  | cons x l ih =>
    rw [List.filterMap_cons, h x (by simp), List.map_cons, ih (fun y hy => h y (List.mem_cons_of_mem _ hy))]

/-! ### `aggregate`, read from the source, is the functional model -/

/-- **Refinement.**  For every program whose collection loop registers before the null test and
appends non-null values once (`bodyOk`), whose `_map` yields every triple (`yieldOk`) and registers
the groups, whose value map is a fresh local of every call, that collects every requested column
once, whose aggregators are the five folds, and whose group identity is injective: one `aggregate`
call on an object with any consistent `_group_keys` returns the functional model's table and leaves
`_group_keys` extended by the new keys. -/
theorem aggregateC_ok (P : Program) (hb : bodyOk P.body = true) (hy : yieldOk P.yieldGuards = true)
    (hr : P.registers = true) (hf : P.freshValueMap = true) (reqs : List Req)
    (hcols : (collectCols P.collect reqs).Nodup
      ∧ ∀ c, c ∈ collectCols P.collect reqs ↔ c ∈ reqs.map (·.2))
    (hagg : ∀ f vs, evalA (aggOf P f) (vs.map some) = AVal.ofAgg (fold f vs))
    {ident : κ → ι} (hinj : Function.Injective ident) (keyOf : ρ → κ)
    (cell : ρ → String → Option Int) (st : ObjState ι κ) (hst : Consistent ident st.keys) (rows : List ρ) :
    (aggregateC P ident keyOf cell st rows reqs).1.keys = registerRows ident keyOf st.keys rows
    ∧ (aggregateC P ident keyOf cell st rows reqs).2 =
       some ((aggregate keyOf cell rows reqs).map fun ka => (ka.1, ka.2.map AVal.ofAgg)) := by
  unfold aggregateC
  simp only [hr, hf, if_true, true_and]
  rw [mapTriples_ok hy, collectLoop_ok hb]
  simp only
  obtain ⟨hnd, hmem⟩ := hcols
  -- the groups of `column_value_map`: the identities of the distinct keys
  have hgroups : firstSeen ((emit (fun r => ident (keyOf r)) cell (collectCols P.collect reqs) rows).map (·.1))
      = (firstSeen ((emit keyOf cell (firstSeen (reqs.map (·.2))) rows).map (·.1))).map ident := by
    by_cases hne : reqs = []
    · subst hne
      have : collectCols P.collect [] = [] := by
        apply List.eq_nil_iff_forall_not_mem.mpr
        intro c hc
        simpa using (hmem c).mp hc
      rw [this]
      have hemp : ∀ (κ' : Type) (k' : ρ → κ'), emit k' cell [] rows = [] := by
        intro κ' k'
        unfold emit
        induction rows with
        | nil => rfl
        | cons r rs ih => simp [List.flatMap_cons]
      have hfs : firstSeen (List.map (fun x : Req => x.2) []) = [] := rfl
      rw [hemp, hfs, hemp]
      rfl
    · have h1 : collectCols P.collect reqs ≠ [] := by
        intro h
        cases reqs with
        | nil => exact hne rfl
        | cons q qs =>
          have : q.2 ∈ collectCols P.collect (q :: qs) := (hmem q.2).mpr (by simp)
          rw [h] at this
          simp at this
      have h2 : firstSeen (reqs.map (·.2)) ≠ [] := firstSeen_ne_nil (by simpa using hne)
      rw [firstSeen_emit_keys _ cell h1, firstSeen_emit_keys keyOf cell h2]
      unfold groupKeys
      rw [← firstSeen_map_inj hinj, List.map_map]
      rfl
  rw [hgroups]
  have hgk : ∀ k ∈ firstSeen ((emit keyOf cell (firstSeen (reqs.map (·.2))) rows).map (·.1)),
      lookupKey (registerRows ident keyOf st.keys rows) (ident k) = some k := by
    intro k hk
    have hk' : k ∈ rows.map keyOf := by
      have := mem_firstSeen.mp hk
      simp only [emit, List.map_flatMap, List.map_map, List.mem_flatMap, List.mem_map] at this
      obtain ⟨r, hr', _, _, rfl⟩ := this
      exact List.mem_map_of_mem hr'
    obtain ⟨hkeys, hcons⟩ := registerRows_keys hinj keyOf rows st.keys hst
    apply lookupKey_consistent hinj hcons
    rw [hkeys, register_eq]
    exact mem_foldl_ins.mpr (Or.inr hk')
  have hall : ((firstSeen ((emit keyOf cell (firstSeen (reqs.map (·.2))) rows).map (·.1))).map ident).all
      (fun g => (lookupKey (registerRows ident keyOf st.keys rows) g).isSome) = true := by
    simp only [List.all_map, List.all_eq_true, Function.comp]
    intro k hk
    rw [hgk k hk]; rfl
  rw [if_pos hall]
  congr 1
  unfold aggregate
  simp only [List.filterMap_map, List.map_map]
  apply filterMap_eq_map_of
  intro k hk
  simp only [Function.comp, hgk k hk, Option.map_some]
  congr 2
  rw [List.map_map]
  apply List.map_congr_left
  intro q hq
  simp only [Function.comp]
  rw [get_filter_isSome, collected_emit _ cell hnd, collected_emit keyOf cell (nodup_firstSeen _),
    members_ident hinj, hagg]
  congr 2
  have hc1 : q.2 ∈ collectCols P.collect reqs := (hmem q.2).mpr (List.mem_map_of_mem hq)
  have hc2 : q.2 ∈ firstSeen (reqs.map (·.2)) := mem_firstSeen.mpr (List.mem_map_of_mem hq)
  rw [if_pos hc1, if_pos hc2]

/-! ### sequences of calls on several objects of one frame, lazily backed or not -/

/-- The conditions on a program that the theorems need; each is discharged for the generated
program in `Props/C12.lean`. -/
structure Good (P : Program) : Prop where
  body : bodyOk P.body = true
  yields : yieldOk P.yieldGuards = true
  registers : P.registers = true
  cols : ∀ reqs, (collectCols P.collect reqs).Nodup
    ∧ ∀ c, c ∈ collectCols P.collect reqs ↔ c ∈ reqs.map (·.2)
  aggs : ∀ f vs, evalA (aggOf P f) (vs.map some) = AVal.ofAgg (fold f vs)
  lazy : P.via = .frame ∧ P.iterMaterialises = true ∧ P.materializeMakesList = true
  fresh : P.freshValueMap = true
  perObject : P.registryPerObject = true

/-- the functional model's result of a call, in the code-level model's form -/
def liftOut : Out κ → OutC κ
  | .table t => .table (some (t.map fun ka => (ka.1, ka.2.map AVal.ofAgg)))
  | .keys ks => .keys ks

/-- One call on an object that is fresh or has been used on this frame before: the functional
model's result, and `_group_keys` holds the distinct keys afterwards. -/
theorem stepC_ok {P : Program} (G : Good P) {ident : κ → ι} (hinj : Function.Injective ident)
    (keyOf : ρ → κ) (cell : ρ → String → Option Int) (rows : List ρ) (st : ObjState ι κ)
    (hst : Consistent ident st.keys)
    (hks : st.keys.map (·.2) = [] ∨ st.keys.map (·.2) = groupKeys keyOf rows) (op : Op) :
    Consistent ident (stepC P ident keyOf cell rows st op).1.keys
    ∧ (stepC P ident keyOf cell rows st op).1.keys.map (·.2) = groupKeys keyOf rows
    ∧ (stepC P ident keyOf cell rows st op).2 = liftOut (stepS keyOf cell rows [] op).2 := by
  obtain ⟨hkeys, hcons⟩ := registerRows_keys hinj keyOf rows st.keys hst
  have hreg : (registerRows ident keyOf st.keys rows).map (·.2) = groupKeys keyOf rows := by
    rw [hkeys]
    rcases hks with h | h <;> rw [h]
    · exact register_nil _
    · exact register_firstSeen _
  cases op with
  | aggregate reqs =>
    simp only [stepC]
    obtain ⟨h1, h2⟩ := aggregateC_ok P G.body G.yields G.registers G.fresh reqs (G.cols reqs) G.aggs hinj keyOf
      cell st hst rows
    rw [h1, h2]
    exact ⟨hcons, hreg, rfl⟩
  | groups =>
    simp only [stepC, G.registers, if_true]
    refine ⟨hcons, hreg, ?_⟩
    rw [hreg]
    show OutC.keys _ = OutC.keys _
    congr 1
    show groupKeys keyOf rows = register [] _
    rw [register_nil]
    exact (firstSeen_emit_keys keyOf _ (by simp) rows).symm

omit [DecidableEq κ] [DecidableEq ι] in
/-- Walking a frame whose `__iter__` materialises: a lazily backed frame that has not been walked
shows all its rows and is a list afterwards, exactly like a materialised one. -/
theorem iterate_ok {P : Program} (G : Good P) (rows : List ρ) (src : Source ρ)
    (h : src = .list rows ∨ src = .gen rows false) : iterate P src = (rows, .list rows) := by
  rcases h with rfl | rfl
  · rfl
  · simp [iterate, G.lazy.1, G.lazy.2.1, G.lazy.2.2]

/-- **Any sequence of calls on any number of objects of one frame** — lazily backed or
materialised, fresh objects or used ones: every call returns what the functional model returns for
that call alone on a fresh object of a materialised frame. -/
theorem runCallsC_ok {P : Program} (G : Good P) {ident : κ → ι} (hinj : Function.Injective ident)
    (keyOfs : Nat → ρ → κ) (cell : ρ → String → Option Int) (rows : List ρ) (calls : List (Nat × Op)) :
    ∀ (src : Source ρ) (sts : Nat → ObjState ι κ),
      (src = .list rows ∨ src = .gen rows false) →
      (∀ g, Consistent ident (sts g).keys
        ∧ ((sts g).keys.map (·.2) = [] ∨ (sts g).keys.map (·.2) = groupKeys (keyOfs g) rows)) →
      runCallsC P ident keyOfs cell src sts calls
        = calls.map fun c => liftOut (stepS (keyOfs c.1) cell rows [] c.2).2 := by
  induction calls with
  | nil => intro _ _ _ _; rfl
  | cons c calls ih =>
    intro src sts hsrc hsts
    obtain ⟨g, op⟩ := c
    have hslot : slot P g = g := by simp [slot, G.perObject]
    simp only [runCallsC, List.map_cons, hslot]
    rw [iterate_ok G rows src hsrc]
    obtain ⟨h1, h2, h3⟩ := stepC_ok G hinj (keyOfs g) cell rows (sts g) (hsts g).1 (hsts g).2 op
    rw [h3, ih _ _ (Or.inl rfl)]
    intro j
    by_cases hj : j = g
    · subst hj
      simp only [if_true]
      exact ⟨h1, Or.inr h2⟩
    · simp only [hj, if_false]
      exact hsts j

end Core

/-! ### frames -/

/-- the functional model's frame-level result with the exception's class spelled out -/
def toExcept : Except Err (List String × List (List PyVal)) → Except String (List String × List (List PyVal))
  | .ok r => .ok r
  | .error .valueError => .error "ValueError"

theorem find_isErr_ofAgg (t : List (List PyVal × List Agg)) :
    ((t.map fun ka => (ka.1, ka.2.map AVal.ofAgg)).flatMap (·.2)).find? AVal.isErr = none := by
  rw [List.find?_eq_none]
  intro x hx
  simp only [List.mem_flatMap, List.mem_map] at hx
  obtain ⟨_, ⟨ka, _, rfl⟩, hx⟩ := hx
  simp only [List.mem_map] at hx
  obtain ⟨a, _, rfl⟩ := hx
  cases a <;> simp [AVal.ofAgg, AVal.isErr]

theorem toAgg_ofAgg (as : List Agg) : (as.map AVal.ofAgg).map AVal.toAgg = as := by
  rw [List.map_map]
  conv => rhs; rw [← List.map_id as]
  apply List.map_congr_left
  intro a _
  cases a <;> rfl

/-- What the caller sees of an `aggregate` call that returned the functional model's table. -/
theorem render_aggregate {P : Program} (hP : P.aggEmptyHeader = true) (hC : P.cell = .get) (keyCols : List String)
    (reqs : List Req) (t : List (List PyVal × List Agg)) :
    render P keyCols (.aggregate reqs) (liftOut (.table t))
      = .ok (header keyCols reqs, t.map fun ka => resultRow keyCols reqs ka.1 ka.2) := by
  simp only [liftOut, render, hC, applyCell]
  rw [find_isErr_ofAgg]
  simp only
  cases t with
  | nil => simp [hP]
  | cons ka t =>
    simp only [List.map_cons, List.isEmpty_cons, Bool.false_eq_true, if_false]
    rw [toAgg_ofAgg, List.map_map]
    congr 3
    apply List.map_congr_left
    intro ka' _
    simp only [Function.comp, toAgg_ofAgg]

/-- What the caller sees of a `groups()` call. -/
theorem render_groups {P : Program} (hP : P.groupsEmptyHeader = true) (keyCols : List String)
    (ks : List (List PyVal)) :
    render P keyCols .groups (liftOut (.keys ks))
      = .ok ((dictOf (keyCols.map fun c => (c, ()))).map (·.1),
             ks.map fun k => (dictOf (keyCols.zip k)).map (·.2)) := by
  simp only [liftOut, render]
  cases ks with
  | nil => simp [hP]
  | cons k ks => simp

instance instDecEqExcept {ε α : Type} [DecidableEq ε] [DecidableEq α] : DecidableEq (Except ε α) := fun a b =>
  match a, b with
  | .ok x, .ok y => if h : x = y then isTrue (by rw [h]) else isFalse (by intro h'; cases h'; exact h rfl)
  | .error x, .error y => if h : x = y then isTrue (by rw [h]) else isFalse (by intro h'; cases h'; exact h rfl)
  | .ok _, .error _ => isFalse (by intro h; cases h)
  | .error _, .ok _ => isFalse (by intro h; cases h)

/-- The program of the repaired tree, written out (independent of the working tree): the base of
the tightness examples in `Props/C12.lean`, which undo one repair at a time. -/
def repaired : Program :=
  { key := .tuple
    registers := true
    value := .starIfMissing
    colIndex := .indexIfPresent
    yieldGuards := []
    via := .frame
    collect := .dedup
    body := [([], .touch), ([.notNone], .append)]
    aggs := [("MIN", .minD .none), ("MAX", .maxD .none), ("COUNT", .len),
             ("AVG", .ifEmpty .none (.div (.decimal .sum) (.decimal .len))), ("SUM", .ifEmpty .none .sum)]
    labels := [stdLabel, stdLabel, stdLabel, stdLabel]
    cell := .get
    aggEmptyHeader := true
    groupsEmptyHeader := true
    iterMaterialises := true
    materializeMakesList := true
    freshValueMap := true
    registryPerObject := true }

end GroupByCode

/-- A container that can hold every position hands them all back. -/
theorem GroupByIR.PosContainer.store_ok {c : GroupByIR.PosContainer} {ps : List Int}
    (h : ∀ p ∈ ps, c.holds p = true) : c.store ps = .ok ps := by
  unfold GroupByIR.PosContainer.store
  rw [if_pos]
  exact List.all_eq_true.mpr h
