import OrsoVerif.Model.SchemaOps
/-!
# C17 — iterators: helper lemmas for `Props/C17.lean` (core `List` only)

* `snap_ask` — a snapshot iterator answers like an iterator over a list of its own (`listIterStep`);
* `snapshot_frame` — in any program (any `__iter__`, any interleaving of sums, lookups, removals, other iterators)
  a snapshot iterator's answers and what it has left are those of `listIterRun` on its own list;
* `listIterRun_yielded` — what such an iterator yields, followed by what it has left, is the list it started from;
* `irun_regs` — iterators never change a register: the registers run as under `prun`.
-/
set_option linter.unusedSectionVars false
namespace SchemaOps

variable {ι ν : Type} [DecidableEq ι] [DecidableEq ν]

theorem snap_ask (regs : List (Schema ι ν)) (l : List ν) (q : ItOp) :
    (IterSt.snap l : IterSt ι ν).ask regs q = (.snap (listIterStep l q).1, (listIterStep l q).2) := by
  cases q <;> cases l <;> rfl

theorem listIterRun_yielded (l : List ν) (qs : List ItOp) :
    yielded (listIterRun l qs).2 ++ (listIterRun l qs).1 = l := by
  induction qs generalizing l with
  | nil => simp [listIterRun, yielded]
  | cons q qs ih =>
    cases q with
    | next =>
      cases l with
      | nil => simpa [listIterRun, listIterStep, yielded] using ih []
      | cons x xs => simpa [listIterRun, listIterStep, yielded] using ih xs
    | drain => simpa [listIterRun, listIterStep, yielded] using ih []

/-- `StopIteration` is answered only by an iterator that has nothing left, and it stays that way. -/
theorem listIterRun_stop (l : List ν) (qs : List ItOp) (h : ItOut.stop ∈ (listIterRun l qs).2) :
    (listIterRun l qs).1 = [] := by
  induction qs generalizing l with
  | nil => simp [listIterRun] at h
  | cons q qs ih =>
    have hnil : ∀ qs : List ItOp, (listIterRun ([] : List ν) qs).1 = [] := by
      intro qs
      induction qs with
      | nil => rfl
      | cons q qs ih2 => cases q <;> simpa [listIterRun, listIterStep] using ih2
    cases q with
    | next =>
      cases l with
      | nil => simpa [listIterRun, listIterStep] using hnil qs
      | cons x xs =>
        simp only [listIterRun, listIterStep, List.mem_cons] at h ⊢
        rcases h with h | h
        · cases h
        · exact ih xs h
    | drain => simpa [listIterRun, listIterStep] using hnil qs

theorem snapshot_frame (src : Schema ι ν → IterSrc ι ν) (lower : ν → ν) (prog : List (IOp ν)) :
    ∀ (st st' : ISt ι ν) (outs : List (IOut ι ν)), irun src lower st prog = some (st', outs) →
      ∀ (k : Nat) (l : List ν), st.iters[k]? = some (.snap l) →
        st'.iters[k]? = some (.snap (listIterRun l (asksOf k prog)).1)
        ∧ answersOf k prog outs = (listIterRun l (asksOf k prog)).2 := by
  induction prog with
  | nil =>
    intro st st' outs h k l hk
    simp only [irun, Option.some.injEq, Prod.mk.injEq] at h
    obtain ⟨rfl, rfl⟩ := h
    simp [asksOf, listIterRun, hk, answersOf]
  | cons op rest ih =>
    intro st st' outs h k l hk
    simp only [irun] at h
    cases h1 : istep src lower st op with
    | none => simp [h1] at h
    | some r1 =>
      obtain ⟨st1, o⟩ := r1
      simp only [h1] at h
      cases h2 : irun src lower st1 rest with
      | none => simp [h2] at h
      | some r2 =>
        obtain ⟨st2, os⟩ := r2
        simp only [h2, Option.some.injEq, Prod.mk.injEq] at h
        obtain ⟨rfl, rfl⟩ := h
        cases op with
        | base bop =>
          simp only [istep] at h1
          cases hp : pstep lower st.regs bop with
          | none => simp [hp] at h1
          | some rp =>
            obtain ⟨regs', po⟩ := rp
            simp only [hp, Option.some.injEq, Prod.mk.injEq] at h1
            obtain ⟨rfl, rfl⟩ := h1
            have := ih _ _ _ h2 k l hk
            simpa [asksOf, answersOf] using this
        | mk r =>
          simp only [istep] at h1
          cases hr : st.regs[r]? with
          | none => simp [hr] at h1
          | some s =>
            simp only [hr, Option.some.injEq, Prod.mk.injEq] at h1
            obtain ⟨rfl, rfl⟩ := h1
            obtain ⟨hlt, _⟩ := List.getElem?_eq_some_iff.mp hk
            have hk1 : (st.iters ++ [(src s).start r])[k]? = some (.snap l) := by
              rw [List.getElem?_append_left hlt, hk]
            have := ih _ _ _ h2 k l hk1
            simpa [asksOf, answersOf] using this
        | ask j q =>
          simp only [istep] at h1
          cases hj : st.iters[j]? with
          | none => simp [hj] at h1
          | some it =>
            simp only [hj, Option.some.injEq, Prod.mk.injEq] at h1
            obtain ⟨rfl, rfl⟩ := h1
            by_cases hjk : j = k
            · subst hjk
              rw [hk] at hj
              cases hj
              obtain ⟨hlt, _⟩ := List.getElem?_eq_some_iff.mp hk
              have hk1 : (st.iters.set j ((IterSt.snap l : IterSt ι ν).ask st.regs q).1)[j]?
                  = some (.snap (listIterStep l q).1) := by
                simp [hlt, snap_ask]
              have := ih _ _ _ h2 j _ hk1
              simpa [asksOf, answersOf, listIterRun, snap_ask] using this
            · have hk1 : (st.iters.set j (it.ask st.regs q).1)[k]? = some (.snap l) := by
                rw [List.getElem?_set_ne hjk, hk]
              have := ih _ _ _ h2 k l hk1
              simpa [asksOf, answersOf, hjk] using this

/-- Iterators never change a register: the registers of a program with iterators run as under `prun`, whatever
`__iter__` builds. -/
theorem irun_regs (src : Schema ι ν → IterSrc ι ν) (lower : ν → ν) (prog : List (IOp ν)) :
    ∀ (st st' : ISt ι ν) (outs : List (IOut ι ν)), irun src lower st prog = some (st', outs) →
      prun lower st.regs (baseOps prog) = some (st'.regs, baseOuts prog outs) := by
  induction prog with
  | nil =>
    intro st st' outs h
    simp only [irun, Option.some.injEq, Prod.mk.injEq] at h
    obtain ⟨rfl, rfl⟩ := h
    simp [baseOps, prun, baseOuts]
  | cons op rest ih =>
    intro st st' outs h
    simp only [irun] at h
    cases h1 : istep src lower st op with
    | none => simp [h1] at h
    | some r1 =>
      obtain ⟨st1, o⟩ := r1
      simp only [h1] at h
      cases h2 : irun src lower st1 rest with
      | none => simp [h2] at h
      | some r2 =>
        obtain ⟨st2, os⟩ := r2
        simp only [h2, Option.some.injEq, Prod.mk.injEq] at h
        obtain ⟨rfl, rfl⟩ := h
        have ih' := ih _ _ _ h2
        cases op with
        | base bop =>
          simp only [istep] at h1
          cases hp : pstep lower st.regs bop with
          | none => simp [hp] at h1
          | some rp =>
            obtain ⟨regs', po⟩ := rp
            simp only [hp, Option.some.injEq, Prod.mk.injEq] at h1
            obtain ⟨rfl, rfl⟩ := h1
            simp only [] at ih'
            simp [baseOps, baseOuts, prun, hp, ih']
        | mk r =>
          simp only [istep] at h1
          cases hr : st.regs[r]? with
          | none => simp [hr] at h1
          | some s =>
            simp only [hr, Option.some.injEq, Prod.mk.injEq] at h1
            obtain ⟨rfl, rfl⟩ := h1
            simpa [baseOps, baseOuts] using ih'
        | ask j q =>
          simp only [istep] at h1
          cases hj : st.iters[j]? with
          | none => simp [hj] at h1
          | some it =>
            simp only [hj, Option.some.injEq, Prod.mk.injEq] at h1
            obtain ⟨rfl, rfl⟩ := h1
            simpa [baseOps, baseOuts] using ih'

end SchemaOps
