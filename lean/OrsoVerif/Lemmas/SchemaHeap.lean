import OrsoVerif.Model.SchemaHeap
import OrsoVerif.Lemmas.SchemaOps
/-! Helper lemmas for the heap model of C17 (`Model/SchemaHeap.lean`): one step and every run of the heap machine
with a copying `__add__` commute with the value-level machine, and "no two schemas share a column list" is an
invariant. -/
set_option linter.unusedSectionVars false
set_option linter.unusedSimpArgs false
namespace SchemaHeap
open SchemaOps
variable {ι ν : Type} [DecidableEq ι] [DecidableEq ν]

theorem view_append (heap : List (List (Col ι ν))) (x : List (Col ι ν)) (s : Ref ν) (h : s.ref < heap.length) :
    view (heap ++ [x]) s = view heap s := by
  simp [view, List.getElem?_append_left h]

theorem view_set_ne (heap : List (List (Col ι ν))) (x : List (Col ι ν)) (s : Ref ν) (k : Nat) (h : k ≠ s.ref) :
    view (heap.set k x) s = view heap s := by
  simp [view, List.getElem?_set_ne h]

theorem view_set_eq (heap : List (List (Col ι ν))) (x : List (Col ι ν)) (s : Ref ν) (h : s.ref < heap.length) :
    view (heap.set s.ref x) s = { view heap s with columns := x } := by
  simp [view, h]

/-- **The value model is a sound abstraction of the heap, because the sum copies.**  With `copies = true`, from
a state where no two schemas share a column list, one operation on the heap is exactly one operation of the
value-level register machine on the abstraction, and again no two schemas share a column list. -/
theorem heap_refines_step (lower : ν → ν) (st : St ι ν) (op : POp ν) (hwf : st.WF) :
    (hstep true lower st op).map (fun r => (r.1.abs, r.2)) = pstep lower st.abs op
    ∧ ∀ st' o, hstep true lower st op = some (st', o) → st'.WF := by
  obtain ⟨hin, hnd⟩ := hwf
  cases op with
  | add i j =>
    simp only [hstep, pstep, St.abs, List.getElem?_map]
    cases ha : st.regs[i]? with
    | none => simp
    | some a =>
      cases hb : st.regs[j]? with
      | none => simp
      | some b =>
        simp only [Option.map_some, if_true]
        constructor
        · have hmap : List.map (view (st.heap ++ [unionLoop (ids (view st.heap a).columns) (view st.heap a).columns (view st.heap b).columns])) st.regs
              = List.map (view st.heap) st.regs := by
            apply List.map_congr_left
            intro s hs
            exact view_append _ _ s (hin s hs)
          rw [List.map_append, hmap]
          simp [view, union, List.getElem?_append_right]
        · intro st' o h
          simp only [Option.some.injEq, Prod.mk.injEq] at h
          obtain ⟨rfl, _⟩ := h
          constructor
          · intro s hs
            simp only [List.mem_append, List.mem_singleton] at hs
            rcases hs with hs | rfl
            · have := hin s hs
              simp only [List.length_append, List.length_singleton]
              omega
            · simp
          · simp only [List.map_append, List.map_cons, List.map_nil]
            apply List.nodup_append.mpr
            refine ⟨hnd, by simp, ?_⟩
            intro x hx y hy hxy
            simp only [List.mem_singleton] at hy
            obtain ⟨s, hs, rfl⟩ := List.mem_map.mp hx
            have := hin s hs
            omega
  | on r op =>
    simp only [hstep, pstep, St.abs, List.getElem?_map]
    cases hr : st.regs[r]? with
    | none => simp
    | some s =>
      simp only [Option.map_some]
      obtain ⟨hlt, hget⟩ := List.getElem?_eq_some_iff.mp hr
      have hsm : s ∈ st.regs := hget ▸ List.getElem_mem hlt
      constructor
      · simp only [St.abs, Option.some.injEq, Prod.mk.injEq, and_true]
        apply List.ext_getElem?
        intro q
        by_cases hq : q = r
        · subst hq
          simp only [List.getElem?_map, hr, Option.map_some]
          rw [view_set_eq _ _ s (hin s hsm), List.getElem?_set_self (by simpa using hlt)]
        · rw [List.getElem?_set_ne (Ne.symm hq)]
          simp only [List.getElem?_map]
          cases hq' : st.regs[q]? with
          | none => simp
          | some t =>
            simp only [Option.map_some, Option.some.injEq]
            apply view_set_ne
            intro he
            obtain ⟨hlq, hgq⟩ := List.getElem?_eq_some_iff.mp hq'
            have h1 : (st.regs.map (·.ref))[q]? = some t.ref := by simp [hq']
            have h2 : (st.regs.map (·.ref))[r]? = some s.ref := by simp [hr]
            rw [he] at h2
            exact hq ((List.getElem?_inj (by simpa using hlq) hnd).mp (h1.trans h2.symm))
      · intro st' o h
        simp only [Option.some.injEq, Prod.mk.injEq] at h
        obtain ⟨rfl, _⟩ := h
        exact ⟨by simpa using hin, hnd⟩

theorem heap_refines_run (lower : ν → ν) (prog : List (POp ν)) (st : St ι ν) (hwf : st.WF) :
    (hrun true lower st prog).map (fun r => (r.1.abs, r.2)) = prun lower st.abs prog
    ∧ ∀ st' os, hrun true lower st prog = some (st', os) → st'.WF := by
  induction prog generalizing st with
  | nil => simp [hrun, prun, hwf]
  | cons op ops ih =>
    obtain ⟨h1, h2⟩ := heap_refines_step lower st op hwf
    simp only [hrun, prun]
    cases hs : hstep true lower st op with
    | none =>
      rw [hs] at h1
      simp only [Option.map_none] at h1
      simp [← h1]
    | some r =>
      obtain ⟨st1, o⟩ := r
      rw [hs] at h1
      simp only [Option.map_some] at h1
      obtain ⟨ih1, ih2⟩ := ih st1 (h2 st1 o hs)
      rw [← h1]
      simp only
      rw [← ih1]
      cases hr : hrun true lower st1 ops with
      | none => simp
      | some r2 =>
        obtain ⟨st2, os⟩ := r2
        refine ⟨by simp, ?_⟩
        intro st' os' h
        simp only [Option.some.injEq, Prod.mk.injEq] at h
        obtain ⟨rfl, _⟩ := h
        exact ih2 st2 os hr

end SchemaHeap
