import OrsoVerif.Model.CacheGen
import OrsoVerif.Lemmas.CacheSeq
/-! Lemmas about the GENERATED wrappers (`Gen.CacheFns`) for an arbitrary `==`. -/
set_option linter.unusedSectionVars false
set_option linter.unusedSimpArgs false
set_option linter.unusedVariables false
namespace Cache
open Gen.CacheFns

theorem leInf_zero (valid : Option Int) (hv : ∀ v, valid = some v → 0 ≤ v) : leInf 0 valid = true := by
  cases valid with
  | none => rfl
  | some v => simp [leInf, hv v rfl]

theorem leInf_eq_fresh (valid : Option Int) (now t : Int) : leInf (now - t) valid = fresh valid now t := by
  cases valid <;> rfl

theorem gtInf_eq_not_fresh (valid : Option Int) (now t : Int) : gtInf (now - t) valid = !fresh valid now t := by
  cases valid with
  | none => rfl
  | some v => simp only [gtInf, fresh]; by_cases h : now - t ≤ v <;> simp [h] <;> omega

section Single
variable {α β : Type} [BEq α] [BEq β]

/-- the single entry, when it holds arguments, holds a result the wrapped function produced for exactly
those arguments at the stored time -/
def GSInv (c : Option α × Option β × Option Nat × Int) (w : FnWorld (α × β)) : Prop :=
  ∀ a b, c.1 = some a → c.2.1 = some b → ∃ i, c.2.2.1 = some i ∧ w.log[i]? = some ((a, b), c.2.2.2)

/-- what a call must deliver: a value the function produced for the same arguments, not too long ago -/
def GOk (valid : Option Int) (log : List ((α × β) × Int)) (k : α × β) (now : Int) (ret : Option Nat) : Prop :=
  ∃ i stored tm, ret = some i ∧ log[i]? = some (stored, tm) ∧ sameArgs stored k ∧ leInf (now - tm) valid = true

theorem GOk.mono {valid : Option Int} {log : List ((α × β) × Int)} {k : α × β} {now : Int} {ret : Option Nat}
    (l : List ((α × β) × Int)) (h : GOk valid log k now ret) : GOk valid (log ++ l) k now ret := by
  obtain ⟨i, st, tm, h1, h2, h3, h4⟩ := h
  exact ⟨i, st, tm, h1, getElem?_app l h2, h3, h4⟩

theorem gtInf_eq_not_leInf (x : Int) (v : Option Int) : gtInf x v = !leInf x v := by
  cases v with
  | none => rfl
  | some v => simp only [gtInf, leInf]; by_cases h : x ≤ v <;> simp [h] <;> omega

theorem ltInf_eq_not_geInf (x : Int) (v : Option Int) : geInf x v = !ltInf x v := by
  cases v with
  | none => rfl
  | some v => simp only [geInf, ltInf]; by_cases h : x < v <;> simp [h] <;> omega

/-- the simp set that decides the wrapper's tests once the three atomic facts are known, whichever way the source
writes them (`==` / `!=`, `<=` / `>`, `and` / `or` / `not`, hit branch first or miss branch first) -/
macro "decide_tests" h1:ident h2:ident h3:ident : tactic =>
  `(tactic| simp only [$h1:ident, $h2:ident, $h3:ident, bne, gtInf_eq_not_leInf, Bool.not_true, Bool.not_false, Bool.false_eq_true,
      false_and, and_false, and_self, true_and, and_true, or_self, or_true, true_or, false_or, or_false, ↓reduceIte,
      not_true_eq_false, not_false_eq_true, Bool.true_eq_false])

/-- what `single_wrapper_step` claims of the triple a call returns -/
def GSStep (valid : Option Int) (a : α) (b : β) (w : FnWorld (α × β))
    (r : Option Nat × (Option α × Option β × Option Nat × Int) × FnWorld (α × β)) : Prop :=
  GSInv r.2.1 r.2.2 ∧ (∃ l, r.2.2.log = w.log ++ l) ∧ GOk valid r.2.2.log (a, b) w.now r.1

theorem single_wrapper_step (cost : α × β → Int) (valid : Option Int) (hv : ∀ v, valid = some v → 0 ≤ v)
    (a : α) (b : β) (c : Option α × Option β × Option Nat × Int) (w : FnWorld (α × β)) (h : GSInv c w) :
    GSStep valid a b w (single_wrapper cost valid a b c w) := by
  obtain ⟨x, y, r, t⟩ := c
  have hmiss : GSStep valid a b w (some w.log.length, (some a, some b, some w.log.length, w.now),
      { now := w.now + cost (a, b), log := w.log ++ [((a, b), w.now)] }) := by
    refine ⟨?_, ⟨[((a, b), w.now)], rfl⟩, ?_⟩
    · intro a2 b2 ha hb
      simp only [Option.some.injEq] at ha hb
      subst ha; subst hb
      exact ⟨w.log.length, rfl, by simp⟩
    · refine ⟨w.log.length, (a, b), w.now, rfl, by simp, Or.inl rfl, ?_⟩
      simpa using leInf_zero valid hv
  have hhit : (x == some a) = true → (y == some b) = true → leInf (w.now - t) valid = true →
      GSStep valid a b w (r, (x, y, r, t), w) := by
    intro hx hy ht
    refine ⟨h, ⟨[], by simp⟩, ?_⟩
    cases x with
    | none => simp at hx
    | some a' =>
      cases y with
      | none => simp at hy
      | some b' =>
        obtain ⟨i, hi, hl⟩ := h a' b' rfl rfl
        refine ⟨i, (a', b'), t, hi, hl, Or.inr ⟨?_, ?_⟩, ht⟩
        · simpa using hx
        · simpa using hy
  unfold single_wrapper
  simp only [FnWorld.time, FnWorld.call]
  rcases Bool.eq_false_or_eq_true (x == some a) with hx | hx <;>
  rcases Bool.eq_false_or_eq_true (y == some b) with hy | hy <;>
  rcases Bool.eq_false_or_eq_true (leInf (w.now - t) valid) with ht | ht <;>
    decide_tests hx hy ht <;> first | exact hmiss | exact hhit hx hy ht

theorem gSingleRun_ok (cost : α × β → Int) (valid : Option Int) (hv : ∀ v, valid = some v → 0 ≤ v)
    (ops : List (Op (α × β))) : ∀ (c : Option α × Option β × Option Nat × Int) (w : FnWorld (α × β)), GSInv c w →
    (∃ l, (gSingleRun cost valid c w ops).1.2.log = w.log ++ l) ∧
    ∀ e ∈ (gSingleRun cost valid c w ops).2, GOk valid (gSingleRun cost valid c w ops).1.2.log e.key e.now e.ret := by
  induction ops with
  | nil => intro c w _; exact ⟨⟨[], by simp [gSingleRun]⟩, by simp [gSingleRun]⟩
  | cons op ops ih =>
    intro c w h
    cases op with
    | advance d =>
      simp only [gSingleRun]
      exact ih c { w with now := w.now + d } h
    | call k =>
      obtain ⟨h1, ⟨l1, hl1⟩, hok⟩ := single_wrapper_step cost valid hv k.1 k.2 c w h
      obtain ⟨⟨l2, hl2⟩, hrest⟩ := ih _ _ h1
      simp only [gSingleRun]
      refine ⟨⟨l1 ++ l2, by rw [hl2, hl1, List.append_assoc]⟩, ?_⟩
      intro e he
      rcases List.mem_cons.mp he with rfl | he
      · rw [hl2]; exact GOk.mono l2 hok
      · exact hrest e he

theorem GSInv_init (w : FnWorld (α × β)) : GSInv (single_init : Option α × Option β × Option Nat × Int) w := by
  intro a b ha; simp [single_init] at ha

end Single

section Lru
variable {α β : Type} [BEq α] [BEq β] [Hashable α] [Hashable β]

/-- every stored entry holds a result the wrapped function produced for exactly the stored key at the stored time -/
def GLInv (c : PyOD (α × β) (Int × Nat)) (w : FnWorld (α × β)) : Prop :=
  ∀ e ∈ c, w.log[e.2.2]? = some (e.1, e.2.1)

theorem foldl_delitem_sub (ks : List (α × β)) : ∀ c : PyOD (α × β) (Int × Nat),
    ∀ e ∈ ks.foldl (fun c k => PyOD.delitem c k) c, e ∈ c := by
  induction ks with
  | nil => intro c e he; exact he
  | cons k ks ih =>
    intro c e he
    have := ih _ e he
    exact (List.mem_filter.mp this).1

theorem foldl_delitem_nomatch (k : α × β) (ks : List (α × β)) : ∀ c : PyOD (α × β) (Int × Nat), k ∈ ks →
    ∀ e ∈ ks.foldl (fun c k => PyOD.delitem c k) c, PyOD.keyMatch e.1 k = false := by
  induction ks with
  | nil => intro c hk; cases hk
  | cons k' ks ih =>
    intro c hk e he
    rcases List.mem_cons.mp hk with rfl | hk
    · have := foldl_delitem_sub ks _ e he
      have := (List.mem_filter.mp this).2
      simpa using this
    · exact ih _ hk e he

theorem keyMatch_beq {k1 k2 : α × β} (h : PyOD.keyMatch k1 k2 = true) : (k1.1 == k2.1) = true ∧ (k1.2 == k2.2) = true := by
  simp only [PyOD.keyMatch, Bool.and_eq_true] at h
  obtain ⟨a1, b1⟩ := k1
  obtain ⟨a2, b2⟩ := k2
  have h2 := h.2
  have : ((a1, b1) == (a2, b2)) = (a1 == a2 && b1 == b2) := rfl
  rw [this] at h2
  simpa using h2

theorem keyMatch_self [ReflBEq α] [ReflBEq β] (k : α × β) : PyOD.keyMatch k k = true := by
  simp [PyOD.keyMatch]

/-- the expiry sweep of the generated wrapper, with the tuple patterns spelled as projections -/
def gExpired (valid : Option Int) (now : Int) (c : PyOD (α × β) (Int × Nat)) : List (α × β) :=
  (c.filter (fun x => gtInf (now - x.2.1) valid)).map (·.1)

theorem gExpired_eq (valid : Option Int) (now : Int) (c : PyOD (α × β) (Int × Nat)) :
    ((PyOD.items c).filter (fun (x : (α × β) × Int × Nat) => match x with | (k, (timestamp, _)) => gtInf (now - timestamp) valid)).map
      (fun (x : (α × β) × Int × Nat) => match x with | (k, (timestamp, _)) => k) = gExpired valid now c := by
  rfl

/-- with a reflexive `==` (Python: the identity shortcut of dict lookups) everything that survives the sweep is fresh -/
theorem swept_fresh [ReflBEq α] [ReflBEq β] (valid : Option Int) (now : Int) (c : PyOD (α × β) (Int × Nat)) :
    ∀ e ∈ (gExpired valid now c).foldl (fun c k => PyOD.delitem c k) c, leInf (now - e.2.1) valid = true := by
  intro e he
  by_cases hf : gtInf (now - e.2.1) valid = true
  · have hmem : e.1 ∈ gExpired valid now c :=
      List.mem_map.mpr ⟨e, List.mem_filter.mpr ⟨foldl_delitem_sub _ _ e he, hf⟩, rfl⟩
    have := foldl_delitem_nomatch e.1 _ c hmem e he
    rw [keyMatch_self] at this
    cases this
  · cases valid with
    | none => rfl
    | some v =>
      simp only [gtInf, decide_eq_true_eq] at hf
      simp only [leInf, decide_eq_true_eq]
      omega

theorem find?_filter_not (p : (α × β) × Int × Nat → Bool) (l : List ((α × β) × Int × Nat)) :
    (l.filter (fun e => !p e)).find? p = none := by
  rw [List.find?_eq_none]
  intro e he
  have := (List.mem_filter.mp he).2
  simpa using this

theorem lru_wrapper_step [ReflBEq α] [ReflBEq β] (cost : α × β → Int) (maxSize : Nat) (valid : Option Int)
    (hv : ∀ v, valid = some v → 0 ≤ v) (a : α) (b : β) (c : PyOD (α × β) (Int × Nat)) (w : FnWorld (α × β))
    (h : GLInv c w) :
    GLInv (lru_wrapper cost maxSize valid a b c w).2.1 (lru_wrapper cost maxSize valid a b c w).2.2 ∧
    (∃ l, (lru_wrapper cost maxSize valid a b c w).2.2.log = w.log ++ l) ∧
    GOk valid (lru_wrapper cost maxSize valid a b c w).2.2.log (a, b) w.now (lru_wrapper cost maxSize valid a b c w).1 := by
  unfold lru_wrapper
  simp only [FnWorld.time, FnWorld.call, gExpired_eq]
  generalize hc1 : (gExpired valid w.now c).foldl (fun c k => PyOD.delitem c k) c = c1
  have hsub : ∀ e ∈ c1, e ∈ c := by rw [← hc1]; exact foldl_delitem_sub _ _
  have hfr : ∀ e ∈ c1, leInf (w.now - e.2.1) valid = true := by rw [← hc1]; exact swept_fresh valid w.now c
  -- decide the membership test first: the proof does not depend on which branch the source writes first
  by_cases hcont : PyOD.contains c1 (a, b) = true
  · simp only [hcont, Bool.not_true, Bool.false_eq_true, ↓reduceIte]
    simp only [PyOD.contains, List.any_eq_true] at hcont
    obtain ⟨e0, he0, hm0⟩ := hcont
    cases hfind : c1.find? (fun e => PyOD.keyMatch e.1 (a, b)) with
    | none =>
      have := List.find?_eq_none.mp hfind e0 he0
      simp [hm0] at this
    | some e =>
      have hmem := List.mem_of_find?_eq_some hfind
      have hm : PyOD.keyMatch e.1 (a, b) = true := by simpa using List.find?_some hfind
      simp only [PyOD.move_to_end, hfind, PyOD.getitem, List.find?_append,
        find?_filter_not (fun e => PyOD.keyMatch e.1 (a, b)) c1]
      simp only [List.find?, hm, Option.none_or, Option.map_some]
      refine ⟨?_, ⟨[], by simp⟩, ?_⟩
      · intro e' he'
        rcases List.mem_append.mp he' with he' | he'
        · exact h e' (hsub e' (List.mem_filter.mp he').1)
        · simp only [List.mem_singleton] at he'; subst he'; exact h e' (hsub e' hmem)
      · exact ⟨e.2.2, e.1, e.2.1, rfl, h e (hsub e hmem), Or.inr (keyMatch_beq hm), hfr e hmem⟩
  · have hcont' : PyOD.contains c1 (a, b) = false := by simpa using hcont
    simp only [hcont', Bool.not_false, Bool.false_eq_true, ↓reduceIte]
    have hset : PyOD.setitem c1 (a, b) (w.now, w.log.length) = c1 ++ [((a, b), (w.now, w.log.length))] := by
      simp only [PyOD.setitem, hcont']; simp
    simp only [hset]
    have hinv : GLInv (c1 ++ [((a, b), (w.now, w.log.length))]) { now := w.now + cost (a, b), log := w.log ++ [((a, b), w.now)] } := by
      intro e he
      rcases List.mem_append.mp he with he | he
      · exact getElem?_app _ (h e (hsub e he))
      · simp only [List.mem_singleton] at he; subst he; simp
    have hok : GOk valid (w.log ++ [((a, b), w.now)]) (a, b) w.now (some w.log.length) :=
      ⟨w.log.length, (a, b), w.now, rfl, by simp, Or.inl rfl, by simpa using leInf_zero valid hv⟩
    by_cases hlen : PyOD.len (c1 ++ [((a, b), (w.now, w.log.length))]) > maxSize
    · simp only [hlen, ↓reduceIte]
      refine ⟨?_, ⟨[((a, b), w.now)], rfl⟩, hok⟩
      intro e he
      exact hinv e (List.mem_of_mem_tail (by simpa [PyOD.popitem] using he))
    · simp only [hlen, ↓reduceIte]
      exact ⟨hinv, ⟨[((a, b), w.now)], rfl⟩, hok⟩

theorem gLruRun_ok [ReflBEq α] [ReflBEq β] (cost : α × β → Int) (maxSize : Nat) (valid : Option Int)
    (hv : ∀ v, valid = some v → 0 ≤ v) (ops : List (Op (α × β))) :
    ∀ (c : PyOD (α × β) (Int × Nat)) (w : FnWorld (α × β)), GLInv c w →
    (∃ l, (gLruRun cost maxSize valid c w ops).1.2.log = w.log ++ l) ∧
    ∀ e ∈ (gLruRun cost maxSize valid c w ops).2, GOk valid (gLruRun cost maxSize valid c w ops).1.2.log e.key e.now e.ret := by
  induction ops with
  | nil => intro c w _; exact ⟨⟨[], by simp [gLruRun]⟩, by simp [gLruRun]⟩
  | cons op ops ih =>
    intro c w h
    cases op with
    | advance d =>
      simp only [gLruRun]
      exact ih c { w with now := w.now + d } h
    | call k =>
      obtain ⟨h1, ⟨l1, hl1⟩, hok⟩ := lru_wrapper_step cost maxSize valid hv k.1 k.2 c w h
      obtain ⟨⟨l2, hl2⟩, hrest⟩ := ih _ _ h1
      simp only [gLruRun]
      refine ⟨⟨l1 ++ l2, by rw [hl2, hl1, List.append_assoc]⟩, ?_⟩
      intro e he
      rcases List.mem_cons.mp he with rfl | he
      · rw [hl2]; exact GOk.mono l2 hok
      · exact hrest e he

end Lru
end Cache
