import OrsoVerif.Lemmas.DistogramHistory
/-!
# Stage 2 of C13, part 6: whole histories of the faithful machine

* `FLedger h L B` — the faithful state `h` was reached by a history (a tree of successful `update`s with counts ≥ 1,
  `+`, bulk loads, dump/load of at most the default number of bins) whose inserted (value, weight) pairs are `L` and
  whose data bounds are `B`.  `fledger_facts`: every such state is valid, conserves mass and Σ v·f, and reports the
  exact bounds — **ties or not, through the cached differences, the exact hit and the in-place shortcut**.
* `FHist h s L B` — the same history run on both machines, the reference never seeing a second closest pair.
  `fhist_sim`: then the faithful state *is* the reference state (bins, bounds, limit), and `Built s L B`.
-/
namespace Distogram
set_option linter.unusedSectionVars false
set_option linter.unusedVariables false

variable {K : Type} [Field K] [LinearOrder K] [IsStrictOrderedRing K]

theorem isMinMax_none {o1 o2 : Option K} {B : List K} (h1 : IsMinOf o1 B) (h2 : IsMaxOf o2 B) :
    o1 = none ↔ o2 = none := by
  constructor
  · intro e
    subst e
    simp only [IsMinOf] at h1
    subst h1
    cases o2 with
    | none => rfl
    | some x => exact absurd h2.1 (by simp)
  · intro e
    subst e
    simp only [IsMaxOf] at h2
    subst h2
    cases o1 with
    | none => rfl
    | some x => exact absurd h1.1 (by simp)

theorem optMin_none_right (o : Option K) : optMin o none = o := by cases o <;> rfl
theorem optMax_none_right (o : Option K) : optMax o none = o := by cases o <;> rfl

/-! ## folds of updates (merge, `+`, bulk load) -/

theorem refStep_fold : ∀ (bs : List (K × K)) (s : RState K) (t : Bool),
    bs.foldl refStep (s, t) = (mergeRef s bs, t || foldTie s bs)
  | [], s, t => by simp [mergeRef, foldTie]
  | b :: bs, s, t => by
    simp only [List.foldl_cons]
    rw [show refStep (s, t) b = (updateRef s b.1 b.2, t || updateTie s b.1 b.2) from rfl, refStep_fold bs]
    simp only [mergeRef, List.foldl_cons, foldTie, Bool.or_assoc]

/-- A fold of successful faithful updates, ties or not: valid, conserving, bounds widened by the inserted values. -/
theorem fold_facts : ∀ (bs : List (K × K)) {h h' : Hist K} (B : List K), Coherent h → Inv h.toR → One1 h.bins → One1 bs →
    IsMinOf h.min B → IsMaxOf h.max B → bs.foldlM (fun acc b => update acc b.1 b.2) h = .ok h' →
    Coherent h' ∧ Inv h'.toR ∧ One1 h'.bins ∧ h'.cap = h.cap ∧
    mass h'.bins = mass h.bins + mass bs ∧ wsum h'.bins = wsum h.bins + wsum bs ∧
    IsMinOf h'.min (B ++ bs.map (fun b => b.1)) ∧ IsMaxOf h'.max (B ++ bs.map (fun b => b.1))
  | [], h, h', B, hc, hi, h1, _, hmin, hmax, hok => by
    simp only [List.foldlM_nil, pure, Except.pure, Except.ok.injEq] at hok
    subst hok
    simp only [List.map_nil, List.append_nil]
    refine ⟨hc, hi, h1, ?_, ?_, ?_, hmin, hmax⟩ <;> simp [mass, wsum]
  | b :: bs, h, h', B, hc, hi, h1, hb1, hmin, hmax, hok => by
    simp only [List.foldlM_cons, bind] at hok
    obtain ⟨hm, hu, hok⟩ := bind_eq_ok hok
    have hb : 1 ≤ b.2 := hb1 b (by simp)
    obtain ⟨i1, o1, m1, w1, mn1, mx1, c1⟩ := update_inv hc hi h1 hb hu
    have cc := (coherent_update hc hu).1
    obtain ⟨c2, i2, o2, p2, m2, w2, mn2, mx2⟩ := fold_facts bs (B ++ [b.1]) cc i1 o1 (fun x hx => hb1 x (by simp [hx]))
      (by rw [mn1]; exact isMinOf_minO hmin b.1) (by rw [mx1]; exact isMaxOf_maxO hmax b.1) hok
    refine ⟨c2, i2, o2, by rw [p2, c1], ?_, ?_, ?_, ?_⟩
    · rw [m2, m1]; simp only [mass, List.map_cons, List.sum_cons]; ring
    · rw [w2, w1]; simp only [wsum, List.map_cons, List.sum_cons]; ring
    · simpa [List.append_assoc] using mn2
    · simpa [List.append_assoc] using mx2

/-- A fold of successful faithful updates is the reference fold when the reference saw no second closest pair. -/
theorem fold_sim : ∀ (bs : List (K × K)) {h h' : Hist K}, Coherent h → Inv h.toR → One1 h.bins → One1 bs →
    bs.foldlM (fun acc b => update acc b.1 b.2) h = .ok h' → foldTie h.toR bs = false →
    h'.toR = mergeRef h.toR bs
  | [], h, h', _, _, _, _, hok, _ => by
    simp only [List.foldlM_nil, pure, Except.pure, Except.ok.injEq] at hok
    subst hok; rfl
  | b :: bs, h, h', hc, hi, h1, hb1, hok, hnt => by
    simp only [List.foldlM_cons, bind] at hok
    obtain ⟨hm, hu, hok⟩ := bind_eq_ok hok
    simp only [foldTie, Bool.or_eq_false_iff] at hnt
    have hb : 1 ≤ b.2 := hb1 b (by simp)
    have e := update_sim hc hi h1 hu hnt.1
    obtain ⟨i1, o1, _⟩ := update_inv hc hi h1 hb hu
    have cc := (coherent_update hc hu).1
    rw [mergeRef_cons, ← e]
    exact fold_sim bs cc i1 o1 (fun x hx => hb1 x (by simp [hx])) hok (by rw [e]; exact hnt.2)

/-! ## `+` and bulk load at the level of states -/

/-- What `Distogram.__add__` returns, in terms of the state after the merge. -/
theorem add_toR {h t h' : Hist K} (hok : add h t = .ok h') (ht : t.min = none ↔ t.max = none) :
    ∃ m, merge h t.bins = .ok m ∧
      h'.toR = { m.toR with min := optMin m.min t.min, max := optMax m.max t.max } := by
  rw [add_def] at hok
  obtain ⟨m, hm, hok⟩ := bind_eq_ok hok
  refine ⟨m, hm, ?_⟩
  split at hok
  · rename_i a b c d ha hb hc hd
    simp only [Except.ok.injEq] at hok
    subst hok
    simp only [Hist.toR, ha, hb, hc, hd, optMin, optMax]
  · rename_i hc
    simp only [Except.ok.injEq] at hok
    subst hok
    rw [hc, ht.mp hc, optMin_none_right, optMax_none_right]
    rfl
  · simp at hok

/-- What `bulkload` leaves, in terms of the state after the inserts. -/
theorem bulk_toR {h h' : Hist K} {pairs : List (K × K)} {lo hi : K} (hok : bulk h pairs lo hi = .ok h') :
    ∃ m, (pairs.filter (fun p => decide (0 < p.2))).foldlM (fun acc b => update acc b.1 b.2) h = .ok m ∧
      ((m.min = none ↔ m.max = none) →
        h'.toR = { m.toR with min := some (minO m.min lo), max := some (maxO m.max hi) }) := by
  rw [bulk_def] at hok
  obtain ⟨m, hm, hok⟩ := bind_eq_ok hok
  refine ⟨m, hm, ?_⟩
  intro hiff
  split at hok
  · rename_i a b ha hb
    simp only [Except.ok.injEq] at hok
    subst hok
    simp only [Hist.toR, ha, hb, minO, maxO]
  · rename_i hmn
    simp only [Except.ok.injEq] at hok
    subst hok
    rw [hmn, hiff.mp hmn]
    simp only [Hist.toR, minO, maxO]
  · simp at hok

/-- The facts of a sum from the facts of its operands and of the merged state (the reasoning of
`built_facts`, for any state `M` with the properties of `mergeRef s t.bins`). -/
theorem add_facts {t M : RState K} {B1 B2 : List K} {mS wS : K} {L1 L2 : List (K × K)}
    (ti : Inv t) (tm : mass t.bins = mass L2) (tw : wsum t.bins = wsum L2) (tmin : IsMinOf t.min B2) (tmax : IsMaxOf t.max B2)
    (sm : mS = mass L1) (sw : wS = wsum L1)
    (mi : Inv M) (mm : mass M.bins = mS + mass t.bins) (mw : wsum M.bins = wS + wsum t.bins)
    (mmin : IsMinOf M.min (B1 ++ t.bins.map (fun b => b.1))) (mmax : IsMaxOf M.max (B1 ++ t.bins.map (fun b => b.1))) :
    let A : RState K := { M with min := optMin M.min t.min, max := optMax M.max t.max }
    Inv A ∧ mass A.bins = mass (L1 ++ L2) ∧ wsum A.bins = wsum (L1 ++ L2) ∧
    IsMinOf A.min (B1 ++ B2) ∧ IsMaxOf A.max (B1 ++ B2) := by
  have hminF : IsMinOf (optMin M.min t.min) (B1 ++ B2) := by
    cases htm : t.min with
    | none =>
      have hb := ti.minNone htm
      rw [htm] at tmin
      simp only [IsMinOf] at tmin
      subst tmin
      rw [hb] at mmin
      simpa [optMin_none_right] using mmin
    | some mt =>
      rw [htm] at tmin
      exact isMinOf_combine mmin tmin (centres_ge_min ti htm)
  have hmaxF : IsMaxOf (optMax M.max t.max) (B1 ++ B2) := by
    cases htm : t.max with
    | none =>
      have hb := ti.maxNone htm
      rw [htm] at tmax
      simp only [IsMaxOf] at tmax
      subst tmax
      rw [hb] at mmax
      simpa [optMax_none_right] using mmax
    | some mt =>
      rw [htm] at tmax
      exact isMaxOf_combine mmax tmax (centres_le_max ti htm)
  refine ⟨?_, ?_, ?_, hminF, hmaxF⟩
  · apply inv_widen mi
    · intro x y hx hy; rw [hx] at hy; exact optMin_le_left x _ y hy
    · intro x y hx hy; rw [hx] at hy; exact optMax_ge_left x _ y hy
    · intro h
      cases hh : M.min with
      | none => rfl
      | some x => rw [hh] at h; cases ht : t.min <;> simp [optMin, ht] at h
    · intro h
      cases hh : M.max with
      | none => rfl
      | some x => rw [hh] at h; cases ht : t.max <;> simp [optMax, ht] at h
  · show mass M.bins = _
    rw [mm, mass_append, sm, tm]
  · show wsum M.bins = _
    rw [mw, wsum_append, sw, tw]

/-- The facts of a bulk load from those of the state after the inserts. -/
theorem bulk_facts {M : RState K} {B : List K} {mS wS lo hi : K} {L ins : List (K × K)}
    (hlh : lo ≤ hi) (hins : ∀ b ∈ ins, lo ≤ b.1 ∧ b.1 ≤ hi) (sm : mS = mass L) (sw : wS = wsum L)
    (mi : Inv M) (mm : mass M.bins = mS + mass ins) (mw : wsum M.bins = wS + wsum ins)
    (mmin : IsMinOf M.min (B ++ ins.map (fun b => b.1))) (mmax : IsMaxOf M.max (B ++ ins.map (fun b => b.1))) :
    let A : RState K := { M with min := some (minO M.min lo), max := some (maxO M.max hi) }
    Inv A ∧ mass A.bins = mass (L ++ ins) ∧ wsum A.bins = wsum (L ++ ins) ∧
    IsMinOf A.min (B ++ [lo, hi]) ∧ IsMaxOf A.max (B ++ [lo, hi]) := by
  have hvs_lo : ∀ v ∈ ins.map (fun b => b.1), lo ≤ v := by
    intro v hv
    obtain ⟨b, hb, rfl⟩ := List.mem_map.mp hv
    exact (hins b hb).1
  have hvs_hi : ∀ v ∈ ins.map (fun b => b.1), v ≤ hi := by
    intro v hv
    obtain ⟨b, hb, rfl⟩ := List.mem_map.mp hv
    exact (hins b hb).2
  have hlo : IsMinOf (some lo) [lo, hi] :=
    ⟨by simp, by intro b hb; simp at hb; rcases hb with rfl | rfl; exact le_refl _; exact hlh⟩
  have hhi : IsMaxOf (some hi) [lo, hi] :=
    ⟨by simp, by intro b hb; simp at hb; rcases hb with rfl | rfl; exact hlh; exact le_refl _⟩
  have hminF := isMinOf_combine mmin hlo hvs_lo
  have hmaxF := isMaxOf_combine mmax hhi hvs_hi
  rw [optMin_some_eq_minO] at hminF
  rw [optMax_some_eq_maxO] at hmaxF
  refine ⟨?_, ?_, ?_, hminF, hmaxF⟩
  · apply inv_widen mi
    · intro x y hx hy
      simp only [Option.some.injEq] at hy
      rw [← hy, hx]; exact minO_le_old x lo
    · intro x y hx hy
      simp only [Option.some.injEq] at hy
      rw [← hy, hx]; exact old_le_maxO x hi
    · intro h; cases h
    · intro h; cases h
  · show mass M.bins = _
    rw [mm, mass_append, sm]
  · show wsum M.bins = _
    rw [mw, wsum_append, sw]

/-! ## histories of the faithful machine with their ledger -/

/-- `FLedger h L B`: the faithful state `h` is the result of a history of successful operations whose inserted
(value, weight) pairs are `L` and whose data bounds are `B` (cf. `Built` for the reference machine).  Counts are
integers ≥ 1 in the code; a dump/load keeps at most the default number of bins (beyond it: open finding K01). -/
inductive FLedger : Hist K → List (K × K) → List K → Prop
  | init (cap : Nat) (hcap : 1 ≤ cap) : FLedger (Hist.init cap) [] []
  | update {h h' : Hist K} {L B} (v c : K) : FLedger h L B → 1 ≤ c → update h v c = .ok h' →
      FLedger h' (L ++ [(v, c)]) (B ++ [v])
  | add {h t h' : Hist K} {L1 B1 L2 B2} : FLedger h L1 B1 → FLedger t L2 B2 → add h t = .ok h' →
      FLedger h' (L1 ++ L2) (B1 ++ B2)
  | bulk {h h' : Hist K} {L B} (pairs : List (K × K)) (lo hi : K) : FLedger h L B → lo ≤ hi →
      (∀ p ∈ pairs, 0 < p.2 → 1 ≤ p.2 ∧ lo ≤ p.1 ∧ p.1 ≤ hi) → bulk h pairs lo hi = .ok h' →
      FLedger h' (L ++ pairs.filter (fun p => decide (0 < p.2))) (B ++ [lo, hi])
  | dumpLoad {h : Hist K} {L B} : FLedger h L B → h.bins ≠ [] → h.bins.length ≤ Gen.Distogram.binCount →
      FLedger (load h.bins h.min h.max) L B

theorem filter_one1 {pairs : List (K × K)} {lo hi : K}
    (hp : ∀ p ∈ pairs, 0 < p.2 → 1 ≤ p.2 ∧ lo ≤ p.1 ∧ p.1 ≤ hi) :
    One1 (pairs.filter (fun p => decide (0 < p.2))) ∧
    ∀ b ∈ pairs.filter (fun p => decide (0 < p.2)), lo ≤ b.1 ∧ b.1 ≤ hi := by
  constructor
  · intro b hb
    have hb' := List.mem_filter.mp hb
    exact (hp b hb'.1 (by simpa using hb'.2)).1
  · intro b hb
    have hb' := List.mem_filter.mp hb
    exact (hp b hb'.1 (by simpa using hb'.2)).2

/-- **Everything C13 says about the bins and bounds, for the code's own machine and every history — ties or not.** -/
theorem fledger_facts {h : Hist K} {L : List (K × K)} {B : List K} (hb : FLedger h L B) :
    Coherent h ∧ Inv h.toR ∧ One1 h.bins ∧ mass h.bins = mass L ∧ wsum h.bins = wsum L ∧
    IsMinOf h.min B ∧ IsMaxOf h.max B := by
  induction hb with
  | init cap hcap => exact ⟨coherent_init cap, init_inv cap hcap, by intro b hb; simp [Hist.init] at hb, rfl, rfl, rfl, rfl⟩
  | update v c _ hc hok ih =>
    obtain ⟨cc, hi, h1, hm, hw, hmin, hmax⟩ := ih
    obtain ⟨i1, o1, m1, w1, mn1, mx1, _⟩ := update_inv cc hi h1 hc hok
    refine ⟨(coherent_update cc hok).1, i1, o1, ?_, ?_, ?_, ?_⟩
    · rw [m1, mass_append, hm]; simp [mass]
    · rw [w1, wsum_append, hw]; simp [wsum]
    · rw [mn1]; exact isMinOf_minO hmin v
    · rw [mx1]; exact isMaxOf_maxO hmax v
  | @add h t h' L1 B1 L2 B2 _ _ hok ihs iht =>
    obtain ⟨sc, si, s1, sm, sw, smin, smax⟩ := ihs
    obtain ⟨tc, ti, t1, tm, tw, tmin, tmax⟩ := iht
    obtain ⟨m, hm, e⟩ := add_toR hok (isMinMax_none tmin tmax)
    rw [merge_def] at hm
    obtain ⟨c2, i2, o2, p2, m2, w2, mn2, mx2⟩ := fold_facts t.bins B1 sc si s1 t1 smin smax hm
    have hcoh : Coherent h' := by
      rw [add_def] at hok; rw [merge_def] at hok
      obtain ⟨m', hm', hok⟩ := bind_eq_ok hok
      rw [hm] at hm'
      simp only [Except.ok.injEq] at hm'
      subst hm'
      split at hok
      · simp only [Except.ok.injEq] at hok; subst hok; exact fun d hd => c2 d hd
      · simp only [Except.ok.injEq] at hok; subst hok; exact c2
      · simp at hok
    obtain ⟨ai, am, aw, amin, amax⟩ := add_facts (t := t.toR) (M := m.toR) (B1 := B1) (B2 := B2) (L1 := L1) (L2 := L2)
      ti tm tw tmin tmax sm sw i2 m2 w2 mn2 mx2
    have eb : h'.bins = m.bins := congrArg RState.bins e
    refine ⟨hcoh, by rw [e]; exact ai, by rw [eb]; exact o2, ?_, ?_, ?_, ?_⟩
    · rw [eb]; exact am
    · rw [eb]; exact aw
    · have := congrArg RState.min e; simp only [Hist.toR] at this; rw [this]; exact amin
    · have := congrArg RState.max e; simp only [Hist.toR] at this; rw [this]; exact amax
  | @bulk h h' L B pairs lo hi _ hlh hp hok ih =>
    obtain ⟨sc, si, s1, sm, sw, smin, smax⟩ := ih
    obtain ⟨f1, fin⟩ := filter_one1 hp
    obtain ⟨m, hm, e⟩ := bulk_toR hok
    obtain ⟨c2, i2, o2, p2, m2, w2, mn2, mx2⟩ := fold_facts _ B sc si s1 f1 smin smax hm
    have e := e (isMinMax_none mn2 mx2)
    have hcoh : Coherent h' := by
      rw [bulk_def] at hok
      obtain ⟨m', hm', hok⟩ := bind_eq_ok hok
      rw [hm] at hm'
      simp only [Except.ok.injEq] at hm'
      subst hm'
      split at hok
      · simp only [Except.ok.injEq] at hok; subst hok; exact fun d hd => c2 d hd
      · simp only [Except.ok.injEq] at hok; subst hok; exact fun d hd => c2 d hd
      · simp at hok
    obtain ⟨ai, am, aw, amin, amax⟩ := bulk_facts (M := m.toR) (B := B) (L := L) hlh fin sm sw i2 m2 w2 mn2 mx2
    have eb : h'.bins = m.bins := congrArg RState.bins e
    refine ⟨hcoh, by rw [e]; exact ai, by rw [eb]; exact o2, ?_, ?_, ?_, ?_⟩
    · rw [eb]; exact am
    · rw [eb]; exact aw
    · have := congrArg RState.min e; simp only [Hist.toR] at this; rw [this]; exact amin
    · have := congrArg RState.max e; simp only [Hist.toR] at this; rw [this]; exact amax
  | dumpLoad _ hne hlen ih =>
    obtain ⟨_, si, s1, sm, sw, smin, smax⟩ := ih
    refine ⟨coherent_load _ _ _ hne, ⟨si.inc, si.pos, hlen, ?_, si.minNone, si.maxNone, si.within⟩, s1, sm, sw, smin, smax⟩
    show 1 ≤ Gen.Distogram.binCount
    decide

/-! ## the same history on both machines -/

/-- `FHist h s L B`: a history run on the faithful machine (state `h`) and on the reference machine (state `s`),
in which no update of the reference — alone, or inside a `+` or a bulk load — saw a second closest pair. -/
inductive FHist : Hist K → RState K → List (K × K) → List K → Prop
  | init (cap : Nat) (hcap : 1 ≤ cap) : FHist (Hist.init cap) (RState.init cap) [] []
  | update {h h' : Hist K} {s : RState K} {L B} (v c : K) : FHist h s L B → 1 ≤ c → update h v c = .ok h' →
      updateTie s v c = false → FHist h' (updateRef s v c) (L ++ [(v, c)]) (B ++ [v])
  | add {h t h' : Hist K} {s u : RState K} {L1 B1 L2 B2} : FHist h s L1 B1 → FHist t u L2 B2 → add h t = .ok h' →
      foldTie s u.bins = false → FHist h' (addRef s u) (L1 ++ L2) (B1 ++ B2)
  | bulk {h h' : Hist K} {s : RState K} {L B} (pairs : List (K × K)) (lo hi : K) : FHist h s L B → lo ≤ hi →
      (∀ p ∈ pairs, 0 < p.2 → 1 ≤ p.2 ∧ lo ≤ p.1 ∧ p.1 ≤ hi) → bulk h pairs lo hi = .ok h' →
      foldTie s (pairs.filter (fun p => decide (0 < p.2))) = false →
      FHist h' (bulkRef s pairs lo hi) (L ++ pairs.filter (fun p => decide (0 < p.2))) (B ++ [lo, hi])
  | dumpLoad {h : Hist K} {s : RState K} {L B} : FHist h s L B → h.bins ≠ [] →
      h.bins.length ≤ Gen.Distogram.binCount → FHist (load h.bins h.min h.max) (dumpLoadRef s) L B

/-- **The refinement theorem for whole histories**: the faithful state is the reference state — bins, bounds and
limit — and the history is a `Built` history of the reference (so every stage-1 theorem applies to it), and it is
an `FLedger` history of the faithful machine. -/
theorem fhist_sim {h : Hist K} {s : RState K} {L : List (K × K)} {B : List K} (hb : FHist h s L B) :
    h.toR = s ∧ Built s L B ∧ FLedger h L B := by
  induction hb with
  | init cap hcap => exact ⟨rfl, Built.init cap hcap, FLedger.init cap hcap⟩
  | update v c _ hc hok hnt ih =>
    obtain ⟨e, bs, fl⟩ := ih
    obtain ⟨cc, hi, h1, _⟩ := fledger_facts fl
    refine ⟨?_, Built.update v c bs (lt_of_lt_of_le one_pos hc), FLedger.update v c fl hc hok⟩
    rw [← e]
    exact update_sim cc hi h1 hok (by rw [e]; exact hnt)
  | @add h t h' s u L1 B1 L2 B2 _ _ hok hnt ihs iht =>
    obtain ⟨es, bs, fs⟩ := ihs
    obtain ⟨et, bt, ft⟩ := iht
    obtain ⟨sc, si, s1, _⟩ := fledger_facts fs
    obtain ⟨_, _, t1, _, _, tmin, tmax⟩ := fledger_facts ft
    refine ⟨?_, Built.add bs bt, FLedger.add fs ft hok⟩
    obtain ⟨m, hm, e⟩ := add_toR hok (isMinMax_none tmin tmax)
    rw [merge_def] at hm
    have etb : t.bins = u.bins := congrArg RState.bins et
    have em := fold_sim t.bins sc si s1 t1 hm (by rw [es, etb]; exact hnt)
    rw [e, em, es, etb]
    have e1 : t.min = u.min := congrArg RState.min et
    have e2 : t.max = u.max := congrArg RState.max et
    have e3 : m.min = (mergeRef s u.bins).min := by
      have := congrArg RState.min em; rw [es, etb] at this; exact this
    have e4 : m.max = (mergeRef s u.bins).max := by
      have := congrArg RState.max em; rw [es, etb] at this; exact this
    simp only [addRef, e1, e2, e3, e4]
  | @bulk h h' s L B pairs lo hi _ hlh hp hok hnt ih =>
    obtain ⟨es, bs, fs⟩ := ih
    obtain ⟨sc, si, s1, _, _, smin, smax⟩ := fledger_facts fs
    obtain ⟨f1, _⟩ := filter_one1 hp
    refine ⟨?_, Built.bulk pairs lo hi bs hlh (fun p hp' hpos => (hp p hp' hpos).2), FLedger.bulk pairs lo hi fs hlh hp hok⟩
    obtain ⟨m, hm, e⟩ := bulk_toR hok
    obtain ⟨_, _, _, _, _, _, mn2, mx2⟩ := fold_facts _ B sc si s1 f1 smin smax hm
    have e := e (isMinMax_none mn2 mx2)
    have em := fold_sim _ sc si s1 f1 hm (by rw [es]; exact hnt)
    rw [e, em, es]
    have e3 : m.min = (mergeRef s (pairs.filter (fun p => decide (0 < p.2)))).min := by
      have := congrArg RState.min em; rw [es] at this; exact this
    have e4 : m.max = (mergeRef s (pairs.filter (fun p => decide (0 < p.2)))).max := by
      have := congrArg RState.max em; rw [es] at this; exact this
    simp only [bulkRef, mergeRef, e3, e4]
  | @dumpLoad h s L B _ hne hlen ih =>
    obtain ⟨e, bs, fl⟩ := ih
    have eb : h.bins = s.bins := congrArg RState.bins e
    refine ⟨?_, Built.dumpLoad bs (by rw [← eb]; exact hlen), FLedger.dumpLoad fl hne hlen⟩
    rw [← e]
    rfl

/-! ## bulk load above the direct-insert threshold -/

theorem midpoints_mem : ∀ (edges : List K) (m : K), m ∈ midpoints edges →
    ∃ a b, a ∈ edges ∧ b ∈ edges ∧ m = Gen.DistogramExpr.bulkMid a b
  | [], m, h => by simp [midpoints] at h
  | [_], m, h => by simp [midpoints] at h
  | a :: b :: rest, m, h => by
    simp only [midpoints, List.mem_cons] at h
    rcases h with rfl | h
    · exact ⟨a, b, by simp, by simp, rfl⟩
    · obtain ⟨x, y, hx, hy, e⟩ := midpoints_mem (b :: rest) m h
      exact ⟨x, y, List.mem_cons_of_mem _ hx, List.mem_cons_of_mem _ hy, e⟩

/-- The value inserted for a numpy.histogram bin is inside the data's range when the edges are. -/
theorem midpoints_within {edges : List K} {lo hi : K} (he : ∀ e ∈ edges, lo ≤ e ∧ e ≤ hi) :
    ∀ m ∈ midpoints edges, lo ≤ m ∧ m ≤ hi := by
  intro m hm
  obtain ⟨a, b, ha, hb, rfl⟩ := midpoints_mem edges m hm
  unfold Gen.DistogramExpr.bulkMid
  have h1 := he a ha
  have h2 := he b hb
  constructor
  · rw [le_div_iff₀ (by norm_num)]; linarith
  · rw [div_le_iff₀ (by norm_num)]; linarith

/-- A bulk load above the threshold (numpy.histogram's edges and counts are parameters) is a ledger step whose
inserted pairs are the midpoints with their counts. -/
theorem fledger_bulk_histogram {h h' : Hist K} {L : List (K × K)} {B : List K} (edges counts : List K) (lo hi : K)
    (hs : FLedger h L B) (hlh : lo ≤ hi) (he : ∀ e ∈ edges, lo ≤ e ∧ e ≤ hi) (hcn : ∀ c ∈ counts, 0 < c → 1 ≤ c)
    (hok : bulk h ((midpoints edges).zip counts) lo hi = .ok h') :
    FLedger h' (L ++ ((midpoints edges).zip counts).filter (fun p => decide (0 < p.2))) (B ++ [lo, hi]) := by
  apply FLedger.bulk _ lo hi hs hlh _ hok
  intro p hp hpos
  obtain ⟨h1, h2⟩ := List.of_mem_zip hp
  exact ⟨hcn p.2 h2 hpos, midpoints_within he p.1 h1⟩

end Distogram
