import OrsoVerif.Lemmas.MsgPack
/-!
# `unpack (pack v ++ rest) = (v, rest)` by mutual structural induction over values
-/
namespace MsgPack

theorem unStrV_packStr (s : String) (rest : Bytes) :
    unStrV (utf8 s).length (utf8 s ++ rest) = some (.str s, rest) := by
  simp [unStrV, unStr_utf8]

mutual
theorem unpack_pack_aux (v : PyVal) (f : Nat) (rest : Bytes)
    (hp : packable v = true) (hd : cdepth v ≤ f) :
    unpackHd (unpack f) (pack v ++ rest) = some (v, rest) := by
  match v with
  | .none => simp only [pack, List.cons_append, List.nil_append, unpackHd_cons, t192, tag192]
  | .bool false => simp only [pack, List.cons_append, List.nil_append, unpackHd_cons, t194, tag194]
  | .bool true => simp only [pack, List.cons_append, List.nil_append, unpackHd_cons, t195, tag195]
  | .int i =>
    simp only [packable, Bool.and_eq_true, decide_eq_true_eq] at hp
    simp only [pack]
    exact unpackHd_int _ i rest hp.1 hp.2
  | .float b =>
    simp only [pack]
    exact unpackHd_float _ b rest
  | .str s =>
    simp only [packable, decide_eq_true_eq] at hp
    simp only [pack, packStr, List.append_assoc]
    rw [unpackHd_strHdr _ _ _ hp, unStrV_packStr]
  | .bytes b =>
    simp only [packable, decide_eq_true_eq] at hp
    simp only [pack, List.append_assoc]
    rw [unpackHd_binHdr _ _ _ hp, unBin, takeN_append]
  | .list xs =>
    simp only [packable, Bool.and_eq_true, decide_eq_true_eq] at hp
    simp only [cdepth] at hd
    obtain ⟨g, rfl⟩ : ∃ g, f = g + 1 := ⟨f - 1, by omega⟩
    simp only [pack, List.append_assoc]
    rw [unpackHd_arrHdr _ _ _ hp.1, unArr, unpackN_packL xs g rest hp.2 (by omega)]
  | .dict kvs =>
    simp only [packable, Bool.and_eq_true, decide_eq_true_eq] at hp
    simp only [cdepth] at hd
    obtain ⟨g, rfl⟩ : ∃ g, f = g + 1 := ⟨f - 1, by omega⟩
    simp only [pack, List.append_assoc]
    rw [unpackHd_mapHdr _ _ _ hp.1, unMap, unpackKV_packD kvs g rest hp.2 (by omega)]
theorem unpackN_packL (xs : List PyVal) (g : Nat) (rest : Bytes)
    (hp : packableL xs = true) (hd : cdepthL xs ≤ g) :
    unpackN (unpack (g + 1)) xs.length (packL xs ++ rest) = some (xs, rest) := by
  match xs with
  | [] => simp only [packL, List.length_nil, List.nil_append, unpackN]
  | x :: xs =>
    simp only [packableL, Bool.and_eq_true] at hp
    simp only [cdepthL] at hd
    simp only [packL, List.length_cons, List.append_assoc, unpackN]
    rw [unpack_succ, unpack_pack_aux x g _ hp.1 (by omega)]
    simp only []
    rw [unpackN_packL xs g rest hp.2 (by omega)]
theorem unpackKV_packD (kvs : List (String × PyVal)) (g : Nat) (rest : Bytes)
    (hp : packableD kvs = true) (hd : cdepthD kvs ≤ g) :
    unpackKV (unpack (g + 1)) kvs.length (packD kvs ++ rest) = some (kvs, rest) := by
  match kvs with
  | [] => simp only [packD, List.length_nil, List.nil_append, unpackKV]
  | (k, v) :: kvs =>
    simp only [packableD, Bool.and_eq_true, decide_eq_true_eq] at hp
    simp only [cdepthD] at hd
    simp only [packD, packStr, List.length_cons, List.append_assoc, unpackKV]
    rw [unKey_strHdr _ _ hp.1, unStr_utf8]
    simp only []
    rw [unpack_succ, unpack_pack_aux v g _ hp.2.1 (by omega)]
    simp only []
    rw [unpackKV_packD kvs g rest hp.2.2 (by omega)]
end

/-- The decoder inverts the encoder on every packable value, leaving what follows unread. -/
theorem unpack_pack' (v : PyVal) (fuel : Nat) (rest : Bytes)
    (hp : packable v = true) (hd : cdepth v < fuel) :
    unpack fuel (pack v ++ rest) = some (v, rest) := by
  obtain ⟨f, rfl⟩ : ∃ f, fuel = f + 1 := ⟨fuel - 1, by omega⟩
  rw [unpack_succ]
  exact unpack_pack_aux v f rest hp (by omega)

end MsgPack
