import OrsoVerif.Model.CastPrim
import OrsoVerif.Lemmas.Cast
/-!
# C07 — lemmas about the Python primitives of `Model/CastPrim.lean`

Nothing here mentions a generated definition: the `generated_*_eq_model` theorems of `Props/C07.lean` unfold the
generated program and close the goal with these lemmas and `prim_simp`.
-/
namespace Cast.Prim
open Cast

/-- unfold the Python primitives and the `Except` monad -/
macro "prim_simp" "[" ts:Lean.Parser.Tactic.simpLemma,* "]" : tactic =>
  `(tactic| simp [kwGet, natObj, pyIsInstance, classesOf, pyTruthy, pyIsNone, pyDecode, pyEncode, pyStr, strOf, pySliceTo, pyHasAttr,
      pyUpper, pyStrip, pyIn, boolObj, intLit, pyInt, pyFloat, orjsonDumps,
      bind, Except.bind, pure, Except.pure, Except.map, Val.falsy, throw, throwThe, MonadExceptOf.throw, $ts,*])

theorem upperB_char_fin : ∀ i : Fin 256,
    Char.ofNat (upperB (UInt8.ofNat i.val)).toNat = upperC (Char.ofNat (UInt8.ofNat i.val).toNat) := by decide +kernel
theorem upperB_lt_fin : ∀ i : Fin 256,
    decide (upperB (UInt8.ofNat i.val) < 128) = decide (UInt8.ofNat i.val < 128) := by decide +kernel

/-- `bytes.upper()` byte by byte is `str.upper()` (ASCII model) on the characters the bytes spell -/
theorem upperB_char (x : UInt8) : Char.ofNat (upperB x).toNat = upperC (Char.ofNat x.toNat) := by
  have := upperB_char_fin ⟨x.toNat, x.toNat_lt⟩
  simpa using this

theorem upperB_lt (x : UInt8) : decide (upperB x < 128) = decide (x < 128) := by
  have := upperB_lt_fin ⟨x.toNat, x.toNat_lt⟩
  simpa using this

theorem asciiChars_map_upperB (b : List UInt8) : asciiChars (b.map upperB) = upper (asciiChars b) := by
  simp only [asciiChars, upper, List.map_map]
  apply List.map_congr_left
  intro x _
  exact upperB_char x

theorem lt128_comp_upperB : ((fun x : UInt8 => decide (x < 128)) ∘ upperB) = fun x => decide (x < 128) := by
  funext x; exact upperB_lt x

theorem map_bind_some (r : Except Exc Val) :
    (r.bind fun x => Except.ok (some x)).map ofOpt = r.map Obj.val := by
  cases r <;> rfl

theorem toOpt_ofOpt (r : Option Val) : toOpt (ofOpt r) = r := by cases r <;> rfl

/-- element-wise application of a function that is the element type's cast is `parseArray` -/
theorem mapE_eq_parseArray (fot : Fot) (t : Ty) (f : Obj → M Obj) :
    ∀ xs : List (Option Val), (∀ x ∈ xs, f (ofOpt x) = (parse fot t x).map ofOpt) →
      mapE f xs = parseArray fot (some t) xs
  | [], _ => rfl
  | x :: xs, h => by
    have hx := h x (List.mem_cons_self ..)
    have ih := mapE_eq_parseArray fot t f xs (fun y hy => h y (List.mem_cons_of_mem _ hy))
    simp only [mapE, parseArray, hx, ih]
    cases parse fot t x with
    | error e => rfl
    | ok r =>
      simp only [Except.map, Except.bind, toOpt_ofOpt]

theorem parseArray_none (fot : Fot) (xs : List (Option Val)) : parseArray fot none xs = .ok xs := by
  cases xs <;> rfl

theorem not_native (v : Val) : pyIsInstance (.val v) [.list, .tuple, .set] = false := by cases v <;> rfl

/-- where the model's `loadElements` has an answer, `orjson.loads` followed by iteration gives it -/
theorem orjsonLoads_of_loadElements (fot : Fot) (v : Val) (r : Except Exc (List (Option Val)))
    (h : Json.loadElements fot v = some r) :
    (∃ e, orjsonLoads fot (.val v) = .error e ∧ r = .error e) ∨
    (∃ j, orjsonLoads fot (.val v) = .ok (.json j) ∧ r = Json.elementsOf j) := by
  cases v with
  | str s =>
    simp only [Json.loadElements] at h
    simp only [orjsonLoads]
    cases hr : Json.readJson fot s with
    | ok j => rw [hr] at h; simp only [Option.some.injEq] at h; exact Or.inr ⟨j, rfl, h.symm⟩
    | error e =>
      rw [hr] at h
      cases e with
      | bad => simp only [Option.some.injEq] at h; exact Or.inl ⟨_, rfl, h.symm⟩
      | unsupported => cases h
  | bytes b =>
    simp only [Json.loadElements] at h
    simp only [orjsonLoads]
    cases hd : Iso.decodeUtf8 b with
    | none => rw [hd] at h; simp only [Option.some.injEq] at h; exact Or.inl ⟨_, rfl, h.symm⟩
    | some s =>
      rw [hd] at h
      simp only at h ⊢
      cases hr : Json.readJson fot s with
      | ok j => rw [hr] at h; simp only [Option.some.injEq] at h; exact Or.inr ⟨j, rfl, h.symm⟩
      | error e =>
        rw [hr] at h
        cases e with
        | bad => simp only [Option.some.injEq] at h; exact Or.inl ⟨_, rfl, h.symm⟩
        | unsupported => cases h
  | _ => simp [Json.loadElements] at h

end Cast.Prim
