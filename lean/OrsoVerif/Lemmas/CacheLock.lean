import OrsoVerif.Lemmas.CacheLru
/-! Helper lemmas for C19: the lock of the repaired `lru_cache_with_expiry`.

`LockInv`: at most one thread is inside a `with lock:` block (and then the lock bit is set), the
dictionary's keys are unique, the thread inside knows what it has learnt about the dictionary since
it acquired the lock (`Know`), and no thread is on an exception path.  Every failure branch of the
dictionary operations in `lstepThr` contradicts `Know`, so no call ever ends in an exception. -/
namespace Cache
set_option linter.unusedSectionVars false
set_option linter.unusedSimpArgs false
set_option linter.unusedVariables false
variable {K : Type} [DecidableEq K]

def keysOf (items : List (LEntry K)) : List K := items.map (·.key)

/-- what the thread inside the lock knows about the dictionary at each program point -/
def Know (od : OD K) (t : LThr K) : Prop :=
  match t.pc with
  | .iterNext (some k) ver acc =>
    ver = od.ver ∧ ∃ pre post, keysOf od.items = pre ++ k :: post ∧ acc.Sublist pre
  | .iterNext none _ acc => acc.Sublist (keysOf od.items)
  | .del todo => todo.Sublist (keysOf od.items)
  | .move => t.key ∈ keysOf od.items
  | .get => t.key ∈ keysOf od.items
  | .acq2 => t.res.isSome = true
  | .store => t.res.isSome = true
  | .len => t.res.isSome = true
  | .pop => t.res.isSome = true ∧ od.items ≠ []
  | .rel2 => t.res.isSome = true
  | .cleanup _ => False
  | .relErr _ => False
  | _ => True

theorem keysOf_delKey (items : List (LEntry K)) (k : K) :
    keysOf (delKey items k) = (keysOf items).filter (fun x => x ≠ k) := by
  unfold keysOf delKey
  rw [List.filter_map]
  rfl

theorem any_key_iff (items : List (LEntry K)) (k : K) :
    items.any (fun e => e.key = k) = true ↔ k ∈ keysOf items := by
  unfold keysOf
  rw [List.any_eq_true, List.mem_map]
  constructor
  · rintro ⟨e, he, h⟩; exact ⟨e, he, by simpa using h⟩
  · rintro ⟨e, he, h⟩; exact ⟨e, he, by simpa using h⟩

theorem find_key_some (items : List (LEntry K)) (k : K) (h : k ∈ keysOf items) :
    ∃ e, items.find? (fun e => e.key = k) = some e ∧ e.key = k := by
  cases hf : items.find? (fun e => e.key = k) with
  | none =>
    rw [List.find?_eq_none] at hf
    simp only [keysOf, List.mem_map] at h
    obtain ⟨e, he, hk⟩ := h
    exact absurd (by simpa using hk) (hf e he)
  | some e => exact ⟨e, rfl, by simpa using List.find?_some hf⟩

theorem nextKey_spec : ∀ (pre : List K) (items : List (LEntry K)) (k : K) (post : List K),
    keysOf items = pre ++ k :: post → k ∉ pre → nextKey items k = post.head? := by
  intro pre
  induction pre with
  | nil =>
    intro items k post h _
    cases items with
    | nil => simp [keysOf] at h
    | cons e rest =>
      simp only [keysOf, List.map_cons, List.nil_append, List.cons.injEq] at h
      obtain ⟨hk, hr⟩ := h
      unfold nextKey
      simp only [List.dropWhile_cons, hk, ne_eq, not_true_eq_false, decide_false, Bool.false_eq_true, if_false]
      cases rest with
      | nil => simp at hr; subst hr; rfl
      | cons e2 r2 => simp at hr; subst hr; rfl
  | cons a pre ih =>
    intro items k post h hn
    cases items with
    | nil => simp [keysOf] at h
    | cons e rest =>
      simp only [keysOf, List.map_cons, List.cons_append, List.cons.injEq] at h
      obtain ⟨hk, hr⟩ := h
      have hne : e.key ≠ k := by
        intro he; apply hn; rw [← he, hk]; exact List.mem_cons_self
      have := ih rest k post hr (fun hm => hn (List.mem_cons_of_mem _ hm))
      unfold nextKey at this ⊢
      simp only [List.dropWhile_cons, ne_eq, hne, not_false_eq_true, decide_true, if_true]
      exact this

/-- one `next()` under the lock: never an exception, and the iterator's knowledge is carried on -/
theorem iterStep_know (valid : Option Int) (w : LWorld K) (t : LThr K) (k : K) (acc pre post : List K)
    (hnd : (keysOf w.od.items).Nodup) (hk : keysOf w.od.items = pre ++ k :: post) (ha : acc.Sublist pre) :
    Know w.od (iterStep valid w t k w.od.ver acc) ∧ (iterStep valid w t k w.od.ver acc).out = t.out ∧
    (iterStep valid w t k w.od.ver acc).pc.inLock = true := by
  have hkin : k ∈ keysOf w.od.items := by rw [hk]; simp
  obtain ⟨e, hf, _⟩ := find_key_some w.od.items k hkin
  have hnp : k ∉ pre := by
    rw [hk] at hnd
    intro hm
    have := (List.nodup_append.mp hnd).2.2 k hm k (by simp)
    exact this rfl
  have hnext := nextKey_spec pre w.od.items k post hk hnp
  unfold iterStep
  simp only [ne_eq, not_true_eq_false, if_false, hf, hnext]
  refine ⟨?_, by first | rfl | trivial, by first | rfl | trivial⟩
  have hacc : (if fresh valid t.now e.time = true then acc else acc ++ [k]).Sublist (pre ++ [k]) := by
    split
    · exact ha.trans (List.sublist_append_left _ _)
    · exact List.Sublist.append ha (List.Sublist.refl _)
  cases post with
  | nil =>
    simp only [List.head?_nil, Know]
    rw [hk]; exact hacc
  | cons k2 post2 =>
    simp only [List.head?_cons, Know]
    exact ⟨by first | rfl | trivial, pre ++ [k], post2, by rw [hk]; simp, hacc⟩

/-- Lemma A: a line executed by the thread INSIDE the lock. -/
theorem lstepThr_holder (maxSize : Nat) (valid : Option Int) (cost : K → Int) (w : LWorld K) (t : LThr K)
    (hnd : (keysOf w.od.items).Nodup) (hk : Know w.od t) (hc : t.pc.inLock = true) (ho : t.out = none) :
    (keysOf (lstepThr maxSize valid cost w t).1.od.items).Nodup ∧
    ((lstepThr maxSize valid cost w t).2.out = none → Know (lstepThr maxSize valid cost w t).1.od (lstepThr maxSize valid cost w t).2) ∧
    (∀ cls, (lstepThr maxSize valid cost w t).2.out ≠ some (.err cls)) ∧
    ((lstepThr maxSize valid cost w t).2.crit = true → (lstepThr maxSize valid cost w t).1.lock = w.lock) ∧
    ((lstepThr maxSize valid cost w t).2.crit = false → (lstepThr maxSize valid cost w t).1.lock = false) := by
  unfold lstepThr
  split
  · rename_i h; simp [h, LPc.inLock] at hc                            -- clk
  · rename_i h; simp [h, LPc.inLock] at hc                            -- acq1
  · rename_i h                                                         -- iterFirst
    split
    · refine ⟨hnd, ?_, ?_, ?_, ?_⟩ <;> simp [Know, ho, LThr.crit, LPc.inLock]
    · rename_i e rest hitems
      have hkeys : keysOf w.od.items = [] ++ e.key :: keysOf rest := by simp [hitems, keysOf]
      obtain ⟨h1, h2, h3⟩ := iterStep_know valid w t e.key [] [] _ hnd hkeys (List.Sublist.refl _)
      refine ⟨hnd, fun _ => h1, ?_, ?_, ?_⟩
      · rw [h2, ho]; simp
      · intro _; rfl
      · simp [LThr.crit, h2, ho, h3]
  · rename_i ver acc h                                                 -- iterNext none
    simp only [Know, h] at hk
    refine ⟨hnd, ?_, ?_, ?_, ?_⟩
    · intro _
      unfold afterScan
      split
      · simp [Know]
      · simp only [Know]; exact hk
    · simp [ho]
    · intro _; rfl
    · unfold afterScan; split <;> simp [LThr.crit, ho, LPc.inLock]
  · rename_i k ver acc h                                               -- iterNext some
    simp only [Know, h] at hk
    obtain ⟨hver, pre, post, hkeys, hsub⟩ := hk
    subst hver
    obtain ⟨h1, h2, h3⟩ := iterStep_know valid w t k acc pre post hnd hkeys hsub
    refine ⟨hnd, fun _ => h1, ?_, ?_, ?_⟩
    · rw [h2, ho]; simp
    · intro _; rfl
    · simp [LThr.crit, h2, ho, h3]
  · refine ⟨hnd, ?_, ?_, ?_, ?_⟩ <;> simp [Know, ho, LThr.crit, LPc.inLock]   -- del []
  · rename_i k rest h                                                  -- del (k :: rest)
    simp only [Know, h] at hk
    have hkin : k ∈ keysOf w.od.items := hk.subset List.mem_cons_self
    have hany := (any_key_iff w.od.items k).mpr hkin
    rw [if_pos hany]
    have hnd2 : (k :: rest).Nodup := hk.nodup hnd
    have hkr : k ∉ rest := (List.nodup_cons.mp hnd2).1
    have hsub : rest.Sublist (keysOf (delKey w.od.items k)) := by
      rw [keysOf_delKey]
      have h1 : (rest.filter (fun x => decide (x ≠ k))).Sublist ((keysOf w.od.items).filter (fun x => decide (x ≠ k))) :=
        ((List.sublist_cons_self k rest).trans hk).filter _
      have h2 : rest.filter (fun x => decide (x ≠ k)) = rest := by
        rw [List.filter_eq_self]
        intro x hx
        simp only [ne_eq, decide_not, Bool.not_eq_eq_eq_not, Bool.not_true, decide_eq_false_iff_not]
        intro hxk; exact hkr (hxk ▸ hx)
      rw [h2] at h1; exact h1
    refine ⟨?_, ?_, ?_, ?_, ?_⟩
    · show (keysOf (delKey w.od.items k)).Nodup
      rw [keysOf_delKey]; exact hnd.filter _
    · intro _
      show Know _ _
      by_cases hr : rest.isEmpty = true
      · simp [Know, hr]
      · simp only [Know, hr, Bool.false_eq_true, if_false]; exact hsub
    · simp [ho]
    · intro _; rfl
    · by_cases hr : rest.isEmpty = true <;> simp [LThr.crit, ho, LPc.inLock, hr]
  · rename_i h                                                         -- inCheck
    split
    · rename_i hany
      refine ⟨hnd, ?_, ?_, ?_, ?_⟩
      · intro _; simp only [Know]; exact (any_key_iff _ _).mp hany
      · simp [ho]
      · intro _; rfl
      · simp [LThr.crit, ho, LPc.inLock]
    · refine ⟨hnd, ?_, ?_, ?_, ?_⟩ <;> simp [Know, ho, LThr.crit, LPc.inLock]
  · rename_i h                                                         -- move
    simp only [Know, h] at hk
    obtain ⟨e, hf, hek⟩ := find_key_some w.od.items t.key hk
    simp only [hf]
    split
    · refine ⟨hnd, ?_, ?_, ?_, ?_⟩
      · intro _; simp only [Know]; exact hk
      · simp [ho]
      · intro _; rfl
      · simp [LThr.crit, ho, LPc.inLock]
    · have hkeys : keysOf (delKey w.od.items t.key ++ [e]) = (keysOf w.od.items).filter (fun x => x ≠ t.key) ++ [t.key] := by
        rw [← keysOf_delKey]; simp [keysOf, hek]
      refine ⟨?_, ?_, ?_, ?_, ?_⟩
      · show (keysOf (delKey w.od.items t.key ++ [e])).Nodup
        rw [hkeys]
        refine List.nodup_append.mpr ⟨hnd.filter _, by simp, ?_⟩
        intro a ha b hb
        simp only [List.mem_singleton] at hb
        subst hb
        simp only [List.mem_filter, ne_eq, decide_not, Bool.not_eq_eq_eq_not, Bool.not_true,
          decide_eq_false_iff_not] at ha
        exact ha.2
      · intro _
        show Know _ _
        simp only [Know]
        show t.key ∈ keysOf (delKey w.od.items t.key ++ [e])
        rw [hkeys]; simp
      · simp [ho]
      · intro _; rfl
      · simp [LThr.crit, ho, LPc.inLock]
  · rename_i h                                                         -- get
    simp only [Know, h] at hk
    obtain ⟨e, hf, hek⟩ := find_key_some w.od.items t.key hk
    simp only [hf]
    refine ⟨hnd, ?_, ?_, ?_, ?_⟩ <;> simp [Know, ho, LThr.crit, LPc.inLock]
  · refine ⟨hnd, ?_, ?_, ?_, ?_⟩ <;> simp [Know, ho, LThr.crit, LPc.inLock]   -- rel1Hit
  · refine ⟨hnd, ?_, ?_, ?_, ?_⟩ <;> simp [Know, ho, LThr.crit, LPc.inLock]   -- rel1Miss
  · rename_i h; simp [h, LPc.inLock] at hc                            -- call
  · rename_i h; simp [h, LPc.inLock] at hc                            -- acq2
  · rename_i h                                                         -- store
    simp only [Know, h] at hk
    obtain ⟨id, hid⟩ := Option.isSome_iff_exists.mp hk
    simp only [hid]
    split
    · rename_i hany
      have hkeys : keysOf (w.od.items.map (fun e' => if e'.key = t.key then ({ key := t.key, time := t.now, res := id } : LEntry K) else e')) = keysOf w.od.items := by
        unfold keysOf
        rw [List.map_map]
        apply List.map_congr_left
        intro e' _
        by_cases hk' : e'.key = t.key <;> simp [hk']
      refine ⟨?_, ?_, ?_, ?_, ?_⟩
      · show (keysOf _).Nodup
        rw [hkeys]; exact hnd
      · intro _; simp [Know, hid]
      · simp [ho]
      · intro _; rfl
      · simp [LThr.crit, ho, LPc.inLock]
    · rename_i hany
      have hnin : t.key ∉ keysOf w.od.items := fun hm => hany ((any_key_iff _ _).mpr hm)
      refine ⟨?_, ?_, ?_, ?_, ?_⟩
      · show (keysOf (w.od.items ++ [_])).Nodup
        simp only [keysOf, List.map_append, List.map_cons, List.map_nil]
        refine List.nodup_append.mpr ⟨hnd, by simp, ?_⟩
        intro a ha b hb
        simp only [List.mem_singleton] at hb
        subst hb
        intro hab; subst hab; exact hnin ha
      · intro _; simp [Know, hid]
      · simp [ho]
      · intro _; rfl
      · simp [LThr.crit, ho, LPc.inLock]
  · rename_i h                                                         -- len
    simp only [Know, h] at hk
    split
    · rename_i hlen
      refine ⟨hnd, ?_, ?_, ?_, ?_⟩
      · intro _
        simp only [Know]
        refine ⟨hk, ?_⟩
        intro hnil; rw [hnil] at hlen; simp at hlen
      · simp [ho]
      · intro _; rfl
      · simp [LThr.crit, ho, LPc.inLock]
    · refine ⟨hnd, ?_, ?_, ?_, ?_⟩ <;> simp [Know, ho, LThr.crit, LPc.inLock, hk]
  · rename_i h                                                         -- pop
    simp only [Know, h] at hk
    split
    · rename_i hnil; exact absurd hnil hk.2
    · rename_i x rest hitems
      refine ⟨?_, ?_, ?_, ?_, ?_⟩
      · show (keysOf rest).Nodup
        have : (keysOf (x :: rest)).Nodup := by rw [← hitems]; exact hnd
        simp only [keysOf, List.map_cons] at this
        exact (List.nodup_cons.mp this).2
      · intro _; simp [Know, hk.1]
      · simp [ho]
      · intro _; rfl
      · simp [LThr.crit, ho, LPc.inLock]
  · rename_i h                                                         -- rel2
    simp only [Know, h] at hk
    obtain ⟨id, hid⟩ := Option.isSome_iff_exists.mp hk
    simp only [hid]
    refine ⟨hnd, ?_, ?_, ?_, ?_⟩ <;> simp [Know, ho, LThr.crit, LPc.inLock]
  · rename_i h; simp [Know, h] at hk                                   -- cleanup
  · rename_i h; simp [Know, h] at hk                                   -- relErr

/-- Lemma B: a line executed by a thread OUTSIDE the lock: the dictionary is not touched; the thread
enters the lock only when it is free. -/
theorem lstepThr_outsider (maxSize : Nat) (valid : Option Int) (cost : K → Int) (w : LWorld K) (t : LThr K)
    (hk : Know w.od t) (hc : t.pc.inLock = false) (ho : t.out = none) :
    (lstepThr maxSize valid cost w t).1.od = w.od ∧
    Know w.od (lstepThr maxSize valid cost w t).2 ∧
    (lstepThr maxSize valid cost w t).2.out = none ∧
    ((lstepThr maxSize valid cost w t).2.crit = true → w.lock = false ∧ (lstepThr maxSize valid cost w t).1.lock = true) ∧
    ((lstepThr maxSize valid cost w t).2.crit = false → (lstepThr maxSize valid cost w t).1.lock = w.lock) := by
  unfold lstepThr
  split
  · refine ⟨rfl, ?_, ho, ?_, ?_⟩ <;> simp [Know, LThr.crit, LPc.inLock]            -- clk
  · rename_i h                                                                       -- acq1
    split
    · rename_i hl
      refine ⟨rfl, hk, ho, ?_, ?_⟩ <;> simp [LThr.crit, hc]
    · rename_i hl
      refine ⟨rfl, ?_, ho, ?_, ?_⟩ <;> simp [Know, LThr.crit, LPc.inLock, ho] <;> simpa using hl
  all_goals first
    | (rename_i h; simp [h, LPc.inLock] at hc; done)
    | skip
  · refine ⟨rfl, ?_, ho, ?_, ?_⟩ <;> simp [Know, LThr.crit, LPc.inLock]            -- call
  · rename_i h                                                                       -- acq2
    simp only [Know, h] at hk
    split
    · rename_i hl
      refine ⟨rfl, by simp only [Know, h]; exact hk, ho, ?_, ?_⟩ <;> simp [LThr.crit, hc]
    · rename_i hl
      refine ⟨rfl, ?_, ho, ?_, ?_⟩ <;> simp [Know, LThr.crit, LPc.inLock, ho, hk] <;> simpa using hl

theorem Know_outside (od od' : OD K) (t : LThr K) (h : t.pc.inLock = false) (hk : Know od t) : Know od' t := by
  unfold Know at *
  cases hp : t.pc <;> simp_all [LPc.inLock]

theorem getElem?_set_cases {α : Type} (l : List α) (i j : Nat) (a x : α) (h : (l.set i a)[j]? = some x) :
    (j = i ∧ x = a) ∨ (j ≠ i ∧ l[j]? = some x) := by
  by_cases hji : j = i
  · subst hji
    left
    rw [List.getElem?_set] at h
    simp only [if_true] at h
    split at h
    · exact ⟨rfl, by simpa using h.symm⟩
    · simp at h
  · right
    rw [List.getElem?_set] at h
    rw [if_neg (fun h' => hji h'.symm)] at h
    exact ⟨hji, h⟩

/-- The invariant of the locked LRU wrapper (index based: the thread list may hold equal threads). -/
structure LockInv (c : LConc K) : Prop where
  nodup : (keysOf c.w.od.items).Nodup
  excl : ∀ (i j : Nat) (ti tj : LThr K), c.thr[i]? = some ti → c.thr[j]? = some tj →
    ti.crit = true → tj.crit = true → i = j
  held : ∀ (j : Nat) (tj : LThr K), c.thr[j]? = some tj → tj.crit = true → c.w.lock = true
  know : ∀ (j : Nat) (tj : LThr K), c.thr[j]? = some tj → tj.out = none → Know c.w.od tj
  noerr : ∀ (j : Nat) (tj : LThr K), c.thr[j]? = some tj → ∀ cls, tj.out ≠ some (Outcome.err cls)

theorem LockInv.init (t0 : Int) (keys : List K) : LockInv (LConc.init t0 keys) := by
  have hst : ∀ (j : Nat) (tj : LThr K), (LConc.init t0 keys).thr[j]? = some tj → ∃ k, tj = LThr.start k := by
    intro j tj h
    simp only [LConc.init, List.getElem?_map, Option.map_eq_some_iff] at h
    obtain ⟨k, _, hk⟩ := h
    exact ⟨k, hk.symm⟩
  refine ⟨by simp [LConc.init, keysOf], ?_, ?_, ?_, ?_⟩
  · intro i j ti tj hi hj hci
    obtain ⟨k, rfl⟩ := hst i ti hi
    simp [LThr.start, LThr.crit, LPc.inLock] at hci
  · intro j tj hj hc
    obtain ⟨k, rfl⟩ := hst j tj hj
    simp [LThr.start, LThr.crit, LPc.inLock] at hc
  · intro j tj hj _
    obtain ⟨k, rfl⟩ := hst j tj hj
    simp [LThr.start, Know]
  · intro j tj hj cls
    obtain ⟨k, rfl⟩ := hst j tj hj
    simp [LThr.start]

theorem crit_iff (t : LThr K) (ho : t.out = none) : t.crit = t.pc.inLock := by
  simp [LThr.crit, ho]

/-- one scheduled line of thread `i` preserves the invariant -/
theorem LockInv.run (maxSize : Nat) (valid : Option Int) (cost : K → Int) (c : LConc K) (i : Nat) (t : LThr K)
    (hc : LockInv c) (hg : c.thr[i]? = some t) (ho : t.out = none) :
    LockInv { w := (lstepThr maxSize valid cost c.w t).1, thr := c.thr.set i (lstepThr maxSize valid cost c.w t).2 } := by
  by_cases hin : t.pc.inLock = true
  · -- the thread inside the lock
    have htc : t.crit = true := by rw [crit_iff t ho]; exact hin
    obtain ⟨a1, a2, a3, a4, a5⟩ := lstepThr_holder maxSize valid cost c.w t hc.nodup (hc.know i t hg ho) hin ho
    have hlock : c.w.lock = true := hc.held i t hg htc
    have hoth : ∀ j tj, j ≠ i → c.thr[j]? = some tj → tj.crit = false := by
      intro j tj hji hj
      cases hcr : tj.crit with
      | false => rfl
      | true => exact absurd (hc.excl j i tj t hj hg hcr htc) hji
    refine ⟨a1, ?_, ?_, ?_, ?_⟩
    · intro i1 j1 ti tj h1 h2 c1 c2
      rcases getElem?_set_cases _ _ _ _ _ h1 with ⟨e1, _⟩ | ⟨n1, g1⟩
      · rcases getElem?_set_cases _ _ _ _ _ h2 with ⟨e2, _⟩ | ⟨n2, g2⟩
        · rw [e1, e2]
        · rw [hoth j1 tj n2 g2] at c2; cases c2
      · rw [hoth i1 ti n1 g1] at c1; cases c1
    · intro j tj h1 c1
      rcases getElem?_set_cases _ _ _ _ _ h1 with ⟨_, e1⟩ | ⟨n1, g1⟩
      · subst e1; show (lstepThr maxSize valid cost c.w t).1.lock = true; rw [a4 c1]; exact hlock
      · rw [hoth j tj n1 g1] at c1; cases c1
    · intro j tj h1 o1
      rcases getElem?_set_cases _ _ _ _ _ h1 with ⟨_, e1⟩ | ⟨n1, g1⟩
      · subst e1; exact a2 o1
      · have hnc := hoth j tj n1 g1
        rw [crit_iff tj o1] at hnc
        exact Know_outside c.w.od _ tj hnc (hc.know j tj g1 o1)
    · intro j tj h1
      rcases getElem?_set_cases _ _ _ _ _ h1 with ⟨_, e1⟩ | ⟨n1, g1⟩
      · subst e1; exact a3
      · exact hc.noerr j tj g1
  · -- a thread outside the lock
    have hin' : t.pc.inLock = false := by simpa using hin
    have htc : t.crit = false := by rw [crit_iff t ho]; exact hin'
    obtain ⟨b1, b2, b3, b4, b5⟩ := lstepThr_outsider maxSize valid cost c.w t (hc.know i t hg ho) hin' ho
    refine ⟨by show (keysOf (lstepThr maxSize valid cost c.w t).1.od.items).Nodup; rw [b1]; exact hc.nodup, ?_, ?_, ?_, ?_⟩
    · intro i1 j1 ti tj h1 h2 c1 c2
      rcases getElem?_set_cases _ _ _ _ _ h1 with ⟨e1, x1⟩ | ⟨n1, g1⟩
      · rcases getElem?_set_cases _ _ _ _ _ h2 with ⟨e2, _⟩ | ⟨n2, g2⟩
        · rw [e1, e2]
        · subst x1
          have := (b4 c1).1
          rw [hc.held j1 tj g2 c2] at this; cases this
      · rcases getElem?_set_cases _ _ _ _ _ h2 with ⟨e2, x2⟩ | ⟨n2, g2⟩
        · subst x2
          have := (b4 c2).1
          rw [hc.held i1 ti g1 c1] at this; cases this
        · exact hc.excl i1 j1 ti tj g1 g2 c1 c2
    · intro j tj h1 c1
      show (lstepThr maxSize valid cost c.w t).1.lock = true
      rcases getElem?_set_cases _ _ _ _ _ h1 with ⟨_, e1⟩ | ⟨n1, g1⟩
      · subst e1; exact (b4 c1).2
      · cases hcr : (lstepThr maxSize valid cost c.w t).2.crit with
        | true => exact (b4 hcr).2
        | false => rw [b5 hcr]; exact hc.held j tj g1 c1
    · intro j tj h1 o1
      show Know (lstepThr maxSize valid cost c.w t).1.od tj
      rw [b1]
      rcases getElem?_set_cases _ _ _ _ _ h1 with ⟨_, e1⟩ | ⟨n1, g1⟩
      · subst e1; exact b2
      · exact hc.know j tj g1 o1
    · intro j tj h1
      rcases getElem?_set_cases _ _ _ _ _ h1 with ⟨_, e1⟩ | ⟨n1, g1⟩
      · subst e1; intro cls; rw [b3]; simp
      · exact hc.noerr j tj g1

/-- whatever `run i` preserves, `finish i` preserves -/
theorem finish_of_run (maxSize : Nat) (valid : Option Int) (cost : K → Int) (P : LConc K → Prop)
    (hrun : ∀ (c : LConc K) (i : Nat) (t : LThr K), P c → c.thr[i]? = some t → t.out = none →
      P { w := (lstepThr maxSize valid cost c.w t).1, thr := c.thr.set i (lstepThr maxSize valid cost c.w t).2 }) :
    ∀ (fuel : Nat) (c : LConc K) (i : Nat) (t : LThr K), P c → c.thr[i]? = some t →
      P { w := (LConc.finishThr maxSize valid cost fuel c.w t).1,
          thr := c.thr.set i (LConc.finishThr maxSize valid cost fuel c.w t).2 } := by
  have hself : ∀ (c : LConc K) (i : Nat) (t : LThr K), c.thr[i]? = some t →
      ({ w := c.w, thr := c.thr.set i t } : LConc K) = c := by
    intro c i t h
    have : c.thr.set i t = c.thr := by
      apply List.ext_getElem?
      intro j
      rw [List.getElem?_set]
      split
      · rename_i hij; subst hij
        split
        · exact h.symm
        · rename_i hlt; rw [List.getElem?_eq_none (by omega)]
      · rfl
    rw [this]
  intro fuel
  induction fuel with
  | zero => intro c i t hp hg; simp only [LConc.finishThr]; rw [hself c i t hg]; exact hp
  | succ n ih =>
    intro c i t hp hg
    unfold LConc.finishThr
    by_cases hd : t.out.isSome = true
    · rw [if_pos hd]; rw [hself c i t hg]; exact hp
    · rw [if_neg hd]
      have ho : t.out = none := by simpa using hd
      have h1 := hrun c i t hp hg ho
      have hlt : i < c.thr.length := by
        rcases Nat.lt_or_ge i c.thr.length with h | h
        · exact h
        · rw [List.getElem?_eq_none h] at hg; cases hg
      have h2 := ih { w := (lstepThr maxSize valid cost c.w t).1, thr := c.thr.set i (lstepThr maxSize valid cost c.w t).2 } i
        (lstepThr maxSize valid cost c.w t).2 h1 (by simp [List.getElem?_set, hlt])
      simpa [List.set_set] using h2

theorem LockInv.step (maxSize : Nat) (valid : Option Int) (cost : K → Int) (c c' : LConc K) (s : SStep)
    (hc : LockInv c) (h : LConc.step maxSize valid cost c s = some c') : LockInv c' := by
  cases s with
  | tick d =>
    simp only [LConc.step, Option.some.injEq] at h
    subst h; exact ⟨hc.nodup, hc.excl, hc.held, hc.know, hc.noerr⟩
  | run i =>
    simp only [LConc.step] at h
    cases hg : c.thr[i]? with
    | none => simp [hg] at h
    | some t =>
      simp only [hg] at h
      by_cases hd : t.out.isSome = true
      · simp [hd] at h
      · simp only [hd, if_false, Option.some.injEq, Bool.false_eq_true] at h
        subst h
        exact LockInv.run maxSize valid cost c i t hc hg (by simpa using hd)
  | finish i =>
    simp only [LConc.step] at h
    cases hg : c.thr[i]? with
    | none => simp [hg] at h
    | some t =>
      simp only [hg] at h
      by_cases hd : t.out.isSome = true
      · simp [hd] at h
      · simp only [hd, if_false, Option.some.injEq, Bool.false_eq_true] at h
        subst h
        exact finish_of_run maxSize valid cost LockInv (fun c i t => LockInv.run maxSize valid cost c i t) _ c i t hc hg

theorem LockInv.runSched (maxSize : Nat) (valid : Option Int) (cost : K → Int) (ss : List SStep) :
    ∀ (c c' : LConc K), LockInv c → LConc.runSched maxSize valid cost c ss = some c' → LockInv c' := by
  induction ss with
  | nil => intro c c' hc h; simp only [LConc.runSched, Option.some.injEq] at h; subst h; exact hc
  | cons s ss ih =>
    intro c c' hc h
    simp only [LConc.runSched] at h
    cases hs : LConc.step maxSize valid cost c s with
    | none => simp [hs] at h
    | some c1 =>
      simp only [hs] at h
      exact ih c1 c' (LockInv.step maxSize valid cost c c1 s hc hs) h

end Cache
