import OrsoVerif.Lemmas.Arrow
/-!
Helper lemmas for C11: transposition of rectangular frames (`to_arrow` and the row view of the
table it builds), and the step from the type-level round trip to the column-level one.
-/
namespace Arrow

variable {α : Type}

theorem transposeN_length (w : Nat) : ∀ rows : List (List α), (transposeN w rows).length = w := by
  induction w with
  | zero => intro _; rfl
  | succ w ih => intro rows; simp [transposeN, ih]

/-- first cells of the columns of `r :: rs` are the cells of `r` -/
theorem transposeN_heads : ∀ (w : Nat) (r : List α) (rs : List (List α)), r.length = w →
    (transposeN w (r :: rs)).filterMap List.head? = r := by
  intro w
  induction w with
  | zero =>
    intro r rs h
    have : r = [] := List.eq_nil_of_length_eq_zero h
    subst this; rfl
  | succ w ih =>
    intro r rs h
    cases r with
    | nil => simp at h
    | cons a r' =>
      simp only [List.length_cons, Nat.add_right_cancel_iff] at h
      simp only [transposeN, List.filterMap_cons, List.head?_cons, List.map_cons, List.tail_cons]
      rw [ih r' _ h]

/-- dropping the first cell of every column drops the first row -/
theorem transposeN_tails : ∀ (w : Nat) (r : List α) (rs : List (List α)), r.length = w →
    (transposeN w (r :: rs)).map List.tail = transposeN w rs := by
  intro w
  induction w with
  | zero => intro r rs _; rfl
  | succ w ih =>
    intro r rs h
    cases r with
    | nil => simp at h
    | cons a r' =>
      simp only [List.length_cons, Nat.add_right_cancel_iff] at h
      simp only [transposeN, List.filterMap_cons, List.head?_cons, List.map_cons, List.tail_cons]
      rw [ih r' _ h]

/-- transposing a rectangular frame twice gives it back -/
theorem transposeN_involutive (w : Nat) : ∀ rows : List (List α), (∀ r ∈ rows, r.length = w) →
    transposeN rows.length (transposeN w rows) = rows := by
  intro rows
  induction rows with
  | nil => intro _; rfl
  | cons r rs ih =>
    intro h
    have hr : r.length = w := h r (List.mem_cons_self)
    have hrs : ∀ x ∈ rs, x.length = w := fun x hx => h x (List.mem_cons_of_mem _ hx)
    simp only [List.length_cons, transposeN]
    rw [transposeN_heads w r rs hr, transposeN_tails w r rs hr, ih hrs]

theorem filterMap_head_length : ∀ rows : List (List α), (∀ r ∈ rows, r ≠ []) →
    (rows.filterMap List.head?).length = rows.length := by
  intro rows
  induction rows with
  | nil => intro _; rfl
  | cons r rs ih =>
    intro h
    cases r with
    | nil => exact absurd rfl (h [] List.mem_cons_self)
    | cons a r' =>
      simp only [List.filterMap_cons, List.head?_cons, List.length_cons]
      rw [ih (fun x hx => h x (List.mem_cons_of_mem _ hx))]

/-- What the skeleton needs to know about `head` (assembled from the *generated* window arithmetic of
`DataFrame.slice`; proved of the current source in `Props/C11.lean`: `head_glue_spec`). -/
def HeadFact : Prop := ∀ {β : Type} (k : Nat) (rows : List (List β)), head k rows = rows.take k

theorem limited_rect (H : HeadFact) (rows : List (List α)) (size : Option Int) (w : Nat)
    (h : ∀ r ∈ rows, r.length = w) : ∀ r ∈ limited rows size, r.length = w := by
  intro r hr
  unfold limited at hr
  split at hr
  · rw [H] at hr; exact h r (List.mem_of_mem_take hr)
  · exact h r hr

/-- What the skeleton needs to know about `to_arrow`'s *generated* empty-frame test (proved of the
current source in `Props/C11.lean`: `to_arrow_empty_guard_spec`). -/
def EmptyFact : Prop := ∀ n : Nat, Gen.ArrowExpr.toArrowEmptyTest (n : Int) ↔ n = 0

theorem toArrow_eq (E : EmptyFact) (names : List String) (rows : List (List α)) (size : Option Int) :
    toArrow names rows size =
      if (limited rows size).length = 0 then { names := names, cols := List.replicate names.length [] }
      else { names := names, cols := transposeN names.length (limited rows size) } := by
  simp only [toArrow]
  by_cases h : (limited rows size).length = 0
  · rw [if_pos h, if_pos ((E _).mpr h)]
  · rw [if_neg h, if_neg (fun h' => h ((E _).mp h'))]

theorem toArrow_names (names : List String) (rows : List (List α)) (size : Option Int) :
    (toArrow names rows size).names = names := by
  simp only [toArrow]; split <;> rfl

theorem toArrow_numRows (H : HeadFact) (E : EmptyFact) (names : List String) (rows : List (List α)) (size : Option Int)
    (hw : 0 < names.length) (hrect : ∀ r ∈ rows, r.length = names.length) :
    (toArrow names rows size).numRows = (limited rows size).length := by
  rw [toArrow_eq E]
  obtain ⟨w, hw'⟩ : ∃ w, names.length = w + 1 := ⟨names.length - 1, by omega⟩
  split
  · next h0 =>
    rw [hw', h0]; rfl
  · next h0 =>
    rw [hw']
    simp only [ColTable.numRows, transposeN]
    apply filterMap_head_length
    intro r hr hnil
    have := limited_rect H rows size _ hrect r hr
    rw [hnil, hw'] at this
    simp at this

theorem toArrow_rows (H : HeadFact) (E : EmptyFact) (names : List String) (rows : List (List α)) (size : Option Int)
    (hw : 0 < names.length) (hrect : ∀ r ∈ rows, r.length = names.length) :
    (toArrow names rows size).rows = limited rows size := by
  unfold ColTable.rows
  rw [toArrow_numRows H E names rows size hw hrect, toArrow_eq E]
  split
  · next h0 =>
    rw [h0, List.eq_nil_of_length_eq_zero h0]; rfl
  · exact transposeN_involutive _ _ (limited_rect H rows size _ hrect)

/-- `element_type` is only looked at for ARRAY columns (schema.py:312-316). -/
theorem forthTy_elem_irrelevant (t : OrsoTy) (h : t ≠ .ARRAY) (e : Option OrsoTy) (p s : Option Nat) :
    forthTy t e p s = forthTy t none p s := by
  unfold forthTy
  simp [h]

/-- From the type-level round trip to the column built by `from_arrow(col.arrow_field)`. -/
theorem roundtripCol_of_backTy (name : String) (t : OrsoTy) (e : Option OrsoTy) (p s : Option Nat)
    (nullable : Bool) (r : OrsoTy × Option OrsoTy × Option Nat × Option Nat)
    (hn : Gen.Arrow.carriesName = true) (hp : Gen.Arrow.fieldPassesName = true)
    (h : backTy false (forthTy t e p s) = some r) :
    ∃ c', roundtripCol ⟨name, t, e, p, s, nullable⟩ = some c' ∧ c'.type = r.1 ∧ c'.elem = r.2.1 ∧
      c'.precision = (normalise r.1 r.2.2.1 r.2.2.2).1 ∧ c'.scale = (normalise r.1 r.2.2.1 r.2.2.2).2 ∧
      c'.name = name := by
  obtain ⟨t', e', p', s'⟩ := r
  simp only [roundtripCol, fromArrowField, arrowField, h]
  refine ⟨_, rfl, ?_⟩
  exact ⟨rfl, rfl, rfl, rfl, by simp [hn, hp]⟩

end Arrow
