import OrsoVerif.Model.Arrow
/-!
Helper lemmas for C11 (rows): batching is invisible, `fetch` finds the first row of the
remaining tables, one `next` call delivers exactly the head of `remaining`, `drainWith next`
delivers `remaining` cut to the size limit.
-/
namespace Arrow

variable {α : Type}

theorem splitFuel_flatten (n : Nat) (hn : 0 < n) :
    ∀ (f : Nat) (xs : List α), xs.length ≤ f → (splitFuel f n xs).flatten = xs := by
  intro f
  induction f with
  | zero =>
    intro xs h
    have : xs = [] := List.eq_nil_of_length_eq_zero (by omega)
    subst this; rfl
  | succ f ih =>
    intro xs h
    cases xs with
    | nil => rfl
    | cons x xs =>
      simp only [splitFuel, List.flatten_cons]
      rw [ih]
      · exact List.take_append_drop n (x :: xs)
      · simp only [List.length_drop, List.length_cons] at *
        omega

theorem splitEvery_flatten (n : Nat) (hn : 0 < n) (xs : List α) : (splitEvery n xs).flatten = xs := by
  cases xs with
  | nil => rfl
  | cons x xs => exact splitFuel_flatten n hn _ _ (Nat.le_refl _)

theorem processTable_eq_rows (n : Nat) (hn : 0 < n) (t : Table α) : processTable n t = t.rows := by
  unfold processTable toBatches Table.rows
  induction t with
  | nil => rfl
  | cons c t ih =>
    simp only [List.flatMap_cons, List.flatten_append, List.flatten_cons]
    rw [splitEvery_flatten n hn, ih]

/-- The rows the remaining tables still hold. -/
def pending (b : Nat) (ts : List (Table α)) : List α := (ts.map (processTable b)).flatten

theorem pending_cons (b : Nat) (t : Table α) (ts : List (Table α)) :
    pending b (t :: ts) = processTable b t ++ pending b ts := by
  simp [pending]

theorem fetch_none (b : Nat) : ∀ ts : List (Table α), pending b ts = [] → fetch b ts = none := by
  intro ts
  induction ts with
  | nil => intro _; rfl
  | cons t ts ih =>
    intro h
    rw [pending_cons] at h
    have h1 : processTable b t = [] := (List.append_eq_nil_iff.mp h).1
    have h2 : pending b ts = [] := (List.append_eq_nil_iff.mp h).2
    simp only [fetch, h1]
    split
    · exact ih h2
    · rfl

theorem fetch_some (L : Gen.ArrowExpr.fetchLoops = true) (b : Nat) :
    ∀ (ts : List (Table α)) (r : α) (rest : List α), pending b ts = r :: rest →
    ∃ cur ts', fetch b ts = some (r, cur, ts') ∧ cur ++ pending b ts' = rest := by
  intro ts
  induction ts with
  | nil => intro r rest h; simp [pending] at h
  | cons t ts ih =>
    intro r rest h
    rw [pending_cons] at h
    cases hp : processTable b t with
    | nil =>
      rw [hp, List.nil_append] at h
      obtain ⟨cur, ts', h1, h2⟩ := ih r rest h
      exact ⟨cur, ts', by simp only [fetch, hp, L, if_true, h1], h2⟩
    | cons r' cur =>
      rw [hp, List.cons_append] at h
      injection h with h1 h2
      subst h1
      exact ⟨cur, ts, by simp only [fetch, hp], h2⟩

/-- What the hand-written skeleton needs to know about the *generated* `__next__` expressions
(proved of the current source in `Props/C11.lean`: `next_guard_spec`, `next_bookkeeping_spec`). -/
structure NextFacts : Prop where
  stop : ∀ p m : Nat, Gen.ArrowExpr.nextStopTest (p : Int) (m : Int) ↔ m ≤ p
  bump : ∀ p : Nat, bump p = p + 1
  loops : Gen.ArrowExpr.fetchLoops = true

theorem remaining_eq (s : It α) : s.remaining = s.current ++ pending s.batch s.tables := rfl

theorem next_full (s : It α) (h : s.full = true) : next s = (none, s) := by
  simp [next, h]

theorem next_empty (s : It α) (hf : s.full = false) (h : s.remaining = []) : (next s).1 = none := by
  rw [remaining_eq] at h
  have h1 : s.current = [] := (List.append_eq_nil_iff.mp h).1
  have h2 : pending s.batch s.tables = [] := (List.append_eq_nil_iff.mp h).2
  simp [next, hf, h1, fetch_none _ _ h2]

theorem next_some (N : NextFacts) (s : It α) (hf : s.full = false) (r : α) (rest : List α)
    (h : s.remaining = r :: rest) :
    ∃ s', next s = (some r, s') ∧ s'.remaining = rest ∧ s'.processed = s.processed + 1 ∧
      s'.maxSize = s.maxSize ∧ s'.batch = s.batch := by
  rw [remaining_eq] at h
  cases hc : s.current with
  | cons r' cur =>
    rw [hc, List.cons_append] at h
    injection h with h1 h2
    subst h1
    refine ⟨{ s with current := cur, processed := bump s.processed }, ?_, ?_, N.bump _, rfl, rfl⟩
    · simp [next, hf, hc]
    · simpa [It.remaining, pending] using h2
  | nil =>
    rw [hc, List.nil_append] at h
    obtain ⟨cur, ts', h1, h2⟩ := fetch_some N.loops _ _ r rest h
    refine ⟨{ s with tables := ts', current := cur, processed := bump s.processed }, ?_, ?_, N.bump _, rfl, rfl⟩
    · simp [next, hf, hc, h1]
    · simpa [It.remaining, pending] using h2

/-- How many more rows the size limit lets through. -/
def It.room (s : It α) : Nat :=
  match s.maxSize with
  | none => s.remaining.length
  | some m => m - s.processed

theorem full_iff_room (N : NextFacts) (s : It α) (hne : s.remaining ≠ []) : s.full = true ↔ s.room = 0 := by
  unfold It.full It.room
  cases s.maxSize with
  | none =>
    simp only [Bool.false_eq_true, false_iff]
    intro h
    exact hne (List.eq_nil_of_length_eq_zero h)
  | some m =>
    simp only [decide_eq_true_eq]
    rw [N.stop]
    omega

theorem drainWith_next (N : NextFacts) : ∀ (f : Nat) (s : It α), s.remaining.length < f →
    drainWith next f s = s.remaining.take s.room := by
  intro f
  induction f with
  | zero => intro s h; omega
  | succ f ih =>
    intro s h
    cases hr : s.remaining with
    | nil =>
      simp only [drainWith, List.take_nil]
      cases hfull : s.full with
      | true => rw [next_full s hfull]
      | false =>
        have := next_empty s hfull hr
        cases hn : next s with
        | mk a b => rw [hn] at this; simp only at this; subst this; rfl
    | cons r rest =>
      have hne : s.remaining ≠ [] := by rw [hr]; exact List.cons_ne_nil _ _
      cases hfull : s.full with
      | true =>
        have h0 := (full_iff_room N s hne).mp hfull
        simp only [drainWith, next_full s hfull, h0, List.take_zero]
      | false =>
        obtain ⟨s', h1, h2, h3, h4, h5⟩ := next_some N s hfull r rest hr
        have hroom : s.room = s'.room + 1 := by
          have hnz : s.room ≠ 0 := fun h0 => by
            have := (full_iff_room N s hne).mpr h0
            rw [hfull] at this; exact Bool.noConfusion this
          unfold It.room at *
          rw [h4, h2, h3]
          rw [hr] at hnz ⊢
          cases hm : s.maxSize with
          | none => simp
          | some m => rw [hm] at hnz; simp only at hnz ⊢; omega
        have hlen : s'.remaining.length < f := by
          rw [h2]; rw [hr] at h; simp only [List.length_cons] at h; omega
        simp only [drainWith, h1]
        rw [ih s' hlen, hroom, h2, List.take_succ_cons]

theorem drain_eq (N : NextFacts) (s : It α) : drain s = s.remaining.take s.room :=
  drainWith_next N _ s (Nat.lt_succ_self _)

/-- every table still to come has at least one row -/
def It.noEmptyTable (s : It α) : Prop := ∀ t ∈ s.tables, processTable s.batch t ≠ []

theorem nextPinned_eq_next (s : It α) (h : s.noEmptyTable) :
    nextPinned s = next s ∧ (next s).2.noEmptyTable := by
  obtain ⟨tables, current, processed, maxSize, batch⟩ := s
  unfold nextPinned next
  by_cases hf : It.full ⟨tables, current, processed, maxSize, batch⟩ = true
  · simp only [hf, if_true]; exact ⟨trivial, h⟩
  · simp only [hf]
    cases current with
    | cons r rest => exact ⟨rfl, h⟩
    | nil =>
      cases tables with
      | nil => simp only [fetch]; exact ⟨trivial, h⟩
      | cons t ts =>
        have hne := h t List.mem_cons_self
        simp only at hne
        cases hp : processTable batch t with
        | nil => exact absurd hp hne
        | cons r rest =>
          simp only [fetch, hp]
          exact ⟨trivial, fun t' ht' => h t' (List.mem_cons_of_mem _ ht')⟩

theorem drainWith_pinned_eq : ∀ (f : Nat) (s : It α), s.noEmptyTable →
    drainWith nextPinned f s = drainWith next f s := by
  intro f
  induction f with
  | zero => intro _ _; rfl
  | succ f ih =>
    intro s h
    obtain ⟨h1, h2⟩ := nextPinned_eq_next s h
    simp only [drainWith, h1]
    cases hn : next s with
    | mk o s' =>
      cases o with
      | none => rfl
      | some r =>
        rw [hn] at h2
        simp only [ih s' h2]

end Arrow
