import OrsoVerif.Model.RowBytes
/-!
# Lemmas about the record framing (helper lemmas for `Props/C01.lean`)

The lemmas unfold the generated constants (`Gen.Row.*`); if one of them changes in the source the
lemma that depends on it is re-checked and fails when the fact no longer holds.
-/
namespace RowBytes

theorem cmp_size (a b : Int) : cmpOp Gen.Row.guardSizeOp a b = some (decide (a < b)) := by
  simp [cmpOp, Gen.Row.guardSizeOp]

theorem cmp_len (a b : Int) : cmpOp Gen.Row.guardLenOp a b = some (decide (a ≠ b)) := by
  simp [cmpOp, Gen.Row.guardLenOp]

/-- The size test of `as_bytes` (`record_size <capOp> MAXIMUM_RECORD_SIZE`, operator and constant extracted) as a
proposition.  The framing lemmas below need only two facts about it: the operator is one of the two that refuse
everything *above* the constant, and the constant is below `2^31` (so an emitted length survives the decoder's C `int`).
*Which* of the two operators and *which* constant is the business of the named theorems of `Props/C01.lean`
(`encode_total`, `as_bytes_accepts_iff_payload_le_limit`, `nbytes_reaches_the_guard`): a change of either breaks those,
not the lemmas here. -/
def overCap (len : Nat) : Prop :=
  if Gen.Row.capOp = ">=" then len ≥ Gen.Row.maxRecord else len > Gen.Row.maxRecord

instance (len : Nat) : Decidable (overCap len) := by unfold overCap; infer_instance

theorem capOp_known : Gen.Row.capOp = ">" ∨ Gen.Row.capOp = ">=" := by decide

theorem cap_small : Gen.Row.maxRecord < 2147483648 := by decide

theorem overCap_of_big {len : Nat} (h : len ≥ 2147483648) : overCap len := by
  have := cap_small
  unfold overCap
  split <;> omega

theorem or4 (a b c d : Nat) (hb : b < 256) (hc : c < 256) (hd : d < 256) :
    (((0 ||| a <<< 24) ||| b <<< 16) ||| c <<< 8) ||| d <<< 0 = a * 16777216 + b * 65536 + c * 256 + d := by
  have h1 : c <<< 8 ||| d = c <<< 8 + d := (Nat.shiftLeft_add_eq_or_of_lt (by omega) c).symm
  have h2 : b <<< 16 ||| (c <<< 8 + d) = b <<< 16 + (c <<< 8 + d) :=
    (Nat.shiftLeft_add_eq_or_of_lt (by simp [Nat.shiftLeft_eq]; omega) b).symm
  have h3 : a <<< 24 ||| (b <<< 16 + (c <<< 8 + d)) = a <<< 24 + (b <<< 16 + (c <<< 8 + d)) :=
    (Nat.shiftLeft_add_eq_or_of_lt (by simp [Nat.shiftLeft_eq]; omega) a).symm
  rw [Nat.zero_or, Nat.shiftLeft_zero, Nat.or_assoc, Nat.or_assoc, h1, h2, h3]
  simp [Nat.shiftLeft_eq]; omega

/-- The numeric value of four length bytes as the decoder assembles it (before the C `int` wrap). -/
def len4 (l0 l1 l2 l3 : UInt8) : Nat :=
  l0.toNat * 16777216 + l1.toNat * 65536 + l2.toNat * 256 + l3.toNat

/-- Two's-complement reading of a 32-bit value. -/
def wrap32 (v : Nat) : Int := if v ≥ 2147483648 then (v : Int) - 4294967296 else (v : Int)

theorem recordSize_cons (p0 p1 l0 l1 l2 l3 : UInt8) (rest : Bytes) :
    recordSize (p0 :: p1 :: l0 :: l1 :: l2 :: l3 :: rest) = wrap32 (len4 l0 l1 l2 l3) := by
  have h0 := l0.toNat_lt; have h1 := l1.toNat_lt; have h2 := l2.toNat_lt; have h3 := l3.toNat_lt
  simp only [recordSize, cInt32, Gen.Row.lengthField, List.foldl, byteAt, List.getD_cons_succ,
    List.getD_cons_zero, wrap32, len4]
  rw [or4 _ _ _ _ h1 h2 h3]
  have : (l0.toNat * 16777216 + l1.toNat * 65536 + l2.toNat * 256 + l3.toNat) % 2 ^ 32
      = l0.toNat * 16777216 + l1.toNat * 65536 + l2.toNat * 256 + l3.toNat := by
    apply Nat.mod_eq_of_lt; omega
  rw [this]
  rfl

theorem guard_size (length : Int) (data : Bytes) :
    guard "size" length data = some (if length < 14 then some .malformed else none) := by
  simp [guard, verdict, cmp_size, Gen.Row.decHeaderSize]

theorem guard_version (length : Int) (data : Bytes) :
    guard "version" length data = some (if (byteAt data 0 &&& 240) ≠ 16 then some .malformed else none) := by
  simp [guard, verdict, Gen.Row.nibbleMask, Gen.Row.nibbleValue]

theorem guard_length (length : Int) (data : Bytes) :
    guard "length" length data = some (if recordSize data ≠ length - 14 then some .badLength else none) := by
  simp [guard, verdict, cmp_len, Gen.Row.decHeaderSize]

/-- The guards of `from_bytes_cython` in the extracted order, with the extracted operators, mask,
value and header size: size, then version nibble, then length field. -/
theorem checkHead_eq (length : Nat) (data : Bytes) :
    checkHead length data =
      if (length : Int) < 14 then .error .malformed
      else if (byteAt data 0 &&& 240) ≠ 16 then .error .malformed
      else if recordSize data ≠ (length : Int) - 14 then .error .badLength
      else .ok () := by
  simp only [checkHead, Gen.Row.guardOrder, runGuards, guard_size, guard_version, guard_length]
  by_cases h1 : (length : Int) < 14
  · simp [h1]
  · by_cases h2 : (byteAt data 0 &&& 240) = 16
    · by_cases h3 : recordSize data = (length : Int) - 14
      · simp [h1, h2, h3]
      · simp [h1, h2, h3]
    · simp [h1, h2]

/-- The decoder as one chain of tests. -/
theorem checkFrame_eq (data : Bytes) :
    checkFrame data =
      if (data.length : Int) < 14 then .error .malformed
      else if (byteAt data 0 &&& 240) ≠ 16 then .error .malformed
      else if recordSize data ≠ (data.length : Int) - 14 then .error .badLength
      else .ok (data.drop 14) := by
  unfold checkFrame
  rw [checkHead_eq]
  by_cases h1 : (data.length : Int) < 14
  · rw [if_pos h1, if_pos h1]
  · rw [if_neg h1, if_neg h1]
    by_cases h2 : (byteAt data 0 &&& 240) ≠ 16
    · rw [if_pos h2, if_pos h2]
    · rw [if_neg h2, if_neg h2]
      by_cases h3 : recordSize data ≠ (data.length : Int) - 14
      · rw [if_pos h3, if_pos h3]
      · rw [if_neg h3, if_neg h3]; rfl

/-- First guard, size part: anything shorter than the decoder's header size is malformed. -/
theorem checkFrame_short (data : Bytes) (h : data.length < 14) :
    checkFrame data = .error .malformed := by
  rw [checkFrame_eq, if_pos (by omega)]

/-- The decoder on a buffer with at least six explicit bytes and at least eight more. -/
theorem checkFrame_cons (p0 p1 l0 l1 l2 l3 : UInt8) (rest : Bytes) (h : 8 ≤ rest.length) :
    checkFrame (p0 :: p1 :: l0 :: l1 :: l2 :: l3 :: rest) =
      if (p0.toNat &&& 240) ≠ 16 then .error .malformed
      else if wrap32 (len4 l0 l1 l2 l3) ≠ ((rest.length - 8 : Nat) : Int) then .error .badLength
      else .ok (rest.drop 8) := by
  have e1 : ((rest.length : Nat) : Int) + 1 + 1 + 1 + 1 + 1 + 1 - 14 = ((rest.length - 8 : Nat) : Int) := by omega
  have e2 : ¬ (((rest.length : Nat) : Int) + 1 + 1 + 1 + 1 + 1 + 1 < 14) := by omega
  rw [checkFrame_eq]
  simp only [recordSize_cons, byteAt, List.getD_cons_zero, List.length_cons, Int.natCast_add,
    Int.cast_ofNat_Int, e1, e2]
  by_cases hn : (p0.toNat &&& 240) = 16
  · by_cases hw : wrap32 (len4 l0 l1 l2 l3) = ((rest.length - 8 : Nat) : Int)
    · simp [hn, hw]
    · simp [hn, hw]
  · simp [hn]

theorem header_eq (len ts : Nat) : header len ts =
    [16, 0, UInt8.ofNat (len / 16777216), UInt8.ofNat (len / 65536), UInt8.ofNat (len / 256), UInt8.ofNat len,
     UInt8.ofNat (ts / 72057594037927936), UInt8.ofNat (ts / 281474976710656), UInt8.ofNat (ts / 1099511627776),
     UInt8.ofNat (ts / 4294967296), UInt8.ofNat (ts / 16777216), UInt8.ofNat (ts / 65536), UInt8.ofNat (ts / 256),
     UInt8.ofNat ts] := by
  simp [header, toBytes, be, Gen.Row.headerPrefix, Gen.Row.lenWidth, Gen.Row.tsWidth, Gen.Row.bigEndian]

theorem header_length (len ts : Nat) : (header len ts).length = 14 := by
  rw [header_eq]; rfl

theorem len4_be (len : Nat) (h : len < 4294967296) :
    len4 (UInt8.ofNat (len / 16777216)) (UInt8.ofNat (len / 65536)) (UInt8.ofNat (len / 256)) (UInt8.ofNat len) = len := by
  simp [len4, UInt8.toNat_ofNat']; omega

/-- The decoder on a buffer that starts with an emitted header: accepted exactly when the length
field equals the number of bytes that follow. -/
theorem checkFrame_header (len ts : Nat) (body : Bytes) (h : len < 2147483648) :
    checkFrame (header len ts ++ body) =
      if len = body.length then .ok body else .error .badLength := by
  rw [header_eq]
  simp only [List.cons_append, List.nil_append]
  rw [checkFrame_cons _ _ _ _ _ _ _ (by simp)]
  rw [len4_be len (by omega)]
  have hw : wrap32 len = (len : Int) := by simp [wrap32]; omega
  rw [hw]
  simp
  by_cases hl : len = body.length
  · simp [hl]
  · simp [hl]; omega

/-- The extracted layout is prefix, length, clock, payload. -/
theorem frameBytes_eq (len ts : Nat) (payload : Bytes) :
    frameBytes len ts payload = header len ts ++ payload := by
  simp [frameBytes, Gen.Row.frameLayout, part, header]

/-- What `as_bytes` decides from the payload length and the clock. -/
theorem frameDecision_eq (ts len : Nat) :
    frameDecision ts len =
      if overCap len then some .tooLarge
      else if len ≥ 4294967296 ∨ ts ≥ 18446744073709551616 then some .overflow
      else none := by
  have h4 : (256 : Nat) ^ 4 = 4294967296 := by decide
  have h8 : (256 : Nat) ^ 8 = 18446744073709551616 := by decide
  simp only [frameDecision, Gen.Row.lenWidth, Gen.Row.tsWidth, h4, h8]
  rcases capOp_known with hop | hop
  · have e : cmpOp Gen.Row.capOp (len : Int) (Gen.Row.maxRecord : Int) = some (decide ((len : Int) > (Gen.Row.maxRecord : Int))) := by
      rw [hop]; simp [cmpOp]
    have ho : overCap len ↔ len > Gen.Row.maxRecord := by unfold overCap; rw [hop]; simp
    rw [e]
    by_cases h : len > Gen.Row.maxRecord
    · have : ((Gen.Row.maxRecord : Nat) : Int) < (len : Int) := by omega
      rw [if_pos (ho.2 h)]; simp [this]
    · have : ¬ ((Gen.Row.maxRecord : Nat) : Int) < (len : Int) := by omega
      rw [if_neg (fun hh => h (ho.1 hh))]; simp [this]
  · have e : cmpOp Gen.Row.capOp (len : Int) (Gen.Row.maxRecord : Int) = some (decide ((len : Int) ≥ (Gen.Row.maxRecord : Int))) := by
      rw [hop]; simp [cmpOp]
    have ho : overCap len ↔ len ≥ Gen.Row.maxRecord := by unfold overCap; rw [hop]; simp
    rw [e]
    by_cases h : len ≥ Gen.Row.maxRecord
    · have : ((Gen.Row.maxRecord : Nat) : Int) ≤ (len : Int) := by omega
      rw [if_pos (ho.2 h)]; simp [this]
    · have : ¬ ((Gen.Row.maxRecord : Nat) : Int) ≤ (len : Int) := by omega
      rw [if_neg (fun hh => h (ho.1 hh))]; simp [this]

/-- What an emitted record looks like (its length survives the decoder's 32-bit signed read). -/
theorem encodeFrame_ok {ts : Nat} {payload r : Bytes} (h : encodeFrame ts payload = .ok r) :
    payload.length < 2147483648 ∧ r = header payload.length ts ++ payload := by
  unfold encodeFrame at h
  rw [frameDecision_eq, frameBytes_eq] at h
  split at h
  · rename_i e he
    cases h
  · rename_i he
    injection h with h
    split at he
    · cases he
    · rename_i h1
      refine ⟨?_, h.symm⟩
      by_cases hb : payload.length ≥ 2147483648
      · exact absurd (overCap_of_big hb) h1
      · omega

theorem wrap32_len4_eq {l0 l1 l2 l3 : UInt8} {len : Nat} (hlen : len < 2147483648)
    (h : wrap32 (len4 l0 l1 l2 l3) = (len : Int)) :
    l0 = UInt8.ofNat (len / 16777216) ∧ l1 = UInt8.ofNat (len / 65536) ∧
    l2 = UInt8.ofNat (len / 256) ∧ l3 = UInt8.ofNat len := by
  have h0 := l0.toNat_lt; have h1 := l1.toNat_lt; have h2 := l2.toNat_lt; have h3 := l3.toNat_lt
  unfold wrap32 len4 at h
  have hv : l0.toNat * 16777216 + l1.toNat * 65536 + l2.toNat * 256 + l3.toNat = len := by
    split at h <;> omega
  refine ⟨?_, ?_, ?_, ?_⟩ <;> apply UInt8.toNat_inj.mp <;> rw [UInt8.toNat_ofNat'] <;> omega

theorem decodeWith_error {α : Type} (unpack : Bytes → Option α) {d : Bytes} {e : DecErr}
    (h : checkFrame d = .error e) : decodeWith unpack d = .error e := by
  unfold decodeWith; rw [h]

theorem decodeWith_ok {α : Type} (unpack : Bytes → Option α) {d p : Bytes}
    (h : checkFrame d = .ok p) :
    decodeWith unpack d = (match unpack p with | some v => .ok v | none => .error .payloadError) := by
  unfold decodeWith; rw [h]; rfl

theorem exists_cons6 (data : Bytes) (h : 6 ≤ data.length) :
    ∃ p0 p1 l0 l1 l2 l3 rest, data = p0 :: p1 :: l0 :: l1 :: l2 :: l3 :: rest := by
  match data, h with
  | p0 :: p1 :: l0 :: l1 :: l2 :: l3 :: rest, _ => exact ⟨p0, p1, l0, l1, l2, l3, rest, rfl⟩
  | [], h | [_], h | [_, _], h | [_, _, _], h | [_, _, _, _], h | [_, _, _, _, _], h => simp at h

theorem wrap32_lt (l0 l1 l2 l3 : UInt8) : wrap32 (len4 l0 l1 l2 l3) < 2147483648 := by
  have h0 := l0.toNat_lt; have h1 := l1.toNat_lt; have h2 := l2.toNat_lt; have h3 := l3.toNat_lt
  unfold wrap32 len4
  split <;> omega

theorem be4 (n : Nat) : be 4 n =
    [UInt8.ofNat (n / 16777216), UInt8.ofNat (n / 65536), UInt8.ofNat (n / 256), UInt8.ofNat n] := by
  simp [be]

theorem xor_bit_ne (b : UInt8) (j : Nat) (hj : j < 8) : b ^^^ UInt8.ofNat (2 ^ j) ≠ b := by
  intro h
  have h2 : UInt8.ofNat (2 ^ j) = 0 := by
    have := congrArg (fun x => b ^^^ x) h
    simp only [← UInt8.xor_assoc, UInt8.xor_self, UInt8.zero_xor] at this
    exact this
  have : j = 0 ∨ j = 1 ∨ j = 2 ∨ j = 3 ∨ j = 4 ∨ j = 5 ∨ j = 6 ∨ j = 7 := by omega
  rcases this with rfl | rfl | rfl | rfl | rfl | rfl | rfl | rfl <;> revert h2 <;> decide

theorem pow_consts : (256 : Nat) ^ 4 = 4294967296 ∧ (256 : Nat) ^ 8 = 18446744073709551616
    ∧ (2 : Nat) ^ 64 = 18446744073709551616 := by decide

end RowBytes
