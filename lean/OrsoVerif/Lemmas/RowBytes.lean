import OrsoVerif.Model.RowBytes
/-!
# Lemmas about the record framing (helper lemmas for `Props/C01.lean`)

The lemmas unfold the generated constants (`Gen.Row.*`); if one of them changes in the source the
lemma that depends on it is re-checked and fails when the fact no longer holds.
-/
namespace RowBytes

theorem cmp_size (a b : Int) : cmpOp Gen.Row.guardSizeOp a b = some (decide (a < b)) := by
  simp [cmpOp, Gen.Row.guardSizeOp]

theorem cmp_len (a b : Int) : cmpOp Gen.Row.guardLenOp a b = some (decide (a ≠ b)) := by
  simp [cmpOp, Gen.Row.guardLenOp]

theorem or4 (a b c d : Nat) (hb : b < 256) (hc : c < 256) (hd : d < 256) :
    (((0 ||| a <<< 24) ||| b <<< 16) ||| c <<< 8) ||| d <<< 0 = a * 16777216 + b * 65536 + c * 256 + d := by
  have h1 : c <<< 8 ||| d = c <<< 8 + d := (Nat.shiftLeft_add_eq_or_of_lt (by omega) c).symm
  have h2 : b <<< 16 ||| (c <<< 8 + d) = b <<< 16 + (c <<< 8 + d) :=
    (Nat.shiftLeft_add_eq_or_of_lt (by simp [Nat.shiftLeft_eq]; omega) b).symm
  have h3 : a <<< 24 ||| (b <<< 16 + (c <<< 8 + d)) = a <<< 24 + (b <<< 16 + (c <<< 8 + d)) :=
    (Nat.shiftLeft_add_eq_or_of_lt (by simp [Nat.shiftLeft_eq]; omega) a).symm
  rw [Nat.zero_or, Nat.shiftLeft_zero, Nat.or_assoc, Nat.or_assoc, h1, h2, h3]
  simp [Nat.shiftLeft_eq]; omega

/-- The numeric value of four length bytes as the decoder assembles it (before the C `int` wrap). -/
def len4 (l0 l1 l2 l3 : UInt8) : Nat :=
  l0.toNat * 16777216 + l1.toNat * 65536 + l2.toNat * 256 + l3.toNat

/-- Two's-complement reading of a 32-bit value. -/
def wrap32 (v : Nat) : Int := if v ≥ 2147483648 then (v : Int) - 4294967296 else (v : Int)

theorem recordSize_cons (p0 p1 l0 l1 l2 l3 : UInt8) (rest : Bytes) :
    recordSize (p0 :: p1 :: l0 :: l1 :: l2 :: l3 :: rest) = wrap32 (len4 l0 l1 l2 l3) := by
  have h0 := l0.toNat_lt; have h1 := l1.toNat_lt; have h2 := l2.toNat_lt; have h3 := l3.toNat_lt
  simp only [recordSize, Gen.Row.lengthField, List.foldl, byteAt, List.getD_cons_succ,
    List.getD_cons_zero, wrap32, len4]
  rw [or4 _ _ _ _ h1 h2 h3]
  have : (l0.toNat * 16777216 + l1.toNat * 65536 + l2.toNat * 256 + l3.toNat) % 2 ^ 32
      = l0.toNat * 16777216 + l1.toNat * 65536 + l2.toNat * 256 + l3.toNat := by
    apply Nat.mod_eq_of_lt; omega
  rw [this]
  rfl

/-- First guard, size part: anything shorter than the decoder's header size is malformed. -/
theorem checkFrame_short (data : Bytes) (h : data.length < 14) :
    checkFrame data = .error .malformed := by
  have : ((data.length : Nat) : Int) < ((Gen.Row.decHeaderSize : Nat) : Int) := by
    simp [Gen.Row.decHeaderSize]; omega
  simp [checkFrame, cmp_size, this]

/-- The decoder on a buffer with at least six explicit bytes and at least eight more. -/
theorem checkFrame_cons (p0 p1 l0 l1 l2 l3 : UInt8) (rest : Bytes) (h : 8 ≤ rest.length) :
    checkFrame (p0 :: p1 :: l0 :: l1 :: l2 :: l3 :: rest) =
      if (p0.toNat &&& 240) ≠ 16 then .error .malformed
      else if wrap32 (len4 l0 l1 l2 l3) ≠ ((rest.length - 8 : Nat) : Int) then .error .badLength
      else .ok (rest.drop 8) := by
  have e1 : ((rest.length : Nat) : Int) + 1 + 1 + 1 + 1 + 1 + 1 - 14 = ((rest.length - 8 : Nat) : Int) := by omega
  have e2 : ¬ (((rest.length : Nat) : Int) + 1 + 1 + 1 + 1 + 1 + 1 < 14) := by omega
  simp only [checkFrame, cmp_size, cmp_len, recordSize_cons, byteAt, List.getD_cons_zero,
    Gen.Row.nibbleMask, Gen.Row.nibbleValue, Gen.Row.decHeaderSize, List.length_cons, Int.natCast_add,
    Int.cast_ofNat_Int, e1, e2]
  by_cases hn : (p0.toNat &&& 240) = 16
  · by_cases hw : wrap32 (len4 l0 l1 l2 l3) = ((rest.length - 8 : Nat) : Int)
    · simp [hn, hw]
    · simp [hn, hw]
  · simp [hn]

theorem header_eq (len ts : Nat) : header len ts =
    [16, 0, UInt8.ofNat (len / 16777216), UInt8.ofNat (len / 65536), UInt8.ofNat (len / 256), UInt8.ofNat len,
     UInt8.ofNat (ts / 72057594037927936), UInt8.ofNat (ts / 281474976710656), UInt8.ofNat (ts / 1099511627776),
     UInt8.ofNat (ts / 4294967296), UInt8.ofNat (ts / 16777216), UInt8.ofNat (ts / 65536), UInt8.ofNat (ts / 256),
     UInt8.ofNat ts] := by
  simp [header, toBytes, be, Gen.Row.headerPrefix, Gen.Row.lenWidth, Gen.Row.tsWidth, Gen.Row.bigEndian]

theorem header_length (len ts : Nat) : (header len ts).length = 14 := by
  rw [header_eq]; rfl

theorem len4_be (len : Nat) (h : len < 4294967296) :
    len4 (UInt8.ofNat (len / 16777216)) (UInt8.ofNat (len / 65536)) (UInt8.ofNat (len / 256)) (UInt8.ofNat len) = len := by
  simp [len4, UInt8.toNat_ofNat']; omega

/-- The decoder on a buffer that starts with an emitted header: accepted exactly when the length
field equals the number of bytes that follow. -/
theorem checkFrame_header (len ts : Nat) (body : Bytes) (h : len < 2147483648) :
    checkFrame (header len ts ++ body) =
      if len = body.length then .ok body else .error .badLength := by
  rw [header_eq]
  simp only [List.cons_append, List.nil_append]
  rw [checkFrame_cons _ _ _ _ _ _ _ (by simp)]
  rw [len4_be len (by omega)]
  have hw : wrap32 len = (len : Int) := by simp [wrap32]; omega
  rw [hw]
  simp
  by_cases hl : len = body.length
  · simp [hl]
  · simp [hl]; omega

/-- What an emitted record looks like. -/
theorem encodeFrame_ok {ts : Nat} {payload r : Bytes} (h : encodeFrame ts payload = .ok r) :
    payload.length ≤ 16777216 ∧ r = header payload.length ts ++ payload := by
  unfold encodeFrame at h
  split at h
  · cases h
  · split at h
    · cases h
    · rename_i h1 _
      simp only [Gen.Row.maxRecord] at h1
      injection h with h
      exact ⟨by omega, h.symm⟩

theorem wrap32_len4_eq {l0 l1 l2 l3 : UInt8} {len : Nat} (hlen : len < 2147483648)
    (h : wrap32 (len4 l0 l1 l2 l3) = (len : Int)) :
    l0 = UInt8.ofNat (len / 16777216) ∧ l1 = UInt8.ofNat (len / 65536) ∧
    l2 = UInt8.ofNat (len / 256) ∧ l3 = UInt8.ofNat len := by
  have h0 := l0.toNat_lt; have h1 := l1.toNat_lt; have h2 := l2.toNat_lt; have h3 := l3.toNat_lt
  unfold wrap32 len4 at h
  have hv : l0.toNat * 16777216 + l1.toNat * 65536 + l2.toNat * 256 + l3.toNat = len := by
    split at h <;> omega
  refine ⟨?_, ?_, ?_, ?_⟩ <;> apply UInt8.toNat_inj.mp <;> rw [UInt8.toNat_ofNat'] <;> omega

theorem decodeWith_error {α : Type} (unpack : Bytes → Option α) {d : Bytes} {e : DecErr}
    (h : checkFrame d = .error e) : decodeWith unpack d = .error e := by
  unfold decodeWith; rw [h]

theorem decodeWith_ok {α : Type} (unpack : Bytes → Option α) {d p : Bytes}
    (h : checkFrame d = .ok p) :
    decodeWith unpack d = (match unpack p with | some v => .ok v | none => .error .payloadError) := by
  unfold decodeWith; rw [h]; rfl

theorem pow_consts : (256 : Nat) ^ 4 = 4294967296 ∧ (256 : Nat) ^ 8 = 18446744073709551616
    ∧ (2 : Nat) ^ 64 = 18446744073709551616 := by decide

end RowBytes
