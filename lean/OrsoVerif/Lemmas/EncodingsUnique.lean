import OrsoVerif.Model.Np
/-! Lemmas about the merge step of `numpy.unique` (`Np.keepFirsts`): on a sorted array it leaves one
occurrence of every value. -/
namespace Enc

variable {α : Type}

theorem keepFirstsFrom_sublist (ne : α → α → Bool) (p : α) (l : List α) :
    (Np.keepFirstsFrom ne p l).Sublist l := by
  induction l generalizing p with
  | nil => exact List.Sublist.slnil
  | cons y t ih =>
    unfold Np.keepFirstsFrom
    split
    · exact (ih y).cons_cons y
    · exact (ih y).cons y

theorem keepFirsts_sublist (ne : α → α → Bool) (l : List α) : (Np.keepFirsts ne l).Sublist l := by
  cases l with
  | nil => exact List.Sublist.slnil
  | cons x t => exact (keepFirstsFrom_sublist ne x t).cons_cons x

/-- Nothing is lost: every element is its predecessor's value or is kept. -/
theorem keepFirstsFrom_mem (ne : α → α → Bool) (hsound : ∀ a b, ne a b = false → a = b) (p : α) (l : List α)
    (v : α) (hv : v ∈ l) : v = p ∨ v ∈ Np.keepFirstsFrom ne p l := by
  induction l generalizing p with
  | nil => cases hv
  | cons y t ih =>
    unfold Np.keepFirstsFrom
    rcases List.mem_cons.mp hv with rfl | hv
    · cases h : ne v p
      · exact Or.inl (hsound v p h)
      · simp
    · rcases ih y hv with rfl | h'
      · cases h : ne v p
        · exact Or.inl (hsound v p h)
        · simp
      · cases h : ne y p <;> simp [h'] 

/-- On a sorted list (antisymmetric order, `ne` is inequality) the kept elements are pairwise distinct
and distinct from the predecessor. -/
theorem keepFirstsFrom_nodup (le ne : α → α → Bool) (hne : ∀ a b, ne a b = false ↔ a = b)
    (antisymm : ∀ a b, le a b = true → le b a = true → a = b) (p : α) (l : List α)
    (hs : (p :: l).Pairwise (fun a b => le a b = true)) :
    (Np.keepFirstsFrom ne p l).Nodup ∧ ∀ z ∈ Np.keepFirstsFrom ne p l, z ≠ p := by
  induction l generalizing p with
  | nil => simp [Np.keepFirstsFrom]
  | cons y t ih =>
    rw [List.pairwise_cons] at hs
    obtain ⟨hp, hyt⟩ := hs
    obtain ⟨hnd, hney⟩ := ih y hyt
    have hpy : le p y = true := hp y List.mem_cons_self
    have hmem : ∀ z ∈ Np.keepFirstsFrom ne y t, z ∈ t :=
      fun z hz => (keepFirstsFrom_sublist ne y t).subset hz
    rw [List.pairwise_cons] at hyt
    unfold Np.keepFirstsFrom
    cases h : ne y p
    · have : y = p := (hne y p).mp h
      subst this
      simpa using ⟨hnd, hney⟩
    · have hyp : y ≠ p := fun e => by rw [e, (hne p p).mpr rfl] at h; cases h
      simp only [if_true]
      refine ⟨List.nodup_cons.mpr ⟨fun hy => hney y hy rfl, hnd⟩, ?_⟩
      intro z hz
      rcases List.mem_cons.mp hz with rfl | hz
      · exact hyp
      · intro e
        have hyz : le y z = true := hyt.1 z (hmem z hz)
        rw [e] at hyz
        exact hyp (antisymm y p hyz hpy)

end Enc
