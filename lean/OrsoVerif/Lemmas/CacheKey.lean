import OrsoVerif.Model.CacheKey
/-! Lemmas about the key primitives of `Model/CacheKey.lean` (C19). Core only. -/
namespace CacheKey

theorem tuple_inj {a b : List PyVal} : tuple a = tuple b ↔ a = b := by
  constructor
  · intro h; unfold tuple at h; injection h
  · intro h; rw [h]

theorem ins_perm (x : PyVal) (l : List PyVal) : (ins x l).Perm (x :: l) := by
  induction l with
  | nil => exact List.Perm.refl _
  | cons y ys ih =>
    unfold ins
    split
    · exact ((List.Perm.cons y ih).trans (List.Perm.swap x y ys))
    · exact List.Perm.refl _

theorem sorted_perm (l : List PyVal) : (sorted l).Perm l := by
  induction l with
  | nil => exact List.Perm.refl _
  | cons x xs ih =>
    show (ins x (sorted xs)).Perm (x :: xs)
    exact (ins_perm x (sorted xs)).trans (List.Perm.cons x ih)

theorem frozenset_inj {a b : List PyVal} : frozenset a = frozenset b ↔ sorted a = sorted b := by
  constructor
  · intro h
    unfold frozenset at h
    injection h with h
    injection h with h _
    injection h with _ h
    injection h
  · intro h; unfold frozenset; rw [h]

theorem unitem_item (kv : String × PyVal) : unitem (item kv) = some kv := by
  cases kv; rfl

theorem filterMap_unitem_items (kw : List (String × PyVal)) : (items kw).filterMap unitem = kw := by
  induction kw with
  | nil => rfl
  | cons kv rest ih =>
    show ((item kv) :: items rest).filterMap unitem = kv :: rest
    rw [List.filterMap_cons, unitem_item]
    simp only
    exact congrArg _ ih

/-- equal canonical listings of the keyword items ⇒ the keyword arguments are equal as dictionaries -/
theorem perm_of_sorted_items_eq {k1 k2 : List (String × PyVal)} (h : sorted (items k1) = sorted (items k2)) :
    k1.Perm k2 := by
  have p : (items k1).Perm (items k2) := (sorted_perm _).symm.trans (h ▸ sorted_perm _)
  have q := p.filterMap unitem
  rwa [filterMap_unitem_items, filterMap_unitem_items] at q

/-- equal item sequences ⇒ equal keyword lists (the key with the keyword order in it) -/
theorem items_inj {k1 k2 : List (String × PyVal)} (h : items k1 = items k2) : k1 = k2 := by
  have q := congrArg (List.filterMap unitem) h
  rwa [filterMap_unitem_items, filterMap_unitem_items] at q

end CacheKey
