import OrsoVerif.Lemmas.Persist
import OrsoVerif.Model.PersistPy
/-! The caster the C16 driver runs (`Model/PersistPy.lean`) meets the hypothesis the C16 theorems assume of casts. -/
namespace Persist.Py
open Persist

theorem classOf_tagged (c t : String) : classOf (tagged c t) = c := by
  simp [tagged, classOf, lookupKey]

/-- the driver's caster satisfies the hypothesis the theorems assume of casts -/
theorem caster_idem (m : TypeName.Str) (v w : PyVal) (h : caster.parse m v = some w) (hw : caster.truthy w = true) :
    caster.parse m w = some w := by
  simp only [caster, parse] at h ⊢
  by_cases hn : String.ofList m = "NULL"
  · simp only [hn, if_true, Option.some.injEq] at h
    subst h
    simp [caster, truthy] at hw
  · simp only [hn, if_false] at h ⊢
    cases hl : producedClass.lookup (String.ofList m) with
    | none => simp [hl] at h
    | some cls =>
      simp only [hl] at h ⊢
      by_cases hc : classOf v = cls
      · simp only [hc, if_true, Option.some.injEq] at h
        subst h
        simp [hc]
      · simp only [hc, if_false] at h
        split at h
        · rename_i s hname
          cases hp : parseIntText s with
          | none => simp [hp] at h
          | some i =>
            simp only [hp, Option.map_some, Option.some.injEq] at h
            subst h
            rw [hname] at hl
            have : cls = "int" := by
              have : producedClass.lookup "INTEGER" = some "int" := by decide
              rw [this] at hl; exact (Option.some.inj hl).symm
            simp [this, classOf]
        · rename_i s hname
          simp only [Option.some.injEq] at h
          subst h
          rw [hname] at hl
          have : cls = "date" := by
            have : producedClass.lookup "DATE" = some "date" := by decide
            rw [this] at hl; exact (Option.some.inj hl).symm
          simp [this, classOf_tagged]
        · rename_i s hname
          simp only [Option.some.injEq] at h
          subst h
          rw [hname] at hl
          have : cls = "datetime" := by
            have : producedClass.lookup "TIMESTAMP" = some "datetime" := by decide
            rw [this] at hl; exact (Option.some.inj hl).symm
          simp [this, classOf_tagged]
        · rename_i s hname
          simp only [Option.some.injEq] at h
          subst h
          rw [hname] at hl
          have : cls = "time" := by
            have : producedClass.lookup "TIME" = some "time" := by decide
            rw [this] at hl; exact (Option.some.inj hl).symm
          simp [this, classOf_tagged]
        · cases h

end Persist.Py
