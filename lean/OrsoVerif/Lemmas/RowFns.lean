import OrsoVerif.Model.RowCodec
import OrsoVerif.Lemmas.RowBytes
import OrsoVerif.Generated.RowFns
/-!
# The statement-level translations of `from_bytes_cython` and of the framing part of `Row.as_bytes`
equal the hand-written model (helper lemmas for `Props/C01.lean`)
-/
namespace RowCodec
open RowBytes MsgPack

/-- The loop of compiled.pyx:66-70 as a fold over an optional accumulator is `mapM`. -/
theorem foldl_bind_mapM {α β : Type} (f : α → Option β) (xs : List α) (init : List β) :
    xs.foldl (fun acc x => acc.bind (fun l => (f x).map (fun d => l ++ [d]))) (some init)
      = (xs.mapM f).map (fun ys => init ++ ys) := by
  induction xs generalizing init with
  | nil => simp
  | cons x xs ih =>
    rw [List.foldl_cons, List.mapM_cons]
    cases hx : f x with
    | none =>
      simp only [Option.bind_some, Option.map_none]
      have : ∀ ys : List α, ys.foldl (fun acc x => acc.bind (fun l => (f x).map (fun d => l ++ [d]))) none = none := by
        intro ys; induction ys with
        | nil => rfl
        | cons y ys ihy => rw [List.foldl_cons]; exact ihy
      rw [this]; rfl
    | some d =>
      simp only [Option.bind_some, Option.map_some]
      rw [ih]
      cases xs.mapM f with
      | none => rfl
      | some ys => simp

/-- The test of compiled.pyx:67 as the translation renders it is `isReserved`. -/
theorem reserved_test (v : PyVal) :
    ((isList v = true) ∧ ((pyLen v) = 2) ∧ ((itemAt v 0) = some (PyVal.str "__datetime__"))) ↔ isReserved v = true := by
  cases v with
  | list xs =>
    simp only [isList, pyLen, itemAt, isReserved, Gen.Row.reservedLen, Gen.Row.reservedIdx, Gen.Row.reservedMarker,
      Bool.and_eq_true, beq_iff_eq, true_and]
    constructor
    · rintro ⟨h1, h2⟩; rw [h2]; exact ⟨h1, by simp⟩
    · rintro ⟨h1, h2⟩
      refine ⟨h1, ?_⟩
      cases h0 : xs[0]? with
      | none => rw [h0] at h2; cases h2
      | some x =>
        rw [h0] at h2
        cases x <;> first | cases h2 | (simp at h2; rw [h2])
  | _ => simp [isList, isReserved]

/-- One turn of the loop. -/
theorem post_step (v : PyVal) (l : List Item) :
    (if ((isList v = true) ∧ ((pyLen v) = 2) ∧ ((itemAt v 0) = some (PyVal.str "__datetime__"))) then
        ((fromtimestamp (itemAt v 1)).map (fun d => (l ++ [d])))
      else (some (l ++ [Item.val v]))) = (post v).map (fun d => l ++ [d]) := by
  by_cases h : isReserved v = true
  · rw [if_pos ((reserved_test v).mpr h)]
    unfold post
    rw [if_pos h]
    cases v with
    | list xs =>
      simp only [itemAt, Gen.Row.reservedArg]
    | _ => simp [isReserved] at h
  · rw [if_neg (fun hc => h ((reserved_test v).mp hc))]
    unfold post
    rw [if_neg h]; rfl

/-- What `post` can hand out for an item: the item itself when it is not of the reserved form, or the date-time of the
payload of the reserved pair `[marker, x]` — nothing else (Sixth pass). -/
theorem post_shapes (v : PyVal) (it : Item) (h : post v = some it) :
    (isReserved v = false ∧ it = .val v) ∨
    (∃ x, v = .list [.str Gen.Row.reservedMarker, x] ∧ it = .datetime x) := by
  unfold post at h
  by_cases hr : isReserved v = true
  · rw [if_pos hr] at h
    right
    cases v with
    | list xs =>
      match xs, hr, h with
      | [a, b], hr, h =>
        simp only [isReserved, Gen.Row.reservedLen, Gen.Row.reservedIdx] at hr
        cases a <;> simp at hr
        rename_i s
        simp only [Gen.Row.reservedArg, fromtimestamp, List.getElem?_cons_succ, List.getElem?_cons_zero] at h
        split at h
        · injection h with h; exact ⟨b, by simp [hr], h.symm⟩
        · cases h
      | [], hr, h => simp [isReserved, Gen.Row.reservedLen] at hr
      | [_], hr, h => simp [isReserved, Gen.Row.reservedLen] at hr
      | _ :: _ :: _ :: _, hr, h => simp [isReserved, Gen.Row.reservedLen] at hr
    | _ => simp [isReserved] at hr
  · rw [if_neg hr] at h
    left
    simp at hr h
    exact ⟨hr, h.symm⟩

end RowCodec
