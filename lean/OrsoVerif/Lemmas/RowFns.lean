import OrsoVerif.Model.RowCodec
import OrsoVerif.Lemmas.RowBytes
import OrsoVerif.Generated.RowFns
/-!
# The statement-level translations of `from_bytes_cython` and of the framing part of `Row.as_bytes`
equal the hand-written model (helper lemmas for `Props/C01.lean`)
-/
namespace RowCodec
open RowBytes MsgPack

/-- The loop of compiled.pyx:66-70 as a fold over an optional accumulator is `mapM`. -/
theorem foldl_bind_mapM {α β : Type} (f : α → Option β) (xs : List α) (init : List β) :
    xs.foldl (fun acc x => acc.bind (fun l => (f x).map (fun d => l ++ [d]))) (some init)
      = (xs.mapM f).map (fun ys => init ++ ys) := by
  induction xs generalizing init with
  | nil => simp
  | cons x xs ih =>
    rw [List.foldl_cons, List.mapM_cons]
    cases hx : f x with
    | none =>
      simp only [Option.bind_some, Option.map_none]
      have : ∀ ys : List α, ys.foldl (fun acc x => acc.bind (fun l => (f x).map (fun d => l ++ [d]))) none = none := by
        intro ys; induction ys with
        | nil => rfl
        | cons y ys ihy => rw [List.foldl_cons]; exact ihy
      rw [this]; rfl
    | some d =>
      simp only [Option.bind_some, Option.map_some]
      rw [ih]
      cases xs.mapM f with
      | none => rfl
      | some ys => simp

/-- The test of compiled.pyx:67 as the translation renders it is `isReserved`. -/
theorem reserved_test (v : PyVal) :
    ((isList v = true) ∧ ((pyLen v) = 2) ∧ ((itemAt v 0) = some (PyVal.str "__datetime__"))) ↔ isReserved v = true := by
  cases v with
  | list xs =>
    simp only [isList, pyLen, itemAt, isReserved, Gen.Row.reservedLen, Gen.Row.reservedIdx, Gen.Row.reservedMarker,
      Bool.and_eq_true, beq_iff_eq, true_and]
    constructor
    · rintro ⟨h1, h2⟩; rw [h2]; exact ⟨h1, by simp⟩
    · rintro ⟨h1, h2⟩
      refine ⟨h1, ?_⟩
      cases h0 : xs[0]? with
      | none => rw [h0] at h2; cases h2
      | some x =>
        rw [h0] at h2
        cases x <;> first | cases h2 | (simp at h2; rw [h2])
  | _ => simp [isList, isReserved]

/-- One turn of the loop. -/
theorem post_step (v : PyVal) (l : List Item) :
    (if ((isList v = true) ∧ ((pyLen v) = 2) ∧ ((itemAt v 0) = some (PyVal.str "__datetime__"))) then
        ((fromtimestamp (itemAt v 1)).map (fun d => (l ++ [d])))
      else (some (l ++ [Item.val v]))) = (post v).map (fun d => l ++ [d]) := by
  by_cases h : isReserved v = true
  · rw [if_pos ((reserved_test v).mpr h)]
    unfold post
    rw [if_pos h]
    cases v with
    | list xs =>
      simp only [itemAt, Gen.Row.reservedArg]
    | _ => simp [isReserved] at h
  · rw [if_neg (fun hc => h ((reserved_test v).mp hc))]
    unfold post
    rw [if_neg h]; rfl

end RowCodec
