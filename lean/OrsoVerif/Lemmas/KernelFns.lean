import OrsoVerif.Model.KernelSem
import OrsoVerif.Lemmas.CallSites
/-!
# Loop lemmas for the statement-level translations of the compiled kernels (C10)

`forRange n init (fun s i => do let x ← uget l i; …)` is a fold over the elements of `l`; the check loop of
`collect_cython` is `List.any`; the nest of write loops fills the result buffer with the column-major
collection `Kernels.pathN` (or faults with `oob` exactly when `pathN` has no value).
-/
namespace KernelSem
open Kernels

variable {α β σ : Type}

@[simp] theorem len_list (l : List β) : len l = (l.length : Int) := rfl
@[simp] theorem len_row (r : RowObj α) : len r = (r.cells.length : Int) := rfl

theorem uget_list_lt (l : List β) (i : Nat) (h : i < l.length) : uget l (i : Int) = .ok l[i] := by
  show ugetList l (i : Int) = _
  unfold ugetList
  have : ¬ ((i : Int) < 0) := by omega
  simp [this, List.getElem?_eq_getElem h, ofOpt]

theorem uget_row_nonneg (r : RowObj α) (c : Int) (hc : 0 ≤ c) : uget r c = ofOpt (readCell r c.toNat) := by
  show ugetRow r c = _
  unfold ugetRow
  have : ¬ (c < 0) := by omega
  simp [this]

/-- A counting loop whose body starts by reading `l[i]` is a fold over the elements of `l` (with their positions). -/
theorem range'_uget (l : List β) (f : σ → β → Nat → K σ) :
    ∀ (n k : Nat) (init : σ), k + n ≤ l.length →
      (List.range' k n).foldlM (fun s (i : Nat) => (uget l (i : Int)) >>= fun x => f s x i) init
        = (((l.drop k).take n).zipIdx k).foldlM (fun s p => f s p.1 p.2) init := by
  intro n
  induction n with
  | zero => intro k init _; simp
  | succ n ih =>
    intro k init h
    have hk : k < l.length := by omega
    have hd : (l.drop k).take (n + 1) = l[k] :: (l.drop (k + 1)).take n := by
      rw [List.drop_eq_getElem_cons hk, List.take_succ_cons]
    rw [List.range'_succ, List.foldlM_cons, hd, List.zipIdx_cons, List.foldlM_cons, uget_list_lt l k hk]
    show (f init l[k] k >>= _) = _
    congr 1
    funext s'
    exact ih (k + 1) s' (by omega)

theorem forRange_uget (l : List β) (n : Nat) (hn : n ≤ l.length) (init : σ) (f : σ → β → Int → K σ) :
    forRange (n : Int) init (fun s i => (uget l i) >>= fun x => f s x i)
      = ((l.take n).zipIdx).foldlM (fun s p => f s p.1 (p.2 : Int)) init := by
  unfold forRange
  rw [Int.toNat_natCast, List.range_eq_range']
  have := range'_uget l (fun s x (i : Nat) => f s x (i : Int)) n 0 init (by omega)
  simpa using this

theorem zipIdx_foldlM_fst (g : σ → β → K σ) :
    ∀ (l : List β) (k : Nat) (init : σ), (l.zipIdx k).foldlM (fun s p => g s p.1) init = l.foldlM g init := by
  intro l
  induction l with
  | nil => intro k init; simp
  | cons x xs ih =>
    intro k init
    rw [List.zipIdx_cons, List.foldlM_cons, List.foldlM_cons]
    congr 1
    funext s'
    exact ih (k + 1) s'

/-- The bounds-check loop is `List.any`. -/
theorem check_fold (bad : Int → Prop) [DecidablePred bad] (e : Fault) (cols : List Int) :
    cols.foldlM (fun (_ : Unit) c => if bad c then (throw e : K Unit) else pure ()) ()
      = if cols.any (fun c => decide (bad c)) = true then .error e else .ok () := by
  induction cols with
  | nil => simp [pure, Except.pure]
  | cons c cs ih =>
    rw [List.foldlM_cons]
    by_cases h : bad c
    · simp [h, throw, throwThe, MonadExceptOf.throw, bind, Except.bind]
    · simp only [h, if_false, List.any_cons, decide_false, Bool.false_or]
      show (pure () >>= _) = _
      rw [pure_bind]
      exact ih

/-- Setting the cell right after a prefix. -/
theorem set_after_prefix (p : List α) (w v : α) (t : List α) : (p ++ w :: t).set p.length v = p ++ v :: t := by
  induction p with
  | nil => simp
  | cons x xs ih => simp [ih]

theorem uset_after_prefix (p : List α) (w v : α) (t : List α) :
    uset (p ++ w :: t) (p.length : Int) v = .ok (p ++ v :: t) := by
  unfold uset
  have h : ¬ (((p.length : Nat) : Int) < 0 ∨ (((p ++ w :: t).length : Nat) : Int) ≤ ((p.length : Nat) : Int)) := by
    simp only [List.length_append, List.length_cons]; omega
  rw [if_neg h, Int.toNat_natCast, set_after_prefix]

theorem uset2_after_prefix (done rest : List (List α)) (p : List α) (w v : α) (t : List α) :
    uset2 (done ++ (p ++ w :: t) :: rest) (done.length : Int) (p.length : Int) v
      = .ok (done ++ (p ++ v :: t) :: rest) := by
  unfold uset2
  have h : ¬ (((done.length : Nat) : Int) < 0) := by omega
  rw [if_neg h, Int.toNat_natCast]
  have hg : (done ++ (p ++ w :: t) :: rest)[done.length]? = some (p ++ w :: t) := by simp
  rw [hg]
  show (uset (p ++ w :: t) (p.length : Int) v >>= _) = _
  rw [uset_after_prefix]
  show Except.ok _ = _
  congr 1
  induction done with
  | nil => simp
  | cons x xs ih => simp [ih]


/-- One write of the nest: `result[j, i] = tuple_row[c]`. -/
def writeStep (r : RowObj α) (i : Nat) (m : List (List α)) (q : Int × Nat) : K (List (List α)) :=
  (uget r q.1) >>= fun v => uset2 m (q.2 : Int) (i : Int) v

theorem ofOpt_none : (ofOpt (none : Option β)) = .error .oob := rfl
theorem ofOpt_some (v : β) : ofOpt (some v) = .ok v := rfl

/-- The inner loop (all requested columns of one row, written at position `k` of their result rows). -/
theorem inner_fill (r : RowObj α) (k : Nat) (w : α) (t : List α) :
    ∀ (cs : List Int) (done ps : List (List α)), (∀ c ∈ cs, 0 ≤ c) → ps.length = cs.length → (∀ p ∈ ps, p.length = k) →
      (cs.zipIdx done.length).foldlM (writeStep r k) (done ++ ps.map (· ++ w :: t))
        = ofOpt (((cs.map Int.toNat).mapM (readCell r)).map
            fun vs => done ++ List.zipWith (fun p v => p ++ v :: t) ps vs) := by
  intro cs
  induction cs with
  | nil =>
    intro done ps _ hl _
    have : ps = [] := List.length_eq_zero_iff.mp hl
    subst this
    simp [ofOpt, pure, Except.pure]
  | cons c cs ih =>
    intro done ps hc hl hp
    cases ps with
    | nil => simp at hl
    | cons p ps' =>
      have hc0 : 0 ≤ c := hc c (by simp)
      have hpk : p.length = k := hp p (by simp)
      rw [List.zipIdx_cons, List.foldlM_cons]
      simp only [writeStep, uget_row_nonneg r c hc0, List.map_cons, List.mapM_cons]
      cases hr : readCell r c.toNat with
      | none => simp [ofOpt, bind, Except.bind]
      | some v =>
        rw [ofOpt_some]
        show ((uset2 (done ++ (p ++ w :: t) :: ps'.map (· ++ w :: t)) (done.length : Int) (k : Int) v) >>= _) = _
        rw [← hpk, uset2_after_prefix]
        show (List.zipIdx cs (done.length + 1)).foldlM (writeStep r p.length) (done ++ (p ++ v :: t) :: ps'.map (· ++ w :: t)) = _
        have hd : done ++ (p ++ v :: t) :: ps'.map (· ++ w :: t) = (done ++ [p ++ v :: t]) ++ ps'.map (· ++ w :: t) := by simp
        have hl' : (done ++ [p ++ v :: t]).length = done.length + 1 := by simp
        rw [hd, ← hl', hpk]
        rw [ih (done ++ [p ++ v :: t]) ps' (fun c' h => hc c' (by simp [h])) (by simpa using hl)
          (fun q h => hp q (by simp [h]))]
        cases (cs.map Int.toNat).mapM (readCell r) with
        | none => simp
        | some vs => simp


/-- A `mapM` whose function makes two steps is the zip of the two `mapM`s. -/
theorem mapM_zip {γ δ ε : Type} (f : β → Option γ) (g : β → Option δ) (h : γ → δ → ε) (l : List β) :
    l.mapM (fun c => (f c).bind fun a => (g c).bind fun b => some (h a b))
      = (l.mapM f).bind fun as => (l.mapM g).bind fun bs => some (List.zipWith h as bs) := by
  induction l with
  | nil => simp
  | cons x xs ih =>
    simp only [List.mapM_cons, ih]
    cases f x <;> cases g x <;> cases xs.mapM f <;> cases xs.mapM g <;> simp

theorem pathN_cons (r : RowObj α) (rs : List (RowObj α)) (cols : List Nat) :
    pathN (r :: rs) cols
      = (cols.mapM (readCell r)).bind fun vs => (pathN rs cols).bind fun tails => some (List.zipWith (· :: ·) vs tails) := by
  unfold pathN
  rw [← mapM_zip]
  congr 1
  funext c
  simp only [List.mapM_cons]
  cases readCell r c <;> simp

theorem pathN_nil (cols : List Nat) : pathN ([] : List (RowObj α)) cols = some (cols.map fun _ => []) := by
  unfold pathN
  induction cols with
  | nil => simp
  | cons c cs ih =>
    simp only [List.mapM_nil] at ih
    have ih' : List.mapM (fun (_ : Nat) => (some [] : Option (List α))) cs = some (List.map (fun _ => []) cs) := ih
    simp [List.mapM_cons, ih']

theorem zipWith_append_nil (pres : List (List α)) : ∀ (l : List Nat), pres.length = l.length →
    List.zipWith (· ++ ·) pres (l.map fun _ => ([] : List α)) = pres := by
  induction pres with
  | nil => intro l _; simp
  | cons p ps ih =>
    intro l hl
    cases l with
    | nil => simp at hl
    | cons x xs => simp [ih xs (by simpa using hl)]

theorem zipWith_snoc_cons (pres : List (List α)) : ∀ (vs : List α) (tails : List (List α)),
    List.zipWith (· ++ ·) (List.zipWith (fun p v => p ++ [v]) pres vs) tails
      = List.zipWith (· ++ ·) pres (List.zipWith (· :: ·) vs tails) := by
  induction pres with
  | nil => intro vs tails; simp
  | cons p ps ih =>
    intro vs tails
    cases vs with
    | nil => simp
    | cons v vs' =>
      cases tails with
      | nil => simp
      | cons t ts =>
        simp only [List.zipWith_cons_cons, ih vs' ts, List.append_assoc, List.singleton_append]

theorem zipWith_snoc_map (t : List α) (pres : List (List α)) : ∀ (vs : List α),
    List.zipWith (fun p v => p ++ v :: t) pres vs = (List.zipWith (fun p v => p ++ [v]) pres vs).map (· ++ t) := by
  induction pres with
  | nil => intro vs; simp
  | cons p ps ih =>
    intro vs
    cases vs with
    | nil => simp
    | cons v vs' =>
      simp only [List.zipWith_cons_cons, List.map_cons, ← ih vs', List.append_assoc, List.singleton_append]

theorem zipWith_snoc_len (k : Nat) (pres : List (List α)) (hp : ∀ p ∈ pres, p.length = k) : ∀ (vs : List α),
    ∀ q ∈ List.zipWith (fun p v => p ++ [v]) pres vs, q.length = k + 1 := by
  induction pres with
  | nil => intro vs q hq; simp at hq
  | cons p ps ih =>
    intro vs q hq
    cases vs with
    | nil => simp at hq
    | cons v vs' =>
      simp only [List.zipWith_cons_cons, List.mem_cons] at hq
      rcases hq with rfl | hq
      · simp [hp p (by simp)]
      · exact ih (fun p' h => hp p' (by simp [h])) vs' q hq

/-- **The nest of write loops** fills the buffer with the column-major collection, or faults with `oob`
exactly when some read leaves a row. -/
theorem outer_fill (null : α) (cols : List Int) (hc : ∀ c ∈ cols, 0 ≤ c) :
    ∀ (rest : List (RowObj α)) (pres : List (List α)) (k : Nat), pres.length = cols.length → (∀ p ∈ pres, p.length = k) →
      (rest.zipIdx k).foldlM (fun m p => (cols.zipIdx).foldlM (writeStep p.1 p.2) m)
          (pres.map (· ++ List.replicate rest.length null))
        = ofOpt ((pathN rest (cols.map Int.toNat)).map fun tails => List.zipWith (· ++ ·) pres tails) := by
  intro rest
  induction rest with
  | nil =>
    intro pres k hl _
    rw [pathN_nil]
    simp only [List.zipIdx_nil, List.foldlM_nil, List.length_nil, List.replicate_zero, List.append_nil, List.map_id',
      Option.map_some, ofOpt_some]
    rw [zipWith_append_nil pres (cols.map Int.toNat) (by simpa using hl)]
    rfl
  | cons r rs ih =>
    intro pres k hl hp
    rw [List.zipIdx_cons, List.foldlM_cons, List.length_cons, List.replicate_succ, pathN_cons]
    have hin := inner_fill r k null (List.replicate rs.length null) cols [] pres hc hl hp
    simp only [List.length_nil, List.nil_append] at hin
    show ((cols.zipIdx).foldlM (writeStep r k) (pres.map (· ++ null :: List.replicate rs.length null)) >>= _) = _
    rw [hin]
    cases hv : (cols.map Int.toNat).mapM (readCell r) with
    | none => simp [ofOpt, bind, Except.bind]
    | some vs =>
      simp only [Option.map_some, ofOpt_some, Option.bind_some]
      show (rs.zipIdx (k + 1)).foldlM _ (List.zipWith (fun p v => p ++ v :: List.replicate rs.length null) pres vs) = _
      have hvl : vs.length = cols.length := by
        have := CallSites.mapM_length _ _ _ hv
        simpa using this
      rw [zipWith_snoc_map, ih (List.zipWith (fun p v => p ++ [v]) pres vs) (k + 1)
        (by simp [hl, hvl]) (zipWith_snoc_len k pres hp vs)]
      cases pathN rs (cols.map Int.toNat) with
      | none => simp
      | some tails => simp [zipWith_snoc_cons]

theorem zipWith_nil_append (tails : List (List α)) :
    List.zipWith (· ++ ·) (List.replicate tails.length ([] : List α)) tails = tails := by
  induction tails with
  | nil => simp
  | cons t ts ih => simp [List.replicate_succ, ih]

/-- The write loops started on the fresh buffer `np.empty((num_cols, num_rows))`. -/
theorem fill_from_empty (null : α) (cols : List Int) (hc : ∀ c ∈ cols, 0 ≤ c) (rows' : List (RowObj α)) :
    (rows'.zipIdx).foldlM (fun m p => (cols.zipIdx).foldlM (writeStep p.1 p.2) m)
        (npEmpty null (cols.length : Int) (rows'.length : Int))
      = ofOpt (pathN rows' (cols.map Int.toNat)) := by
  have h := outer_fill null cols hc rows' (List.replicate cols.length []) 0 (by simp)
    (by intro p hp; rw [(List.mem_replicate.mp hp).2]; rfl)
  have hm : (List.replicate cols.length ([] : List α)).map (· ++ List.replicate rows'.length null)
      = npEmpty null (cols.length : Int) (rows'.length : Int) := by
    simp [npEmpty]
  rw [hm] at h
  rw [h]
  cases hp : pathN rows' (cols.map Int.toNat) with
  | none => rfl
  | some tails =>
    have hl : tails.length = cols.length := by
      have := CallSites.mapM_length _ _ _ hp
      simpa using this
    simp only [Option.map_some]
    rw [← hl, zipWith_nil_append]

theorem uget_cons_zero (x : β) (xs : List β) : uget (x :: xs) (0 : Int) = .ok x := rfl
theorem uget_cons_one (x y : β) (xs : List β) : uget (x :: y :: xs) (1 : Int) = .ok y := rfl

/-- The bounds-check loop of `collect_cython`. -/
theorem check_loop (bad : Int → Prop) [DecidablePred bad] (e : Fault) (cols : List Int) :
    forRange (cols.length : Int) () (fun (_ : Unit) j => (uget cols j) >>= fun c =>
        if bad c then (throw e : K Unit) else pure ())
      = if cols.any (fun c => decide (bad c)) = true then .error e else .ok () := by
  rw [forRange_uget cols cols.length (Nat.le_refl _) () (fun _ c _ => if bad c then (throw e : K Unit) else pure ()),
    List.take_length]
  rw [zipIdx_foldlM_fst (fun (_ : Unit) c => if bad c then (throw e : K Unit) else pure ())]
  exact check_fold bad e cols

/-- The general path: both loops. -/
theorem write_general (null : α) (rows : List (RowObj α)) (cols : List Int) (hc : ∀ c ∈ cols, 0 ≤ c)
    (n : Nat) (hn : n ≤ rows.length) :
    forRange (n : Int) (npEmpty null (cols.length : Int) (n : Int)) (fun result i =>
        (uget rows i) >>= fun tuple_row =>
          forRange (cols.length : Int) result (fun result j =>
            (uget cols j) >>= fun c => (uget tuple_row c) >>= fun v => uset2 result j i v))
      = ofOpt (pathN (rows.take n) (cols.map Int.toNat)) := by
  have hinner : ∀ (tuple_row : RowObj α) (i : Int) (result : List (List α)),
      forRange (cols.length : Int) result (fun result j =>
            (uget cols j) >>= fun c => (uget tuple_row c) >>= fun v => uset2 result j i v)
        = (cols.zipIdx).foldlM (fun s p => (uget tuple_row p.1) >>= fun v => uset2 s (p.2 : Int) i v) result := by
    intro tuple_row i result
    rw [forRange_uget cols cols.length (Nat.le_refl _) result
      (fun s c j => (uget tuple_row c) >>= fun v => uset2 s j i v), List.take_length]
  simp only [hinner]
  rw [forRange_uget rows n hn _ (fun s r i => (cols.zipIdx).foldlM (fun s p => (uget r p.1) >>= fun v => uset2 s (p.2 : Int) i v) s)]
  have hlen : (rows.take n).length = n := by simp [List.length_take]; omega
  have := fill_from_empty null cols hc (rows.take n)
  rw [hlen] at this
  exact this


/-- The one-column path. -/
theorem write_one (null : α) (rows : List (RowObj α)) (c0 : Int) (hc : 0 ≤ c0) (n : Nat) (hn : n ≤ rows.length) :
    forRange (n : Int) (npEmpty null (([c0] : List Int).length : Int) (n : Int)) (fun result i =>
        (uget rows i) >>= fun tuple_row => (uget tuple_row c0) >>= fun v => uset2 result 0 i v)
      = ofOpt (pathN (rows.take n) ([c0].map Int.toNat)) := by
  rw [forRange_uget rows n hn _ (fun s r i => (uget r c0) >>= fun v => uset2 s 0 i v)]
  have hstep : (fun (s : List (List α)) (p : RowObj α × Nat) => (uget p.1 c0) >>= fun v => uset2 s 0 (p.2 : Int) v)
      = fun m p => (([c0] : List Int).zipIdx).foldlM (writeStep p.1 p.2) m := by
    funext s p
    simp [List.zipIdx_cons, writeStep]
  rw [hstep]
  have hlen : (rows.take n).length = n := by simp [List.length_take]; omega
  have := fill_from_empty null [c0] (by intro c h; simp at h; subst h; exact hc) (rows.take n)
  rw [hlen] at this
  exact this

/-- The two-column path. -/
theorem write_two (null : α) (rows : List (RowObj α)) (c0 c1 : Int) (hc0 : 0 ≤ c0) (hc1 : 0 ≤ c1)
    (n : Nat) (hn : n ≤ rows.length) :
    forRange (n : Int) (npEmpty null (([c0, c1] : List Int).length : Int) (n : Int)) (fun result i =>
        (uget rows i) >>= fun tuple_row => (uget tuple_row c0) >>= fun v0 => (uset2 result 0 i v0) >>= fun result =>
          (uget tuple_row c1) >>= fun v1 => uset2 result 1 i v1)
      = ofOpt (pathN (rows.take n) ([c0, c1].map Int.toNat)) := by
  rw [forRange_uget rows n hn _ (fun s r i => (uget r c0) >>= fun v0 => (uset2 s 0 i v0) >>= fun s =>
          (uget r c1) >>= fun v1 => uset2 s 1 i v1)]
  have hstep : (fun (s : List (List α)) (p : RowObj α × Nat) => (uget p.1 c0) >>= fun v0 => (uset2 s 0 (p.2 : Int) v0) >>= fun s =>
          (uget p.1 c1) >>= fun v1 => uset2 s 1 (p.2 : Int) v1)
      = fun m p => (([c0, c1] : List Int).zipIdx).foldlM (writeStep p.1 p.2) m := by
    funext s p
    simp [List.zipIdx_cons, writeStep]
  rw [hstep]
  have hlen : (rows.take n).length = n := by simp [List.length_take]; omega
  have := fill_from_empty null [c0, c1] (by intro c h; simp at h; rcases h with rfl | rfl <;> assumption) (rows.take n)
  rw [hlen] at this
  exact this

/-- A loop that writes `g l[i]` at position `i` of a buffer of `None`s fills it with `l.map g`. -/
theorem fill_list (null : α) (g : β → α) (step : List α → β × Nat → K (List α))
    (hstep : ∀ s p, step s p = uset s (p.2 : Int) (g p.1)) :
    ∀ (l : List β) (pre : List α),
      (l.zipIdx pre.length).foldlM step (pre ++ List.replicate l.length null) = .ok (pre ++ l.map g) := by
  intro l
  induction l with
  | nil => intro pre; simp [pure, Except.pure]
  | cons x xs ih =>
    intro pre
    rw [List.zipIdx_cons, List.foldlM_cons, hstep, List.length_cons, List.replicate_succ]
    show (uset (pre ++ null :: List.replicate xs.length null) (pre.length : Int) (g x) >>= _) = _
    rw [uset_after_prefix]
    show (xs.zipIdx (pre.length + 1)).foldlM step (pre ++ g x :: List.replicate xs.length null) = _
    have h1 : pre ++ g x :: List.replicate xs.length null = (pre ++ [g x]) ++ List.replicate xs.length null := by simp
    have h2 : (pre ++ [g x]).length = pre.length + 1 := by simp
    rw [h1, ← h2, ih (pre ++ [g x])]
    simp

theorem ok_bind {γ : Type} (a : β) (f : β → K γ) : ((Except.ok a : K β) >>= f) = f a := rfl

/-- The loop of `calculate_data_width` is the fold of `Kernels.widthStep`. -/
theorem width_fold (strLen : α → Nat) (step : Int → Option α → K Int)
    (hstep : ∀ (acc : Nat) (v : Option α), step (acc : Int) v = .ok ((widthStep acc (v.map strLen) : Nat) : Int)) :
    ∀ (vals : List (Option α)) (acc : Nat),
      vals.foldlM step (acc : Int) = .ok (((vals.map (Option.map strLen)).foldl widthStep acc : Nat) : Int) := by
  intro vals
  induction vals with
  | nil => intro acc; rfl
  | cons v vs ih =>
    intro acc
    rw [List.foldlM_cons, hstep, List.map_cons, List.foldl_cons]
    exact ih _

theorem mapM_none_iff {β γ : Type} (f : β → Option γ) (l : List β) :
    l.mapM f = none ↔ ∃ x ∈ l, f x = none := by
  induction l with
  | nil => simp
  | cons x xs ih =>
    simp only [List.mapM_cons, List.mem_cons, exists_eq_or_imp]
    cases hx : f x with
    | none => simp
    | some v =>
      cases hm : xs.mapM f with
      | none => simp [hm] at ih ⊢; exact ih
      | some vs => simp [hm] at ih ⊢; exact ih

theorem readCell_none_iff (r : RowObj α) (c : Nat) :
    readCell r c = none ↔ (r.isTuple = false ∨ r.cells.length ≤ c) := by
  unfold readCell
  cases r.isTuple <;> simp

theorem pathN_none_iff (rows : List (RowObj α)) (cols : List Nat) :
    pathN rows cols = none ↔ ∃ r ∈ rows, ∃ c ∈ cols, (r.isTuple = false ∨ r.cells.length ≤ c) := by
  unfold pathN
  rw [mapM_none_iff]
  constructor
  · rintro ⟨c, hc, h⟩
    obtain ⟨r, hr, h'⟩ := (mapM_none_iff _ _).mp h
    exact ⟨r, hr, c, hc, (readCell_none_iff r c).mp h'⟩
  · rintro ⟨r, hr, c, hc, h⟩
    exact ⟨c, hc, (mapM_none_iff _ _).mpr ⟨r, hr, (readCell_none_iff r c).mpr h⟩⟩

end KernelSem
