import OrsoVerif.Lemmas.IsoEpoch
/-! Helper lemmas for C08: civil-from-days is sound on every integer; the representable range. -/
namespace Iso

/-- Gregorian leap year on integers (astronomical year numbering). -/
def leapI (y : Int) : Prop := y % 4 = 0 ∧ (y % 100 ≠ 0 ∨ y % 400 = 0)

theorem year_fwd (N a : Int) (r n100 r1 n4 r2 n1 r3 : Nat)
    (ha : a = N / 146097) (hr : (r : Int) = N % 146097)
    (e100 : n100 = r / 36524) (er1 : r1 = r % 36524)
    (e4 : n4 = r1 / 1461) (er2 : r2 = r1 % 1461) (e1 : n1 = r2 / 365) (er3 : r3 = r2 % 365)
    (y : Int) (doy : Nat)
    (hy : (y, doy) = if n1 = 4 ∨ n100 = 4 then (a * 400 + ((n100 * 100 + n4 * 4 + n1 : Nat) : Int) + 1 - 1, 365)
      else (a * 400 + ((n100 * 100 + n4 * 4 + n1 : Nat) : Int) + 1, r3)) :
    N = 365 * (y - 1) + (y - 1) / 4 - (y - 1) / 100 + (y - 1) / 400 + doy ∧
    (doy < 365 ∨ (doy = 365 ∧ leapI y)) := by
  have hN : N = 146097 * a + r := by omega
  have hrlt : r < 146097 := by omega
  clear ha hr
  have h100 : r = 36524 * n100 + r1 ∧ r1 < 36524 ∧ n100 ≤ 4 := by omega
  have h4 : r1 = 1461 * n4 + r2 ∧ r2 < 1461 ∧ n4 ≤ 24 := by omega
  have h1 : r2 = 365 * n1 + r3 ∧ r3 < 365 ∧ n1 ≤ 4 := by omega
  clear e100 er1 e4 er2 e1 er3
  unfold leapI
  by_cases hc100 : n100 = 4
  · rw [if_pos (Or.inr hc100)] at hy
    have : y = a * 400 + ((n100 * 100 + n4 * 4 + n1 : Nat) : Int) + 1 - 1 ∧ doy = 365 := by
      simpa using hy
    obtain ⟨rfl, rfl⟩ := this
    have : r1 = 0 ∧ n4 = 0 ∧ r2 = 0 ∧ n1 = 0 ∧ r3 = 0 := by omega
    obtain ⟨h1', h2', h3', h4', h5'⟩ := this
    subst hc100 h2' h4'
    refine ⟨by omega, Or.inr ⟨rfl, by omega⟩⟩
  · by_cases hc1 : n1 = 4
    · rw [if_pos (Or.inl hc1)] at hy
      have : y = a * 400 + ((n100 * 100 + n4 * 4 + n1 : Nat) : Int) + 1 - 1 ∧ doy = 365 := by
        simpa using hy
      obtain ⟨rfl, rfl⟩ := this
      have hr3 : r3 = 0 ∧ n4 ≤ 23 ∧ n100 ≤ 3 := by omega
      subst hc1
      generalize hp : a * 400 + ((n100 * 100 + n4 * 4 + 4 : Nat) : Int) + 1 - 1 = y at *
      have d4 : (y - 1) / 4 = 100 * a + 25 * n100 + n4 := by omega
      have d100 : (y - 1) / 100 = 4 * a + n100 := by omega
      have d400 : (y - 1) / 400 = a := by omega
      refine ⟨by omega, Or.inr ⟨rfl, by omega⟩⟩
    · rw [if_neg (by omega)] at hy
      have : y = a * 400 + ((n100 * 100 + n4 * 4 + n1 : Nat) : Int) + 1 ∧ doy = r3 := by
        simpa using hy
      obtain ⟨rfl, rfl⟩ := this
      have : n1 ≤ 3 ∧ n100 ≤ 3 := by omega
      generalize hp : a * 400 + ((n100 * 100 + n4 * 4 + n1 : Nat) : Int) + 1 = y at *
      have d4 : (y - 1) / 4 = 100 * a + 25 * n100 + n4 := by omega
      have d100 : (y - 1) / 100 = 4 * a + n100 := by omega
      have d400 : (y - 1) / 400 = a := by omega
      by_cases hlt : doy < 365
      · exact ⟨by omega, Or.inl hlt⟩
      · omega


theorem dby_facts (p : Int) :
    (p ≤ -1 → 365 * p + p / 4 - p / 100 + p / 400 ≤ -366) ∧
    (0 ≤ p → 0 ≤ 365 * p + p / 4 - p / 100 + p / 400) ∧
    (p ≤ 9997 → 365 * p + p / 4 - p / 100 + p / 400 ≤ 3651329) ∧
    (p = 9998 → 365 * p + p / 4 - p / 100 + p / 400 = 3651694) ∧
    (9999 ≤ p → 3652059 ≤ 365 * p + p / 4 - p / 100 + p / 400) := by
  obtain ⟨a, r, hp, hr0, hr1⟩ : ∃ a r : Int, p = 400 * a + r ∧ 0 ≤ r ∧ r < 400 :=
    ⟨p / 400, p % 400, by omega, by omega, by omega⟩
  have d4 : p / 4 = 100 * a + r / 4 := by omega
  have d100 : p / 100 = 4 * a + r / 100 := by omega
  have d400 : p / 400 = a := by omega
  rw [d4, d100, d400]
  have g0 : 0 ≤ r / 4 - r / 100 := by omega
  have g1 : 365 * r + r / 4 - r / 100 ≤ 145731 := by omega
  refine ⟨?_, ?_, ?_, ?_, ?_⟩
  · intro h; have : a ≤ -1 := by omega
    omega
  · intro h; have : 0 ≤ a := by omega
    omega
  · intro h
    by_cases ha : a ≤ 23
    · omega
    · have : a = 24 ∧ r ≤ 397 := by omega
      omega
  · intro h; have : a = 24 ∧ r = 398 := by omega
    omega
  · intro h
    by_cases ha : 25 ≤ a
    · omega
    · have : a = 24 ∧ r = 399 := by omega
      omega

theorem dby_cast (q : Nat) : ((daysBeforeYear (q + 1) : Nat) : Int)
    = 365 * (q : Int) + (q : Int) / 4 - (q : Int) / 100 + (q : Int) / 400 := by
  simp only [daysBeforeYear, Nat.add_sub_cancel]
  omega

theorem yearDoy_spec (ord : Int) :
    ord - 1 = 365 * ((yearDoy ord).1 - 1) + ((yearDoy ord).1 - 1) / 4 - ((yearDoy ord).1 - 1) / 100
      + ((yearDoy ord).1 - 1) / 400 + (yearDoy ord).2 ∧
    ((yearDoy ord).2 < 365 ∨ ((yearDoy ord).2 = 365 ∧ leapI (yearDoy ord).1)) := by
  refine year_fwd (ord - 1) ((ord - 1) / 146097) ((ord - 1) % 146097).toNat _ _ _ _ _ _
    rfl (by omega) rfl rfl rfl rfl rfl rfl _ _ ?_
  rfl

set_option maxRecDepth 100000 in
theorem monthDay_fwd : ∀ leap : Bool, ∀ doy, doy < 366 → doy < 365 + (if leap = true then 1 else 0) →
    1 ≤ (monthDay leap doy).1 ∧ (monthDay leap doy).1 ≤ 12 ∧ 1 ≤ (monthDay leap doy).2 ∧
    (monthDay leap doy).2 ≤ daysInMonthL leap (monthDay leap doy).1 ∧
    daysBeforeMonthL leap (monthDay leap doy).1 + (monthDay leap doy).2 = doy + 1 := by decide

/-- First and last representable Unix second (0001-01-01T00:00:00 and 9999-12-31T23:59:59). -/
def minEpoch : Int := -62135596800
def maxEpoch : Int := 253402300799

theorem leapI_iff (y : Int) (hy : 1 ≤ y) : leapI y ↔ isLeap y.toNat = true := by
  rw [isLeap_iff]
  unfold leapI
  omega

/-- **Soundness and range of `fromtimestamp` on every integer.** -/
theorem fromTimestamp_spec (n : Int) :
    (minEpoch ≤ n ∧ n ≤ maxEpoch →
      ∃ dt, fromTimestamp n = .ok dt ∧ validDateTime dt = true ∧ dt.micro = 0 ∧ toEpoch dt = n) ∧
    (n < minEpoch ∨ maxEpoch < n → ∃ e, fromTimestamp n = .error e) := by
  unfold minEpoch maxEpoch
  by_cases h64 : n < -9223372036854775808 ∨ n > 9223372036854775807
  · refine ⟨fun h => by omega, fun _ => ⟨.overflowError, ?_⟩⟩
    unfold fromTimestamp
    rw [if_pos h64]
  · obtain ⟨hN, hdoy⟩ := yearDoy_spec (n / 86400 + epochOrdinal)
    have hstep : fromTimestamp n =
        (if (yearDoy (n / 86400 + epochOrdinal)).1 - 1900 < -2147483648 ∨ (yearDoy (n / 86400 + epochOrdinal)).1 - 1900 > 2147483647 then .error .osError
        else if (yearDoy (n / 86400 + epochOrdinal)).1 < 1 ∨ (yearDoy (n / 86400 + epochOrdinal)).1 > 9999 then .error .valueError
        else .ok ⟨(yearDoy (n / 86400 + epochOrdinal)).1.toNat,
            (monthDay (isLeap (yearDoy (n / 86400 + epochOrdinal)).1.toNat) (yearDoy (n / 86400 + epochOrdinal)).2).1,
            (monthDay (isLeap (yearDoy (n / 86400 + epochOrdinal)).1.toNat) (yearDoy (n / 86400 + epochOrdinal)).2).2,
            (n % 86400).toNat / 3600, (n % 86400).toNat % 3600 / 60, (n % 86400).toNat % 60, 0⟩) := by
      unfold fromTimestamp
      rw [if_neg h64]
    generalize (yearDoy (n / 86400 + epochOrdinal)).1 = y at *
    generalize (yearDoy (n / 86400 + epochOrdinal)).2 = doy at *
    simp only [epochOrdinal] at hN
    obtain ⟨f1, f2, f3, f4, f5⟩ := dby_facts (y - 1)
    have hdbyNat : 1 ≤ y → ((daysBeforeYear y.toNat : Nat) : Int)
        = 365 * (y - 1) + (y - 1) / 4 - (y - 1) / 100 + (y - 1) / 400 := by
      intro hy1
      obtain ⟨q, rfl⟩ : ∃ q : Nat, y = (q : Int) + 1 := ⟨(y - 1).toNat, by omega⟩
      have e1 : ((q : Int) + 1).toNat = q + 1 := by omega
      have e2 : (q : Int) + 1 - 1 = q := by omega
      rw [e1, e2, dby_cast]
    have hleapmod : leapI y → (y - 1) % 4 = 3 := by unfold leapI; omega
    have h9999 : leapI y → y ≠ 9999 := by unfold leapI; omega
    generalize 365 * (y - 1) + (y - 1) / 4 - (y - 1) / 100 + (y - 1) / 400 = F at *
    have hlow : y ≤ 0 → n / 86400 + 719163 - 1 < 0 := by
      intro hy0
      have := f1 (by omega)
      rcases hdoy with h | ⟨h, _⟩ <;> omega
    have hhigh : 10000 ≤ y → 3652058 < n / 86400 + 719163 - 1 := by
      intro hy1
      have := f5 (by omega)
      omega
    have hmid : 1 ≤ y → y ≤ 9999 → 0 ≤ n / 86400 + 719163 - 1 ∧ n / 86400 + 719163 - 1 ≤ 3652058 := by
      intro hy0 hy1
      have := f2 (by omega)
      by_cases h98 : y - 1 = 9998
      · have := f4 h98
        rcases hdoy with h | ⟨h, hl⟩
        · omega
        · exact absurd (by omega) (h9999 hl)
      · have := f3 (by omega)
        rcases hdoy with h | ⟨h, hl⟩ <;> omega
    constructor
    · intro hr
      have hy : 1 ≤ y ∧ y ≤ 9999 := by
        constructor
        · by_cases hc : y ≤ 0
          · have := hlow hc; omega
          · omega
        · by_cases hc : 10000 ≤ y
          · have := hhigh hc; omega
          · omega
      rw [hstep, if_neg (by omega), if_neg (by omega)]
      refine ⟨_, rfl, ?_, rfl, ?_⟩
      all_goals
        have hleap : doy < 365 + (if isLeap y.toNat = true then 1 else 0) := by
          rcases hdoy with h | ⟨h, hl⟩
          · split <;> omega
          · rw [if_pos ((leapI_iff y hy.1).mp hl)]; omega
        obtain ⟨m1, m2, m3, m4, m5⟩ := monthDay_fwd (isLeap y.toNat) doy (by split at hleap <;> omega) hleap
      · clear f1 f2 f3 f4 f5 hlow hhigh hmid hstep hdbyNat
        simp only [validDateTime, validDate, Bool.and_eq_true, decide_eq_true_eq]
        simp only [daysInMonth]
        omega
      · have hd := hdbyNat hy.1
        simp only [toEpoch, toOrdinal, epochOrdinal]
        generalize daysBeforeYear y.toNat = dby at hd ⊢
        generalize daysBeforeMonthL (isLeap y.toNat) (monthDay (isLeap y.toNat) doy).1 = dbm at m5 ⊢
        generalize (monthDay (isLeap y.toNat) doy).2 = d at m5 ⊢
        omega
    · intro hr
      by_cases hos : y - 1900 < -2147483648 ∨ y - 1900 > 2147483647
      · exact ⟨.osError, by rw [hstep, if_pos hos]⟩
      · refine ⟨.valueError, ?_⟩
        rw [hstep, if_neg hos, if_pos]
        by_cases hc : 1 ≤ y ∧ y ≤ 9999
        · have := hmid hc.1 hc.2; omega
        · omega

end Iso
