import OrsoVerif.Model.Np

/-! Reading, writing and allocating on the heap of arrays (`Enc.Heap`): what a write to one address leaves
alone, what a new array leaves alone. -/
namespace Enc
variable {α : Type}

theorem heap_read_write_ne (h : Heap α) (a b : Nat) (xs : List α) (hab : a ≠ b) :
    (h.write a xs).read b = h.read b := by
  simp [Heap.read, Heap.write, List.getElem?_set_ne hab]

theorem heap_read_write_self (h : Heap α) (a : Nat) (xs : List α) (ha : a < h.cells.length) :
    (h.write a xs).read a = xs := by
  simp [Heap.read, Heap.write, ha]

theorem heap_writes_length (h : Heap α) (ws : List (Nat × List α)) : (h.writes ws).cells.length = h.cells.length := by
  induction ws generalizing h with
  | nil => rfl
  | cons w ws ih => obtain ⟨a, xs⟩ := w; simp [Heap.writes, ih, Heap.write]

theorem heap_read_writes_off (h : Heap α) (ws : List (Nat × List α)) (b : Nat) (hb : ∀ w ∈ ws, w.1 ≠ b) :
    (h.writes ws).read b = h.read b := by
  induction ws generalizing h with
  | nil => rfl
  | cons w ws ih =>
    obtain ⟨a, xs⟩ := w
    simp only [Heap.writes]
    rw [ih _ (fun w hw => hb w (List.mem_cons_of_mem _ hw))]
    exact heap_read_write_ne h a b xs (hb (a, xs) List.mem_cons_self)

theorem heap_read_alloc_old (h : Heap α) (xs : List α) (a : Nat) (ha : a < h.cells.length) :
    (h.alloc xs).1.read a = h.read a := by
  simp [Heap.alloc, Heap.read, List.getElem?_append_left ha]

theorem heap_read_alloc_new (h : Heap α) (xs : List α) : (h.alloc xs).1.read h.cells.length = xs := by
  simp [Heap.alloc, Heap.read]

theorem heap_alloc_length (h : Heap α) (xs : List α) : (h.alloc xs).1.cells.length = h.cells.length + 1 := by
  simp [Heap.alloc]

theorem heap_write_length (h : Heap α) (a : Nat) (xs : List α) : (h.write a xs).cells.length = h.cells.length := by
  simp [Heap.write]

theorem materializeAt_fresh (decode : List α → List α) (h : Heap α) (s : Nat) :
    materializeAt .fresh decode h s = ((h.alloc (decode (h.read s))).1, .owned h.cells.length) := rfl

theorem constructAt_own (encode : List α → List α) (h : Heap α) (i : Nat) :
    constructAt .own encode h i = ((h.alloc (encode (h.read i))).1, h.cells.length) := rfl

theorem constructAt_alias (encode : List α → List α) (h : Heap α) (i : Nat) :
    constructAt .aliasInput encode h i = (h, i) := rfl

end Enc
