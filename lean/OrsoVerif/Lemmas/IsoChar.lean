import OrsoVerif.Lemmas.IsoSafe
/-! Helper lemmas for C08: what the text path *rejects* — text without dashes at offsets 4 and 7,
and the exact set of tails after which a seconds-form rendering is still read. -/
namespace Iso

/-- **What the rejection lemmas need from the generated guards** (`Gen.Iso`).  Proved in
`Props/C08.lean` (`guards_reject_everything_else`) against the source as extracted on this run. -/
structure Rejects : Prop where
  windowHi : ∀ n : Int, 33 < n → ¬ Gen.Iso.lenWindow n
  plusHi : ∀ n : Int, 28 < n → Gen.Iso.plusReject n
  dash : ∀ a b : Char, a ≠ '-' ∨ b ≠ '-' →
    scb Gen.Iso.dashJoinAnd (decide (Gen.Iso.dashTestA a)) (decide (Gen.Iso.dashTestB b)) = true
  midLen : ∀ n : Int, 10 < n → n < 16 → ¬ Gen.Iso.dateLenTest n ∧ ¬ Gen.Iso.timeLenTest n
  dateLo : ∀ n : Int, Gen.Iso.dateLenTest n → 10 ≤ n
  minHi : ∀ n : Int, 16 < n → ¬ Gen.Iso.minLenTest n
  secLo : ∀ n : Int, n < 19 → ¬ Gen.Iso.secLenTest n
  secChar : ∀ c : Char, c ≠ ':' → ¬ Gen.Iso.secCharTest c

theorem idx_eq_ok_iff (v : List Char) (i : Nat) (c : Char) : idx v i = .ok c ↔ v[i]? = some c := by
  unfold idx
  cases v[i]? with
  | none => simp
  | some d => simp

theorem prefix_getElem? {v s : List Char} (h : v <+: s) {i : Nat} (hi : i < v.length) : v[i]? = s[i]? := by
  have hs : i < s.length := Nat.lt_of_lt_of_le hi h.length_le
  rw [List.getElem?_eq_getElem hi, List.getElem?_eq_getElem hs, h.getElem hi]

theorem prefix_slice {v s : List Char} (h : v <+: s) (a b : Nat) (hb : b ≤ v.length) :
    slice v (a, b) = slice s (a, b) := by
  obtain ⟨t, rfl⟩ := h
  unfold slice
  by_cases ha : a ≤ v.length
  · rw [List.drop_append_of_le_length ha, List.take_append_of_le_length (by simp; omega)]
  · have : b - a = 0 := by omega
    simp [this]

/-- Text without `-` at offset 4 or at offset 7 is rejected by the dash test. -/
theorem shaped_not_dashes (A : Accepts) (Rj : Rejects) (v : List Char) (h9 : 9 ≤ v.length)
    (h : v[4]? ≠ some '-' ∨ v[7]? ≠ some '-') : shaped v = .ok none := by
  obtain ⟨x4, x7, _, _, _⟩ := A.idx
  obtain ⟨a, ha⟩ := idx_ok v 4 (by omega)
  obtain ⟨b, hb⟩ := idx_ok v 7 (by omega)
  have ha' := (idx_eq_ok_iff v 4 a).mp ha
  have hb' := (idx_eq_ok_iff v 7 b).mp hb
  have hab : a ≠ '-' ∨ b ≠ '-' := by
    rcases h with h | h
    · left; intro e; rw [ha', e] at h; exact h rfl
    · right; intro e; rw [hb', e] at h; exact h rfl
  have hd : dashReject v = .ok true := by
    simp only [dashReject, x4, x7, ha, hb, bind_ok, shortCircuit_ok, Rj.dash a b hab]
  simp only [shaped, hd, bind_ok, if_true]

/-- The whole text path rejects text without dashes at offsets 4 and 7: the `Z` strip and the `+`
split keep a prefix of at least nine characters, so the two offsets still show the same characters. -/
theorem textPath_not_dashes (A : Accepts) (C : Covers) (Rj : Rejects) (s : List Char)
    (h : s[4]? ≠ some '-' ∨ s[7]? ≠ some '-') : textPath s = .ok none := by
  unfold textPath
  split
  · next hw =>
    have h10 : 10 ≤ s.length := by have := C.window _ hw; omega
    have key : ∀ v : List Char, v <+: s → 9 ≤ v.length → shaped v = .ok none := by
      intro v hp h9
      refine shaped_not_dashes A Rj v h9 ?_
      rw [prefix_getElem? hp (by omega : 4 < v.length), prefix_getElem? hp (by omega : 7 < v.length)]
      exact h
    have hv1 : (if s.getLast? = some Gen.Iso.zChar then s.dropLast else s) <+: s ∧
        9 ≤ (if s.getLast? = some Gen.Iso.zChar then s.dropLast else s).length := by
      split
      · exact ⟨List.dropLast_prefix s, by simp; omega⟩
      · exact ⟨List.prefix_refl s, by omega⟩
    dsimp only
    generalize (if s.getLast? = some Gen.Iso.zChar then s.dropLast else s) = v1 at hv1 ⊢
    split
    · split
      · rfl
      · next hw2 =>
        have := C.plus _ hw2
        exact key _ ((List.takeWhile_prefix _).trans hv1.1) (by omega)
    · exact key v1 hv1.1 hv1.2
  · rfl

/-! ### The tails after a seconds-form rendering -/

theorem zStrip_append (a t : List Char) (ha : a.getLast? ≠ some 'Z') :
    (if (a ++ t).getLast? = some 'Z' then (a ++ t).dropLast else a ++ t) = a ++ zStrip t := by
  unfold zStrip
  cases t using List.casesOn with
  | nil => simp [ha]
  | cons c r =>
    have hne : c :: r ≠ [] := by simp
    have hl : (a ++ c :: r).getLast? = (c :: r).getLast? := by
      rw [List.getLast?_append]
      cases h : (c :: r).getLast? with
      | none => exact absurd (List.getLast?_eq_none_iff.mp h) hne
      | some x => rfl
    rw [hl]
    split
    · exact List.dropLast_append_of_ne_nil hne
    · rfl

theorem textPath_secondTail (A : Accepts) (Rj : Rejects) (dt : DateTime) (h : validDateTime dt = true)
    (sep : Char) (hsep : sep = 'T' ∨ sep = ' ') (t : List Char) :
    textPath (renderSecond dt sep ++ t) = if tailRead t then .ok (some (truncSeconds dt)) else .ok none := by
  obtain ⟨pa, la⟩ := plain_renderSecond dt sep hsep
  obtain ⟨hz, hp⟩ := plain_split pa
  have hlen : (renderSecond dt sep ++ t).length = 19 + t.length := by simp [la]
  unfold textPath
  by_cases hl : t.length ≤ 14
  · have hw : Gen.Iso.lenWindow ((renderSecond dt sep ++ t).length : Int) := A.window _ (by omega) (by omega)
    rw [if_pos hw, A.chars.1, A.chars.2, zStrip_append _ t (noZ_last _ hz)]
    dsimp only
    have hc : (renderSecond dt sep ++ zStrip t).contains '+' = (zStrip t).contains '+' := by
      rw [List.contains_append, noPlus_contains _ hp, Bool.false_or]
    rw [hc]
    by_cases hcp : (zStrip t).contains '+' = true
    · rw [if_pos hcp]
      have hm : '+' ∈ zStrip t := List.contains_iff_mem.mp hcp
      have ht : (renderSecond dt sep ++ zStrip t).takeWhile (· != '+')
          = renderSecond dt sep ++ (zStrip t).takeWhile (· != '+') :=
        List.takeWhile_append_of_pos (fun c hc => by simpa using hp c hc)
      rw [ht]
      have hl2 : ((renderSecond dt sep ++ (zStrip t).takeWhile (· != '+')).length : Int)
          = 19 + ((zStrip t).takeWhile (· != '+')).length := by simp [la]
      by_cases hk : ((zStrip t).takeWhile (· != '+')).length ≤ 9
      · rw [if_neg (A.plus _ (by omega) (by omega)), shaped_second A dt h sep hsep]
        simp [tailRead, hl, hm, hk]
      · rw [if_pos (Rj.plusHi _ (by omega))]
        simp [tailRead, hl, hm, hk]
    · rw [if_neg hcp, shaped_second A dt h sep hsep]
      have hm : ¬ '+' ∈ zStrip t := fun hm => hcp (List.contains_iff_mem.mpr hm)
      simp [tailRead, hl, hm]
  · rw [if_neg (Rj.windowHi _ (by omega))]
    simp [tailRead, hl]

end Iso
