import OrsoVerif.Model.Sanitise
import OrsoVerif.Lemmas.Sanitise
/-! Helper lemmas for C20: the reading in which objects inside arrays count as nested objects. -/
namespace Sanitise

theorem deepItems_single (h : Json → Str) (c : Colors) (x : Json) : deepItems h c [x] = deepItem h c x := rfl

theorem deepItems_cons_cons (h : Json → Str) (c : Colors) (x y : Json) (r : List Json) :
    deepItems h c (x :: y :: r) = deepItem h c x ++ ',' :: ' ' :: deepItems h c (y :: r) := rfl

mutual
theorem deepItem_congr (h : Json → Str) (c : Colors) :
    (v w : Json) → eraseDeep h v = eraseDeep h w → deepItem h c v = deepItem h c w
  | .obj a, .obj b, he => by
    simp only [eraseDeep, Json.obj.injEq] at he
    simp only [deepItem, cleanDeepObj_congr h c a b he]
  | .arr a, .arr b, he => by
    simp only [eraseDeep, Json.arr.injEq] at he
    simp only [deepItem, deepItems_congr h c a b he]
  | .obj _, .null, he | .obj _, .bool _, he | .obj _, .num _, he | .obj _, .str _, he
  | .obj _, .arr _, he => by simp [eraseDeep] at he
  | .arr _, .null, he | .arr _, .bool _, he | .arr _, .num _, he | .arr _, .str _, he
  | .arr _, .obj _, he => by simp [eraseDeep] at he
  | .null, w, he => by cases w <;> simp_all [eraseDeep]
  | .bool _, w, he => by cases w <;> simp_all [eraseDeep]
  | .num _, w, he => by cases w <;> simp_all [eraseDeep]
  | .str _, w, he => by cases w <;> simp_all [eraseDeep]
theorem deepValue_congr (h : Json → Str) (c : Colors) :
    (v w : Json) → eraseDeep h v = eraseDeep h w → deepValue h c v = deepValue h c w
  | .obj a, .obj b, he => by
    simp only [eraseDeep, Json.obj.injEq] at he
    simp only [deepValue, cleanDeepObj_congr h c a b he]
  | .arr a, .arr b, he => by
    simp only [eraseDeep, Json.arr.injEq] at he
    simp only [deepValue, deepItems_congr h c a b he]
  | .obj _, .null, he | .obj _, .bool _, he | .obj _, .num _, he | .obj _, .str _, he
  | .obj _, .arr _, he => by simp [eraseDeep] at he
  | .arr _, .null, he | .arr _, .bool _, he | .arr _, .num _, he | .arr _, .str _, he
  | .arr _, .obj _, he => by simp [eraseDeep] at he
  | .null, w, he => by cases w <;> simp_all [eraseDeep]
  | .bool _, w, he => by cases w <;> simp_all [eraseDeep]
  | .num _, w, he => by cases w <;> simp_all [eraseDeep]
  | .str _, w, he => by cases w <;> simp_all [eraseDeep]
theorem deepItems_congr (h : Json → Str) (c : Colors) :
    (a b : List Json) → eraseDeepItems h a = eraseDeepItems h b → deepItems h c a = deepItems h c b
  | [], [], _ => rfl
  | [], _ :: _, he => by simp [eraseDeepItems] at he
  | _ :: _, [], he => by simp [eraseDeepItems] at he
  | [x], [y], he => by
    simp only [eraseDeepItems, List.cons.injEq] at he
    rw [deepItems_single, deepItems_single, deepItem_congr h c x y he.1]
  | [_], _ :: _ :: _, he => by simp [eraseDeepItems] at he
  | _ :: _ :: _, [_], he => by simp [eraseDeepItems] at he
  | x :: x' :: ra, y :: y' :: rb, he => by
    have hx : eraseDeep h x = eraseDeep h y := by
      simp only [eraseDeepItems, List.cons.injEq] at he; exact he.1
    have hr : eraseDeepItems h (x' :: ra) = eraseDeepItems h (y' :: rb) := by
      simp only [eraseDeepItems, List.cons.injEq] at he ⊢; exact he.2
    rw [deepItems_cons_cons, deepItems_cons_cons, deepItem_congr h c x y hx,
      deepItems_congr h c (x' :: ra) (y' :: rb) hr]
theorem cleanDeepObj_congr (h : Json → Str) (c : Colors) :
    (a b : List (Str × Json)) → eraseDeepObj h a = eraseDeepObj h b → cleanDeepObj h c a = cleanDeepObj h c b
  | [], [], _ => rfl
  | [], _ :: _, he => by cases ‹Str × Json›; simp [eraseDeepObj] at he
  | _ :: _, [], he => by cases ‹Str × Json›; simp [eraseDeepObj] at he
  | (k, v) :: ra, (k', v') :: rb, he => by
    simp only [eraseDeepObj, List.cons.injEq, Prod.mk.injEq] at he
    obtain ⟨⟨hk, hv⟩, hr⟩ := he
    subst hk
    simp only [cleanDeepObj, cleanDeepObj_congr h c ra rb hr]
    by_cases hs : sensitive k = true
    · simp only [hs, if_true, Json.str.injEq] at hv ⊢
      rw [hv]
    · simp only [hs] at hv ⊢
      simp only [Bool.false_eq_true, if_false] at hv ⊢
      rw [deepValue_congr h c v v' hv]
end

/-- On a record without arrays the implemented cleaner and the deep one are the same function. -/
theorem cleanObj_eq_deep (h : Json → Str) (c : Colors) :
    (d : List (Str × Json)) → arrayFreeObj d = true → cleanObj h c d = cleanDeepObj h c d
  | [], _ => rfl
  | (k, .obj kvs) :: rest, ha => by
    simp only [arrayFreeObj, arrayFree, Bool.and_eq_true] at ha
    simp only [cleanObj, cleanDeepObj, cleanVal, deepValue, cleanObj_eq_deep h c kvs ha.1,
      cleanObj_eq_deep h c rest ha.2]
  | (k, .arr xs) :: rest, ha => by simp [arrayFreeObj, arrayFree] at ha
  | (k, .null) :: rest, ha => by
    simp only [arrayFreeObj, arrayFree, Bool.true_and] at ha
    simp only [cleanObj, cleanDeepObj, cleanVal, deepValue, cleanObj_eq_deep h c rest ha]
  | (k, .bool b) :: rest, ha => by
    simp only [arrayFreeObj, arrayFree, Bool.true_and] at ha
    simp only [cleanObj, cleanDeepObj, cleanVal, deepValue, cleanObj_eq_deep h c rest ha]
  | (k, .num t) :: rest, ha => by
    simp only [arrayFreeObj, arrayFree, Bool.true_and] at ha
    simp only [cleanObj, cleanDeepObj, cleanVal, deepValue, cleanObj_eq_deep h c rest ha]
  | (k, .str s) :: rest, ha => by
    simp only [arrayFreeObj, arrayFree, Bool.true_and] at ha
    simp only [cleanObj, cleanDeepObj, cleanVal, deepValue, cleanObj_eq_deep h c rest ha]

mutual
theorem eraseDeep_keyFree (h : Json → Str) : (v : Json) → keyFree v = true → eraseDeep h v = v
  | .obj kvs, hk => by
    simp only [keyFree] at hk
    simp only [eraseDeep, eraseDeepObj_keyFree h kvs hk]
  | .arr xs, hk => by
    simp only [keyFree] at hk
    simp only [eraseDeep, eraseDeepItems_keyFree h xs hk]
  | .null, _ => rfl
  | .bool _, _ => rfl
  | .num _, _ => rfl
  | .str _, _ => rfl
theorem eraseDeepItems_keyFree (h : Json → Str) : (xs : List Json) → keyFreeItems xs = true → eraseDeepItems h xs = xs
  | [], _ => rfl
  | x :: rest, hk => by
    simp only [keyFreeItems, Bool.and_eq_true] at hk
    simp only [eraseDeepItems, eraseDeep_keyFree h x hk.1, eraseDeepItems_keyFree h rest hk.2]
theorem eraseDeepObj_keyFree (h : Json → Str) : (d : List (Str × Json)) → keyFreeObj d = true → eraseDeepObj h d = d
  | [], _ => rfl
  | (k, v) :: rest, hk => by
    simp only [keyFreeObj, Bool.and_eq_true, Bool.not_eq_true'] at hk
    simp only [eraseDeepObj, hk.1.1, Bool.false_eq_true, if_false, eraseDeep_keyFree h v hk.1.2,
      eraseDeepObj_keyFree h rest hk.2]
end

/-- Where no sensitive key occurs inside an array, the two erasures — the two readings of "nested
objects" — are the same. -/
theorem eraseObj_eq_deep (h : Json → Str) :
    (d : List (Str × Json)) → readingsAgreeObj d = true → eraseObj h d = eraseDeepObj h d
  | [], _ => rfl
  | (k, .obj kvs) :: rest, ha => by
    simp only [readingsAgreeObj, readingsAgree, Bool.and_eq_true, Bool.or_eq_true] at ha
    simp only [eraseObj, eraseDeepObj, eraseObj_eq_deep h rest ha.2, erase, eraseDeep]
    by_cases hs : sensitive k = true
    · simp [hs]
    · rcases ha.1 with h1 | h1
      · exact absurd h1 hs
      · simp [hs, eraseObj_eq_deep h kvs h1]
  | (k, .arr xs) :: rest, ha => by
    simp only [readingsAgreeObj, readingsAgree, Bool.and_eq_true, Bool.or_eq_true] at ha
    simp only [eraseObj, eraseDeepObj, eraseObj_eq_deep h rest ha.2, erase, eraseDeep]
    by_cases hs : sensitive k = true
    · simp [hs]
    · rcases ha.1 with h1 | h1
      · exact absurd h1 hs
      · simp [hs, eraseDeepItems_keyFree h xs h1]
  | (k, .null) :: rest, ha => by
    simp only [readingsAgreeObj, Bool.and_eq_true] at ha
    simp only [eraseObj, eraseDeepObj, eraseObj_eq_deep h rest ha.2, erase, eraseDeep]
  | (k, .bool b) :: rest, ha => by
    simp only [readingsAgreeObj, Bool.and_eq_true] at ha
    simp only [eraseObj, eraseDeepObj, eraseObj_eq_deep h rest ha.2, erase, eraseDeep]
  | (k, .num t) :: rest, ha => by
    simp only [readingsAgreeObj, Bool.and_eq_true] at ha
    simp only [eraseObj, eraseDeepObj, eraseObj_eq_deep h rest ha.2, erase, eraseDeep]
  | (k, .str s) :: rest, ha => by
    simp only [readingsAgreeObj, Bool.and_eq_true] at ha
    simp only [eraseObj, eraseDeepObj, eraseObj_eq_deep h rest ha.2, erase, eraseDeep]

end Sanitise
