import OrsoVerif.Model.Family
/-!
Facts about the two machines of `Model/Family.lean` that hold for *any* slice tree and ownership table; the
statements about the tree and the table the source has now are in `Props/C05.lean`.
-/
namespace Family
open Validate
open Gen.AppendFlow (IExpr BExpr Rows Tree Ownership)

/-- A tree none of whose `return`s hands out the parent's list never evaluates to `shared`. -/
theorem evalTree_ne_shared (rows : List Row) (t : Tree) (h : sharesSomewhere t = false) :
    ∀ env, evalTree rows env t ≠ .shared := by
  induction t with
  | ret r =>
    intro env
    cases r with
    | shared => simp [sharesSomewhere] at h
    | empty => simp [evalTree]
    | cut lo hi => simp only [evalTree]; split <;> simp
  | ite c t e iht ihe =>
    intro env
    simp only [sharesSomewhere, Bool.or_eq_false_iff] at h
    simp only [evalTree]
    split
    · simp
    · exact iht h.1 env
    · exact ihe h.2 env
  | setOffset v k ih =>
    intro env
    simp only [sharesSomewhere] at h
    simp only [evalTree]
    split
    · simp
    · exact ih h _
  | setLength v k ih =>
    intro env
    simp only [sharesSomewhere] at h
    simp only [evalTree]
    split
    · simp
    · exact ih h _
  | fallsOff => intro env; simp [evalTree]

theorem lookup_mem {α : Type} (m : String) (o : α) : ∀ (l : List (String × α)), l.lookup m = some o → (m, o) ∈ l := by
  intro l
  induction l with
  | nil => simp [List.lookup]
  | cons p ps ih =>
    obtain ⟨k, v⟩ := p
    intro h
    simp only [List.lookup] at h
    by_cases hk : m == k
    · simp only [hk] at h
      have : m = k := by simpa using hk
      subst this
      simp only [Option.some.injEq] at h
      subst h
      exact List.mem_cons_self
    · have hk' : (m == k) = false := by simpa using hk
      simp only [hk'] at h
      exact List.mem_cons_of_mem _ (ih h)

/-- No derivation of the source shares: the slice tree has no `shared` return and no method is listed as `shared`. -/
def NoSharing : Prop :=
  sharesSomewhere Gen.AppendFlow.sliceTree = false ∧ ∀ p ∈ Gen.AppendFlow.derivedRows, p.2 ≠ Ownership.shared

theorem ownership_ne_shared (h : NoSharing) (m : String) : ownership m ≠ .shared := by
  unfold ownership
  cases hl : Gen.AppendFlow.derivedRows.lookup m with
  | none => simp
  | some o =>
    have := h.2 (m, o) (lookup_mem m o _ hl)
    simpa using this

theorem derive_ne_shared (h : NoSharing) (rows other : List Row) (d : Derivation) : derive rows other d ≠ .shared := by
  cases d with
  | slice o l => exact evalTree_ne_shared rows _ h.1 _
  | head n =>
    simp only [derive, viaSlice]
    split
    · exact evalTree_ne_shared rows _ h.1 _
    · simp
  | tail n =>
    simp only [derive, viaSlice]
    split
    · exact evalTree_ne_shared rows _ h.1 _
    · simp
  | pick m idxs => simp [derive, ownership_ne_shared h m]
  | concat j => simp [derive, ownership_ne_shared h "__add__"]

/-- Distinct frames are built on distinct lists, and every list a frame is built on exists. -/
def Inv (st : St) : Prop := st.frames.Nodup ∧ ∀ id ∈ st.frames, id < st.heap.length

theorem nodup_index {l : List Nat} (hn : l.Nodup) {i j : Nat} {a : Nat} (hi : l[i]? = some a) (hj : l[j]? = some a) : i = j := by
  induction l generalizing i j with
  | nil => simp at hi
  | cons x xs ih =>
    rw [List.nodup_cons] at hn
    cases i with
    | zero =>
      cases j with
      | zero => rfl
      | succ j =>
        simp only [List.getElem?_cons_zero, Option.some.injEq] at hi
        simp only [List.getElem?_cons_succ] at hj
        subst hi
        exact absurd (List.mem_of_getElem? hj) hn.1
    | succ i =>
      cases j with
      | zero =>
        simp only [List.getElem?_cons_zero, Option.some.injEq] at hj
        simp only [List.getElem?_cons_succ] at hi
        subst hj
        exact absurd (List.mem_of_getElem? hi) hn.1
      | succ j =>
        simp only [List.getElem?_cons_succ] at hi hj
        rw [ih hn.2 hi hj]

theorem view_getElem? (st : St) (j : Nat) : st.view[j]? = (st.frames[j]?).map st.list := by
  simp [St.view]

/-- One step: the frames of the heap machine show what the register machine holds, and stay apart. -/
theorem step_refines (s : List Column) (hs : NoSharing) (st : St) (hinv : Inv st) (op : FOp) :
    (stepH s st op).view = stepR s st.view op ∧ Inv (stepH s st op) := by
  obtain ⟨hnd, hlt⟩ := hinv
  cases op with
  | append i k r z =>
    simp only [stepH, stepR, view_getElem?]
    cases hi : st.frames[i]? with
    | none => exact ⟨rfl, hnd, hlt⟩
    | some id =>
      have hid : id < st.heap.length := hlt id (List.mem_of_getElem? hi)
      refine ⟨?_, hnd, ?_⟩
      · simp only [Option.map_some]
        apply List.ext_getElem?
        intro j
        simp only [St.view, List.getElem?_map, List.getElem?_set, List.length_map]
        by_cases hij : i = j
        · subst hij
          have hil : i < st.frames.length := by
            rcases Nat.lt_or_ge i st.frames.length with h | h
            · exact h
            · rw [List.getElem?_eq_none_iff.mpr h] at hi; cases hi
          have hget : st.frames[i] = id := by
            have := List.getElem?_eq_getElem hil
            rw [hi] at this
            exact (Option.some.inj this).symm
          simp [hil, St.list, hid, hget]
        · simp only [hij, if_false]
          cases hj : st.frames[j]? with
          | none => simp
          | some id' =>
            have hne : id ≠ id' := fun h => hij (nodup_index hnd hi (h ▸ hj))
            simp [St.list, List.getElem?_set_ne hne]
      · intro id' hm
        simpa using hlt id' hm
  | derive i d =>
    simp only [stepH, stepR, view_getElem?]
    cases hi : st.frames[i]? with
    | none => exact ⟨rfl, hnd, hlt⟩
    | some id =>
      simp only [Option.map_some]
      generalize hd : derive (st.list id) (match otherIndex d with
            | some j => ((st.frames[j]?).map st.list).getD []
            | none => []) d = out
      cases out with
      | shared => exact absurd hd (derive_ne_shared hs _ _ d)
      | raises => exact ⟨rfl, hnd, hlt⟩
      | nothing => exact ⟨rfl, hnd, hlt⟩
      | fresh rows =>
        refine ⟨?_, ?_, ?_⟩
        · simp only [alloc, St.view, List.map_append, List.map_cons, List.map_nil]
          congr 1
          · apply List.map_congr_left
            intro id' hm
            simp [St.list, List.getElem?_append_left (hlt id' hm)]
          · simp [St.list]
        · simp only [alloc]
          rw [List.nodup_append]
          refine ⟨hnd, by simp, ?_⟩
          intro a ha b hb
          simp only [List.mem_singleton] at hb
          subst hb
          exact Nat.ne_of_lt (hlt a ha)
        · intro id' hm
          simp only [alloc, List.mem_append, List.mem_singleton, List.length_append, List.length_singleton] at hm ⊢
          rcases hm with hm | hm
          · exact Nat.lt_succ_of_lt (hlt id' hm)
          · omega

/-- **The heap machine refines the register machine** for every program, as long as no derivation shares. -/
theorem run_refines (s : List Column) (hs : NoSharing) (ops : List FOp) :
    ∀ (st : St), Inv st → (runH s st ops).view = runR s st.view ops ∧ Inv (runH s st ops) := by
  induction ops with
  | nil => intro st h; exact ⟨rfl, h⟩
  | cons op ops ih =>
    intro st h
    obtain ⟨hv, hi⟩ := step_refines s hs st h op
    simp only [runH, runR]
    rw [← hv]
    exact ih _ hi

theorem runH_append (s : List Column) (a b : List FOp) : ∀ st, runH s st (a ++ b) = runH s (runH s st a) b := by
  induction a with
  | nil => intro st; rfl
  | cons op ops ih => intro st; simp [runH, ih]

/-- the record objects of a program are objects CPython can make -/
def FOp.wf : FOp → Bool
  | .append _ k _ _ => k.wf
  | .derive _ _ => true

theorem appendsTo_wf (j : Nat) (ops : List FOp) (h : ∀ op ∈ ops, op.wf = true) :
    ∀ p ∈ appendsTo j ops, p.1.wf = true := by
  induction ops with
  | nil => simp [appendsTo]
  | cons op ops ih =>
    have ih' := ih (fun o ho => h o (List.mem_cons_of_mem _ ho))
    cases op with
    | append i k r z =>
      simp only [appendsTo]
      split
      · intro p hp
        rcases List.mem_cons.mp hp with rfl | hp
        · exact h (.append i k r z) List.mem_cons_self
        · exact ih' p hp
      · exact ih'
    | derive i d => simpa [appendsTo] using ih'

theorem runR_append (s : List Column) (a b : List FOp) : ∀ regs, runR s regs (a ++ b) = runR s (runR s regs a) b := by
  induction a with
  | nil => intro regs; rfl
  | cons op ops ih => intro regs; simp [runR, ih]

/-- In the register machine a frame is changed by nothing but the appends that go to it. -/
theorem runR_frame (s : List Column) (j : Nat) (ops : List FOp) :
    ∀ (regs : List (List Row)) (rows : List Row), regs[j]? = some rows →
      (runR s regs ops)[j]? = some (appendsK s rows (appendsTo j ops)) := by
  induction ops with
  | nil => intro regs rows h; simpa [runR, appendsTo, appendsK] using h
  | cons op ops ih =>
    intro regs rows h
    have hj : j < regs.length := by
      rcases Nat.lt_or_ge j regs.length with h' | h'
      · exact h'
      · rw [List.getElem?_eq_none_iff.mpr h'] at h; cases h
    cases op with
    | append i k r z =>
      simp only [runR, stepR, appendsTo]
      cases hi : regs[i]? with
      | none =>
        have hij : i ≠ j := by intro e; subst e; rw [h] at hi; cases hi
        simp only [hij, if_false]
        exact ih regs rows h
      | some rows_i =>
        by_cases hij : i = j
        · subst hij
          rw [h] at hi
          simp only [Option.some.injEq] at hi
          subst hi
          simp only [if_true, appendsK]
          apply ih
          simp [hj]
        · simp only [hij, if_false]
          apply ih
          simp [hij, h]
    | derive i d =>
      simp only [runR, stepR, appendsTo]
      cases hi : regs[i]? with
      | none => exact ih regs rows h
      | some rows_i =>
        simp only []
        split
        · apply ih; simp [List.getElem?_append_left hj, h]
        · apply ih; simp [List.getElem?_append_left hj, h]
        · exact ih regs rows h

end Family
