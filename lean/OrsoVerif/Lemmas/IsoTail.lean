import OrsoVerif.Lemmas.IsoChar
/-! Helper lemmas for C08: the tails after a minute-form and after a date-only rendering. -/
namespace Iso

/-- The text path on `a ++ t` for a plain (`Z`- and `+`-free) head `a` of at least 10 characters. -/
theorem textPath_cut (A : Accepts) (a t : List Char) (ha : a.all plainC = true) (h10 : 10 ≤ a.length)
    (hw : a.length + t.length ≤ 33) :
    textPath (a ++ t) =
      if (zStrip t).contains '+' = true ∧ Gen.Iso.plusReject ((a ++ cutTail t).length : Int) then .ok none
      else shaped (a ++ cutTail t) := by
  obtain ⟨hz, hp⟩ := plain_split ha
  unfold textPath cutTail
  have hwin : Gen.Iso.lenWindow ((a ++ t).length : Int) := A.window _ (by simp; omega) (by simp; omega)
  rw [if_pos hwin, A.chars.1, A.chars.2, zStrip_append _ t (noZ_last _ hz)]
  dsimp only
  have hc : (a ++ zStrip t).contains '+' = (zStrip t).contains '+' := by
    rw [List.contains_append, noPlus_contains _ hp, Bool.false_or]
  rw [hc]
  by_cases hcp : (zStrip t).contains '+' = true
  · have ht : (a ++ zStrip t).takeWhile (· != '+') = a ++ (zStrip t).takeWhile (· != '+') :=
      List.takeWhile_append_of_pos (fun c hc => by simpa using hp c hc)
    simp only [hcp, if_true, ht, true_and]
  · simp only [hcp, if_false, false_and, Bool.false_eq_true]

theorem zStrip_length_le (t : List Char) : (zStrip t).length ≤ t.length := by
  unfold zStrip; split <;> simp

theorem cutTail_length_le (t : List Char) : (cutTail t).length ≤ t.length := by
  unfold cutTail
  split
  · exact Nat.le_trans (List.takeWhile_prefix _).length_le (zStrip_length_le t)
  · exact zStrip_length_le t

/-- A minute-form rendering followed by a non-empty rest that is not `:SS…` is not read. -/
theorem shaped_minute_rest (A : Accepts) (Rj : Rejects) (dt : DateTime) (sep : Char)
    (hsep : sep = 'T' ∨ sep = ' ') (u : List Char) (hne : u ≠ [])
    (hu : u.length < 3 ∨ u.head? ≠ some ':') : shaped (renderMinute dt sep ++ u) = .ok none := by
  obtain ⟨e2, l2, i10, i13, _, _⟩ := minute_facts dt sep u
  obtain ⟨_, i4, i7, _, _, _⟩ := date_facts dt.year dt.month dt.day (sep :: pad2 dt.hour ++ ':' :: pad2 dt.minute ++ u)
  rw [← e2] at i4 i7
  obtain ⟨x4, x7, x10, x13, x16⟩ := A.idx
  have hpos : 0 < u.length := List.length_pos_iff.mpr hne
  have hdash : dashReject (renderMinute dt sep ++ u) = .ok false := by
    simp only [dashReject, x4, x7, i4, i7, bind_ok, shortCircuit_ok, A.dash]
  have hrej : sepReject (renderMinute dt sep ++ u) = .ok false := by
    simp only [sepReject, x10, x13, i10, i13, bind_ok, shortCircuit_ok, A.sep sep hsep]
  obtain ⟨t1, t2⟩ := A.timeLen ((renderMinute dt sep ++ u).length : Int) (by omega)
  have t3 : ¬ Gen.Iso.minLenTest ((renderMinute dt sep ++ u).length : Int) := Rj.minHi _ (by omega)
  have hsec : hasSeconds (renderMinute dt sep ++ u) = .ok false := by
    unfold hasSeconds
    by_cases h19 : Gen.Iso.secLenTest ((renderMinute dt sep ++ u).length : Int)
    · have h3 : ¬ u.length < 3 := fun h3 => Rj.secLo _ (by omega) h19
      have hh : u.head? ≠ some ':' := by rcases hu with hu | hu; exact absurd hu h3; exact hu
      cases u with
      | nil => exact absurd rfl hne
      | cons c r =>
        have hc : c ≠ ':' := fun e => hh (by rw [e]; rfl)
        have i16 : idx (renderMinute dt sep ++ c :: r) 16 = .ok c := by
          simp [renderMinute, renderDate, pad4, pad2, idx]
        have a2 : decide (Gen.Iso.secCharTest c) = false := decide_eq_false (Rj.secChar c hc)
        simp only [shortCircuit, decide_eq_true h19, if_true, x16, i16, bind_ok, a2]
    · simp only [shortCircuit, decide_eq_false h19, if_true, Bool.false_eq_true, if_false]
  simp only [shaped, hdash, hrej, hsec, bind_ok, Bool.false_eq_true, if_false, t1, t2, t3, if_true]

/-- A date-only rendering followed by 1..5 more characters is not read. -/
theorem shaped_date_rest (A : Accepts) (Rj : Rejects) (y m d : Nat) (u : List Char) (h1 : 1 ≤ u.length)
    (h5 : u.length ≤ 5) : shaped (renderDate y m d ++ u) = .ok none := by
  obtain ⟨l, i4, i7, _, _, _⟩ := date_facts y m d u
  obtain ⟨x4, x7, _, _, _⟩ := A.idx
  have hdash : dashReject (renderDate y m d ++ u) = .ok false := by
    simp only [dashReject, x4, x7, i4, i7, bind_ok, shortCircuit_ok, A.dash]
  obtain ⟨t1, t2⟩ := Rj.midLen ((renderDate y m d ++ u).length : Int) (by omega) (by omega)
  simp only [shaped, hdash, bind_ok, Bool.false_eq_true, if_false, t1, t2]

end Iso
