import OrsoVerif.Lemmas.DistogramCache
/-!
# Stage 2 of C13, part 2: every operation of the faithful machine keeps the cache coherent
-/
namespace Distogram
set_option linter.unusedSectionVars false
set_option linter.unusedVariables false

variable {K : Type} [Field K] [LinearOrder K] [IsStrictOrderedRing K]

theorem track_of_isMin {P : Nat → Prop} {d : List K} {md : Option K} (h : IsMinOpt md d) :
    Track P (d, md, false) := by
  unfold Track
  intro _
  cases md with
  | none =>
    simp only [IsMinOpt] at h
    subst h
    exact ⟨fun k x _ hx => by simp at hx, fun m hm => by cases hm⟩
  | some m =>
    obtain ⟨hm, hall⟩ := h
    refine ⟨fun k x _ hx => ⟨m, rfl, hall x (List.mem_of_getElem? hx)⟩, ?_⟩
    intro m' hm'
    simp only [Option.some.injEq] at hm'
    subst hm'
    exact List.getElem?_of_mem hm

/-- the pointwise half of `block_spec`, without any assumption on `min_diff` -/
theorem block_pt {bins : List (K × K)} {st st' : List K × Option K × Bool} {c : Bool}
    {j : Nat} {P : Nat → Prop}
    (hb : diffBlock bins st c j = .ok st') (hpt : ∀ k, ¬ P k → st.1[k]? = gapAt bins k) :
    (∀ k, ¬ (P k ∧ ¬ (c = true ∧ k = j)) → st'.1[k]? = gapAt bins k) := by
  rw [diffBlock_def] at hb
  by_cases hc : c = true
  · rw [if_pos hc] at hb
    split at hb
    · rename_i bn bi hbn hbi
      obtain ⟨old, ho, hd, _, _⟩ := pointUpdate_ok hb
      have hj : j < st.1.length := (List.getElem?_eq_some_iff.mp ho).1
      intro k hk
      rw [hd, List.getElem?_set]
      by_cases hjk : j = k
      · subst hjk
        rw [if_pos rfl, if_pos hj]
        simp [gapAt, hbn, hbi]
      · rw [if_neg hjk]
        apply hpt
        intro hp
        exact hk ⟨hp, fun ⟨_, e⟩ => hjk e.symm⟩
    · simp at hb
  · rw [if_neg hc] at hb
    simp only [Except.ok.injEq] at hb
    subst hb
    intro k hk
    apply hpt
    intro hp
    exact hk ⟨hp, fun ⟨c', _⟩ => hc c'⟩

/-- `_update_diffs` restores the differences whatever `min_diff` was. -/
theorem updateDiffs_gaps {h h' : Hist K} {i : Nat} {d0 : List K} (hok : updateDiffs h i = .ok h')
    (hd : h.diffs = some d0) (hpt : ∀ k, ¬ Pend h.bins.length i k → d0[k]? = gapAt h.bins k) :
    h'.bins = h.bins ∧ h'.min = h.min ∧ h'.max = h.max ∧ h'.cap = h.cap ∧ h'.diffs = some (gaps h.bins) := by
  rw [updateDiffs_def] at hok
  rw [hd] at hok
  simp only at hok
  obtain ⟨s1, h1, hok⟩ := bind_eq_ok hok
  obtain ⟨s2, h2, hok⟩ := bind_eq_ok hok
  obtain ⟨md, h3, hok⟩ := bind_eq_ok hok
  simp only [Except.ok.injEq] at hok
  have p1 := block_pt h1 hpt
  have p2 := block_pt h2 p1
  have hP : ∀ k, ((Pend h.bins.length i k ∧ ¬ (decide (0 < i) = true ∧ k = i - 1)) ∧
      ¬ (decide (i + 1 < h.bins.length) = true ∧ k = i)) ↔ False := by
    intro k; unfold Pend; simp only [decide_eq_true_eq]; tauto
  subst hok
  refine ⟨rfl, rfl, rfl, rfl, ?_⟩
  simp only [Option.some.injEq]
  rw [eq_gaps_iff]
  intro k
  exact p2 k (fun hp => (hP k).mp hp)

/-! ## the operations -/

theorem gapAt_set_same_fst {bins : List (K × K)} {idx : Nat} {vi fi g : K} (hb : bins[idx]? = some (vi, fi)) (k : Nat) :
    gapAt (bins.set idx (vi, g)) k = gapAt bins k := by
  have hlt : idx < bins.length := (List.getElem?_eq_some_iff.mp hb).1
  unfold gapAt
  rw [List.getElem?_set, List.getElem?_set]
  by_cases h1 : idx = k
  · subst h1
    rw [if_pos rfl, if_pos hlt, if_neg (by omega), hb]
    cases bins[idx + 1]? <;> rfl
  · rw [if_neg h1]
    by_cases h2 : idx = k + 1
    · rw [if_pos h2, if_pos hlt, ← h2, hb]
      cases bins[k]? <;> rfl
    · rw [if_neg h2]

/-- exact hit: only a count changes -/
theorem coherent_exactHit {h : Hist K} {idx : Nat} {vi fi g : K} (hc : Coherent h) (hb : h.bins[idx]? = some (vi, fi)) :
    Coherent { h with bins := h.bins.set idx (vi, g) } := by
  intro d hd
  obtain ⟨hne, hg, hm⟩ := hc d hd
  refine ⟨by simpa using hne, ?_, hm⟩
  rw [eq_gaps_iff]
  intro k
  simp only
  rw [gapAt_set_same_fst hb, ← gaps_getElem?, ← hg]

theorem coherent_computeDiffs {h h' : Hist K} (hok : computeDiffs h = .ok h') :
    Coherent h' ∧ h'.bins = h.bins ∧ h'.min = h.min ∧ h'.max = h.max ∧ h'.cap = h.cap ∧ h'.diffs.isSome = true := by
  rw [computeDiffs_def] at hok
  split at hok
  · rename_i m hm
    simp only [Except.ok.injEq] at hok
    subst hok
    refine ⟨?_, rfl, rfl, rfl, rfl, rfl⟩
    intro d hd
    simp only [Option.some.injEq] at hd
    subst hd
    refine ⟨?_, rfl, ?_⟩
    · intro he
      simp only at he
      rw [he] at hm
      simp [gaps, listMin] at hm
    · simp only
      rw [← hm]; exact listMin_isMin _
  · simp at hok

theorem gaps_append_singleton : ∀ (bins : List (K × K)) (bl x : K × K), bins.getLast? = some bl →
    gaps (bins ++ [x]) = gaps bins ++ [x.1 - bl.1]
  | [], _, _, h => by simp at h
  | [a], bl, x, h => by
    simp only [List.getLast?_singleton, Option.some.injEq] at h
    subst h
    simp [gaps]
  | a :: b :: rest, bl, x, h => by
    have h' : (b :: rest).getLast? = some bl := by simpa [List.getLast?_cons_cons] using h
    have := gaps_append_singleton (b :: rest) bl x h'
    simp only [List.cons_append] at this ⊢
    simp only [gaps, this, List.cons_append]

/-- `min(h.min_diff, diff)` with `none` = +∞ -/
def minWith (md : Option K) (x : K) : K :=
  match md with
  | none => x
  | some m => if x < m then x else m

theorem isMin_append {d : List K} {md : Option K} (h : IsMinOpt md d) (x : K) :
    IsMinOpt (some (minWith md x)) (d ++ [x]) := by
  cases md with
  | none =>
    simp only [IsMinOpt] at h
    subst h
    simp [IsMinOpt, minWith]
  | some m =>
    obtain ⟨hm, hall⟩ := h
    simp only [IsMinOpt, minWith]
    split
    · rename_i hlt
      refine ⟨by simp, ?_⟩
      intro y hy
      simp only [List.mem_append, List.mem_singleton] at hy
      rcases hy with hy | hy
      · exact le_trans (le_of_lt hlt) (hall y hy)
      · rw [hy]
    · rename_i hge
      refine ⟨by simp [hm], ?_⟩
      intro y hy
      simp only [List.mem_append, List.mem_singleton] at hy
      rcases hy with hy | hy
      · exact hall y hy
      · rw [hy]; exact not_lt.mp hge

theorem gapAt_none_of_le {bins : List (K × K)} {k : Nat} (h : bins.length ≤ k + 1) : gapAt bins k = none := by
  unfold gapAt
  have : bins[k + 1]? = none := List.getElem?_eq_none_iff.mpr h
  rw [this]
  cases bins[k]? <;> rfl

theorem gapAt_set_notPend {bins : List (K × K)} {ib : Nat} {x : K × K} (k : Nat)
    (hk : ¬ Pend bins.length ib k) : gapAt (bins.set ib x) k = gapAt bins k := by
  unfold Pend at hk
  by_cases h1 : ib = k
  · subst h1
    have hlen : bins.length ≤ ib + 1 := by
      by_contra hc
      exact hk (Or.inr ⟨by omega, rfl⟩)
    rw [gapAt_none_of_le hlen, gapAt_none_of_le (by simpa using hlen)]
  · by_cases h2 : ib = k + 1
    · exact absurd (Or.inl ⟨by omega, by omega⟩) hk
    · unfold gapAt
      rw [List.getElem?_set, List.getElem?_set, if_neg h1, if_neg h2]

/-- in-place merge (`_trim_in_place`) -/
theorem coherent_trimInPlace {h h' : Hist K} {v c : K} {ib : Nat} (hc : Coherent h)
    (hok : trimInPlace h v c ib = .ok h') :
    Coherent h' ∧ h'.min = h.min ∧ h'.max = h.max ∧ h'.cap = h.cap ∧ (h.diffs = none → h'.diffs = none) ∧
    ∃ cv cf, h.bins[ib]? = some (cv, cf) ∧
      h'.bins = h.bins.set ib (Gen.DistogramOps.inPlaceStored (Gen.DistogramExpr.inPlaceCentre cv cf v c) cv v,
        Gen.DistogramExpr.inPlaceCount cv cf v c) := by
  unfold trimInPlace at hok
  split at hok
  · rename_i cv cf hb
    have hlt : ib < h.bins.length := (List.getElem?_eq_some_iff.mp hb).1
    have hne : h.bins ≠ [] := by intro e; rw [e] at hlt; simp at hlt
    obtain ⟨e1, e2, e3, e4, e5, e6⟩ := updateDiffs_coherent hok (by simpa using hne) (by
      intro d hd
      simp only at hd
      obtain ⟨_, hg, hm⟩ := hc d hd
      refine ⟨?_, track_of_isMin hm⟩
      intro k hk
      simp only [List.length_set] at hk
      simp only
      rw [gapAt_set_notPend k hk, ← gaps_getElem?, ← hg])
    exact ⟨e6, e2, e3, e4, e5, cv, cf, hb, e1⟩
  · simp at hok

/-- the cache after `diffs.insert(index, 0)` is right outside the two positions next to the new bin -/
theorem insert_pt {bins : List (K × K)} {idx : Nat} {x : K × K} (hidx : idx < bins.length) (k : Nat)
    (hk : ¬ Pend (bins.length + 1) idx k) :
    ((gaps bins).insertIdx idx (0 : K))[k]? = gapAt (bins.insertIdx idx x) k := by
  unfold Pend at hk
  have hgl : (gaps bins).length = bins.length - 1 := gaps_length bins
  rw [List.getElem?_insertIdx]
  by_cases h1 : k < idx
  · rw [if_pos h1]
    have h2 : k + 1 < idx := by
      by_contra hc
      exact hk (Or.inl ⟨by omega, by omega⟩)
    rw [gaps_getElem?]
    unfold gapAt
    rw [List.getElem?_insertIdx, List.getElem?_insertIdx, if_pos h1, if_pos h2]
  · rw [if_neg h1]
    by_cases h2 : k = idx
    · exact absurd (Or.inr ⟨by omega, h2⟩) hk
    · rw [if_neg h2, gaps_getElem?]
      unfold gapAt
      rw [List.getElem?_insertIdx, List.getElem?_insertIdx, if_neg h1, if_neg h2, if_neg (by omega), if_neg (by omega)]
      have e : k + 1 - 1 = k - 1 + 1 := by omega
      rw [e]

theorem track_insert {P : Nat → Prop} {d : List K} {md : Option K} {idx : Nat} (h : IsMinOpt md d)
    (hidx : idx ≤ d.length) (hP : P idx) : Track P (d.insertIdx idx (0 : K), md, false) := by
  unfold Track
  intro _
  cases md with
  | none =>
    simp only [IsMinOpt] at h
    subst h
    refine ⟨?_, fun m hm => by cases hm⟩
    intro k x hk hx
    have : idx = 0 := by simpa using hidx
    subst this
    cases k with
    | zero => exact absurd hP hk
    | succ n => simp at hx
  | some m =>
    obtain ⟨hm, hall⟩ := h
    constructor
    · intro k x hk hx
      rw [List.getElem?_insertIdx] at hx
      refine ⟨m, rfl, ?_⟩
      by_cases h1 : k < idx
      · rw [if_pos h1] at hx; exact hall x (List.mem_of_getElem? hx)
      · rw [if_neg h1] at hx
        by_cases h2 : k = idx
        · subst h2; exact absurd hP hk
        · rw [if_neg h2] at hx; exact hall x (List.mem_of_getElem? hx)
    · intro m' hm'
      simp only [Option.some.injEq] at hm'
      subst hm'
      obtain ⟨k, hk⟩ := List.getElem?_of_mem hm
      have hkl : k < d.length := (List.getElem?_eq_some_iff.mp hk).1
      by_cases h1 : k < idx
      · exact ⟨k, by rw [List.getElem?_insertIdx, if_pos h1]; exact hk⟩
      · refine ⟨k + 1, ?_⟩
        rw [List.getElem?_insertIdx, if_neg (by omega), if_neg (by omega)]
        simpa using hk

/-- the insertion of `update`, both paths, with or without a cache -/
theorem coherent_insertBin {h h' : Hist K} {neg : Bool} {idx : Nat} {v c : K} (hc : Coherent h)
    (hidx : neg = false → h.bins ≠ [] → idx < h.bins.length)
    (hok : insertBin h neg idx v c = .ok h') :
    Coherent h' ∧ h'.min = h.min ∧ h'.max = h.max ∧ h'.cap = h.cap ∧ (h.diffs = none → h'.diffs = none) ∧
    h'.bins = (if neg then h.bins ++ [(v, c)] else h.bins.insertIdx idx (v, c)) := by
  rw [insertBin_def] at hok
  cases hn : neg with
  | true =>
    rw [hn] at hok
    simp only [if_true] at hok ⊢
    split at hok
    · rename_i d bl hd hl
      simp only [Except.ok.injEq] at hok
      subst hok
      refine ⟨?c, rfl, rfl, rfl, ?i, rfl⟩
      case i => intro e; rw [hd] at e; cases e
      intro d' hd'
      simp only [Option.some.injEq] at hd'
      subst hd'
      obtain ⟨_, hg, hm⟩ := hc d hd
      refine ⟨by simp, ?_, isMin_append hm (v - bl.1)⟩
      simp only
      rw [gaps_append_singleton _ bl _ hl, hg]
    · rename_i hno
      simp only [Except.ok.injEq] at hok
      subst hok
      refine ⟨?_, rfl, rfl, rfl, fun e => e, rfl⟩
      intro d hd
      simp only at hd
      obtain ⟨hne, _, _⟩ := hc d hd
      cases hl : h.bins.getLast? with
      | none => exact absurd (by simpa using hl) hne
      | some bl => exact absurd hl (hno d bl hd)
  | false =>
    rw [hn] at hok
    simp only [Bool.false_eq_true, if_false] at hok ⊢
    split at hok
    · rename_i d hd
      obtain ⟨hne, hg, hm⟩ := hc d hd
      have hi := hidx hn hne
      have hgl : (gaps h.bins).length = h.bins.length - 1 := gaps_length h.bins
      have hlen : (h.bins.insertIdx idx (v, c)).length = h.bins.length + 1 := by
        rw [List.length_insertIdx, if_pos (by omega)]
      have hne' : h.bins.insertIdx idx (v, c) ≠ [] := by
        intro e; rw [e] at hlen; simp at hlen
      obtain ⟨e1, e2, e3, e4, e5, e6⟩ := updateDiffs_coherent hok hne' (by
        intro d' hd'
        simp only [Option.some.injEq] at hd'
        subst hd'
        simp only [hlen]
        refine ⟨?_, ?_⟩
        · intro k hk
          rw [hg]; exact insert_pt hi k hk
        · exact track_insert hm (by rw [hg, hgl]; omega) (Or.inr ⟨by omega, rfl⟩))
      refine ⟨e6, e2, e3, e4, ?_, e1⟩
      intro e; rw [hd] at e; cases e
    · rename_i hno
      simp only [Except.ok.injEq] at hok
      subst hok
      refine ⟨?_, rfl, rfl, rfl, fun e => e, rfl⟩
      intro d hd
      simp only at hd
      rw [hno] at hd; cases hd

theorem coherent_bumpBounds {h : Hist K} (v : K) (hc : Coherent h) : Coherent (bumpBounds h v) := hc

/-! ## `_trim` -/

/-- after `diffs.pop(i)` the cache is right outside the two positions next to the merged bin -/
theorem erase_pt {bins : List (K × K)} {i : Nat} {x : K × K} (hi : i + 1 < bins.length) (k : Nat)
    (hk : ¬ Pend (bins.length - 1) i k) :
    ((gaps bins).eraseIdx i)[k]? = gapAt ((bins.eraseIdx (i + 1)).set i x) k := by
  unfold Pend at hk
  rw [List.getElem?_eraseIdx]
  by_cases h1 : k < i
  · have h2 : k + 1 < i := by
      by_contra hc
      exact hk (Or.inl ⟨by omega, by omega⟩)
    rw [if_pos h1, gaps_getElem?]
    unfold gapAt
    rw [List.getElem?_set, List.getElem?_set, if_neg (by omega), if_neg (by omega),
      List.getElem?_eraseIdx, List.getElem?_eraseIdx, if_pos (by omega), if_pos (by omega)]
  · rw [if_neg h1]
    by_cases h2 : k = i
    · subst h2
      have hlen : bins.length = k + 2 := by
        by_contra hc
        exact hk (Or.inr ⟨by omega, rfl⟩)
      rw [gaps_getElem?, gapAt_none_of_le (by omega), gapAt_none_of_le (by rw [List.length_set, List.length_eraseIdx, if_pos hi]; omega)]
    · rw [gaps_getElem?]
      unfold gapAt
      rw [List.getElem?_set, List.getElem?_set, if_neg (by omega), if_neg (by omega),
        List.getElem?_eraseIdx, List.getElem?_eraseIdx, if_neg (by omega), if_neg (by omega)]

theorem coherent_trimStep {h h' : Hist K} (hc : Coherent h) (hok : trimStep h = .ok h') :
    Coherent h' ∧ h'.min = h.min ∧ h'.max = h.max ∧ h'.cap = h.cap ∧ (h.diffs = none → h'.diffs = none) ∧
    ∃ i v1 f1 v2 f2, trimIndex h = .ok i ∧ h.bins[i]? = some (v1, f1) ∧ h.bins[i + 1]? = some (v2, f2) ∧
      h'.bins = (h.bins.eraseIdx (i + 1)).set i
        (centroid v1 f1 v2 f2, Gen.DistogramExpr.trimCount v1 f1 v2 f2) := by
  rw [trimStep_def] at hok
  obtain ⟨i, hi, hok⟩ := bind_eq_ok hok
  split at hok
  · rename_i v1 f1 v2 f2 hb1 hb2
    have hlt : i + 1 < h.bins.length := (List.getElem?_eq_some_iff.mp hb2).1
    simp only at hok
    split at hok
    · rename_i d hd
      obtain ⟨_, hg, _⟩ := hc d hd
      split at hok
      · simp at hok
      · obtain ⟨h1, hu, hok⟩ := bind_eq_ok hok
        have hlen : ((h.bins.eraseIdx (i + 1)).set i (centroid v1 f1 v2 f2,
            Gen.DistogramExpr.trimCount v1 f1 v2 f2)).length = h.bins.length - 1 := by
          simp [List.length_eraseIdx, hlt]
        obtain ⟨e1, e2, e3, e4, e5⟩ := updateDiffs_gaps hu (d0 := d.eraseIdx i) rfl (by
          intro k hk
          simp only [hlen] at hk
          simp only
          rw [hg]; exact erase_pt hlt k hk)
        split at hok
        · rename_i m hm
          simp only [Except.ok.injEq] at hok
          subst hok
          refine ⟨?c, e2, e3, e4, ?n, i, v1, f1, v2, f2, hi, hb1, hb2, e1⟩
          case n => intro e; rw [hd] at e; cases e
          intro d' hd'
          simp only at hd'
          rw [e5] at hd'
          simp only [Option.some.injEq] at hd'
          subst hd'
          rw [e5] at hm
          simp only [Option.bind_some] at hm
          refine ⟨?_, by rw [e1], ?_⟩
          · simp only; rw [e1]
            intro e
            have := congrArg List.length e
            rw [hlen] at this
            simp at this; omega
          · simp only
            rw [← hm]; exact listMin_isMin _
        · simp at hok
    · rename_i hd
      simp only [Except.ok.injEq] at hok
      subst hok
      refine ⟨?_, rfl, rfl, rfl, fun _ => hd, i, v1, f1, v2, f2, hi, hb1, hb2, rfl⟩
      intro d' hd'
      simp only at hd'
      rw [hd] at hd'; cases hd'
  · simp at hok

theorem coherent_trim : ∀ (fuel : Nat) {h h' : Hist K}, Coherent h → trim fuel h = .ok h' →
    Coherent h' ∧ h'.min = h.min ∧ h'.max = h.max ∧ h'.cap = h.cap ∧ (h.diffs = none → h'.diffs = none)
  | 0, h, h', hc, hok => by
    simp only [trim, Except.ok.injEq] at hok
    subst hok
    exact ⟨hc, rfl, rfl, rfl, fun e => e⟩
  | fuel + 1, h, h', hc, hok => by
    rw [trim_succ] at hok
    split at hok
    · obtain ⟨h1, hs, hok⟩ := bind_eq_ok hok
      obtain ⟨c1, m1, x1, p1, n1, _⟩ := coherent_trimStep hc hs
      obtain ⟨c2, m2, x2, p2, n2⟩ := coherent_trim fuel c1 hok
      exact ⟨c2, by rw [m2, m1], by rw [x2, x1], by rw [p2, p1], fun e => n2 (n1 e)⟩
    · simp only [Except.ok.injEq] at hok
      subst hok
      exact ⟨hc, rfl, rfl, rfl, fun e => e⟩

/-! ## `update` and the operations built on it -/

theorem takeWhile_length_lt {α : Type} (p : α → Bool) : ∀ (l : List α) (b : α), l.getLast? = some b → p b = false →
    (l.takeWhile p).length < l.length
  | [], _, h, _ => by simp at h
  | [a], b, h, hp => by
    simp only [List.getLast?_singleton, Option.some.injEq] at h
    subst h
    simp [List.takeWhile, hp]
  | a :: c :: rest, b, h, hp => by
    have h' : (c :: rest).getLast? = some b := by simpa [List.getLast?_cons_cons] using h
    have ih := takeWhile_length_lt p (c :: rest) b h' hp
    rw [List.takeWhile_cons]
    split
    · simp only [List.length_cons] at ih ⊢; omega
    · simp

theorem locate_idx_lt {bins : List (K × K)} {v : K} (hne : bins ≠ []) (hn : (locate bins v).1 = false) :
    (locate bins v).2 < bins.length := by
  rw [locate_def] at hn ⊢
  cases hh : bins.head? with
  | none => simp at hh; exact absurd hh hne
  | some b0 =>
    cases hl : bins.getLast? with
    | none => simp at hl; exact absurd hl hne
    | some bl =>
      rw [hh, hl] at hn
      simp only at hn ⊢
      have hpos : 0 < bins.length := List.length_pos_iff.mpr hne
      by_cases h1 : v ≤ b0.1
      · rw [if_pos h1]; exact hpos
      · rw [if_neg h1] at hn ⊢
        by_cases h2 : bl.1 ≤ v
        · rw [if_pos h2] at hn; cases hn
        · rw [if_neg h2]
          simp only
          unfold bisectLeft
          apply takeWhile_length_lt _ bins bl hl
          have hlt : v < bl.1 := not_le.mp h2
          have e : eqK bl.1 v = false := by
            cases he : eqK bl.1 v with
            | false => rfl
            | true =>
              have : bl.1 = v := by
                unfold eqK Gen.DistogramExpr.eqK at he
                simp only [Bool.and_eq_true, decide_eq_true_eq] at he
                exact le_antisymm he.1 he.2
              rw [this] at hlt; exact absurd hlt (lt_irrefl _)
          simp [e, not_lt.mpr (le_of_lt hlt)]

theorem coherent_insertTrim {h h' : Hist K} {neg : Bool} {idx : Nat} {v c : K} (hc : Coherent h)
    (hidx : neg = false → h.bins ≠ [] → idx < h.bins.length)
    (hok : insertTrim h neg idx v c = .ok h') :
    Coherent h' ∧ h'.cap = h.cap ∧ (h.diffs = none → h'.diffs = none) := by
  unfold insertTrim at hok
  obtain ⟨h2, hi, hok⟩ := bind_eq_ok hok
  obtain ⟨c2, _, _, p2, n2, _⟩ := coherent_insertBin hc hidx hi
  obtain ⟨c3, _, _, p3, n3⟩ := coherent_trim _ (coherent_bumpBounds v c2) hok
  exact ⟨c3, by rw [p3]; exact p2, fun e => n3 (n2 e)⟩

/-- **One `update` keeps the cache coherent** (and the limit). -/
theorem coherent_update {h h' : Hist K} {v c : K} (hc : Coherent h) (hok : update h v c = .ok h') :
    Coherent h' ∧ h'.cap = h.cap := by
  rw [update_def] at hok
  split at hok
  · simp at hok
  have key : afterHit h (locate h.bins v).1 (locate h.bins v).2 v c = .ok h' → Coherent h' ∧ h'.cap = h.cap := by
    intro ha
    have hidx : (locate h.bins v).1 = false → h.bins ≠ [] → (locate h.bins v).2 < h.bins.length :=
      fun hn hne => locate_idx_lt hne hn
    rw [afterHit_def] at ha
    split at ha
    · obtain ⟨h1, hcd, ha⟩ := bind_eq_ok ha
      have hh1 : Coherent h1 ∧ h1.bins = h.bins ∧ h1.cap = h.cap := by
        split at hcd
        · obtain ⟨a, b, _, _, e, _⟩ := coherent_computeDiffs hcd
          exact ⟨a, b, e⟩
        · simp only [Except.ok.injEq] at hcd
          subst hcd; exact ⟨hc, rfl, rfl⟩
      obtain ⟨c1, b1, p1⟩ := hh1
      obtain ⟨r, _, ha⟩ := bind_eq_ok ha
      have hit : insertTrim h1 (locate h.bins v).1 (locate h.bins v).2 v c = .ok h' → Coherent h' ∧ h'.cap = h.cap := by
        intro hx
        obtain ⟨a, b, _⟩ := coherent_insertTrim c1 (by rw [b1]; exact hidx) hx
        exact ⟨a, by rw [b, p1]⟩
      split at ha
      · split at ha
        · obtain ⟨a, _, _, b, _⟩ := coherent_trimInPlace c1 ha
          exact ⟨a, by rw [b, p1]⟩
        · exact hit ha
      · exact hit ha
    · obtain ⟨a, b, _⟩ := coherent_insertTrim hc hidx ha
      exact ⟨a, b⟩
  split at hok
  · rename_i vi fi hb
    split at hok
    · simp only [Except.ok.injEq] at hok
      subst hok
      have hb' : h.bins[(locate h.bins v).2]? = some (vi, fi) := by
        split at hb
        · exact hb
        · cases hb
      exact ⟨coherent_exactHit hc hb', rfl⟩
    · exact key hok
  · split at hok
    · simp at hok
    · exact key hok

theorem coherent_foldUpdate : ∀ (bs : List (K × K)) {h h' : Hist K}, Coherent h →
    bs.foldlM (fun acc b => update acc b.1 b.2) h = .ok h' → Coherent h' ∧ h'.cap = h.cap
  | [], h, h', hc, hok => by
    simp only [List.foldlM_nil, pure, Except.pure, Except.ok.injEq] at hok
    subst hok; exact ⟨hc, rfl⟩
  | b :: bs, h, h', hc, hok => by
    simp only [List.foldlM_cons, bind] at hok
    obtain ⟨h1, hu, hok⟩ := bind_eq_ok hok
    obtain ⟨c1, p1⟩ := coherent_update hc hu
    obtain ⟨c2, p2⟩ := coherent_foldUpdate bs c1 hok
    exact ⟨c2, by rw [p2, p1]⟩

theorem coherent_init (cap : Nat) : Coherent (Hist.init cap : Hist K) := by
  intro d hd; simp [Hist.init] at hd

theorem coherent_load (bins : List (K × K)) (mn mx : Option K) (hne : bins ≠ []) : Coherent (load bins mn mx) := by
  rw [load_def]
  intro d hd
  simp only [Option.some.injEq] at hd
  subst hd
  refine ⟨hne, by simp [loadDiffs_eq_gaps], ?_⟩
  simp only [loadDiffs_eq_gaps]
  exact listMin_isMin _

end Distogram
