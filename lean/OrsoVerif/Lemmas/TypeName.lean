import OrsoVerif.Model.TypeName
import Batteries.Data.Char.AsciiCasing
/-! Helper lemmas for C06 (`Model/TypeName.lean`). -/
set_option linter.unusedSimpArgs false
set_option linter.unnecessarySeqFocus false
set_option linter.unreachableTactic false
namespace TypeName
open Gen.TypeName

/-! ### reference semantics the generated control flow is compared with

`parseTypeCore` / `fromNameCore` are `_parse_type` / `OrsoTypes.from_name` with the control flow written
out by hand: the name is upper-cased first, the four patterns are tried at the start of the text in the
order ARRAY, DECIMAL, VARCHAR, BLOB, a bare name is upper-cased again, and VARCHAR[n] / BLOB[n] put `n`
into the length.  The model (`Model/TypeName.lean`) instead follows what the extractor read from the
source (`parseOrder`, `anchor*`, `upperInFromName`, `upperBareReturn`, `lengthBranches`,
`decimalTargets`); `parseType_eq_core` / `fromName_eq_core` below show that, for what the source says
now, the two coincide on every text.  The lemmas of this file are proved about the reference and moved
to the model through that equation. -/

def parseTypeCore (s : Str) : Except ExcClass Parsed :=
  match matchArray s with
  | some body => .ok (.array body)
  | none =>
  match matchDecimal s with
  | some (p, q) =>
    match parseInt p with
    | .error e => .error e
    | .ok p => match parseInt q with
      | .error e => .error e
      | .ok q => .ok (.decimal p q)
  | none =>
  match matchBracket litVarchar s with
  | some n => (parseInt n).map .varchar
  | none =>
  match matchBracket litBlob s with
  | some n => (parseInt n).map .blob
  | none => .ok (.bare (up s))

def fromNameCore (name : Str) : Res :=
  match parseTypeCore (up name) with
  | .error e => .error e
  | .ok (.bare b) => bareResolve b
  | .ok (.array body) => arrayResolve body
  | .ok (.decimal p s) => decimalResolve p s
  | .ok (.varchar n) => .ok { ty := .member litVarchar, length := some n }
  | .ok (.blob n) => .ok { ty := .member litBlob, length := some n }

/-! ### upper-casing -/

theorem up_up (s : Str) : up (up s) = up s := by
  simp [up, List.map_map, Function.comp_def, Char.toUpper_toUpper_eq_toUpper]

theorem up_append (s t : Str) : up (s ++ t) = up s ++ up t := by simp [up]

theorem up_cons (c : Char) (s : Str) : up (c :: s) = c.toUpper :: up s := by simp [up]

theorem toUpper_of_isDigit {c : Char} (h : c.isDigit = true) : c.toUpper = c := by
  apply Char.toUpper_eq_of_not_isLower
  simp [Char.isDigit, Char.isLower, UInt32.le_iff_toNat_le] at *
  omega

theorem up_of_all_digits {s : Str} (h : ∀ c ∈ s, isD c = true) : up s = s := by
  induction s with
  | nil => rfl
  | cons c cs ih =>
    rw [up_cons, ih (fun x hx => h x (List.mem_cons_of_mem _ hx)),
      toUpper_of_isDigit (h c (List.mem_cons_self))]

theorem up_lower (s : Str) : up (s.map Char.toLower) = up s := by
  simp [up, List.map_map, Function.comp_def, Char.toUpper_toLower_eq_toUpper]

theorem up_eq_of_forall₂ {s t : Str} (h : List.Forall₂ (fun a b => a.toUpper = b.toUpper) s t) :
    up s = up t := by
  induction h with
  | nil => rfl
  | cons hab _ ih => simp [up_cons, hab, ih]

/-! ### digits -/

theorem digits_isD (n : Nat) : ∀ c ∈ digits n, isD c = true := by
  intro c hc
  exact Nat.isDigit_of_mem_toDigits (by decide) (by decide) hc

theorem digits_ne_nil (n : Nat) : digits n ≠ [] := Nat.toDigits_ne_nil

theorem up_digits (n : Nat) : up (digits n) = digits n := up_of_all_digits (digits_isD n)

theorem parseInt_digits {n : Nat} (h : digitsFit n = true) : parseInt (digits n) = .ok n := by
  unfold parseInt
  have : ¬ (digits n = [] ∨ (intMaxStrDigits ≠ 0 ∧ intMaxStrDigits < (digits n).length)) := by
    simp [digitsFit] at h
    simp only [digits_ne_nil, false_or]
    omega
  rw [if_neg this]
  simp [digits, Nat.ofDigitChars_ten_toDigits]

theorem parseInt_err {ds : Str} {e : ExcClass} (h : parseInt ds = .error e) : e = .valueError := by
  unfold parseInt at h
  split at h
  · cases h; rfl
  · cases h

/-! ### literal prefixes -/

theorem dropPrefix?_append (p s : Str) : dropPrefix? p (p ++ s) = some s := by
  induction p with
  | nil => cases s <;> rfl
  | cons c cs ih => simp [dropPrefix?, ih]

theorem dropPrefix?_eq_some {p s r : Str} (h : dropPrefix? p s = some r) : s = p ++ r := by
  induction p generalizing s with
  | nil => cases s <;> simp_all [dropPrefix?]
  | cons c cs ih =>
    cases s with
    | nil => simp [dropPrefix?] at h
    | cons d ds =>
      simp only [dropPrefix?] at h
      split at h
      · rename_i hcd; rw [hcd, ih h]; rfl
      · cases h


/-! ### greedy runs -/

theorem takeWhile_run {p : Char → Bool} {ds rest : Str} {c : Char}
    (hall : ∀ x ∈ ds, p x = true) (hc : p c = false) :
    (ds ++ c :: rest).takeWhile p = ds := by
  rw [List.takeWhile_append_of_pos hall, List.takeWhile_cons_of_neg (by simp [hc])]; simp

theorem dropWhile_run {p : Char → Bool} {ds rest : Str} {c : Char}
    (hall : ∀ x ∈ ds, p x = true) (hc : p c = false) :
    (ds ++ c :: rest).dropWhile p = c :: rest := by
  rw [List.dropWhile_append_of_pos hall, List.dropWhile_cons_of_neg (by simp [hc])]

/-! ### the matchers on text of the expected shape -/

theorem matchBracket_spec (pre ds rest : Str) (hne : ds ≠ []) (hall : ∀ c ∈ ds, isD c = true) :
    matchBracket pre (pre ++ '[' :: (ds ++ ']' :: rest)) = some ds := by
  unfold matchBracket
  have h : pre ++ '[' :: (ds ++ ']' :: rest) = (pre ++ ['[']) ++ (ds ++ ']' :: rest) := by simp
  rw [h, dropPrefix?_append]
  simp only [takeWhile_run hall (show isD ']' = false by decide),
    dropWhile_run hall (show isD ']' = false by decide)]
  cases ds with
  | nil => exact absurd rfl hne
  | cons d ds => rfl

theorem matchArray_spec (body rest : Str) (hne : body ≠ []) (hall : ∀ c ∈ body, isElemChar c = true) :
    matchArray (litArray ++ '<' :: (body ++ '>' :: rest)) = some body := by
  unfold matchArray
  have h : litArray ++ '<' :: (body ++ '>' :: rest) = (litArray ++ ['<']) ++ (body ++ '>' :: rest) := by simp
  rw [h, dropPrefix?_append]
  simp only [takeWhile_run hall (show isElemChar '>' = false by decide),
    dropWhile_run hall (show isElemChar '>' = false by decide)]
  cases body with
  | nil => exact absurd rfl hne
  | cons d ds => rfl

theorem matchDecimal_spec (d1 ws d2 rest : Str) (h1 : d1 ≠ []) (h2 : d2 ≠ [])
    (hd1 : ∀ c ∈ d1, isD c = true) (hd2 : ∀ c ∈ d2, isD c = true) (hws : ∀ c ∈ ws, isS c = true) :
    matchDecimal (litDecimal ++ '(' :: (d1 ++ ',' :: (ws ++ (d2 ++ ')' :: rest)))) = some (d1, d2) := by
  unfold matchDecimal
  have h : litDecimal ++ '(' :: (d1 ++ ',' :: (ws ++ (d2 ++ ')' :: rest)))
      = (litDecimal ++ ['(']) ++ (d1 ++ ',' :: (ws ++ (d2 ++ ')' :: rest))) := by simp
  rw [h, dropPrefix?_append]
  simp only [takeWhile_run hd1 (show isD ',' = false by decide),
    dropWhile_run hd1 (show isD ',' = false by decide)]
  obtain ⟨a, as, rfl⟩ := List.exists_cons_of_ne_nil h1
  obtain ⟨b, bs, rfl⟩ := List.exists_cons_of_ne_nil h2
  have hb : isS b = false := by
    have := hd2 b List.mem_cons_self
    revert this
    simp only [isD, isS, Char.isDigit, UInt32.le_iff_toNat_le, Char.toNat]
    intro hh
    simp at hh ⊢
    omega
  have hdrop : (ws ++ (b :: bs ++ ')' :: rest)).dropWhile isS = b :: bs ++ ')' :: rest := by
    rw [List.cons_append]; exact dropWhile_run hws hb
  simp only [hdrop, takeWhile_run hd2 (show isD ')' = false by decide),
    dropWhile_run hd2 (show isD ')' = false by decide)]


/-! ### results -/

/-- `r` is `ok d` with `p d`. -/
def okAnd (r : Res) (p : Desc → Bool) : Bool :=
  match r with
  | .ok d => p d
  | .error _ => false

theorem okAnd_iff {r : Res} {p : Desc → Bool} : okAnd r p = true ↔ ∃ d, r = .ok d ∧ p d = true := by
  cases r <;> simp [okAnd]

/-- either a well-formed description or `ValueError` -/
def Total (r : Res) : Prop := (∃ d, r = .ok d ∧ wfOut d = true) ∨ r = .error .valueError

/-! ### `_parse_type` raises only `ValueError` -/

theorem parseTypeCore_err {s : Str} {e : ExcClass} (h : parseTypeCore s = .error e) : e = .valueError := by
  unfold parseTypeCore at h
  split at h
  · cases h
  · split at h
    · split at h
      · rename_i e' he; cases h; exact parseInt_err he
      · split at h
        · rename_i e' he; cases h; exact parseInt_err he
        · cases h
    · split at h
      · rename_i n _
        cases hn : parseInt n with
        | error e' => rw [hn] at h; cases h; exact parseInt_err hn
        | ok v => rw [hn] at h; cases h
      · split at h
        · rename_i n _
          cases hn : parseInt n with
          | error e' => rw [hn] at h; cases h; exact parseInt_err hn
          | ok v => rw [hn] at h; cases h
        · cases h

/-! ### the alias chain -/

/-- an arm of the chain yields a well-formed description or `ValueError`; `_type = OrsoTypes[parsed]`
is only allowed behind the membership test. -/
def goodBranch (b : Cond × Outcome) : Bool :=
  match b.2 with
  | .ty t e => wfOut { ty := .member t, elem := e }
  | .self => b.1 == .isMember
  | .zero => true
  | .raise c => c == .valueError

theorem chain_good : ∀ b ∈ bareChain, goodBranch b = true := by decide

theorem else_good : goodBranch (.eqAny [], bareElse) = true := by decide

theorem runOutcome_total {parsed : Str} {b : Cond × Outcome} (hg : goodBranch b = true)
    (hc : b.1 = .isMember → isMember parsed = true) : Total (runOutcome parsed b.2) := by
  obtain ⟨c, o⟩ := b
  cases o with
  | ty t e => exact .inl ⟨_, rfl, by simpa [goodBranch] using hg⟩
  | self =>
    have : c = .isMember := by simpa [goodBranch] using hg
    exact .inl ⟨_, rfl, by simp [wfOut, hc this]⟩
  | zero => exact .inl ⟨_, rfl, by decide⟩
  | raise cls =>
    have : cls = .valueError := by simpa [goodBranch] using hg
    exact .inr (by simp [runOutcome, this])

theorem bareResolve_total (parsed : Str) : Total (bareResolve parsed) := by
  unfold bareResolve
  cases h : bareChain.find? (fun b => condHolds parsed b.1) with
  | some b =>
    have hm := List.mem_of_find?_eq_some h
    have hc := List.find?_some h
    refine runOutcome_total (chain_good b hm) ?_
    intro hb
    simpa [hb, condHolds] using hc
  | none =>
    exact runOutcome_total (b := (.eqAny [], bareElse)) else_good (by intro h; cases h)

/-! ### ARRAY elements -/

theorem elem_raises : elemExcludedRaise = .valueError ∧ elemUnknownRaise = .valueError := by decide

theorem excluded_array_decimal : excludedElem litArray = true ∧ excludedElem litDecimal = true := by decide

theorem arrayResolve_ok {body : Str} {d : Desc} (h : arrayResolve body = .ok d) :
    d = { ty := .member litArray, elem := some body } ∧ isMember body = true ∧ excludedElem body = false := by
  unfold arrayResolve at h
  split at h
  · cases h
  · split at h
    · cases h; simp_all
    · cases h

theorem arrayResolve_total (body : Str) : Total (arrayResolve body) := by
  cases h : arrayResolve body with
  | ok d =>
    obtain ⟨rfl, hm, hx⟩ := arrayResolve_ok h
    refine .inl ⟨_, rfl, ?_⟩
    have h1 : body ≠ litArray := by rintro rfl; simp [excluded_array_decimal.1] at hx
    have h2 : body ≠ litDecimal := by rintro rfl; simp [excluded_array_decimal.2] at hx
    have h3 : isMember litArray = true := by decide
    simp [wfOut, hm, h1, h2, h3]
  | error e =>
    unfold arrayResolve at h
    split at h
    · cases h; exact .inr (by rw [elem_raises.1])
    · split at h
      · cases h
      · cases h; exact .inr (by rw [elem_raises.2])

/-! ### DECIMAL guards -/

theorem guards_raise : ∀ g ∈ decimalGuards, g.cls = .valueError := by decide

theorem decimalResolve_ok_iff (p s : Nat) :
    decimalResolve p s = .ok { ty := .member litDecimal, precision := some p, scale := some s } ↔ (s ≤ p ∧ p ≤ 38) := by
  unfold decimalResolve
  cases h : decimalGuards.find? (guardFires p s) with
  | none =>
    simp only [true_iff]
    have := List.find?_eq_none.mp h
    simp [decimalGuards, guardFires, cmpHolds, operandVal] at this
    omega
  | some g =>
    have hf := List.find?_some h
    have hm := List.mem_of_find?_eq_some h
    simp only [reduceCtorEq, false_iff]
    simp [decimalGuards] at hm
    rcases hm with rfl | rfl | rfl | rfl | rfl <;>
      simp [guardFires, cmpHolds, operandVal] at hf <;>
      first | omega | (have := of_decide_eq_true hf; omega)

theorem decimalResolve_err {p s : Nat} (h : ¬ (s ≤ p ∧ p ≤ 38)) : decimalResolve p s = .error .valueError := by
  have hne := mt (decimalResolve_ok_iff p s).mp h
  unfold decimalResolve at hne ⊢
  cases hf : decimalGuards.find? (guardFires p s) with
  | none => simp [hf] at hne
  | some g => simp [guards_raise g (List.mem_of_find?_eq_some hf)]

theorem decimalResolve_total (p s : Nat) : Total (decimalResolve p s) := by
  by_cases h : s ≤ p ∧ p ≤ 38
  · refine .inl ⟨_, (decimalResolve_ok_iff p s).mpr h, ?_⟩
    have : isMember litDecimal = true := by decide
    simp [wfOut, this, h.1, h.2]
  · exact .inr (decimalResolve_err h)


/-! ### `fromNameCore` on the rendered forms -/

theorem up_render_bracket (pre : Str) (hpre : up pre = pre) (n : Nat) :
    up (pre ++ '[' :: (digits n ++ [']'])) = pre ++ '[' :: (digits n ++ [']']) := by
  simp only [up_append, up_cons, up_digits, hpre]
  rfl

theorem fromNameCore_varchar {n : Nat} (h : digitsFit n = true) :
    fromNameCore (render (.varchar n)) = .ok { ty := .member litVarchar, length := some n } := by
  unfold fromNameCore
  have hu : up (render (.varchar n)) = render (.varchar n) := up_render_bracket litVarchar (by decide) n
  rw [hu]
  have h1 : matchArray (render (.varchar n)) = none := by
    simp [matchArray, render, litArray, litVarchar, dropPrefix?]
  have h2 : matchDecimal (render (.varchar n)) = none := by
    simp [matchDecimal, render, litDecimal, litVarchar, dropPrefix?]
  have h3 : matchBracket litVarchar (render (.varchar n)) = some (digits n) :=
    matchBracket_spec litVarchar (digits n) [] (digits_ne_nil n) (digits_isD n)
  simp [parseTypeCore, h1, h2, h3, parseInt_digits h, Except.map]

theorem fromNameCore_blob {n : Nat} (h : digitsFit n = true) :
    fromNameCore (render (.blob n)) = .ok { ty := .member litBlob, length := some n } := by
  unfold fromNameCore
  have hu : up (render (.blob n)) = render (.blob n) := up_render_bracket litBlob (by decide) n
  rw [hu]
  have h1 : matchArray (render (.blob n)) = none := by
    simp [matchArray, render, litArray, litBlob, dropPrefix?]
  have h2 : matchDecimal (render (.blob n)) = none := by
    simp [matchDecimal, render, litDecimal, litBlob, dropPrefix?]
  have h3 : matchBracket litVarchar (render (.blob n)) = none := by
    simp [matchBracket, render, litVarchar, litBlob, dropPrefix?]
  have h4 : matchBracket litBlob (render (.blob n)) = some (digits n) :=
    matchBracket_spec litBlob (digits n) [] (digits_ne_nil n) (digits_isD n)
  simp [parseTypeCore, h1, h2, h3, h4, parseInt_digits h, Except.map]

theorem parseInt_digits_err {n : Nat} (h : digitsFit n = false) : parseInt (digits n) = .error .valueError := by
  unfold parseInt
  have : intMaxStrDigits ≠ 0 ∧ intMaxStrDigits < (digits n).length := by
    simp [digitsFit] at h
    omega
  rw [if_pos (Or.inr this)]

theorem fromNameCore_varchar_err {n : Nat} (h : digitsFit n = false) :
    fromNameCore (render (.varchar n)) = .error .valueError := by
  unfold fromNameCore
  have hu : up (render (.varchar n)) = render (.varchar n) := up_render_bracket litVarchar (by decide) n
  rw [hu]
  have h1 : matchArray (render (.varchar n)) = none := by
    simp [matchArray, render, litArray, litVarchar, dropPrefix?]
  have h2 : matchDecimal (render (.varchar n)) = none := by
    simp [matchDecimal, render, litDecimal, litVarchar, dropPrefix?]
  have h3 : matchBracket litVarchar (render (.varchar n)) = some (digits n) :=
    matchBracket_spec litVarchar (digits n) [] (digits_ne_nil n) (digits_isD n)
  simp [parseTypeCore, h1, h2, h3, parseInt_digits_err h, Except.map]

theorem fromNameCore_blob_err {n : Nat} (h : digitsFit n = false) :
    fromNameCore (render (.blob n)) = .error .valueError := by
  unfold fromNameCore
  have hu : up (render (.blob n)) = render (.blob n) := up_render_bracket litBlob (by decide) n
  rw [hu]
  have h1 : matchArray (render (.blob n)) = none := by
    simp [matchArray, render, litArray, litBlob, dropPrefix?]
  have h2 : matchDecimal (render (.blob n)) = none := by
    simp [matchDecimal, render, litDecimal, litBlob, dropPrefix?]
  have h3 : matchBracket litVarchar (render (.blob n)) = none := by
    simp [matchBracket, render, litVarchar, litBlob, dropPrefix?]
  have h4 : matchBracket litBlob (render (.blob n)) = some (digits n) :=
    matchBracket_spec litBlob (digits n) [] (digits_ne_nil n) (digits_isD n)
  simp [parseTypeCore, h1, h2, h3, h4, parseInt_digits_err h, Except.map]

/-- any text whose upper-casing starts with `DECIMAL(<digits>,<spaces><digits>)` goes through the two
`int()` conversions and the guards, whatever follows. -/
theorem fromNameCore_decimal_text {name d1 ws d2 rest : Str}
    (hup : up name = litDecimal ++ '(' :: (d1 ++ ',' :: (ws ++ (d2 ++ ')' :: rest))))
    (h1 : d1 ≠ []) (h2 : d2 ≠ []) (hd1 : ∀ c ∈ d1, isD c = true) (hd2 : ∀ c ∈ d2, isD c = true)
    (hws : ∀ c ∈ ws, isS c = true) :
    fromNameCore name =
      match parseInt d1 with
      | .error e => .error e
      | .ok p => match parseInt d2 with
        | .error e => .error e
        | .ok s => decimalResolve p s := by
  unfold fromNameCore
  rw [hup]
  have ha : matchArray (litDecimal ++ '(' :: (d1 ++ ',' :: (ws ++ (d2 ++ ')' :: rest)))) = none := by
    simp [matchArray, litArray, litDecimal, dropPrefix?]
  have hd := matchDecimal_spec d1 ws d2 rest h1 h2 hd1 hd2 hws
  simp only [parseTypeCore, ha, hd]
  cases parseInt d1 with
  | error e => rfl
  | ok p =>
    cases parseInt d2 with
    | error e => rfl
    | ok s => rfl

theorem digitsFit_of_le_38 {p : Nat} (h : p ≤ 38) : digitsFit p = true := by
  have h2 : (digits p).length ≤ 2 := (Nat.length_toDigits_le_iff (by decide) (by decide)).mpr (by omega)
  have : (2 : Nat) ≤ intMaxStrDigits ∨ intMaxStrDigits = 0 := by decide
  simp only [digitsFit, Bool.or_eq_true, beq_iff_eq, decide_eq_true_eq]
  omega

theorem up_render_decimal (p s : Nat) : up (render (.decimal p s)) = render (.decimal p s) := by
  simp only [render, up_append, up_cons, up_digits]
  rfl

theorem fromNameCore_decimal {p s : Nat} (h : s ≤ p ∧ p ≤ 38) :
    fromNameCore (render (.decimal p s)) = .ok { ty := .member litDecimal, precision := some p, scale := some s } := by
  have hup : up (render (.decimal p s))
      = litDecimal ++ '(' :: (digits p ++ ',' :: ([] ++ (digits s ++ ')' :: []))) := by
    rw [up_render_decimal]; rfl
  rw [fromNameCore_decimal_text hup (digits_ne_nil p) (digits_ne_nil s) (digits_isD p) (digits_isD s) (by simp),
    parseInt_digits (digitsFit_of_le_38 h.2), parseInt_digits (digitsFit_of_le_38 (by omega))]
  exact (decimalResolve_ok_iff p s).mpr h

theorem parseInt_ok {ds : Str} {n : Nat} (h : parseInt ds = .ok n) : n = Nat.ofDigitChars 10 ds 0 := by
  unfold parseInt at h
  split at h
  · cases h
  · cases h; rfl

/-! ### names starting with `ARRAY<` -/

/-- no name tested by the chain, and no member name, contains `<`. -/
def condNoLt : Cond → Bool
  | .eqAny names => names.all (fun n => !n.contains '<')
  | .isMember => memberNames.all (fun n => !n.contains '<')

theorem chain_noLt : ∀ b ∈ bareChain, condNoLt b.1 = true := by decide

theorem bareElse_raises : bareElse = .raise .valueError := by decide

theorem bareResolve_of_lt {s : Str} (h : '<' ∈ s) : bareResolve s = .error .valueError := by
  unfold bareResolve
  have : bareChain.find? (fun b => condHolds s b.1) = none := by
    rw [List.find?_eq_none]
    intro b hb hc
    have hn := chain_noLt b hb
    obtain ⟨c, o⟩ := b
    cases c with
    | eqAny names =>
      simp only [condHolds, List.contains_iff_mem] at hc
      simp only [condNoLt, List.all_eq_true] at hn
      have := hn s hc
      simp [h] at this
    | isMember =>
      simp only [condHolds, isMember, List.contains_iff_mem] at hc
      simp only [condNoLt, List.all_eq_true] at hn
      have := hn s hc
      simp [h] at this
  rw [this, bareElse_raises]
  rfl

theorem matchArray_eq_some {s body : Str} (h : matchArray s = some body) :
    ∃ rest, s = litArray ++ '<' :: (body ++ '>' :: rest) ∧ body ≠ [] ∧ ∀ c ∈ body, isElemChar c = true := by
  unfold matchArray at h
  split at h
  · cases h
  · rename_i r hr
    have hs := dropPrefix?_eq_some hr
    split at h
    · rename_i a as rest htw hdw
      cases h
      have hall : ∀ c ∈ r.takeWhile isElemChar, isElemChar c = true := by
        exact List.all_eq_true.mp (List.all_takeWhile (p := isElemChar) (l := r))
      refine ⟨rest, ?_, by rw [htw]; simp, hall⟩
      have := List.takeWhile_append_dropWhile (p := isElemChar) (l := r)
      rw [hdw] at this
      rw [hs, this]
      simp
    · cases h


theorem fromNameCore_array_prefix {name r : Str} {d : Desc}
    (hp : dropPrefix? (litArray ++ ['<']) (up name) = some r) (hok : fromNameCore name = .ok d) :
    ∃ e rest, r = e ++ '>' :: rest ∧ d = { ty := .member litArray, elem := some e } ∧
      isMember e = true ∧ e ≠ litArray ∧ e ≠ litDecimal ∧ excludedElem e = false := by
  have hs := dropPrefix?_eq_some hp
  unfold fromNameCore at hok
  cases hm : matchArray (up name) with
  | some body =>
    obtain ⟨rest, hs2, _, _⟩ := matchArray_eq_some hm
    have hr : r = body ++ '>' :: rest := by
      rw [hs] at hs2
      have : litArray ++ ['<'] ++ r = litArray ++ ['<'] ++ (body ++ '>' :: rest) := by
        rw [hs2]; simp
      exact List.append_cancel_left this
    have hpt : parseTypeCore (up name) = .ok (.array body) := by simp [parseTypeCore, hm]
    rw [hpt] at hok
    obtain ⟨hd, hmem, hx⟩ := arrayResolve_ok hok
    refine ⟨body, rest, hr, hd, hmem, ?_, ?_, hx⟩
    · rintro rfl; simp [excluded_array_decimal.1] at hx
    · rintro rfl; simp [excluded_array_decimal.2] at hx
  | none =>
    exfalso
    have h2 : matchDecimal (up name) = none := by
      rw [hs]; simp [matchDecimal, litArray, litDecimal, dropPrefix?]
    have h3 : matchBracket litVarchar (up name) = none := by
      rw [hs]; simp [matchBracket, litArray, litVarchar, dropPrefix?]
    have h4 : matchBracket litBlob (up name) = none := by
      rw [hs]; simp [matchBracket, litArray, litBlob, dropPrefix?]
    have hpt : parseTypeCore (up name) = .ok (.bare (up (up name))) := by simp [parseTypeCore, hm, h2, h3, h4]
    rw [hpt, up_up] at hok
    have hlt : '<' ∈ up name := by rw [hs]; simp
    simp only [bareResolve_of_lt hlt] at hok
    cases hok

/-! ### the generated patterns and control flow coincide with the reference -/

/-- every pattern is tried at the start of the text only (`re.match`). -/
theorem anchors_atStart : anchorArray = .atStart ∧ anchorDecimal = .atStart ∧
    anchorVarchar = .atStart ∧ anchorBlob = .atStart := by decide

/-- the reference `_parse_type` over arbitrary Unicode tables. -/
def parseTypeCoreU (U : Chars) (s : Str) : Except ExcClass Parsed :=
  match matchArrayU U s with
  | some body => .ok (.array body)
  | none =>
  match matchDecimalU U s with
  | some (p, q) =>
    match U.toInt p with
    | .error e => .error e
    | .ok p => match U.toInt q with
      | .error e => .error e
      | .ok q => .ok (.decimal p q)
  | none =>
  match matchBracketU U litVarchar s with
  | some n => (U.toInt n).map .varchar
  | none =>
  match matchBracketU U litBlob s with
  | some n => (U.toInt n).map .blob
  | none => .ok (.bare (U.upper s))

theorem parseTypeCoreU_ascii (s : Str) : parseTypeCoreU Chars.ascii s = parseTypeCore s := rfl

/-- literal items consume a literal prefix. -/
theorem matchItems_lits (U : Chars) (p : Str) (is : List RItem) (s : Str) :
    matchItems U (p.map RItem.lit ++ is) s = (dropPrefix? p s).bind (matchItems U is) := by
  induction p generalizing s with
  | nil => cases s <;> simp [dropPrefix?]
  | cons c cs ih =>
    cases s with
    | nil => simp [matchItems, dropPrefix?]
    | cons x xs =>
      by_cases h : c = x
      · simp [matchItems, dropPrefix?, h, ih]
      · simp [matchItems, dropPrefix?, h]

theorem cls_elem (U : Chars) :
    clsHolds U [.word, .space, .ch '[', .ch ']', .ch '(', .ch ')'] = isElemCharU U := by
  funext c
  simp [clsHolds, atomHolds, isElemCharU, Bool.or_assoc]

theorem cls_digit (U : Chars) : clsHolds U [.digit] = U.isD := by
  funext c; simp [clsHolds, atomHolds]

theorem cls_space (U : Chars) : clsHolds U [.space] = U.isS := by
  funext c; simp [clsHolds, atomHolds]

/-- the ARRAY pattern, interpreted from its source, is the reference matcher. -/
theorem matchItems_array (U : Chars) (s : Str) : (matchItems U rxArray s).bind group1 = matchArrayU U s := by
  have hrx : rxArray = (litArray ++ ['<']).map RItem.lit ++
      [.run [.word, .space, .ch '[', .ch ']', .ch '(', .ch ')'] 1 true, .lit '>'] := by decide
  rw [hrx, matchItems_lits]
  unfold matchArrayU
  cases dropPrefix? (litArray ++ ['<']) s with
  | none => rfl
  | some r =>
    simp only [Option.bind_some, matchItems, cls_elem]
    generalize r.takeWhile (isElemCharU U) = taken
    generalize r.dropWhile (isElemCharU U) = rest
    cases taken with
    | nil => simp
    | cons t ts =>
      cases rest with
      | nil => simp
      | cons x xs =>
        by_cases hx : x = '>'
        · subst hx; simp [group1]
        · have hx' : ¬ '>' = x := fun h => hx h.symm
          simp [hx']
          split <;> simp_all

/-- the VARCHAR / BLOB patterns. -/
theorem matchItems_bracket (U : Chars) (pre : Str) (rx : List RItem)
    (hrx : rx = (pre ++ ['[']).map RItem.lit ++ [.run [.digit] 1 true, .lit ']']) (s : Str) :
    (matchItems U rx s).bind group1 = matchBracketU U pre s := by
  rw [hrx, matchItems_lits]
  unfold matchBracketU
  cases dropPrefix? (pre ++ ['[']) s with
  | none => rfl
  | some r =>
    simp only [Option.bind_some, matchItems, cls_digit]
    generalize r.takeWhile U.isD = taken
    generalize r.dropWhile U.isD = rest
    cases taken with
    | nil => simp
    | cons t ts =>
      cases rest with
      | nil => simp
      | cons x xs =>
        by_cases hx : x = ']'
        · subst hx; simp [group1]
        · have hx' : ¬ ']' = x := fun h => hx h.symm
          simp [hx']
          split <;> simp_all

theorem matchItems_varchar (U : Chars) (s : Str) :
    (matchItems U rxVarchar s).bind group1 = matchBracketU U litVarchar s :=
  matchItems_bracket U litVarchar rxVarchar (by decide) s

theorem matchItems_blob (U : Chars) (s : Str) :
    (matchItems U rxBlob s).bind group1 = matchBracketU U litBlob s :=
  matchItems_bracket U litBlob rxBlob (by decide) s

/-- the DECIMAL pattern. -/
theorem matchItems_decimal (U : Chars) (s : Str) : (matchItems U rxDecimal s).bind group2 = matchDecimalU U s := by
  have hrx : rxDecimal = (litDecimal ++ ['(']).map RItem.lit ++
      [.run [.digit] 1 true, .lit ',', .run [.space] 0 false, .run [.digit] 1 true, .lit ')'] := by decide
  rw [hrx, matchItems_lits]
  unfold matchDecimalU
  cases dropPrefix? (litDecimal ++ ['(']) s with
  | none => rfl
  | some r1 =>
    simp only [Option.bind_some, matchItems, cls_digit, cls_space]
    generalize r1.takeWhile U.isD = t1
    generalize r1.dropWhile U.isD = rest1
    cases t1 with
    | nil => simp
    | cons a as =>
      cases rest1 with
      | nil => simp
      | cons x r2 =>
        by_cases hx : x = ','
        · subst hx
          simp only [if_true]
          generalize (r2.dropWhile U.isS).takeWhile U.isD = t2
          generalize (r2.dropWhile U.isS).dropWhile U.isD = rest2
          cases t2 with
          | nil => simp
          | cons b bs =>
            cases rest2 with
            | nil => simp
            | cons y ys =>
              by_cases hy : y = ')'
              · subst hy; simp [group2]
              · have hy' : ¬ ')' = y := fun h => hy h.symm
                simp [hy']
                split <;> simp_all
        · have hx' : ¬ ',' = x := fun h => hx h.symm
          simp [hx']
          split <;> simp_all

theorem tryKindU_array (U : Chars) (s : Str) :
    tryKindU U s .array = (matchArrayU U s).map (fun body => .ok (.array body)) := by
  simp [tryKindU, anchored, anchors_atStart, matchItems_array]

theorem tryKindU_decimal (U : Chars) (s : Str) :
    tryKindU U s .decimal = (matchDecimalU U s).map (fun pq =>
      match U.toInt pq.1 with
      | .error e => .error e
      | .ok p => match U.toInt pq.2 with
        | .error e => .error e
        | .ok q => .ok (.decimal p q)) := by
  simp [tryKindU, anchored, anchors_atStart, matchItems_decimal] <;> rfl

theorem tryKindU_varchar (U : Chars) (s : Str) :
    tryKindU U s .varchar = (matchBracketU U litVarchar s).map (fun n => (U.toInt n).map .varchar) := by
  simp [tryKindU, anchored, anchors_atStart, matchItems_varchar]

theorem tryKindU_blob (U : Chars) (s : Str) :
    tryKindU U s .blob = (matchBracketU U litBlob s).map (fun n => (U.toInt n).map .blob) := by
  simp [tryKindU, anchored, anchors_atStart, matchItems_blob]

theorem matchArrayU_head {U : Chars} {c : Char} {cs : Str} (h : c ≠ 'A') : matchArrayU U (c :: cs) = none := by
  simp [matchArrayU, litArray, dropPrefix?, h.symm]

theorem matchDecimalU_head {U : Chars} {c : Char} {cs : Str} (h : c ≠ 'D') : matchDecimalU U (c :: cs) = none := by
  simp [matchDecimalU, litDecimal, dropPrefix?, h.symm]

theorem matchVarcharU_head {U : Chars} {c : Char} {cs : Str} (h : c ≠ 'V') :
    matchBracketU U litVarchar (c :: cs) = none := by
  simp [matchBracketU, litVarchar, dropPrefix?, h.symm]

theorem matchBlobU_head {U : Chars} {c : Char} {cs : Str} (h : c ≠ 'B') :
    matchBracketU U litBlob (c :: cs) = none := by
  simp [matchBracketU, litBlob, dropPrefix?, h.symm]

/-- the four patterns start with four different letters, so at most one of them matches a text and the
order in which they are tried does not matter: whatever permutation `parseOrder` is, `_parse_type` — with
the patterns and the control flow read from the source — is the reference, over any Unicode tables. -/
theorem parseTypeU_eq_core (U : Chars) (s : Str) : parseTypeU U s = parseTypeCoreU U s := by
  have hb : upperBareReturn = true := by decide
  cases s with
  | nil =>
    simp [parseTypeU, parseTypeCoreU, parseOrder, tryKindU_array, tryKindU_decimal, tryKindU_varchar, tryKindU_blob,
      matchArrayU, matchDecimalU, matchBracketU, litArray, litDecimal, litVarchar, litBlob, dropPrefix?, hb]
  | cons c cs =>
    by_cases hA : c = 'A'
    · subst hA
      have h2 := matchDecimalU_head (U := U) (c := 'A') (cs := cs) (by decide)
      have h3 := matchVarcharU_head (U := U) (c := 'A') (cs := cs) (by decide)
      have h4 := matchBlobU_head (U := U) (c := 'A') (cs := cs) (by decide)
      cases h1 : matchArrayU U ('A' :: cs) <;>
        simp [parseTypeU, parseTypeCoreU, parseOrder, tryKindU_array, tryKindU_decimal, tryKindU_varchar,
          tryKindU_blob, hb, h1, h2, h3, h4]
    by_cases hD : c = 'D'
    · subst hD
      have h1 := matchArrayU_head (U := U) (c := 'D') (cs := cs) (by decide)
      have h3 := matchVarcharU_head (U := U) (c := 'D') (cs := cs) (by decide)
      have h4 := matchBlobU_head (U := U) (c := 'D') (cs := cs) (by decide)
      cases h2 : matchDecimalU U ('D' :: cs) with
      | none =>
        simp [parseTypeU, parseTypeCoreU, parseOrder, tryKindU_array, tryKindU_decimal, tryKindU_varchar,
          tryKindU_blob, hb, h1, h2, h3, h4]
      | some pq =>
        obtain ⟨p, q⟩ := pq
        simp [parseTypeU, parseTypeCoreU, parseOrder, tryKindU_array, tryKindU_decimal, tryKindU_varchar,
          tryKindU_blob, hb, h1, h2, h3, h4] <;> rfl
    by_cases hV : c = 'V'
    · subst hV
      have h1 := matchArrayU_head (U := U) (c := 'V') (cs := cs) (by decide)
      have h2 := matchDecimalU_head (U := U) (c := 'V') (cs := cs) (by decide)
      have h4 := matchBlobU_head (U := U) (c := 'V') (cs := cs) (by decide)
      cases h3 : matchBracketU U litVarchar ('V' :: cs) <;>
        simp [parseTypeU, parseTypeCoreU, parseOrder, tryKindU_array, tryKindU_decimal, tryKindU_varchar,
          tryKindU_blob, hb, h1, h2, h3, h4]
    by_cases hB : c = 'B'
    · subst hB
      have h1 := matchArrayU_head (U := U) (c := 'B') (cs := cs) (by decide)
      have h2 := matchDecimalU_head (U := U) (c := 'B') (cs := cs) (by decide)
      have h3 := matchVarcharU_head (U := U) (c := 'B') (cs := cs) (by decide)
      cases h4 : matchBracketU U litBlob ('B' :: cs) <;>
        simp [parseTypeU, parseTypeCoreU, parseOrder, tryKindU_array, tryKindU_decimal, tryKindU_varchar,
          tryKindU_blob, hb, h1, h2, h3, h4]
    · simp [parseTypeU, parseTypeCoreU, parseOrder, tryKindU_array, tryKindU_decimal, tryKindU_varchar,
        tryKindU_blob, hb, matchArrayU_head hA, matchDecimalU_head hD, matchVarcharU_head hV, matchBlobU_head hB]

theorem parseType_eq_core (s : Str) : parseType s = parseTypeCore s := by
  rw [← parseTypeCoreU_ascii]; exact parseTypeU_eq_core Chars.ascii s

/-- `VARCHAR[n]` / `BLOB[n]`: the member of the same name, `n` in the length (types.py:209-214). -/
theorem lengthResolve_varchar (n : Nat) :
    lengthResolve litVarchar n = .ok { ty := .member litVarchar, length := some n } := rfl

theorem lengthResolve_blob (n : Nat) :
    lengthResolve litBlob n = .ok { ty := .member litBlob, length := some n } := rfl

/-- `_precision, _scale = parsed_types[1]`: precision first. -/
theorem decimalBind_id (p s : Nat) : decimalBind p s = (p, s) := by
  have : decimalTargets ≠ [.scale, .precision] := by decide
  simp [decimalBind, this]

/-- the model of `from_name` that follows the extracted control flow is the reference, on every text. -/
theorem fromName_eq_core (name : Str) : fromName name = fromNameCore name := by
  have hu : upperInFromName = true := by decide
  have hup : Chars.ascii.upper name = up name := rfl
  unfold fromName fromNameU fromNameCore
  simp only [hu, if_true, hup]
  rw [show parseTypeU Chars.ascii (up name) = parseTypeCore (up name) from parseType_eq_core (up name)]
  cases parseTypeCore (up name) with
  | error e => rfl
  | ok r => cases r <;> simp [lengthResolve_varchar, lengthResolve_blob, decimalBind_id]

theorem parseType_err {s : Str} {e : ExcClass} (h : parseType s = .error e) : e = .valueError :=
  parseTypeCore_err (by rw [← parseType_eq_core]; exact h)

theorem fromName_varchar {n : Nat} (h : digitsFit n = true) :
    fromName (render (.varchar n)) = .ok { ty := .member litVarchar, length := some n } := by
  rw [fromName_eq_core]; exact fromNameCore_varchar h

theorem fromName_blob {n : Nat} (h : digitsFit n = true) :
    fromName (render (.blob n)) = .ok { ty := .member litBlob, length := some n } := by
  rw [fromName_eq_core]; exact fromNameCore_blob h

theorem fromName_varchar_err {n : Nat} (h : digitsFit n = false) :
    fromName (render (.varchar n)) = .error .valueError := by
  rw [fromName_eq_core]; exact fromNameCore_varchar_err h

theorem fromName_blob_err {n : Nat} (h : digitsFit n = false) :
    fromName (render (.blob n)) = .error .valueError := by
  rw [fromName_eq_core]; exact fromNameCore_blob_err h

theorem fromName_decimal_text {name d1 ws d2 rest : Str}
    (hup : up name = litDecimal ++ '(' :: (d1 ++ ',' :: (ws ++ (d2 ++ ')' :: rest))))
    (h1 : d1 ≠ []) (h2 : d2 ≠ []) (hd1 : ∀ c ∈ d1, isD c = true) (hd2 : ∀ c ∈ d2, isD c = true)
    (hws : ∀ c ∈ ws, isS c = true) :
    fromName name =
      match parseInt d1 with
      | .error e => .error e
      | .ok p => match parseInt d2 with
        | .error e => .error e
        | .ok s => decimalResolve p s := by
  rw [fromName_eq_core]; exact fromNameCore_decimal_text hup h1 h2 hd1 hd2 hws

theorem fromName_decimal {p s : Nat} (h : s ≤ p ∧ p ≤ 38) :
    fromName (render (.decimal p s)) = .ok { ty := .member litDecimal, precision := some p, scale := some s } := by
  rw [fromName_eq_core]; exact fromNameCore_decimal h

theorem fromName_array_prefix {name r : Str} {d : Desc}
    (hp : dropPrefix? (litArray ++ ['<']) (up name) = some r) (hok : fromName name = .ok d) :
    ∃ e rest, r = e ++ '>' :: rest ∧ d = { ty := .member litArray, elem := some e } ∧
      isMember e = true ∧ e ≠ litArray ∧ e ≠ litDecimal ∧ excludedElem e = false :=
  fromNameCore_array_prefix hp (by rw [← fromName_eq_core]; exact hok)

/-! ### columns and type codes -/

theorem declare_varchar {n : Nat} (h : digitsFit n = true) :
    declare (render (.varchar n)) = .ok { ty := .member litVarchar, length := some n } := by
  have : (Ty.member litVarchar = Ty.member litDecimal) = False := by decide
  simp [declare, declareWith, fromName_varchar h, mergeRules, applyRule, missing, natSlot, decimalDefaults, this]

theorem declare_blob {n : Nat} (h : digitsFit n = true) :
    declare (render (.blob n)) = .ok { ty := .member litBlob, length := some n } := by
  have : (Ty.member litBlob = Ty.member litDecimal) = False := by decide
  simp [declare, declareWith, fromName_blob h, mergeRules, applyRule, missing, natSlot, decimalDefaults, this]

theorem declare_decimal {p s : Nat} (h : s ≤ p ∧ p ≤ 38) :
    declare (render (.decimal p s)) = .ok { ty := .member litDecimal, precision := some p, scale := some s } := by
  simp [declare, declareWith, fromName_decimal h, mergeRules, applyRule, missing, natSlot, decimalDefaults,
    decimalPrecisionTest, decimalScaleTest]

theorem typeCode_decimal (p s : Nat) :
    typeCode { ty := .member litDecimal, precision := some p, scale := some s } = some (render (.decimal p s)) := by
  have h1 : valueOf litDecimal = litDecimal := by decide
  have h2 : (litDecimal = descDecimalKey) = True := by decide
  have h3 : decide (litDecimal = descArrayKey) = false := by decide
  simp only [typeCode, h1, h2, h3, if_true, fmtOpt, render]
  have : descDecimalPre = litDecimal ++ ['('] ∧ descDecimalMid = [','] ∧ descDecimalPost = [')'] := by decide
  rw [this.1, this.2.1, this.2.2]
  simp

theorem typeCode_varchar (n : Nat) :
    typeCode { ty := .member litVarchar, length := some n } = some litVarchar := by
  have h1 : valueOf litVarchar = litVarchar := by decide
  have h2 : (litVarchar = descDecimalKey) = False := by decide
  have h3 : decide (litVarchar = descArrayKey) = false := by decide
  simp only [typeCode, h1, h2, h3, if_false]

theorem typeCode_blob (n : Nat) :
    typeCode { ty := .member litBlob, length := some n } = some litBlob := by
  have h1 : valueOf litBlob = litBlob := by decide
  have h2 : (litBlob = descDecimalKey) = False := by decide
  have h3 : decide (litBlob = descArrayKey) = false := by decide
  simp only [typeCode, h1, h2, h3, if_false]

/-- the type-code statements read from the source (`descProgram`) compute the reference type code, and
fill in precision and scale exactly for a DECIMAL — for every column. -/
theorem codeState_eq (c : Desc) (m : Str) (h : c.ty = .member m) :
    ∃ code, typeCode c = some code ∧
      codeState c = some { code := some code, params := decide (valueOf m = descDecimalKey) } := by
  obtain ⟨ty, len, p, s, e⟩ := c
  simp only at h
  subst h
  by_cases hd : valueOf m = ['D', 'E', 'C', 'I', 'M', 'A', 'L'] <;>
    by_cases ha : valueOf m = ['A', 'R', 'R', 'A', 'Y'] <;> cases e <;>
      simp [codeState, typeCode, descProgram, runGroups, runGroup, armHolds, fmtCode, descDecimalKey, descArrayKey,
        descDecimalPre, descDecimalMid, descDecimalPost, descArrayPre, descArrayPost, hd, ha]

theorem typeCodeP_eq (c : Desc) : typeCodeP c = typeCode c := by
  cases h : c.ty with
  | zero => simp [typeCodeP, codeState, typeCode, h]
  | member m =>
    obtain ⟨code, h1, h2⟩ := codeState_eq c m h
    simp [typeCodeP, h1, h2]

theorem roundtrip_base : ∀ m ∈ baseTypes,
    okAnd (declare (render (.base m))) (columnRoundTrips (.base m)) = true := by decide

theorem roundtrip_array : ∀ e ∈ scalarTypes,
    okAnd (declare (render (.array e))) (columnRoundTrips (.array e)) = true := by decide

theorem render_base_all : ∀ m ∈ baseTypes,
    okAnd (fromName (render (.base m))) (denotes (.base m)) = true := by decide

theorem render_array_all : ∀ e ∈ scalarTypes,
    okAnd (fromName (render (.array e))) (denotes (.array e)) = true := by decide


/-! ### `description` over a schema -/

theorem entryOf_name {n : Str} {d : Desc} {e : Entry} (h : entryOf n d = some e) :
    e.name = n ∧ some e.code = typeCode d := by
  rw [← typeCodeP_eq]
  unfold entryOf at h
  cases hs : codeState d with
  | none => simp [hs] at h
  | some st =>
    cases hc : st.code with
    | none => simp [hs, hc] at h
    | some code =>
      simp [hs, hc] at h
      subst h
      simp [typeCodeP, hs, hc]

theorem entryOf_isSome {n : Str} {d : Desc} (h : (typeCode d).isSome = true) : (entryOf n d).isSome = true := by
  rw [← typeCodeP_eq] at h
  unfold entryOf
  unfold typeCodeP at h
  cases hs : codeState d with
  | none => simp [hs] at h
  | some st =>
    cases hc : st.code with
    | none => simp [hs, hc] at h
    | some code => simp [hc]

/-- the precision / scale fields of an entry are the column's for a DECIMAL and empty otherwise. -/
theorem entryOf_params {n : Str} {d : Desc} {e : Entry} {m : Str} (hm : d.ty = .member m)
    (h : entryOf n d = some e) :
    (valueOf m = descDecimalKey → e.precision = d.precision ∧ e.scale = d.scale) ∧
    (valueOf m ≠ descDecimalKey → e.precision = none ∧ e.scale = none) := by
  obtain ⟨code, _, h2⟩ := codeState_eq d m hm
  simp only [entryOf, h2] at h
  cases h
  constructor
  · intro hd; simp [hd]
  · intro hd; simp [hd]

/-- built by position, the entries are those of the columns themselves, one for one. -/
theorem describeFrom_byPosition (all : List Col) :
    ∀ (cs : List Col) (k : Nat) (es : List Entry),
      (∀ (j : Nat) (c : Col), cs[j]? = some c → all[k + j]? = some c) →
      describeFrom .byPosition all k cs = some es →
      es.length = cs.length ∧
        ∀ (j : Nat) (c : Col), cs[j]? = some c → ∃ e, es[j]? = some e ∧ entryOf c.name c.desc = some e := by
  intro cs
  induction cs with
  | nil =>
    intro k es _ h
    simp only [describeFrom] at h
    cases h
    exact ⟨rfl, by intro j c hj; simp at hj⟩
  | cons c cs ih =>
    intro k es hall h
    have h0 : all[k]? = some c := by simpa using hall 0 c (by simp)
    simp only [describeFrom, entrySource, h0, Option.bind_some] at h
    cases he : entryOf c.name c.desc with
    | none => simp [he] at h
    | some e =>
      cases hr : describeFrom .byPosition all (k + 1) cs with
      | none => simp [he, hr] at h
      | some es' =>
        simp [he, hr] at h
        subst h
        have hall' : ∀ j c', cs[j]? = some c' → all[k + 1 + j]? = some c' := by
          intro j c' hj
          have := hall (j + 1) c' (by simpa using hj)
          simpa [Nat.add_assoc, Nat.add_comm 1 j] using this
        obtain ⟨hl, hi⟩ := ih (k + 1) es' hall' hr
        refine ⟨by simp [hl], ?_⟩
        intro j c' hj
        cases j with
        | zero => simp at hj; subst hj; exact ⟨e, by simp, he⟩
        | succ j => simpa using hi j c' (by simpa using hj)

theorem describeFrom_byPosition_some (all : List Col) :
    ∀ (cs : List Col) (k : Nat),
      (∀ (j : Nat) (c : Col), cs[j]? = some c → all[k + j]? = some c) →
      (∀ c ∈ cs, (entryOf c.name c.desc).isSome = true) →
      ∃ es, describeFrom .byPosition all k cs = some es := by
  intro cs
  induction cs with
  | nil => intro k _ _; exact ⟨[], rfl⟩
  | cons c cs ih =>
    intro k hall hsome
    have h0 : all[k]? = some c := by simpa using hall 0 c (by simp)
    have hall' : ∀ j c', cs[j]? = some c' → all[k + 1 + j]? = some c' := by
      intro j c' hj
      have := hall (j + 1) c' (by simpa using hj)
      simpa [Nat.add_assoc, Nat.add_comm 1 j] using this
    obtain ⟨es', hr⟩ := ih (k + 1) hall' (fun c' hc' => hsome c' (List.mem_cons_of_mem _ hc'))
    obtain ⟨e, he⟩ := Option.isSome_iff_exists.mp (hsome c List.mem_cons_self)
    exact ⟨e :: es', by simp [describeFrom, entrySource, h0, he, hr]⟩

/-- the source looks the column up by position. -/
theorem descLookup_byPosition : descLookup = .byPosition := by decide


/-! ### merging explicit and parsed parameters -/

theorem declareWith_ok {name : Str} {x : Explicit} {c : Desc} (h : declareWith name x = .ok c) :
    ∃ d, fromName name = .ok d ∧
      c = decimalDefaults (match d.ty with
        | .zero => { ty := d.ty, length := x.length, precision := x.precision, scale := x.scale, elem := x.elem }
        | .member _ => mergeRules.foldl (applyRule d)
            { ty := d.ty, length := x.length, precision := x.precision, scale := x.scale, elem := x.elem }) := by
  unfold declareWith at h
  cases hd : fromName name with
  | error e => rw [hd] at h; cases h
  | ok d => rw [hd] at h; cases h; exact ⟨d, rfl, rfl⟩

theorem decimalDefaults_keeps (c : Desc) :
    (∀ v, c.precision = some v → (decimalDefaults c).precision = some v) ∧
    (∀ v, c.scale = some v → (decimalDefaults c).scale = some v) ∧
    (decimalDefaults c).length = c.length ∧ (decimalDefaults c).elem = c.elem ∧ (decimalDefaults c).ty = c.ty := by
  have h1 : decimalPrecisionTest = .isNone := by decide
  have h2 : decimalScaleTest = .isNone := by decide
  unfold decimalDefaults
  split
  · refine ⟨?_, ?_, rfl, rfl, rfl⟩
    · intro v hv; simp [h1, missing, hv]
    · intro v hv; simp [h2, missing, hv]
  · exact ⟨fun _ h => h, fun _ h => h, rfl, rfl, rfl⟩

/-- the merged column, for the rules the source has now -/
theorem merged_eq (d c0 : Desc) :
    mergeRules.foldl (applyRule d) c0 =
      { ty := c0.ty, length := c0.length.or d.length, precision := c0.precision.or d.precision,
        scale := c0.scale.or d.scale, elem := c0.elem.or d.elem } := by
  obtain ⟨ty, len, p, s, e⟩ := c0
  cases len <;> cases p <;> cases s <;> cases e <;>
    simp [mergeRules, List.foldl, applyRule, missing, natSlot]

theorem merged_keeps_explicit (d : Desc) (x : Explicit) :
    let c := decimalDefaults (match d.ty with
        | .zero => { ty := d.ty, length := x.length, precision := x.precision, scale := x.scale, elem := x.elem }
        | .member _ => mergeRules.foldl (applyRule d)
            { ty := d.ty, length := x.length, precision := x.precision, scale := x.scale, elem := x.elem })
    (∀ v, x.precision = some v → c.precision = some v) ∧ (∀ v, x.scale = some v → c.scale = some v) ∧
    (∀ v, x.length = some v → c.length = some v) ∧ (∀ e, x.elem = some e → c.elem = some e) := by
  intro c
  obtain ⟨kp, ks, kl, ke, _⟩ := decimalDefaults_keeps (match d.ty with
        | .zero => { ty := d.ty, length := x.length, precision := x.precision, scale := x.scale, elem := x.elem }
        | .member _ => mergeRules.foldl (applyRule d)
            { ty := d.ty, length := x.length, precision := x.precision, scale := x.scale, elem := x.elem })
  cases hty : d.ty with
  | zero =>
    simp only [c, hty] at kp ks kl ke ⊢
    exact ⟨fun v hv => kp v hv, fun v hv => ks v hv, fun v hv => by rw [kl]; exact hv, fun e he => by rw [ke]; exact he⟩
  | member m =>
    simp only [c, hty, merged_eq] at kp ks kl ke ⊢
    refine ⟨fun v hv => kp v (by simp [hv]), fun v hv => ks v (by simp [hv]),
      fun v hv => by rw [kl]; simp [hv], fun e he => by rw [ke]; simp [he]⟩

theorem merged_carries_parsed (d : Desc) (hm : d.ty ≠ .zero) :
    let c := decimalDefaults (match d.ty with
        | .zero => { ty := d.ty, length := none, precision := none, scale := none, elem := none }
        | .member _ => mergeRules.foldl (applyRule d)
            { ty := d.ty, length := none, precision := none, scale := none, elem := none })
    c.ty = d.ty ∧ c.length = d.length ∧ c.elem = d.elem ∧
    (∀ p, d.precision = some p → c.precision = some p) ∧ (∀ q, d.scale = some q → c.scale = some q) := by
  intro c
  cases hty : d.ty with
  | zero => exact absurd hty hm
  | member m =>
    obtain ⟨kp, ks, kl, ke, kt⟩ := decimalDefaults_keeps (mergeRules.foldl (applyRule d)
            { ty := d.ty, length := none, precision := none, scale := none, elem := none })
    simp only [c, hty, merged_eq] at kp ks kl ke kt ⊢
    refine ⟨by rw [kt], by rw [kl]; simp, by rw [ke]; simp, fun p hp => kp p (by simp [hp]), fun q hq => ks q (by simp [hq])⟩

theorem declareEnum_keeps (m : Str) (x : Explicit) :
    (∀ v, x.precision = some v → (declareEnum m x).precision = some v) ∧
    (∀ v, x.scale = some v → (declareEnum m x).scale = some v) ∧
    (declareEnum m x).length = x.length ∧ (declareEnum m x).elem = x.elem ∧ (declareEnum m x).ty = .member m := by
  obtain ⟨kp, ks, kl, ke, kt⟩ := decimalDefaults_keeps
    { ty := .member m, length := x.length, precision := x.precision, scale := x.scale, elem := x.elem }
  exact ⟨kp, ks, kl, ke, kt⟩

theorem declareEnum_decimal (x : Explicit) :
    (declareEnum litDecimal x).precision = some (x.precision.getD decimalDefaultPrecision) ∧
    (declareEnum litDecimal x).scale =
      some (x.scale.getD (scaleNum * x.precision.getD decimalDefaultPrecision / scaleDen)) := by
  have h1 : decimalPrecisionTest = .isNone := by decide
  have h2 : decimalScaleTest = .isNone := by decide
  obtain ⟨e, p, s, l⟩ := x
  cases p <;> cases s <;> simp [declareEnum, decimalDefaults, h1, h2, missing]

/-! ### lists -/

theorem forall₂_getElem? {α β : Type} {R : α → β → Prop} {xs : List α} {ys : List β}
    (h : List.Forall₂ R xs ys) {i : Nat} {x : α} {y : β} (hx : xs[i]? = some x) (hy : ys[i]? = some y) : R x y := by
  induction h generalizing i with
  | nil => simp at hx
  | cons hr _ ih =>
    cases i with
    | zero => simp at hx hy; subst hx; subst hy; exact hr
    | succ i => exact ih (by simpa using hx) (by simpa using hy)

theorem forall₂_getElem?_right {α β : Type} {R : α → β → Prop} {xs : List α} {ys : List β}
    (h : List.Forall₂ R xs ys) {i : Nat} {y : β} (hy : ys[i]? = some y) : ∃ x, xs[i]? = some x := by
  induction h generalizing i with
  | nil => simp at hy
  | cons hr _ ih =>
    cases i with
    | zero => exact ⟨_, List.getElem?_cons_zero⟩
    | succ i => simpa using ih (by simpa using hy)

theorem columnRoundTrips_code {t : TName} {c : Desc} (h : columnRoundTrips t c = true) :
    (typeCode c).isSome = true := by
  unfold columnRoundTrips at h
  cases hc : typeCode c with
  | none => simp [hc] at h
  | some code => rfl


/-! ### totality over all of Unicode -/

theorem fromNameU_ascii (name : Str) : fromNameU Chars.ascii name = fromName name := rfl

/-- the branches for `VARCHAR[n]` / `BLOB[n]` name a member that may carry a length, and store `n` there. -/
def goodLengthBranch (b : Str × Str × Slot) : Bool :=
  isMember b.2.1 && (b.2.1 == litVarchar || b.2.1 == litBlob) && b.2.2 == .length

theorem lengthBranches_good : ∀ b ∈ lengthBranches, goodLengthBranch b = true := by decide

theorem lengthResolve_total (head : Str) (n : Nat) : Total (lengthResolve head n) := by
  unfold lengthResolve
  cases h : lengthBranches.find? (fun b => b.1 == head) with
  | none => exact .inr rfl
  | some b =>
    obtain ⟨hd, m, slot⟩ := b
    have hg := lengthBranches_good _ (List.mem_of_find?_eq_some h)
    simp only [goodLengthBranch, Bool.and_eq_true, Bool.or_eq_true, beq_iff_eq] at hg
    obtain ⟨⟨hm, hvb⟩, hs⟩ := hg
    subst hs
    refine .inl ⟨_, rfl, ?_⟩
    rcases hvb with rfl | rfl <;> simp [setNat, wfOut, hm]

theorem tryKindU_err {U : Chars} (hint : ∀ ds e, U.toInt ds = .error e → e = .valueError)
    {s : Str} {k : PKind} {e : ExcClass} (h : tryKindU U s k = some (.error e)) : e = .valueError := by
  cases k with
  | array =>
    simp only [tryKindU, Option.map_eq_some_iff] at h
    obtain ⟨_, _, h⟩ := h
    cases h
  | decimal =>
    simp only [tryKindU, Option.map_eq_some_iff] at h
    obtain ⟨pq, _, h⟩ := h
    cases h1 : U.toInt pq.1 with
    | error e1 => rw [h1] at h; cases h; exact hint _ _ h1
    | ok p =>
      rw [h1] at h
      cases h2 : U.toInt pq.2 with
      | error e2 => rw [h2] at h; cases h; exact hint _ _ h2
      | ok q => rw [h2] at h; cases h
  | varchar =>
    simp only [tryKindU, Option.map_eq_some_iff] at h
    obtain ⟨n, _, h⟩ := h
    cases h1 : U.toInt n with
    | error e1 => rw [h1] at h; cases h; exact hint _ _ h1
    | ok v => rw [h1] at h; cases h
  | blob =>
    simp only [tryKindU, Option.map_eq_some_iff] at h
    obtain ⟨n, _, h⟩ := h
    cases h1 : U.toInt n with
    | error e1 => rw [h1] at h; cases h; exact hint _ _ h1
    | ok v => rw [h1] at h; cases h

theorem parseTypeU_err {U : Chars} (hint : ∀ ds e, U.toInt ds = .error e → e = .valueError)
    {s : Str} {e : ExcClass} (h : parseTypeU U s = .error e) : e = .valueError := by
  unfold parseTypeU at h
  cases hf : parseOrder.findSome? (tryKindU U s) with
  | none => rw [hf] at h; cases h
  | some r =>
    rw [hf] at h
    subst h
    obtain ⟨k, _, hk⟩ := List.exists_of_findSome?_eq_some hf
    exact tryKindU_err hint hk

theorem fromNameU_total (U : Chars) (hint : ∀ ds e, U.toInt ds = .error e → e = .valueError)
    (name : Str) : Total (fromNameU U name) := by
  unfold fromNameU
  cases h : parseTypeU U (if upperInFromName then U.upper name else name) with
  | error e => exact .inr (by rw [parseTypeU_err hint h])
  | ok r =>
    cases r with
    | bare b => exact bareResolve_total b
    | array body => exact arrayResolve_total body
    | decimal p s => exact decimalResolve_total _ _
    | varchar n => exact lengthResolve_total _ n
    | blob n => exact lengthResolve_total _ n


/-! ### rejection over all of Unicode -/

/-- what the rejection theorems need to know about the Unicode tables: `>` is in none of the classes of the
ARRAY pattern; `,` and `)` are not digits; no digit is whitespace; upper-casing never loses a `<`; `int()`
raises nothing but `ValueError`. -/
structure Chars.Sane (U : Chars) : Prop where
  gt : isElemCharU U '>' = false
  comma : U.isD ',' = false
  paren : U.isD ')' = false
  digit_not_space : ∀ c, U.isD c = true → U.isS c = false
  keeps_lt : ∀ s : Str, '<' ∈ s → '<' ∈ U.upper s
  int_err : ∀ ds e, U.toInt ds = .error e → e = .valueError

theorem Chars.ascii_sane : Chars.Sane Chars.ascii where
  gt := by decide
  comma := by decide
  paren := by decide
  digit_not_space := by
    intro c h
    revert h
    simp only [Chars.ascii, TypeName.isD, TypeName.isS, Char.isDigit, UInt32.le_iff_toNat_le, Char.toNat]
    intro hh
    simp at hh ⊢
    omega
  keeps_lt := by
    intro s h
    simp only [Chars.ascii, up, List.mem_map]
    exact ⟨'<', h, by decide⟩
  int_err := fun _ _ h => parseInt_err h

/-- a text that starts with `A`: only the ARRAY pattern can match (whatever the order of the blocks). -/
theorem parseTypeU_A (U : Chars) (cs : Str) :
    parseTypeU U ('A' :: cs) =
      match matchArrayU U ('A' :: cs) with
      | some body => .ok (.array body)
      | none => .ok (.bare (U.upper ('A' :: cs))) := by
  rw [parseTypeU_eq_core]
  have h2 := matchDecimalU_head (U := U) (c := 'A') (cs := cs) (by decide)
  have h3 := matchVarcharU_head (U := U) (c := 'A') (cs := cs) (by decide)
  have h4 := matchBlobU_head (U := U) (c := 'A') (cs := cs) (by decide)
  cases h1 : matchArrayU U ('A' :: cs) <;> simp [parseTypeCoreU, h1, h2, h3, h4]

/-- a text that starts with `D`: only the DECIMAL pattern can match. -/
theorem parseTypeU_D (U : Chars) (cs : Str) :
    parseTypeU U ('D' :: cs) =
      match matchDecimalU U ('D' :: cs) with
      | some pq =>
        (match U.toInt pq.1 with
         | .error e => .error e
         | .ok p => match U.toInt pq.2 with
           | .error e => .error e
           | .ok q => .ok (.decimal p q))
      | none => .ok (.bare (U.upper ('D' :: cs))) := by
  rw [parseTypeU_eq_core]
  have h1 := matchArrayU_head (U := U) (c := 'D') (cs := cs) (by decide)
  have h3 := matchVarcharU_head (U := U) (c := 'D') (cs := cs) (by decide)
  have h4 := matchBlobU_head (U := U) (c := 'D') (cs := cs) (by decide)
  cases h2 : matchDecimalU U ('D' :: cs) with
  | none => simp [parseTypeCoreU, h1, h2, h3, h4]
  | some pq => obtain ⟨p, q⟩ := pq; simp [parseTypeCoreU, h1, h2] <;> rfl

theorem matchArrayU_eq_some {U : Chars} {s body : Str} (h : matchArrayU U s = some body) :
    ∃ rest, s = litArray ++ '<' :: (body ++ '>' :: rest) := by
  unfold matchArrayU at h
  split at h
  · cases h
  · rename_i r hr
    have hs := dropPrefix?_eq_some hr
    split at h
    · rename_i a as rest htw hdw
      cases h
      refine ⟨rest, ?_⟩
      have := List.takeWhile_append_dropWhile (p := isElemCharU U) (l := r)
      rw [hdw] at this
      rw [hs, this]
      simp
    · cases h

theorem fromNameU_array_prefix {U : Chars} (hU : U.Sane) {name r : Str} {d : Desc}
    (hp : dropPrefix? (litArray ++ ['<']) (U.upper name) = some r) (hok : fromNameU U name = .ok d) :
    ∃ e rest, r = e ++ '>' :: rest ∧ d = { ty := .member litArray, elem := some e } ∧
      isMember e = true ∧ e ≠ litArray ∧ e ≠ litDecimal ∧ excludedElem e = false := by
  have hu : upperInFromName = true := by decide
  have hs := dropPrefix?_eq_some hp
  have hs' : U.upper name = 'A' :: (['R', 'R', 'A', 'Y', '<'] ++ r) := by rw [hs]; rfl
  unfold fromNameU at hok
  simp only [hu, if_true] at hok
  rw [hs', parseTypeU_A] at hok
  cases hm : matchArrayU U ('A' :: (['R', 'R', 'A', 'Y', '<'] ++ r)) with
  | some body =>
    obtain ⟨rest, hs2⟩ := matchArrayU_eq_some hm
    have hr : r = body ++ '>' :: rest := by
      have : litArray ++ ['<'] ++ r = litArray ++ ['<'] ++ (body ++ '>' :: rest) := by
        have h0 : litArray ++ ['<'] ++ r = 'A' :: (['R', 'R', 'A', 'Y', '<'] ++ r) := rfl
        rw [h0, hs2]; simp
      exact List.append_cancel_left this
    simp only [hm] at hok
    obtain ⟨hd, hmem, hx⟩ := arrayResolve_ok hok
    refine ⟨body, rest, hr, hd, hmem, ?_, ?_, hx⟩
    · rintro rfl; simp [excluded_array_decimal.1] at hx
    · rintro rfl; simp [excluded_array_decimal.2] at hx
  | none =>
    exfalso
    simp only [hm] at hok
    have hlt : '<' ∈ U.upper ('A' :: (['R', 'R', 'A', 'Y', '<'] ++ r)) := hU.keeps_lt _ (by simp)
    rw [bareResolve_of_lt hlt] at hok
    cases hok

theorem matchDecimalU_spec {U : Chars} (hU : U.Sane) (d1 ws d2 rest : Str) (h1 : d1 ≠ []) (h2 : d2 ≠ [])
    (hd1 : ∀ c ∈ d1, U.isD c = true) (hd2 : ∀ c ∈ d2, U.isD c = true) (hws : ∀ c ∈ ws, U.isS c = true) :
    matchDecimalU U (litDecimal ++ '(' :: (d1 ++ ',' :: (ws ++ (d2 ++ ')' :: rest)))) = some (d1, d2) := by
  unfold matchDecimalU
  have h : litDecimal ++ '(' :: (d1 ++ ',' :: (ws ++ (d2 ++ ')' :: rest)))
      = (litDecimal ++ ['(']) ++ (d1 ++ ',' :: (ws ++ (d2 ++ ')' :: rest))) := by simp
  rw [h, dropPrefix?_append]
  simp only [takeWhile_run hd1 hU.comma, dropWhile_run hd1 hU.comma]
  obtain ⟨a, as, rfl⟩ := List.exists_cons_of_ne_nil h1
  obtain ⟨b, bs, rfl⟩ := List.exists_cons_of_ne_nil h2
  have hb : U.isS b = false := hU.digit_not_space b (hd2 b List.mem_cons_self)
  have hdrop : (ws ++ (b :: bs ++ ')' :: rest)).dropWhile U.isS = b :: bs ++ ')' :: rest := by
    rw [List.cons_append]; exact dropWhile_run hws hb
  simp only [hdrop, takeWhile_run hd2 hU.paren, dropWhile_run hd2 hU.paren]

theorem fromNameU_decimal_rejected {U : Chars} (hU : U.Sane) {name d1 ws d2 rest : Str}
    (hup : U.upper name = litDecimal ++ '(' :: (d1 ++ ',' :: (ws ++ (d2 ++ ')' :: rest))))
    (h1 : d1 ≠ []) (h2 : d2 ≠ []) (hd1 : ∀ c ∈ d1, U.isD c = true) (hd2 : ∀ c ∈ d2, U.isD c = true)
    (hws : ∀ c ∈ ws, U.isS c = true)
    (hbad : ∀ p s, U.toInt d1 = .ok p → U.toInt d2 = .ok s → ¬ (s ≤ p ∧ p ≤ 38)) :
    fromNameU U name = .error .valueError := by
  have hu : upperInFromName = true := by decide
  have hm := matchDecimalU_spec hU d1 ws d2 rest h1 h2 hd1 hd2 hws
  have hup' : U.upper name = 'D' :: (['E', 'C', 'I', 'M', 'A', 'L'] ++ '(' :: (d1 ++ ',' :: (ws ++ (d2 ++ ')' :: rest)))) := by
    rw [hup]; rfl
  have hm' : matchDecimalU U ('D' :: (['E', 'C', 'I', 'M', 'A', 'L'] ++ '(' :: (d1 ++ ',' :: (ws ++ (d2 ++ ')' :: rest)))))
      = some (d1, d2) := hm
  unfold fromNameU
  simp only [hu, if_true]
  rw [hup', parseTypeU_D, hm']
  cases hp : U.toInt d1 with
  | error e =>
    have := hU.int_err _ _ hp
    subst this
    simp [hp]
  | ok p =>
    cases hs : U.toInt d2 with
    | error e =>
      have := hU.int_err _ _ hs
      subst this
      simp [hp, hs]
    | ok s =>
      simp only [hp, hs, decimalBind_id]
      exact decimalResolve_err (hbad p s hp hs)

end TypeName
