import OrsoVerif.Model.TypeName
import Batteries.Data.Char.AsciiCasing
/-! Helper lemmas for C06 (`Model/TypeName.lean`). -/
namespace TypeName
open Gen.TypeName

/-! ### upper-casing -/

theorem up_up (s : Str) : up (up s) = up s := by
  simp [up, List.map_map, Function.comp_def, Char.toUpper_toUpper_eq_toUpper]

theorem up_append (s t : Str) : up (s ++ t) = up s ++ up t := by simp [up]

theorem up_cons (c : Char) (s : Str) : up (c :: s) = c.toUpper :: up s := by simp [up]

theorem toUpper_of_isDigit {c : Char} (h : c.isDigit = true) : c.toUpper = c := by
  apply Char.toUpper_eq_of_not_isLower
  simp [Char.isDigit, Char.isLower, UInt32.le_iff_toNat_le] at *
  omega

theorem up_of_all_digits {s : Str} (h : ∀ c ∈ s, isD c = true) : up s = s := by
  induction s with
  | nil => rfl
  | cons c cs ih =>
    rw [up_cons, ih (fun x hx => h x (List.mem_cons_of_mem _ hx)),
      toUpper_of_isDigit (h c (List.mem_cons_self))]

theorem up_lower (s : Str) : up (s.map Char.toLower) = up s := by
  simp [up, List.map_map, Function.comp_def, Char.toUpper_toLower_eq_toUpper]

theorem up_eq_of_forall₂ {s t : Str} (h : List.Forall₂ (fun a b => a.toUpper = b.toUpper) s t) :
    up s = up t := by
  induction h with
  | nil => rfl
  | cons hab _ ih => simp [up_cons, hab, ih]

/-! ### digits -/

theorem digits_isD (n : Nat) : ∀ c ∈ digits n, isD c = true := by
  intro c hc
  exact Nat.isDigit_of_mem_toDigits (by decide) (by decide) hc

theorem digits_ne_nil (n : Nat) : digits n ≠ [] := Nat.toDigits_ne_nil

theorem up_digits (n : Nat) : up (digits n) = digits n := up_of_all_digits (digits_isD n)

theorem parseInt_digits {n : Nat} (h : digitsFit n = true) : parseInt (digits n) = .ok n := by
  unfold parseInt
  have : ¬ (intMaxStrDigits ≠ 0 ∧ intMaxStrDigits < (digits n).length) := by
    simp [digitsFit] at h
    omega
  rw [if_neg this]
  simp [digits, Nat.ofDigitChars_ten_toDigits]

theorem parseInt_err {ds : Str} {e : ExcClass} (h : parseInt ds = .error e) : e = .valueError := by
  unfold parseInt at h
  split at h
  · cases h; rfl
  · cases h

/-! ### literal prefixes -/

theorem dropPrefix?_append (p s : Str) : dropPrefix? p (p ++ s) = some s := by
  induction p with
  | nil => cases s <;> rfl
  | cons c cs ih => simp [dropPrefix?, ih]

theorem dropPrefix?_eq_some {p s r : Str} (h : dropPrefix? p s = some r) : s = p ++ r := by
  induction p generalizing s with
  | nil => cases s <;> simp_all [dropPrefix?]
  | cons c cs ih =>
    cases s with
    | nil => simp [dropPrefix?] at h
    | cons d ds =>
      simp only [dropPrefix?] at h
      split at h
      · rename_i hcd; rw [hcd, ih h]; rfl
      · cases h


/-! ### greedy runs -/

theorem takeWhile_run {p : Char → Bool} {ds rest : Str} {c : Char}
    (hall : ∀ x ∈ ds, p x = true) (hc : p c = false) :
    (ds ++ c :: rest).takeWhile p = ds := by
  rw [List.takeWhile_append_of_pos hall, List.takeWhile_cons_of_neg (by simp [hc])]; simp

theorem dropWhile_run {p : Char → Bool} {ds rest : Str} {c : Char}
    (hall : ∀ x ∈ ds, p x = true) (hc : p c = false) :
    (ds ++ c :: rest).dropWhile p = c :: rest := by
  rw [List.dropWhile_append_of_pos hall, List.dropWhile_cons_of_neg (by simp [hc])]

/-! ### the matchers on text of the expected shape -/

theorem matchBracket_spec (pre ds rest : Str) (hne : ds ≠ []) (hall : ∀ c ∈ ds, isD c = true) :
    matchBracket pre (pre ++ '[' :: (ds ++ ']' :: rest)) = some ds := by
  unfold matchBracket
  have h : pre ++ '[' :: (ds ++ ']' :: rest) = (pre ++ ['[']) ++ (ds ++ ']' :: rest) := by simp
  rw [h, dropPrefix?_append]
  simp only [takeWhile_run hall (show isD ']' = false by decide),
    dropWhile_run hall (show isD ']' = false by decide)]
  cases ds with
  | nil => exact absurd rfl hne
  | cons d ds => rfl

theorem matchArray_spec (body rest : Str) (hne : body ≠ []) (hall : ∀ c ∈ body, isElemChar c = true) :
    matchArray (litArray ++ '<' :: (body ++ '>' :: rest)) = some body := by
  unfold matchArray
  have h : litArray ++ '<' :: (body ++ '>' :: rest) = (litArray ++ ['<']) ++ (body ++ '>' :: rest) := by simp
  rw [h, dropPrefix?_append]
  simp only [takeWhile_run hall (show isElemChar '>' = false by decide),
    dropWhile_run hall (show isElemChar '>' = false by decide)]
  cases body with
  | nil => exact absurd rfl hne
  | cons d ds => rfl

theorem matchDecimal_spec (d1 ws d2 rest : Str) (h1 : d1 ≠ []) (h2 : d2 ≠ [])
    (hd1 : ∀ c ∈ d1, isD c = true) (hd2 : ∀ c ∈ d2, isD c = true) (hws : ∀ c ∈ ws, isS c = true) :
    matchDecimal (litDecimal ++ '(' :: (d1 ++ ',' :: (ws ++ (d2 ++ ')' :: rest)))) = some (d1, d2) := by
  unfold matchDecimal
  have h : litDecimal ++ '(' :: (d1 ++ ',' :: (ws ++ (d2 ++ ')' :: rest)))
      = (litDecimal ++ ['(']) ++ (d1 ++ ',' :: (ws ++ (d2 ++ ')' :: rest))) := by simp
  rw [h, dropPrefix?_append]
  simp only [takeWhile_run hd1 (show isD ',' = false by decide),
    dropWhile_run hd1 (show isD ',' = false by decide)]
  obtain ⟨a, as, rfl⟩ := List.exists_cons_of_ne_nil h1
  obtain ⟨b, bs, rfl⟩ := List.exists_cons_of_ne_nil h2
  have hb : isS b = false := by
    have := hd2 b List.mem_cons_self
    revert this
    simp only [isD, isS, Char.isDigit, UInt32.le_iff_toNat_le, Char.toNat]
    intro hh
    simp at hh ⊢
    omega
  have hdrop : (ws ++ (b :: bs ++ ')' :: rest)).dropWhile isS = b :: bs ++ ')' :: rest := by
    rw [List.cons_append]; exact dropWhile_run hws hb
  simp only [hdrop, takeWhile_run hd2 (show isD ')' = false by decide),
    dropWhile_run hd2 (show isD ')' = false by decide)]


/-! ### results -/

/-- `r` is `ok d` with `p d`. -/
def okAnd (r : Res) (p : Desc → Bool) : Bool :=
  match r with
  | .ok d => p d
  | .error _ => false

theorem okAnd_iff {r : Res} {p : Desc → Bool} : okAnd r p = true ↔ ∃ d, r = .ok d ∧ p d = true := by
  cases r <;> simp [okAnd]

/-- either a well-formed description or `ValueError` -/
def Total (r : Res) : Prop := (∃ d, r = .ok d ∧ wfOut d = true) ∨ r = .error .valueError

/-! ### `_parse_type` raises only `ValueError` -/

theorem parseType_err {s : Str} {e : ExcClass} (h : parseType s = .error e) : e = .valueError := by
  unfold parseType at h
  split at h
  · cases h
  · split at h
    · split at h
      · rename_i e' he; cases h; exact parseInt_err he
      · split at h
        · rename_i e' he; cases h; exact parseInt_err he
        · cases h
    · split at h
      · rename_i n _
        cases hn : parseInt n with
        | error e' => rw [hn] at h; cases h; exact parseInt_err hn
        | ok v => rw [hn] at h; cases h
      · split at h
        · rename_i n _
          cases hn : parseInt n with
          | error e' => rw [hn] at h; cases h; exact parseInt_err hn
          | ok v => rw [hn] at h; cases h
        · cases h

/-! ### the alias chain -/

/-- an arm of the chain yields a well-formed description or `ValueError`; `_type = OrsoTypes[parsed]`
is only allowed behind the membership test. -/
def goodBranch (b : Cond × Outcome) : Bool :=
  match b.2 with
  | .ty t e => wfOut { ty := .member t, elem := e }
  | .self => b.1 == .isMember
  | .zero => true
  | .raise c => c == .valueError

theorem chain_good : ∀ b ∈ bareChain, goodBranch b = true := by decide

theorem else_good : goodBranch (.eqAny [], bareElse) = true := by decide

theorem runOutcome_total {parsed : Str} {b : Cond × Outcome} (hg : goodBranch b = true)
    (hc : b.1 = .isMember → isMember parsed = true) : Total (runOutcome parsed b.2) := by
  obtain ⟨c, o⟩ := b
  cases o with
  | ty t e => exact .inl ⟨_, rfl, by simpa [goodBranch] using hg⟩
  | self =>
    have : c = .isMember := by simpa [goodBranch] using hg
    exact .inl ⟨_, rfl, by simp [wfOut, hc this]⟩
  | zero => exact .inl ⟨_, rfl, by decide⟩
  | raise cls =>
    have : cls = .valueError := by simpa [goodBranch] using hg
    exact .inr (by simp [runOutcome, this])

theorem bareResolve_total (parsed : Str) : Total (bareResolve parsed) := by
  unfold bareResolve
  cases h : bareChain.find? (fun b => condHolds parsed b.1) with
  | some b =>
    have hm := List.mem_of_find?_eq_some h
    have hc := List.find?_some h
    refine runOutcome_total (chain_good b hm) ?_
    intro hb
    simpa [hb, condHolds] using hc
  | none =>
    exact runOutcome_total (b := (.eqAny [], bareElse)) else_good (by intro h; cases h)

/-! ### ARRAY elements -/

theorem elem_raises : elemExcludedRaise = .valueError ∧ elemUnknownRaise = .valueError := by decide

theorem excluded_array_decimal : excludedElem litArray = true ∧ excludedElem litDecimal = true := by decide

theorem arrayResolve_ok {body : Str} {d : Desc} (h : arrayResolve body = .ok d) :
    d = { ty := .member litArray, elem := some body } ∧ isMember body = true ∧ excludedElem body = false := by
  unfold arrayResolve at h
  split at h
  · cases h
  · split at h
    · cases h; simp_all
    · cases h

theorem arrayResolve_total (body : Str) : Total (arrayResolve body) := by
  cases h : arrayResolve body with
  | ok d =>
    obtain ⟨rfl, hm, hx⟩ := arrayResolve_ok h
    refine .inl ⟨_, rfl, ?_⟩
    have h1 : body ≠ litArray := by rintro rfl; simp [excluded_array_decimal.1] at hx
    have h2 : body ≠ litDecimal := by rintro rfl; simp [excluded_array_decimal.2] at hx
    have h3 : isMember litArray = true := by decide
    simp [wfOut, hm, h1, h2, h3]
  | error e =>
    unfold arrayResolve at h
    split at h
    · cases h; exact .inr (by rw [elem_raises.1])
    · split at h
      · cases h
      · cases h; exact .inr (by rw [elem_raises.2])

/-! ### DECIMAL guards -/

theorem guards_raise : ∀ g ∈ decimalGuards, g.cls = .valueError := by decide

theorem decimalResolve_ok_iff (p s : Nat) :
    decimalResolve p s = .ok { ty := .member litDecimal, precision := some p, scale := some s } ↔ (s ≤ p ∧ p ≤ 38) := by
  unfold decimalResolve
  cases h : decimalGuards.find? (guardFires p s) with
  | none =>
    simp only [true_iff]
    have := List.find?_eq_none.mp h
    simp [decimalGuards, guardFires, cmpHolds, operandVal] at this
    omega
  | some g =>
    have hf := List.find?_some h
    have hm := List.mem_of_find?_eq_some h
    simp only [reduceCtorEq, false_iff]
    simp [decimalGuards] at hm
    rcases hm with rfl | rfl | rfl | rfl | rfl <;>
      simp [guardFires, cmpHolds, operandVal] at hf <;>
      first | omega | (have := of_decide_eq_true hf; omega)

theorem decimalResolve_err {p s : Nat} (h : ¬ (s ≤ p ∧ p ≤ 38)) : decimalResolve p s = .error .valueError := by
  have hne := mt (decimalResolve_ok_iff p s).mp h
  unfold decimalResolve at hne ⊢
  cases hf : decimalGuards.find? (guardFires p s) with
  | none => simp [hf] at hne
  | some g => simp [guards_raise g (List.mem_of_find?_eq_some hf)]

theorem decimalResolve_total (p s : Nat) : Total (decimalResolve p s) := by
  by_cases h : s ≤ p ∧ p ≤ 38
  · refine .inl ⟨_, (decimalResolve_ok_iff p s).mpr h, ?_⟩
    have : isMember litDecimal = true := by decide
    simp [wfOut, this, h.1, h.2]
  · exact .inr (decimalResolve_err h)


/-! ### `fromName` on the rendered forms -/

theorem up_render_bracket (pre : Str) (hpre : up pre = pre) (n : Nat) :
    up (pre ++ '[' :: (digits n ++ [']'])) = pre ++ '[' :: (digits n ++ [']']) := by
  simp only [up_append, up_cons, up_digits, hpre]
  rfl

theorem fromName_varchar {n : Nat} (h : digitsFit n = true) :
    fromName (render (.varchar n)) = .ok { ty := .member litVarchar, length := some n } := by
  unfold fromName
  have hu : up (render (.varchar n)) = render (.varchar n) := up_render_bracket litVarchar (by decide) n
  rw [hu]
  have h1 : matchArray (render (.varchar n)) = none := by
    simp [matchArray, render, litArray, litVarchar, dropPrefix?]
  have h2 : matchDecimal (render (.varchar n)) = none := by
    simp [matchDecimal, render, litDecimal, litVarchar, dropPrefix?]
  have h3 : matchBracket litVarchar (render (.varchar n)) = some (digits n) :=
    matchBracket_spec litVarchar (digits n) [] (digits_ne_nil n) (digits_isD n)
  simp [parseType, h1, h2, h3, parseInt_digits h, Except.map]

theorem fromName_blob {n : Nat} (h : digitsFit n = true) :
    fromName (render (.blob n)) = .ok { ty := .member litBlob, length := some n } := by
  unfold fromName
  have hu : up (render (.blob n)) = render (.blob n) := up_render_bracket litBlob (by decide) n
  rw [hu]
  have h1 : matchArray (render (.blob n)) = none := by
    simp [matchArray, render, litArray, litBlob, dropPrefix?]
  have h2 : matchDecimal (render (.blob n)) = none := by
    simp [matchDecimal, render, litDecimal, litBlob, dropPrefix?]
  have h3 : matchBracket litVarchar (render (.blob n)) = none := by
    simp [matchBracket, render, litVarchar, litBlob, dropPrefix?]
  have h4 : matchBracket litBlob (render (.blob n)) = some (digits n) :=
    matchBracket_spec litBlob (digits n) [] (digits_ne_nil n) (digits_isD n)
  simp [parseType, h1, h2, h3, h4, parseInt_digits h, Except.map]

theorem parseInt_digits_err {n : Nat} (h : digitsFit n = false) : parseInt (digits n) = .error .valueError := by
  unfold parseInt
  have : intMaxStrDigits ≠ 0 ∧ intMaxStrDigits < (digits n).length := by
    simp [digitsFit] at h
    omega
  rw [if_pos this]

theorem fromName_varchar_err {n : Nat} (h : digitsFit n = false) :
    fromName (render (.varchar n)) = .error .valueError := by
  unfold fromName
  have hu : up (render (.varchar n)) = render (.varchar n) := up_render_bracket litVarchar (by decide) n
  rw [hu]
  have h1 : matchArray (render (.varchar n)) = none := by
    simp [matchArray, render, litArray, litVarchar, dropPrefix?]
  have h2 : matchDecimal (render (.varchar n)) = none := by
    simp [matchDecimal, render, litDecimal, litVarchar, dropPrefix?]
  have h3 : matchBracket litVarchar (render (.varchar n)) = some (digits n) :=
    matchBracket_spec litVarchar (digits n) [] (digits_ne_nil n) (digits_isD n)
  simp [parseType, h1, h2, h3, parseInt_digits_err h, Except.map]

theorem fromName_blob_err {n : Nat} (h : digitsFit n = false) :
    fromName (render (.blob n)) = .error .valueError := by
  unfold fromName
  have hu : up (render (.blob n)) = render (.blob n) := up_render_bracket litBlob (by decide) n
  rw [hu]
  have h1 : matchArray (render (.blob n)) = none := by
    simp [matchArray, render, litArray, litBlob, dropPrefix?]
  have h2 : matchDecimal (render (.blob n)) = none := by
    simp [matchDecimal, render, litDecimal, litBlob, dropPrefix?]
  have h3 : matchBracket litVarchar (render (.blob n)) = none := by
    simp [matchBracket, render, litVarchar, litBlob, dropPrefix?]
  have h4 : matchBracket litBlob (render (.blob n)) = some (digits n) :=
    matchBracket_spec litBlob (digits n) [] (digits_ne_nil n) (digits_isD n)
  simp [parseType, h1, h2, h3, h4, parseInt_digits_err h, Except.map]

/-- any text whose upper-casing starts with `DECIMAL(<digits>,<spaces><digits>)` goes through the two
`int()` conversions and the guards, whatever follows. -/
theorem fromName_decimal_text {name d1 ws d2 rest : Str}
    (hup : up name = litDecimal ++ '(' :: (d1 ++ ',' :: (ws ++ (d2 ++ ')' :: rest))))
    (h1 : d1 ≠ []) (h2 : d2 ≠ []) (hd1 : ∀ c ∈ d1, isD c = true) (hd2 : ∀ c ∈ d2, isD c = true)
    (hws : ∀ c ∈ ws, isS c = true) :
    fromName name =
      match parseInt d1 with
      | .error e => .error e
      | .ok p => match parseInt d2 with
        | .error e => .error e
        | .ok s => decimalResolve p s := by
  unfold fromName
  rw [hup]
  have ha : matchArray (litDecimal ++ '(' :: (d1 ++ ',' :: (ws ++ (d2 ++ ')' :: rest)))) = none := by
    simp [matchArray, litArray, litDecimal, dropPrefix?]
  have hd := matchDecimal_spec d1 ws d2 rest h1 h2 hd1 hd2 hws
  simp only [parseType, ha, hd]
  cases parseInt d1 with
  | error e => rfl
  | ok p =>
    cases parseInt d2 with
    | error e => rfl
    | ok s => rfl

theorem digitsFit_of_le_38 {p : Nat} (h : p ≤ 38) : digitsFit p = true := by
  have h2 : (digits p).length ≤ 2 := (Nat.length_toDigits_le_iff (by decide) (by decide)).mpr (by omega)
  have : (2 : Nat) ≤ intMaxStrDigits ∨ intMaxStrDigits = 0 := by decide
  simp only [digitsFit, Bool.or_eq_true, beq_iff_eq, decide_eq_true_eq]
  omega

theorem up_render_decimal (p s : Nat) : up (render (.decimal p s)) = render (.decimal p s) := by
  simp only [render, up_append, up_cons, up_digits]
  rfl

theorem fromName_decimal {p s : Nat} (h : s ≤ p ∧ p ≤ 38) :
    fromName (render (.decimal p s)) = .ok { ty := .member litDecimal, precision := some p, scale := some s } := by
  have hup : up (render (.decimal p s))
      = litDecimal ++ '(' :: (digits p ++ ',' :: ([] ++ (digits s ++ ')' :: []))) := by
    rw [up_render_decimal]; rfl
  rw [fromName_decimal_text hup (digits_ne_nil p) (digits_ne_nil s) (digits_isD p) (digits_isD s) (by simp),
    parseInt_digits (digitsFit_of_le_38 h.2), parseInt_digits (digitsFit_of_le_38 (by omega))]
  exact (decimalResolve_ok_iff p s).mpr h

theorem parseInt_ok {ds : Str} {n : Nat} (h : parseInt ds = .ok n) : n = Nat.ofDigitChars 10 ds 0 := by
  unfold parseInt at h
  split at h
  · cases h
  · cases h; rfl

/-! ### names starting with `ARRAY<` -/

/-- no name tested by the chain, and no member name, contains `<`. -/
def condNoLt : Cond → Bool
  | .eqAny names => names.all (fun n => !n.contains '<')
  | .isMember => memberNames.all (fun n => !n.contains '<')

theorem chain_noLt : ∀ b ∈ bareChain, condNoLt b.1 = true := by decide

theorem bareElse_raises : bareElse = .raise .valueError := by decide

theorem bareResolve_of_lt {s : Str} (h : '<' ∈ s) : bareResolve s = .error .valueError := by
  unfold bareResolve
  have : bareChain.find? (fun b => condHolds s b.1) = none := by
    rw [List.find?_eq_none]
    intro b hb hc
    have hn := chain_noLt b hb
    obtain ⟨c, o⟩ := b
    cases c with
    | eqAny names =>
      simp only [condHolds, List.contains_iff_mem] at hc
      simp only [condNoLt, List.all_eq_true] at hn
      have := hn s hc
      simp [h] at this
    | isMember =>
      simp only [condHolds, isMember, List.contains_iff_mem] at hc
      simp only [condNoLt, List.all_eq_true] at hn
      have := hn s hc
      simp [h] at this
  rw [this, bareElse_raises]
  rfl

theorem matchArray_eq_some {s body : Str} (h : matchArray s = some body) :
    ∃ rest, s = litArray ++ '<' :: (body ++ '>' :: rest) ∧ body ≠ [] ∧ ∀ c ∈ body, isElemChar c = true := by
  unfold matchArray at h
  split at h
  · cases h
  · rename_i r hr
    have hs := dropPrefix?_eq_some hr
    split at h
    · rename_i a as rest htw hdw
      cases h
      have hall : ∀ c ∈ r.takeWhile isElemChar, isElemChar c = true := by
        exact List.all_eq_true.mp (List.all_takeWhile (p := isElemChar) (l := r))
      refine ⟨rest, ?_, by rw [htw]; simp, hall⟩
      have := List.takeWhile_append_dropWhile (p := isElemChar) (l := r)
      rw [hdw] at this
      rw [hs, this]
      simp
    · cases h


theorem fromName_array_prefix {name r : Str} {d : Desc}
    (hp : dropPrefix? (litArray ++ ['<']) (up name) = some r) (hok : fromName name = .ok d) :
    ∃ e rest, r = e ++ '>' :: rest ∧ d = { ty := .member litArray, elem := some e } ∧
      isMember e = true ∧ e ≠ litArray ∧ e ≠ litDecimal ∧ excludedElem e = false := by
  have hs := dropPrefix?_eq_some hp
  unfold fromName at hok
  cases hm : matchArray (up name) with
  | some body =>
    obtain ⟨rest, hs2, _, _⟩ := matchArray_eq_some hm
    have hr : r = body ++ '>' :: rest := by
      rw [hs] at hs2
      have : litArray ++ ['<'] ++ r = litArray ++ ['<'] ++ (body ++ '>' :: rest) := by
        rw [hs2]; simp
      exact List.append_cancel_left this
    have hpt : parseType (up name) = .ok (.array body) := by simp [parseType, hm]
    rw [hpt] at hok
    obtain ⟨hd, hmem, hx⟩ := arrayResolve_ok hok
    refine ⟨body, rest, hr, hd, hmem, ?_, ?_, hx⟩
    · rintro rfl; simp [excluded_array_decimal.1] at hx
    · rintro rfl; simp [excluded_array_decimal.2] at hx
  | none =>
    exfalso
    have h2 : matchDecimal (up name) = none := by
      rw [hs]; simp [matchDecimal, litArray, litDecimal, dropPrefix?]
    have h3 : matchBracket litVarchar (up name) = none := by
      rw [hs]; simp [matchBracket, litArray, litVarchar, dropPrefix?]
    have h4 : matchBracket litBlob (up name) = none := by
      rw [hs]; simp [matchBracket, litArray, litBlob, dropPrefix?]
    have hpt : parseType (up name) = .ok (.bare (up (up name))) := by simp [parseType, hm, h2, h3, h4]
    rw [hpt, up_up] at hok
    have hlt : '<' ∈ up name := by rw [hs]; simp
    simp only [bareResolve_of_lt hlt] at hok
    cases hok

/-! ### columns and type codes -/

theorem declare_varchar {n : Nat} (h : digitsFit n = true) :
    declare (render (.varchar n)) = .ok { ty := .member litVarchar, length := some n } := by
  have : (Ty.member litVarchar = Ty.member litDecimal) = False := by decide
  simp [declare, fromName_varchar h, this]

theorem declare_blob {n : Nat} (h : digitsFit n = true) :
    declare (render (.blob n)) = .ok { ty := .member litBlob, length := some n } := by
  have : (Ty.member litBlob = Ty.member litDecimal) = False := by decide
  simp [declare, fromName_blob h, this]

theorem declare_decimal {p s : Nat} (h : s ≤ p ∧ p ≤ 38) :
    declare (render (.decimal p s)) = .ok { ty := .member litDecimal, precision := some p, scale := some s } := by
  simp [declare, fromName_decimal h]

theorem typeCode_decimal (p s : Nat) :
    typeCode { ty := .member litDecimal, precision := some p, scale := some s } = some (render (.decimal p s)) := by
  have h1 : valueOf litDecimal = litDecimal := by decide
  have h2 : (litDecimal = descDecimalKey) = True := by decide
  have h3 : decide (litDecimal = descArrayKey) = false := by decide
  simp only [typeCode, h1, h2, h3, if_true, fmtOpt, render]
  have : descDecimalPre = litDecimal ++ ['('] ∧ descDecimalMid = [','] ∧ descDecimalPost = [')'] := by decide
  rw [this.1, this.2.1, this.2.2]
  simp

theorem typeCode_varchar (n : Nat) :
    typeCode { ty := .member litVarchar, length := some n } = some litVarchar := by
  have h1 : valueOf litVarchar = litVarchar := by decide
  have h2 : (litVarchar = descDecimalKey) = False := by decide
  have h3 : decide (litVarchar = descArrayKey) = false := by decide
  simp only [typeCode, h1, h2, h3, if_false]

theorem typeCode_blob (n : Nat) :
    typeCode { ty := .member litBlob, length := some n } = some litBlob := by
  have h1 : valueOf litBlob = litBlob := by decide
  have h2 : (litBlob = descDecimalKey) = False := by decide
  have h3 : decide (litBlob = descArrayKey) = false := by decide
  simp only [typeCode, h1, h2, h3, if_false]

theorem roundtrip_base : ∀ m ∈ baseTypes,
    okAnd (declare (render (.base m))) (columnRoundTrips (.base m)) = true := by decide

theorem roundtrip_array : ∀ e ∈ scalarTypes,
    okAnd (declare (render (.array e))) (columnRoundTrips (.array e)) = true := by decide

theorem render_base_all : ∀ m ∈ baseTypes,
    okAnd (fromName (render (.base m))) (denotes (.base m)) = true := by decide

theorem render_array_all : ∀ e ∈ scalarTypes,
    okAnd (fromName (render (.array e))) (denotes (.array e)) = true := by decide

end TypeName
