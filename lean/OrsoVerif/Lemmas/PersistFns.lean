import OrsoVerif.Generated.PersistFns
import OrsoVerif.Lemmas.Persist
import OrsoVerif.Lemmas.PersistAll
/-! C16, fourth pass: the functions of `orso/schema.py` translated statement by statement (`Generated/PersistFns.lean`,
regenerated from the working tree on every run) are equal to the hand-written references of `Model/Persist.lean` /
`Model/PersistOps.lean`.  `Props/C16.lean` restates them as `generated_*_eq_model`. -/
set_option linter.unusedSimpArgs false
namespace Persist
open TypeName (Str Ty)
open Gen.Persist

variable {V : Type}

/-! ### `FlatColumn.from_dict`, `from_json` -/

theorem gen_column_from_dict_eq (K : Caster V) (fresh : String) (d : Raw V) :
    Gen.PersistFns.column_from_dict K fresh d = colFromDict K fresh d := by
  have h0 : prepare d = applyRule (applyRule (applyRule d
      ([("eqValue", "type", "_MISSING_TYPE")], "type", "_MISSING_TYPE"))
      ([("eqValue", "element_type", "_MISSING_TYPE")], "element_type", "_MISSING_TYPE"))
      ([("eqValue", "type", "ARRAY"), ("present", "element_type", ""), ("isNone", "element_type", "")], "type", "ARRAY") := rfl
  have hp : ∀ x : Raw V, dHas x "element_type" = evalCond x ("present", "element_type", "") := fun _ => rfl
  unfold colFromDict Gen.PersistFns.column_from_dict
  rw [h0]
  simp only [applyRule, List.all_cons, List.all_nil, Bool.and_true, dGetEqValue, dIsNone, dSetMember, hp]
  split <;> split <;> split <;> (rename_i h1 h2 h3; first | rfl | simp [h1, h2, h3])

theorem gen_from_json_eq (K : Caster V) (fresh : String) (d : Raw V) :
    Gen.PersistFns.from_json K fresh d = load jsonLoader K fresh d := by
  unfold Gen.PersistFns.from_json loads
  rw [gen_column_from_dict_eq]
  rfl

/-! ### `to_json` and its `default=` hook -/

theorem gen_default_serializer_eq (o : SerObj) :
    Gen.PersistFns.default_serializer o = defaultSerializer o := by
  cases o with
  | orsoType m => rfl
  | expectation => rfl
  | value cls =>
    unfold Gen.PersistFns.default_serializer defaultSerializer
    simp only [SerObj.isInstance, SerObj.str, SerObj.dict, beq_iff_eq]
    by_cases h1 : "OrsoTypes" = cls
    · subst h1; rfl
    · by_cases h2 : "Expectation" = cls
      · subst h2; rfl
      · have h1' : ¬ cls = "OrsoTypes" := fun h => h1 h.symm
        have h2' : ¬ cls = "Expectation" := fun h => h2 h.symm
        simp [h1, h2, h1', h2']

theorem gen_default_serializer_refuses :
    Gen.PersistFns.default_serializer (.value "object") = .error .type := by decide

theorem gen_to_json_eq (K : Caster V) (c : Col V) :
    Gen.PersistFns.to_json K c = colToJson K c := by
  unfold Gen.PersistFns.to_json dumps colToJson asdictCol
  rw [gen_default_serializer_refuses]
  split
  · rfl
  · cases K.json c.default <;> cases K.json c.highest_value <;> cases K.json c.lowest_value <;>
      cases mapO K.json c.expectations <;> rfl

/-! ### `to_flatcolumn` -/

theorem gen_to_flatcolumn_eq (K : Caster V) (fresh : String) (c : Col V) :
    Gen.PersistFns.to_flatcolumn K fresh c = toFlat K fresh c := by
  unfold Gen.PersistFns.to_flatcolumn toFlat
  rw [flatRaw_eq]
  rfl

/-! ### `RelationSchema.from_dict` -/

/-- what one entry adds to the column list being built -/
def entryResults (K : Caster V) (fresh : String) : List (ColEntry V) → List (Except Err (Col V))
  | [] => []
  | .dict r :: es => colFromDict K fresh r :: entryResults K fresh es
  | .name s :: es => init K fresh { name := some s } :: entryResults K fresh es
  | .other :: es => entryResults K fresh es

theorem firstError_entryResults (K : Caster V) (fresh : String) (es : List (ColEntry V)) :
    firstError (entryResults K fresh es) = loadEntries K fresh es := by
  induction es with
  | nil => rfl
  | cons e es ih =>
    cases e with
    | dict r =>
      simp only [entryResults, loadEntries]
      cases h : colFromDict K fresh r with
      | error e => rfl
      | ok c => simp only [firstError, ih]; cases loadEntries K fresh es <;> rfl
    | name s =>
      simp only [entryResults, loadEntries]
      cases h : init K fresh ({ name := some s } : Raw V) with
      | error e => rfl
      | ok c => simp only [firstError, ih]; cases loadEntries K fresh es <;> rfl
    | other => simpa only [entryResults, loadEntries] using ih

/-- the body of the loop of `from_dict`, as translated -/
def genStep (K : Caster V) (fresh : String) (schema : SchemaB V) (column : ColEntry V) : SchemaB V :=
  if (ColEntry.isDict column) then
    let schema := (SchemaB.append schema (onDict (Gen.PersistFns.column_from_dict K fresh) column))
    if (ColEntry.isStr column) then
      let schema := (SchemaB.append schema (init K fresh ({ name := ColEntry.text column } : Raw V)))
      schema
    else
      schema
  else
    if (ColEntry.isStr column) then
      let schema := (SchemaB.append schema (init K fresh ({ name := ColEntry.text column } : Raw V)))
      schema
    else
      schema

theorem foldl_genStep (K : Caster V) (fresh : String) (es : List (ColEntry V)) (s : SchemaB V) :
    es.foldl (genStep K fresh) s = { s with columns := s.columns ++ entryResults K fresh es } := by
  induction es generalizing s with
  | nil => simp [entryResults]
  | cons e es ih =>
    rw [List.foldl_cons, ih]
    cases e with
    | dict r => simp [genStep, ColEntry.isDict, ColEntry.isStr, onDict, SchemaB.append, entryResults, gen_column_from_dict_eq]
    | name n => simp [genStep, ColEntry.isDict, ColEntry.isStr, ColEntry.text, SchemaB.append, entryResults]
    | other => simp [genStep, ColEntry.isDict, ColEntry.isStr, entryResults]

theorem gen_schema_from_dict_eq (K : Caster V) (fresh : String) (d : SDictE V) :
    Gen.PersistFns.schema_from_dict K fresh d = fromDictE K fresh d := by
  unfold Gen.PersistFns.schema_from_dict fromDictE
  cases d.name with
  | none => rfl
  | some name =>
    cases d.columns with
    | none => rfl
    | some es =>
      show SchemaB.seal (es.foldl (genStep K fresh) _) = _
      rw [foldl_genStep]
      simp only [SchemaB.seal, List.nil_append, firstError_entryResults]

theorem loadEntries_dicts (K : Caster V) (fresh : String) (cols : List (Raw V)) :
    loadEntries K fresh (cols.map ColEntry.dict) = mapE (load columnLoader K fresh) cols := by
  induction cols with
  | nil => rfl
  | cons r rs ih =>
    have hl : load columnLoader K fresh r = colFromDict K fresh r := rfl
    simp only [List.map_cons, loadEntries, mapE, ih, hl]
    cases colFromDict K fresh r with
    | error e => rfl
    | ok c => cases mapE (load columnLoader K fresh) rs <;> rfl

/-- on a dictionary whose column entries are all dictionaries (what `to_dict` writes), the reference is `fromDict` -/
theorem fromDictE_ofSDict (K : Caster V) (fresh : String) (d : SDict V) :
    fromDictE K fresh (SDictE.ofSDict d) = fromDict K fresh d := by
  have h1 : fw fromDictRestores (sName d) "name" = d.name := rfl
  have h2 : fw fromDictRestores (sAliases d) "aliases" = d.aliases := rfl
  have h3 : fw fromDictRestores (sPrimaryKey d) "primary_key" = d.primary_key := rfl
  have h4 : fromDictRestores.lookup "columns" = some "columns" := rfl
  unfold fromDictE fromDict SDictE.ofSDict
  simp only [h1, h2, h3, h4, sColumns]
  cases d.name with
  | none => rfl
  | some name =>
    cases d.columns with
    | none => rfl
    | some cols =>
      simp only [Option.map_some, loadEntries_dicts]
      cases mapE (load columnLoader K fresh) cols <;> rfl

/-! ### `RelationSchema.to_dict` -/

theorem gen_convTy (t : Ty) : convTy Gen.PersistFns.converter_value t = writeTy t := by
  cases t <;> rfl

theorem gen_convDisp (n : String) : convDisp Gen.PersistFns.converter_value n = writeDisp n := rfl

theorem gen_colAsdict (c : Col V) : colAsdict Gen.PersistFns.converter_value c = colToDict c := by
  have e1 : convTy Gen.PersistFns.converter_value = writeTy := funext gen_convTy
  have e2 : convDisp Gen.PersistFns.converter_value = writeDisp := funext gen_convDisp
  unfold colAsdict
  rw [e1, e2]
  rfl

theorem gen_schema_to_dict_eq (s : Schema V) : Gen.PersistFns.schema_to_dict s = toDict s := by
  unfold Gen.PersistFns.schema_to_dict asdictSchema
  have : s.columns.map (colAsdict Gen.PersistFns.converter_value) = s.columns.map colToDict :=
    List.map_congr_left (fun c _ => gen_colAsdict c)
  rw [this]
  rfl

/-! ### `FlatColumn.__init__`, the statements after the attribute loop -/

theorem gen_init_s1_eq (K : Caster V) (s : St V) : Gen.PersistFns.init_s1 K s =
    match resolveType s.type s.element_type s.length s.precision s.scale with
    | .error e => .error e
    | .ok t => .ok { s with type := rawTy t.ty, element_type := t.elem, length := t.length, precision := t.precision,
                            scale := t.scale } := by
  obtain ⟨ty, el, disp, dflt, len, prec, sc⟩ := s
  cases ty
  case member m => rfl
  all_goals
    simp only [Gen.PersistFns.init_s1, resolveType, RawTy.isMember, Bool.false_eq_true, not_false_eq_true, ↓reduceIte]
    generalize fromNameRaw _ = res
    cases res with
    | error e => rfl
    | ok d =>
      obtain ⟨dty, dl, dp, ds, de⟩ := d
      cases dty with
      | zero => rfl
      | member m =>
        cases el <;> cases prec <;> cases sc <;> cases len <;> rfl

theorem gen_init_s2_eq (K : Caster V) (s : St V) : Gen.PersistFns.init_s2 K s =
    match resolveElem s.element_type with
    | .error e => .error e
    | .ok el => .ok { s with element_type := el.map rawTy } := by
  obtain ⟨ty, el, disp, dflt, len, prec, sc⟩ := s
  cases el with
  | none => rfl
  | some t =>
    cases t
    case member m => rfl
    all_goals
      simp only [Gen.PersistFns.init_s2, resolveElem, isMemberO, RawTy.isMember, fromNameOpt, ne_eq, reduceCtorEq,
        not_false_eq_true, Bool.false_eq_true, and_self, ↓reduceIte]
      generalize fromNameRaw _ = res
      cases res <;> rfl

theorem gen_init_s3_eq (K : Caster V) (s : St V) : Gen.PersistFns.init_s3 K s =
    match resolveDisp s.disposition with
    | .error e => .error e
    | .ok d => .ok { s with disposition := d.map RawDisp.member } := by
  obtain ⟨ty, el, disp, dflt, len, prec, sc⟩ := s
  cases disp with
  | none => rfl
  | some d =>
    cases d with
    | member n => rfl
    | text x =>
      simp only [Gen.PersistFns.init_s3, resolveDisp, dispIsMemberO, RawDisp.isMember, dispOfValue, ne_eq, reduceCtorEq,
        not_false_eq_true, Bool.false_eq_true, and_self, ↓reduceIte]
      generalize List.find? _ dispositions = res
      cases res <;> rfl

theorem gen_init_s4_eq (K : Caster V) (s : St V) (ty : Ty) (h : s.type = rawTy ty) : Gen.PersistFns.init_s4 K s =
    match resolveDefault K ty s.default with
    | .error e => .error e
    | .ok v => .ok { s with default := v } := by
  obtain ⟨ty', el, disp, dflt, len, prec, sc⟩ := s
  change ty' = rawTy ty at h
  subst h
  simp only [Gen.PersistFns.init_s4, resolveDefault]
  by_cases ht : K.truthy dflt = true
  · simp only [ht, ↓reduceIte]
    cases ty with
    | zero => rfl
    | member m =>
      simp only [parseWith, rawTy]
      cases K.parse m dflt <;> rfl
  · simp only [ht, Bool.false_eq_true, ↓reduceIte]

theorem tyIs_decimal (ty : Ty) : tyIs (rawTy ty) "DECIMAL" = isDecimal ty := by
  cases ty with
  | zero => rfl
  | member m =>
    have hl : "DECIMAL".toList = TypeName.litDecimal := by decide
    simp only [tyIs, rawTy, isDecimal, hl]
    by_cases hm : m = TypeName.litDecimal
    · subst hm; rfl
    · have h1 : (m == TypeName.litDecimal) = false := beq_eq_false_iff_ne.mpr hm
      have h2 : (Ty.member m == Ty.member TypeName.litDecimal) = false :=
        beq_eq_false_iff_ne.mpr (fun h => by cases h; exact hm rfl)
      rw [h1, h2]

theorem gen_init_s5_eq (K : Caster V) (s : St V) (ty : Ty) (h : s.type = rawTy ty) :
    Gen.PersistFns.init_s5 K s = .ok { s with precision := decimalPrecision ty s.precision } := by
  obtain ⟨ty', el, disp, dflt, len, prec, sc⟩ := s
  change ty' = rawTy ty at h
  subst h
  simp only [Gen.PersistFns.init_s5, decimalPrecision, tyIs_decimal, decimalGuard_precision]
  cases isDecimal ty <;> cases prec <;> rfl

theorem gen_init_s6_eq (K : Caster V) (s : St V) (ty : Ty) (h : s.type = rawTy ty) :
    Gen.PersistFns.init_s6 K s = .ok { s with scale := decimalScale ty s.precision s.scale } := by
  obtain ⟨ty', el, disp, dflt, len, prec, sc⟩ := s
  change ty' = rawTy ty at h
  subst h
  simp only [Gen.PersistFns.init_s6, decimalScale, tyIs_decimal, decimalGuard_scale]
  cases isDecimal ty <;> cases sc <;> rfl

theorem gen_init_body_eq (K : Caster V) (s : St V) : Gen.PersistFns.init_body K s = initBody K s := by
  unfold Gen.PersistFns.init_body initBody
  rw [gen_init_s1_eq]
  cases resolveType s.type s.element_type s.length s.precision s.scale with
  | error e => rfl
  | ok t =>
    simp only [Except.bind]
    rw [gen_init_s2_eq]
    simp only
    cases resolveElem t.elem with
    | error e => rfl
    | ok el =>
      simp only
      rw [gen_init_s3_eq]
      simp only
      cases resolveDisp s.disposition with
      | error e => rfl
      | ok d =>
        simp only
        rw [gen_init_s4_eq K _ t.ty rfl]
        simp only
        cases resolveDefault K t.ty s.default with
        | error e => rfl
        | ok v =>
          simp only
          rw [gen_init_s5_eq K _ t.ty rfl]
          simp only
          rw [gen_init_s6_eq K _ t.ty rfl]

/-- what the constructor leaves in the attributes its statements after the loop work on -/
def initSt (K : Caster V) (fresh : String) (r : Raw V) : Except Err (St V) :=
  match init K fresh r with
  | .error e => .error e
  | .ok c => .ok (stOfCol c)

/-- the attribute loop (`name` has neither default nor factory), then `body` on the state it leaves -/
def loopThen (K : Caster V) (r : Raw V) (body : St V → Except Err (St V)) : Except Err (St V) :=
  match rdReq "name" r.name with
  | none => .error .columnDefinition
  | some _ => body (stOf K r)

/-- the constructor is the attribute loop followed by the statements after it -/
theorem init_eq_initBody (K : Caster V) (fresh : String) (r : Raw V) :
    initSt K fresh r = loopThen K r (initBody K) := by
  unfold initSt loopThen
  unfold init initBody stOf
  cases rdReq "name" r.name with
  | none => rfl
  | some name =>
    simp only
    cases resolveType (rd "type" r.type (.member missingName)) (rd "element_type" r.element_type none)
        (rd "length" r.length none) (rd "precision" r.precision none) (rd "scale" r.scale none) with
    | error e => rfl
    | ok t =>
      simp only
      cases resolveElem t.elem with
      | error e => rfl
      | ok el =>
        simp only
        cases resolveDisp (rd "disposition" r.disposition none) with
        | error e => rfl
        | ok d =>
          simp only
          cases resolveDefault K t.ty (rd "default" r.default K.none) with
          | error e => rfl
          | ok v => rfl
/-! ### the states a column can be in: built by the constructor, then attributes assigned -/

/-- a column state reachable by a constructor call followed by any number of assignments to the attributes the rest of
the library assigns after construction (names and aliases by the binder, nullability and description, the identity, the
three statistics by the profiler, origin and length by readers) -/
inductive Reachable (K : Caster V) : Col V → Prop
  | built {f : String} {r : Raw V} {c : Col V} : WellTyped r → init K f r = .ok c → Reachable K c
  | name {c : Col V} (x : String) : Reachable K c → Reachable K { c with name := x }
  | description {c : Col V} (x : Option String) : Reachable K c → Reachable K { c with description := x }
  | aliases {c : Col V} (x : Option (List String)) : Reachable K c → Reachable K { c with aliases := x }
  | nullable {c : Col V} (x : Bool) : Reachable K c → Reachable K { c with nullable := x }
  | identity {c : Col V} (x : String) : Reachable K c → Reachable K { c with identity := x }
  | highest_value {c : Col V} (x : V) : Reachable K c → Reachable K { c with highest_value := x }
  | lowest_value {c : Col V} (x : V) : Reachable K c → Reachable K { c with lowest_value := x }
  | null_count {c : Col V} (x : Option Nat) : Reachable K c → Reachable K { c with null_count := x }
  | origin {c : Col V} (x : List String) : Reachable K c → Reachable K { c with origin := x }
  | length {c : Col V} (x : Option Nat) : Reachable K c → Reachable K { c with length := x }

theorem reachable_ok (K : Caster V)
    (hIdem : ∀ m v w, K.parse m v = some w → K.truthy w = true → K.parse m w = some w)
    (c : Col V) (h : Reachable K c) : Constructed K c ∧ Writable c := by
  induction h with
  | built hw hi => exact ⟨init_establishes K hIdem _ _ _ hi, init_writable K _ _ _ hi hw⟩
  | name x _ ih => exact ih
  | description x _ ih => exact ih
  | aliases x _ ih => exact ih
  | nullable x _ ih => exact ih
  | identity x _ ih => exact ih
  | highest_value x _ ih => exact ih
  | lowest_value x _ ih => exact ih
  | null_count x _ ih => exact ih
  | origin x _ ih => exact ih
  | length x _ ih => exact ih

/-- a column built from a name alone: every declared default -/
def nameOnly (K : Caster V) (fresh name : String) : Col V :=
  { name := name, default := K.none, type := .member missingName, element_type := none, description := none,
    disposition := none, aliases := some [], nullable := true, expectations := [], identity := fresh, length := none,
    precision := none, scale := none, origin := [], highest_value := K.none, lowest_value := K.none,
    null_count := none }

/-- the declared defaults: what the attribute loop leaves in a column built from a name alone -/
theorem init_name_only (K : Caster V) (hn : K.truthy K.none = false) (fresh name : String) :
    init K fresh { name := some name } = .ok
      { name := name, default := K.none, type := .member missingName, element_type := none, description := none,
        disposition := none, aliases := some [], nullable := true, expectations := [], identity := fresh, length := none,
        precision := none, scale := none, origin := [], highest_value := K.none, lowest_value := K.none,
        null_count := none } := by
  have h1 : rdReq "name" (some name) = some name := rfl
  have h2 : rd "default" (none : Option V) K.none = K.none := rfl
  unfold init
  simp only [h1, h2]
  have h3 : resolveDefault K (.member missingName) K.none = .ok K.none := by simp [resolveDefault, hn]
  have h4 : resolveType (rd "type" (none : Option RawTy) (.member missingName)) (rd "element_type" (none : Option (Option RawTy)) none)
      (rd "length" (none : Option (Option Nat)) none) (rd "precision" (none : Option (Option Nat)) none)
      (rd "scale" (none : Option (Option Nat)) none) = .ok ⟨.member missingName, none, none, none, none⟩ := rfl
  simp only [h4, h3]
  rfl

end Persist
