import OrsoVerif.Lemmas.DistogramRefine
/-!
# Stage 2 of C13, part 4: the in-place shortcut refines the reference

`_search_in_place_index` + `_trim_in_place` (a full histogram, a new value strictly between two
centres and closer to one of them than the closest pair of bins): the reference inserts the value
and merges the first closest pair of the longer list.  That pair is (left neighbour, new value) when
`diff1 < diff2`, and (new value, right neighbour) otherwise **provided the closest pair is unique**
(an equidistant new value is merged right by the code, left by the reference — the one place where
the property's uniqueness hypothesis is needed).
-/
namespace Distogram
set_option linter.unusedSectionVars false
set_option linter.unusedVariables false

variable {K : Type} [Field K] [LinearOrder K] [IsStrictOrderedRing K]

/-! ## "the closest pair is unique" -/

/-- The smallest adjacent gap of `l` is attained at one position only. -/
def UniqueClosest (l : List (K × K)) : Prop :=
  ∀ (i j : Nat) (x : K), (gaps l)[i]? = some x → (gaps l)[j]? = some x → (∀ y ∈ gaps l, x ≤ y) → i = j

theorem indexOf_getElem (m : K) : ∀ (xs : List K) (k : Nat), indexOf m xs = some k → xs[k]? = some m
  | [], k, h => by simp [indexOf] at h
  | y :: ys, k, h => by
    rw [indexOf_cons] at h
    by_cases hy : y = m
    · rw [if_pos hy] at h
      simp only [Option.some.injEq] at h
      subst h; simp [hy]
    · rw [if_neg hy] at h
      cases hi : indexOf m ys with
      | none => rw [hi] at h; simp at h
      | some j =>
        rw [hi] at h
        simp only [Option.map_some, Option.some.injEq] at h
        subst h
        simpa using indexOf_getElem m ys j hi

/-- `argminFirst` points at a minimum. -/
theorem argminFirst_isMin (g : List K) (hne : g ≠ []) :
    ∃ m, g[argminFirst g]? = some m ∧ ∀ y ∈ g, m ≤ y := by
  have h := listMin_isMin g
  cases hl : listMin g with
  | none =>
    rw [hl] at h
    exact absurd h hne
  | some m =>
    rw [hl] at h
    exact ⟨m, indexOf_getElem m g _ (indexOf_min_eq_argminFirst h), h.2⟩

/-- The position of a minimum that does not occur earlier is `argminFirst`. -/
theorem argminFirst_eq_of {g : List K} {p : Nat} {x : K} (hp : g[p]? = some x) (hmin : ∀ y ∈ g, x ≤ y)
    (hfirst : ∀ j y, j < p → g[j]? = some y → y ≠ x) : argminFirst g = p := by
  have h1 := indexOf_min_eq_argminFirst (d := g) (m := x) ⟨List.mem_of_getElem? hp, hmin⟩
  have h2 := indexOf_first x g p hp hfirst
  rw [h1] at h2
  exact Option.some.inj h2

theorem filter_two {p : K → Bool} : ∀ (g : List K) (i j : Nat) (a b : K), i < j → g[i]? = some a → g[j]? = some b →
    p a = true → p b = true → 2 ≤ (g.filter p).length
  | [], i, j, a, b, _, h, _, _, _ => by simp at h
  | x :: xs, 0, j + 1, a, b, _, ha, hb, pa, pb => by
    simp only [List.getElem?_cons_zero, Option.some.injEq] at ha
    subst ha
    have hb' : xs[j]? = some b := by simpa using hb
    have : b ∈ xs.filter p := List.mem_filter.mpr ⟨List.mem_of_getElem? hb', pb⟩
    have := List.length_pos_of_mem this
    rw [List.filter_cons_of_pos pa]
    simp only [List.length_cons]; omega
  | x :: xs, i + 1, j + 1, a, b, hij, ha, hb, pa, pb => by
    have ih := filter_two xs i j a b (by omega) (by simpa using ha) (by simpa using hb) pa pb
    have : (xs.filter p).length ≤ ((x :: xs).filter p).length := by
      rw [List.filter_cons]; split <;> simp
    omega

/-- The executable tie detection of the driver (`tieIn`) decides uniqueness of the closest pair. -/
theorem uniqueClosest_of_tieIn {l : List (K × K)} (h : tieIn l = false) : UniqueClosest l := by
  intro i j x hi hj hmin
  by_contra hne
  have hg : gaps l ≠ [] := by intro e; rw [e] at hi; simp at hi
  obtain ⟨m, hm, hall⟩ := argminFirst_isMin (gaps l) hg
  have hmx : m = x := le_antisymm (hall x (List.mem_of_getElem? hi)) (hmin m (List.mem_of_getElem? hm))
  subst hmx
  unfold tieIn at h
  simp only [hm, decide_eq_false_iff_not, not_lt] at h
  have pe : (fun y => eqK y m) m = true := (eqK_iff' m m).mpr rfl
  rcases Nat.lt_or_gt_of_ne hne with hlt | hlt
  · have := filter_two (p := fun y => eqK y m) (gaps l) i j m m hlt hi hj pe pe
    omega
  · have := filter_two (p := fun y => eqK y m) (gaps l) j i m m hlt hj hi pe pe
    omega

/-! ## the list after the insertion -/

theorem mergeAt_insertIdx_right (v c cv cf : K) : ∀ (idx : Nat) (bins : List (K × K)), bins[idx]? = some (cv, cf) →
    mergeAt idx (bins.insertIdx idx (v, c)) =
      bins.set idx (centroid v c cv cf, Gen.DistogramExpr.trimCount v c cv cf)
  | 0, [], h => by simp at h
  | 0, b :: rest, h => by
    simp only [List.getElem?_cons_zero, Option.some.injEq] at h
    subst h
    simp [mergeAt]
  | idx + 1, [], h => by simp at h
  | idx + 1, b :: rest, h => by
    have := mergeAt_insertIdx_right v c cv cf idx rest (by simpa using h)
    simp only [List.insertIdx_succ_cons, mergeAt, this, List.set_cons_succ]

theorem mergeAt_insertIdx_left (v c cv cf : K) : ∀ (ib : Nat) (bins : List (K × K)), bins[ib]? = some (cv, cf) →
    mergeAt ib (bins.insertIdx (ib + 1) (v, c)) =
      bins.set ib (centroid cv cf v c, Gen.DistogramExpr.trimCount cv cf v c)
  | 0, [], h => by simp at h
  | 0, b :: rest, h => by
    simp only [List.getElem?_cons_zero, Option.some.injEq] at h
    subst h
    simp [mergeAt]
  | ib + 1, [], h => by simp at h
  | ib + 1, b :: rest, h => by
    have := mergeAt_insertIdx_left v c cv cf ib rest (by simpa using h)
    simp only [List.insertIdx_succ_cons, mergeAt, this, List.set_cons_succ]

/-- The gaps of the list after inserting `x` at an interior position `idx`: the two gaps next to `x`, and
everywhere else a gap of the old list. -/
theorem gaps_insertIdx {bins : List (K × K)} {idx : Nat} {x bp bi : K × K} (h0 : 0 < idx)
    (hp : bins[idx - 1]? = some bp) (hi : bins[idx]? = some bi) :
    (gaps (bins.insertIdx idx x))[idx - 1]? = some (x.1 - bp.1) ∧
    (gaps (bins.insertIdx idx x))[idx]? = some (bi.1 - x.1) ∧
    ∀ k y, k ≠ idx - 1 → k ≠ idx → (gaps (bins.insertIdx idx x))[k]? = some y → y ∈ gaps bins := by
  have hlt : idx < bins.length := (List.getElem?_eq_some_iff.mp hi).1
  have l1 : (bins.insertIdx idx x)[idx - 1]? = some bp := by
    rw [List.getElem?_insertIdx, if_pos (by omega), hp]
  have l2 : (bins.insertIdx idx x)[idx]? = some x := by
    rw [List.getElem?_insertIdx, if_neg (by omega), if_pos rfl, if_pos (by omega)]
  have l3 : (bins.insertIdx idx x)[idx + 1]? = some bi := by
    rw [List.getElem?_insertIdx, if_neg (by omega), if_neg (by omega)]
    simpa using hi
  refine ⟨?_, ?_, ?_⟩
  · rw [gaps_getElem?]
    unfold gapAt
    have e : idx - 1 + 1 = idx := by omega
    rw [e, l1, l2]
  · rw [gaps_getElem?]
    unfold gapAt
    rw [l2, l3]
  · intro k y hk1 hk2 hy
    rw [gaps_getElem?, ← insert_pt (x := x) hlt k (by unfold Pend; omega), List.getElem?_insertIdx] at hy
    by_cases h1 : k < idx
    · rw [if_pos h1] at hy; exact List.mem_of_getElem? hy
    · rw [if_neg h1, if_neg hk2] at hy; exact List.mem_of_getElem? hy

/-! ## the in-place merge is the reference's merge -/

/-- **The in-place shortcut is a merge of an adjacent pair of the list after insertion** — the pair (left
neighbour, new value) or (new value, right neighbour) — **and that pair is the reference's first closest pair
whenever the closest pair is unique.**  In a coherent state with the new value between bins `idx - 1` and `idx`,
if `_search_in_place_index` answers bin `ib` then `_trim_in_place` stores `mergeAt p` of the inserted list. -/
theorem inPlace_shape {h h' : Hist K} {v c : K} {idx ib : Nat} {bp bi : K × K} (hc : Coherent h)
    (hd : h.diffs.isSome = true) (h0 : 0 < idx) (hp : h.bins[idx - 1]? = some bp) (hi : h.bins[idx]? = some bi)
    (hlo : bp.1 < v) (hhi : v < bi.1) (hfp : 0 < bp.2) (hfi : 0 < bi.2) (hcp : 0 < c)
    (hs : searchInPlaceIndex h v idx = .ok (some ib)) (hok : trimInPlace h v c ib = .ok h') :
    ∃ p, (p = idx - 1 ∨ p = idx) ∧ h'.bins = mergeAt p (h.bins.insertIdx idx (v, c)) ∧
      (UniqueClosest (h.bins.insertIdx idx (v, c)) → argminFirst (gaps (h.bins.insertIdx idx (v, c))) = p) ∧
      h'.min = h.min ∧ h'.max = h.max ∧ h'.cap = h.cap := by
  obtain ⟨_, hmin', hmax', hcap', _, cv, cf, hb, hbins⟩ := coherent_trimInPlace hc hok
  obtain ⟨d, hdd⟩ := Option.isSome_iff_exists.mp hd
  obtain ⟨_, hg, hm⟩ := hc d hdd
  obtain ⟨g1, g2, grest⟩ := gaps_insertIdx (x := (v, c)) h0 hp hi
  have hlt : idx < h.bins.length := (List.getElem?_eq_some_iff.mp hi).1
  -- `min_diff` is a lower bound of the old gaps, and there is at least one old gap
  have hgne : gaps h.bins ≠ [] := by
    intro e
    have := gaps_length h.bins
    rw [e] at this; simp at this; omega
  obtain ⟨m, hmd, hmall⟩ : ∃ m, h.minDiff = some m ∧ ∀ y ∈ gaps h.bins, m ≤ y := by
    cases hmd : h.minDiff with
    | none => rw [hmd] at hm; simp only [IsMinOpt] at hm; rw [hg] at hm; exact absurd hm hgne
    | some m => rw [hmd] at hm; exact ⟨m, rfl, by rw [← hg]; exact hm.2⟩
  unfold searchInPlaceIndex at hs
  rw [hp, hi] at hs
  simp only [Except.ok.injEq] at hs
  unfold Gen.DistogramExpr.searchDiff1 Gen.DistogramExpr.searchDiff2 Gen.DistogramExpr.searchPickLeft at hs
  rw [hmd] at hs
  by_cases hpick : v - bp.1 < bi.1 - v
  · -- the left neighbour
    simp only [hpick, decide_true, if_true, closerThanMin, Gen.DistogramExpr.searchInPlace] at hs
    have hclose : v - bp.1 < m := by
      by_contra hn; simp [hn] at hs
    have hib : ib = idx - 1 := by simp [hclose] at hs; exact hs.symm
    subst hib
    rw [hp] at hb
    have hb' : bp = (cv, cf) := Option.some.inj hb
    have hp2 := hp
    rw [hb'] at hp2
    refine ⟨idx - 1, Or.inl rfl, ?_, ?_, hmin', hmax', hcap'⟩
    · rw [hbins]
      have hml := mergeAt_insertIdx_left v c cv cf (idx - 1) h.bins hp2
      have e : idx - 1 + 1 = idx := by omega
      rw [e] at hml
      rw [hb'] at hlo hfp
      rw [hml, inPlace_stored_left hlo hfp hcp, (inPlace_centre_eq cv cf v c).2.2.1]
    · intro _
      apply argminFirst_eq_of g1
      · intro y hy
        obtain ⟨k, hk⟩ := List.getElem?_of_mem hy
        by_cases k1 : k = idx - 1
        · rw [k1, g1] at hk; simp only [Option.some.injEq] at hk; rw [← hk]
        · by_cases k2 : k = idx
          · rw [k2, g2] at hk; simp only [Option.some.injEq] at hk; rw [← hk]; exact le_of_lt hpick
          · exact le_of_lt (lt_of_lt_of_le hclose (hmall y (grest k y k1 k2 hk)))
      · intro j y hj hy
        exact ne_of_gt (lt_of_lt_of_le hclose (hmall y (grest j y (by omega) (by omega) hy)))
  · -- the right neighbour
    simp only [hpick, decide_false, Bool.false_eq_true, if_false, closerThanMin, Gen.DistogramExpr.searchInPlace] at hs
    have hclose : bi.1 - v < m := by
      by_contra hn; simp [hn] at hs
    have hib : ib = idx := by simp [hclose] at hs; exact hs.symm
    subst hib
    rw [hi] at hb
    have hb' : bi = (cv, cf) := Option.some.inj hb
    have hi2 := hi
    rw [hb'] at hi2
    have hle : bi.1 - v ≤ v - bp.1 := not_lt.mp hpick
    have hminall : ∀ y ∈ gaps (h.bins.insertIdx ib (v, c)), bi.1 - v ≤ y := by
      intro y hy
      obtain ⟨k, hk⟩ := List.getElem?_of_mem hy
      by_cases k1 : k = ib - 1
      · rw [k1, g1] at hk; simp only [Option.some.injEq] at hk; rw [← hk]; exact hle
      · by_cases k2 : k = ib
        · rw [k2, g2] at hk; simp only [Option.some.injEq] at hk; rw [← hk]
        · exact le_of_lt (lt_of_lt_of_le hclose (hmall y (grest k y k1 k2 hk)))
    refine ⟨ib, Or.inr rfl, ?_, ?_, hmin', hmax', hcap'⟩
    · rw [hb'] at hhi hfi
      rw [hbins, mergeAt_insertIdx_right v c cv cf ib h.bins hi2, inPlace_stored_right hhi hfi hcp,
        (inPlace_centre_eq cv cf v c).2.2.2]
    · intro huniq
      apply argminFirst_eq_of g2 hminall
      intro j y hj hy
      by_cases j1 : j = ib - 1
      · -- the left gap: equal would be a second closest pair
        rw [j1, g1] at hy
        simp only [Option.some.injEq] at hy
        intro e
        have := huniq (ib - 1) ib (bi.1 - v) (by rw [g1, hy, e]) g2 hminall
        omega
      · exact ne_of_gt (lt_of_lt_of_le hclose (hmall y (grest j y j1 (by omega) hy)))

end Distogram
