import OrsoVerif.Model.MsgPack
/-!
# Lemmas for the MessagePack model: every header/scalar the encoder emits is read back
-/
namespace MsgPack

theorem toNat_ofNat (n : Nat) (h : n < 256) : (UInt8.ofNat n).toNat = n := by
  simp [UInt8.toNat_ofNat']; omega

theorem unpack_succ (fuel : Nat) (bs : Bytes) : unpack (fuel + 1) bs = unpackHd (unpack fuel) bs := rfl

theorem unpackHd_cons (un : Bytes → Option (PyVal × Bytes)) (t : UInt8) (rest : Bytes) :
    unpackHd un (t :: rest) = unpackTag un t.toNat rest := rfl

theorem rd8_be (n : Nat) (rest : Bytes) (h : n < 256) : rd8 (UInt8.ofNat n :: rest) = some (n, rest) := by
  simp [rd8, toNat_ofNat n h]

theorem rd16_be (n : Nat) (rest : Bytes) (h : n < 65536) : rd16 (be16 n ++ rest) = some (n, rest) := by
  simp [rd16, be16, UInt8.toNat_ofNat']; omega

theorem rd32_be (n : Nat) (rest : Bytes) (h : n < 4294967296) : rd32 (be32 n ++ rest) = some (n, rest) := by
  simp [rd32, be32, UInt8.toNat_ofNat']; omega

theorem rd64_be (n : Nat) (rest : Bytes) (h : n < 18446744073709551616) :
    rd64 (be64 n ++ rest) = some (n, rest) := by
  simp [rd64, be64, UInt8.toNat_ofNat']; omega

theorem takeN_append (a rest : Bytes) : takeN a.length (a ++ rest) = some (a, rest) := by
  simp [takeN]

theorem ofUtf8_utf8 (s : String) : ofUtf8 (utf8 s) = some s := by
  unfold ofUtf8 utf8
  have : (ByteArray.mk s.toByteArray.data.toList.toArray) = s.toByteArray := by simp
  rw [this]
  simp [String.fromUTF8?, s.isValidUTF8]
  rfl

theorem unStr_utf8 (s : String) (rest : Bytes) : unStr (utf8 s).length (utf8 s ++ rest) = some (s, rest) := by
  simp [unStr, takeN_append, ofUtf8_utf8]

/-! Tags with a fixed value: the `if` chain of `unpackTag` evaluates. -/
section tags
variable (un : Bytes → Option (PyVal × Bytes)) (rest : Bytes)
theorem tag192 : unpackTag un 192 rest = some (.none, rest) := rfl
theorem tag194 : unpackTag un 194 rest = some (.bool false, rest) := rfl
theorem tag195 : unpackTag un 195 rest = some (.bool true, rest) := rfl
theorem tag196 : unpackTag un 196 rest = andThen (rd8 rest) unBin := rfl
theorem tag197 : unpackTag un 197 rest = andThen (rd16 rest) unBin := rfl
theorem tag198 : unpackTag un 198 rest = andThen (rd32 rest) unBin := rfl
theorem tag203 : unpackTag un 203 rest = andThen (rd64 rest) fun n r => some (.float (UInt64.ofNat n), r) := rfl
theorem tag204 : unpackTag un 204 rest = andThen (rd8 rest) fun n r => some (.int (n : Int), r) := rfl
theorem tag205 : unpackTag un 205 rest = andThen (rd16 rest) fun n r => some (.int (n : Int), r) := rfl
theorem tag206 : unpackTag un 206 rest = andThen (rd32 rest) fun n r => some (.int (n : Int), r) := rfl
theorem tag207 : unpackTag un 207 rest = andThen (rd64 rest) fun n r => some (.int (n : Int), r) := rfl
theorem tag208 : unpackTag un 208 rest = andThen (rd8 rest) fun n r => some (.int (signed 128 256 n), r) := rfl
theorem tag209 : unpackTag un 209 rest = andThen (rd16 rest) fun n r => some (.int (signed 32768 65536 n), r) := rfl
theorem tag210 : unpackTag un 210 rest =
    andThen (rd32 rest) fun n r => some (.int (signed 2147483648 4294967296 n), r) := rfl
theorem tag211 : unpackTag un 211 rest =
    andThen (rd64 rest) fun n r => some (.int (signed 9223372036854775808 18446744073709551616 n), r) := rfl
theorem tag217 : unpackTag un 217 rest = andThen (rd8 rest) unStrV := rfl
theorem tag218 : unpackTag un 218 rest = andThen (rd16 rest) unStrV := rfl
theorem tag219 : unpackTag un 219 rest = andThen (rd32 rest) unStrV := rfl
theorem tag220 : unpackTag un 220 rest = andThen (rd16 rest) (unArr un) := rfl
theorem tag221 : unpackTag un 221 rest = andThen (rd32 rest) (unArr un) := rfl
theorem tag222 : unpackTag un 222 rest = andThen (rd16 rest) (unMap un) := rfl
theorem tag223 : unpackTag un 223 rest = andThen (rd32 rest) (unMap un) := rfl
end tags

theorem t192 : (0xc0 : UInt8).toNat = 192 := rfl
theorem t194 : (0xc2 : UInt8).toNat = 194 := rfl
theorem t195 : (0xc3 : UInt8).toNat = 195 := rfl
theorem t196 : (0xc4 : UInt8).toNat = 196 := rfl
theorem t197 : (0xc5 : UInt8).toNat = 197 := rfl
theorem t198 : (0xc6 : UInt8).toNat = 198 := rfl
theorem t203 : (0xcb : UInt8).toNat = 203 := rfl
theorem t204 : (0xcc : UInt8).toNat = 204 := rfl
theorem t205 : (0xcd : UInt8).toNat = 205 := rfl
theorem t206 : (0xce : UInt8).toNat = 206 := rfl
theorem t207 : (0xcf : UInt8).toNat = 207 := rfl
theorem t208 : (0xd0 : UInt8).toNat = 208 := rfl
theorem t209 : (0xd1 : UInt8).toNat = 209 := rfl
theorem t210 : (0xd2 : UInt8).toNat = 210 := rfl
theorem t211 : (0xd3 : UInt8).toNat = 211 := rfl
theorem t217 : (0xd9 : UInt8).toNat = 217 := rfl
theorem t218 : (0xda : UInt8).toNat = 218 := rfl
theorem t219 : (0xdb : UInt8).toNat = 219 := rfl
theorem t220 : (0xdc : UInt8).toNat = 220 := rfl
theorem t221 : (0xdd : UInt8).toNat = 221 := rfl
theorem t222 : (0xde : UInt8).toNat = 222 := rfl
theorem t223 : (0xdf : UInt8).toNat = 223 := rfl

section headers
variable (un : Bytes → Option (PyVal × Bytes))

theorem tag_fixneg (k : Nat) (rest : Bytes) (h : 224 ≤ k) :
    unpackTag un k rest = some (.int ((k : Int) - 256), rest) := by
  unfold unpackTag
  iterate 30 rw [if_neg (by omega)]

/-- Every integer the encoder accepts is read back, whichever of the ten families it chose. -/
theorem unpackHd_int (i : Int) (rest : Bytes)
    (h1 : -9223372036854775808 ≤ i) (h2 : i < 18446744073709551616) :
    unpackHd un (packInt i ++ rest) = some (.int i, rest) := by
  by_cases h0 : 0 ≤ i
  · have hi : ((i.toNat : Nat) : Int) = i := Int.toNat_of_nonneg h0
    by_cases a1 : i.toNat < 128
    · simp only [packInt, h0, a1, if_true, List.cons_append, List.nil_append, unpackHd_cons,
        toNat_ofNat _ (show i.toNat < 256 by omega)]
      unfold unpackTag; rw [if_pos a1, hi]
    · by_cases a2 : i.toNat < 256
      · simp only [packInt, h0, a1, a2, if_true, if_false, List.cons_append, List.nil_append, unpackHd_cons,
          t204, tag204, rd8_be _ _ a2, andThen, hi]
      · by_cases a3 : i.toNat < 65536
        · simp only [packInt, h0, a1, a2, a3, if_true, if_false, List.cons_append, unpackHd_cons,
            t205, tag205, rd16_be _ _ a3, andThen, hi]
        · by_cases a4 : i.toNat < 4294967296
          · simp only [packInt, h0, a1, a2, a3, a4, if_true, if_false, List.cons_append, unpackHd_cons,
              t206, tag206, rd32_be _ _ a4, andThen, hi]
          · simp only [packInt, h0, a1, a2, a3, a4, if_true, if_false, List.cons_append, unpackHd_cons,
              t207, tag207, rd64_be _ _ (show i.toNat < 18446744073709551616 by omega), andThen, hi]
  · by_cases b1 : -32 ≤ i
    · have hb : (i + 256).toNat < 256 := by omega
      simp only [packInt, h0, b1, if_true, if_false, List.cons_append, List.nil_append, unpackHd_cons,
        toNat_ofNat _ hb]
      rw [tag_fixneg un _ rest (by omega)]
      have : (((i + 256).toNat : Nat) : Int) - 256 = i := by omega
      rw [this]
    · by_cases b2 : -128 ≤ i
      · have hb : (i + 256).toNat < 256 := by omega
        have hs : signed 128 256 (i + 256).toNat = i := by unfold signed; split <;> omega
        simp only [packInt, h0, b1, b2, if_true, if_false, List.cons_append, List.nil_append, unpackHd_cons,
          t208, tag208, rd8_be _ _ hb, andThen, hs]
      · by_cases b3 : -32768 ≤ i
        · have hb : (i + 65536).toNat < 65536 := by omega
          have hs : signed 32768 65536 (i + 65536).toNat = i := by unfold signed; split <;> omega
          simp only [packInt, h0, b1, b2, b3, if_true, if_false, List.cons_append, unpackHd_cons,
            t209, tag209, rd16_be _ _ hb, andThen, hs]
        · by_cases b4 : -2147483648 ≤ i
          · have hb : (i + 4294967296).toNat < 4294967296 := by omega
            have hs : signed 2147483648 4294967296 (i + 4294967296).toNat = i := by
              unfold signed; split <;> omega
            simp only [packInt, h0, b1, b2, b3, b4, if_true, if_false, List.cons_append, unpackHd_cons,
              t210, tag210, rd32_be _ _ hb, andThen, hs]
          · have hb : (i + 18446744073709551616).toNat < 18446744073709551616 := by omega
            have hs : signed 9223372036854775808 18446744073709551616 (i + 18446744073709551616).toNat = i := by
              unfold signed; split <;> omega
            simp only [packInt, h0, b1, b2, b3, b4, if_true, if_false, List.cons_append, unpackHd_cons,
              t211, tag211, rd64_be _ _ hb, andThen, hs]

theorem unpackHd_strHdr (n : Nat) (rest : Bytes) (h : n < 4294967296) :
    unpackHd un (strHdr n ++ rest) = unStrV n rest := by
  by_cases a1 : n < 32
  · simp only [strHdr, a1, if_true, List.cons_append, List.nil_append, unpackHd_cons,
      toNat_ofNat _ (show 160 + n < 256 by omega)]
    unfold unpackTag
    rw [if_neg (by omega), if_neg (by omega), if_neg (by omega), if_pos (by omega), Nat.add_sub_cancel_left]
  · by_cases a2 : n < 256
    · simp only [strHdr, a1, a2, if_true, if_false, List.cons_append, List.nil_append]
      rw [unpackHd_cons, t217, tag217, rd8_be _ _ a2, andThen]
    · by_cases a3 : n < 65536
      · simp only [strHdr, a1, a2, a3, if_true, if_false, List.cons_append]
        rw [unpackHd_cons, t218, tag218, rd16_be _ _ a3, andThen]
      · simp only [strHdr, a1, a2, a3, if_false, List.cons_append]
        rw [unpackHd_cons, t219, tag219, rd32_be _ _ h, andThen]

theorem unKey_cons (t : UInt8) (rest : Bytes) : unKey (t :: rest) =
    (if 160 ≤ t.toNat ∧ t.toNat < 192 then unStr (t.toNat - 160) rest
     else if t.toNat = 217 then andThen (rd8 rest) unStr
     else if t.toNat = 218 then andThen (rd16 rest) unStr
     else if t.toNat = 219 then andThen (rd32 rest) unStr
     else none) := rfl

theorem unKey_strHdr (n : Nat) (rest : Bytes) (h : n < 4294967296) :
    unKey (strHdr n ++ rest) = unStr n rest := by
  by_cases a1 : n < 32
  · simp only [strHdr, a1, if_true, List.cons_append, List.nil_append]
    rw [unKey_cons, toNat_ofNat _ (show 160 + n < 256 by omega), if_pos (by omega), Nat.add_sub_cancel_left]
  · by_cases a2 : n < 256
    · simp only [strHdr, a1, a2, if_true, if_false, List.cons_append, List.nil_append]
      rw [unKey_cons, t217, if_neg (by omega), if_pos rfl, rd8_be _ _ a2, andThen]
    · by_cases a3 : n < 65536
      · simp only [strHdr, a1, a2, a3, if_true, if_false, List.cons_append]
        rw [unKey_cons, t218, if_neg (by omega), if_neg (by omega), if_pos rfl, rd16_be _ _ a3, andThen]
      · simp only [strHdr, a1, a2, a3, if_false, List.cons_append]
        rw [unKey_cons, t219, if_neg (by omega), if_neg (by omega), if_neg (by omega), if_pos rfl,
          rd32_be _ _ h, andThen]

theorem unpackHd_binHdr (n : Nat) (rest : Bytes) (h : n < 4294967296) :
    unpackHd un (binHdr n ++ rest) = unBin n rest := by
  by_cases a2 : n < 256
  · simp only [binHdr, a2, if_true, List.cons_append, List.nil_append]
    rw [unpackHd_cons, t196, tag196, rd8_be _ _ a2, andThen]
  · by_cases a3 : n < 65536
    · simp only [binHdr, a2, a3, if_true, if_false, List.cons_append]
      rw [unpackHd_cons, t197, tag197, rd16_be _ _ a3, andThen]
    · simp only [binHdr, a2, a3, if_false, List.cons_append]
      rw [unpackHd_cons, t198, tag198, rd32_be _ _ h, andThen]

theorem unpackHd_arrHdr (n : Nat) (rest : Bytes) (h : n < 4294967296) :
    unpackHd un (arrHdr n ++ rest) = unArr un n rest := by
  by_cases a1 : n < 16
  · simp only [arrHdr, a1, if_true, List.cons_append, List.nil_append, unpackHd_cons,
      toNat_ofNat _ (show 144 + n < 256 by omega)]
    unfold unpackTag
    rw [if_neg (by omega), if_neg (by omega), if_pos (by omega), Nat.add_sub_cancel_left]
  · by_cases a3 : n < 65536
    · simp only [arrHdr, a1, a3, if_true, if_false, List.cons_append]
      rw [unpackHd_cons, t220, tag220, rd16_be _ _ a3, andThen]
    · simp only [arrHdr, a1, a3, if_false, List.cons_append]
      rw [unpackHd_cons, t221, tag221, rd32_be _ _ h, andThen]

theorem unpackHd_mapHdr (n : Nat) (rest : Bytes) (h : n < 4294967296) :
    unpackHd un (mapHdr n ++ rest) = unMap un n rest := by
  by_cases a1 : n < 16
  · simp only [mapHdr, a1, if_true, List.cons_append, List.nil_append, unpackHd_cons,
      toNat_ofNat _ (show 128 + n < 256 by omega)]
    unfold unpackTag
    rw [if_neg (by omega), if_pos (by omega), Nat.add_sub_cancel_left]
  · by_cases a3 : n < 65536
    · simp only [mapHdr, a1, a3, if_true, if_false, List.cons_append]
      rw [unpackHd_cons, t222, tag222, rd16_be _ _ a3, andThen]
    · simp only [mapHdr, a1, a3, if_false, List.cons_append]
      rw [unpackHd_cons, t223, tag223, rd32_be _ _ h, andThen]

theorem unpackHd_float (b : UInt64) (rest : Bytes) :
    unpackHd un (0xcb :: be64 b.toNat ++ rest) = some (.float b, rest) := by
  simp only [List.cons_append, unpackHd_cons, t203, tag203, rd64_be _ _ b.toNat_lt, andThen,
    UInt64.ofNat_toNat]

end headers

end MsgPack
