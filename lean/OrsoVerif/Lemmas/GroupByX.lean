import OrsoVerif.Model.GroupByX
import OrsoVerif.Model.GroupByCode
import OrsoVerif.Lemmas.GroupBy
/-!
# C12 — lemmas about float value columns (`Model/GroupByX.lean`)
-/
namespace GroupBy

/-! ### float addition with the infinities and NaN is a commutative monoid -/

theorem XVal.add_comm (a b : XVal) : a.add b = b.add a := by
  cases a <;> cases b <;> simp [XVal.add, Int.add_comm]

theorem XVal.add_assoc (a b c : XVal) : (a.add b).add c = a.add (b.add c) := by
  cases a <;> cases b <;> cases c <;> simp [XVal.add, Int.add_assoc]

theorem XVal.zero_add (a : XVal) : (XVal.fin 0).add a = a := by
  cases a <;> simp [XVal.add]

theorem foldl_xadd (vs : List XVal) (a : XVal) : vs.foldl XVal.add a = a.add (xtotal vs) := by
  unfold xtotal
  induction vs generalizing a with
  | nil => cases a <;> simp [XVal.add]
  | cons v vs ih =>
    simp only [List.foldl_cons]
    rw [ih (a.add v), ih ((XVal.fin 0).add v), XVal.zero_add, XVal.add_assoc]

/-- `sum` of a list of floats, value by value. -/
theorem xtotal_cons (v : XVal) (vs : List XVal) : xtotal (v :: vs) = v.add (xtotal vs) := by
  show List.foldl XVal.add ((XVal.fin 0).add v) vs = _
  rw [XVal.zero_add]
  exact foldl_xadd vs v

theorem xtotal_perm {vs ws : List XVal} (h : vs.Perm ws) : xtotal vs = xtotal ws := by
  unfold xtotal
  apply h.foldl_eq'
  intro x _ y _ z
  rw [XVal.add_assoc, XVal.add_assoc, XVal.add_comm x y]

/-- The finite values of a list of floats. -/
def finPart (vs : List XVal) : List Int := vs.filterMap fun | .fin i => some i | _ => none

/-- The sum of floats as usually defined (specification side): NaN as soon as a NaN is among the
values or both infinities are; otherwise the infinity that is among them; otherwise the (exact) sum
of the values.  Nothing in it depends on the order of the values. -/
def sumOfFloats (vs : List XVal) : XVal :=
  if XVal.nan ∈ vs ∨ (XVal.pinf ∈ vs ∧ XVal.ninf ∈ vs) then .nan
  else if XVal.pinf ∈ vs then .pinf
  else if XVal.ninf ∈ vs then .ninf
  else .fin (finPart vs).sum

/-- Python's left fold of float additions from `0` returns that sum. -/
theorem xtotal_eq (vs : List XVal) : xtotal vs = sumOfFloats vs := by
  unfold sumOfFloats
  induction vs with
  | nil => simp [xtotal, finPart]
  | cons v vs ih =>
    rw [xtotal_cons, ih]
    by_cases hn : XVal.nan ∈ vs <;> by_cases hp : XVal.pinf ∈ vs <;> by_cases hm : XVal.ninf ∈ vs <;>
      cases v <;> simp [hn, hp, hm, XVal.add, finPart]

/-! ### finite columns: the float model is the integer model -/

theorem xtotal_map_fin (vs : List Int) : xtotal (vs.map .fin) = .fin (total vs) := by
  rw [total_eq_sum]
  induction vs with
  | nil => rfl
  | cons v vs ih => rw [List.map_cons, xtotal_cons, ih]; simp [XVal.add]

theorem XVal.lt_fin (a b : Int) : (XVal.fin a).lt (.fin b) = decide (a < b) := rfl

theorem foldl_xleast_map_fin (vs : List Int) (v : Int) :
    (vs.map XVal.fin).foldl (fun m x => if x.lt m then x else m) (.fin v) = .fin (vs.foldl min v) := by
  induction vs generalizing v with
  | nil => rfl
  | cons w ws ih =>
    rw [List.map_cons, List.foldl_cons]
    have hstep : (if (XVal.fin w).lt (.fin v) then XVal.fin w else .fin v) = .fin (min v w) := by
      by_cases h : w < v
      · have : (XVal.fin w).lt (.fin v) = true := by simp [XVal.lt_fin, h]
        rw [if_pos this]; congr 1; omega
      · have : (XVal.fin w).lt (.fin v) = false := by simp [XVal.lt_fin, h]
        rw [this]; simp only [Bool.false_eq_true, if_false]; congr 1; omega
    rw [hstep, ih]; rfl

theorem foldl_xgreatest_map_fin (vs : List Int) (v : Int) :
    (vs.map XVal.fin).foldl (fun m x => if m.lt x then x else m) (.fin v) = .fin (vs.foldl max v) := by
  induction vs generalizing v with
  | nil => rfl
  | cons w ws ih =>
    rw [List.map_cons, List.foldl_cons]
    have hstep : (if (XVal.fin v).lt (.fin w) then XVal.fin w else .fin v) = .fin (max v w) := by
      by_cases h : v < w
      · have : (XVal.fin v).lt (.fin w) = true := by simp [XVal.lt_fin, h]
        rw [if_pos this]; congr 1; omega
      · have : (XVal.fin v).lt (.fin w) = false := by simp [XVal.lt_fin, h]
        rw [this]; simp only [Bool.false_eq_true, if_false]; congr 1; omega
    rw [hstep, ih]; rfl

/-- On finite values every aggregator of the float model returns what the integer model returns. -/
theorem xfold_map_fin (f : Func) (vs : List Int) : xfold f (vs.map .fin) = XAgg.ofAgg (fold f vs) := by
  cases f with
  | count => simp [xfold, fold, XAgg.ofAgg]
  | min =>
    cases vs with
    | nil => rfl
    | cons v vs => simp [xfold, fold, xleast, least, XAgg.ofAgg, foldl_xleast_map_fin]
  | max =>
    cases vs with
    | nil => rfl
    | cons v vs => simp [xfold, fold, xgreatest, greatest, XAgg.ofAgg, foldl_xgreatest_map_fin]
  | sum =>
    cases vs with
    | nil => rfl
    | cons v vs =>
      have := xtotal_map_fin (v :: vs)
      simp only [List.map_cons] at this
      simp [xfold, fold, XAgg.ofAgg, this]
  | avg =>
    cases vs with
    | nil => rfl
    | cons v vs =>
      have := xtotal_map_fin (v :: vs)
      simp only [List.map_cons] at this
      simp [xfold, fold, XAgg.ofAgg, this]

section Core
variable {ρ κ : Type} [DecidableEq κ]

theorem nonNull_map_fin (cell : ρ → String → Option Int) (rs : List ρ) (c : String) :
    nonNull (fun r c => (cell r c).map XVal.fin) rs c = (nonNull cell rs c).map .fin := by
  unfold nonNull
  induction rs with
  | nil => rfl
  | cons r rs ih =>
    rw [List.filterMap_cons, List.filterMap_cons]
    cases h : cell r c <;> simp [h, ih]

end Core

/-! ### MIN / MAX over floats without a NaN -/

theorem XVal.lt_irrefl (a : XVal) : a.lt a = false := by
  cases a <;> simp [XVal.lt]

theorem XVal.lt_trans (a b c : XVal) : a.lt b = true → b.lt c = true → a.lt c = true := by
  cases a <;> cases b <;> cases c <;> simp [XVal.lt] <;> omega

theorem XVal.lt_total {a b : XVal} (ha : a ≠ .nan) (hb : b ≠ .nan) (hab : a ≠ b) :
    a.lt b = true ∨ b.lt a = true := by
  cases a <;> cases b <;> simp_all [XVal.lt] <;> omega

/-- Over values on which the comparison is a strict order, total on the values that occur, Python's
walk returns *the* member with no member below it. -/
theorem leastBy_eq_some_iff {α : Type} (lt : α → α → Bool) (hirr : ∀ a, lt a a = false)
    (htr : ∀ a b c, lt a b = true → lt b c = true → lt a c = true) (vs : List α)
    (htot : ∀ a ∈ vs, ∀ b ∈ vs, a ≠ b → lt a b = true ∨ lt b a = true) (m : α) :
    leastBy lt vs = some m ↔ m ∈ vs ∧ ∀ x ∈ vs, lt x m = false := by
  cases vs with
  | nil => simp [leastBy]
  | cons v vs =>
    obtain ⟨h1, _, h3⟩ := foldl_leastBy_spec lt hirr htr vs v [] (by simp)
    simp only [leastBy, Option.some.injEq]
    constructor
    · rintro rfl
      exact ⟨h1, h3⟩
    · rintro ⟨hm, hmin⟩
      apply Classical.byContradiction
      intro hne
      rcases htot _ h1 m hm hne with h | h
      · rw [hmin _ h1] at h; exact absurd h (by simp)
      · rw [h3 m hm] at h; exact absurd h (by simp)

theorem xleast_eq_leastBy (vs : List XVal) : xleast vs = leastBy XVal.lt vs := by
  cases vs <;> rfl

theorem xgreatest_eq_leastBy (vs : List XVal) : xgreatest vs = leastBy (fun a b => XVal.lt b a) vs := by
  cases vs <;> rfl

end GroupBy

/-! ### the tests of the collection loop on float values -/
namespace GroupByCode
open GroupBy GroupByIR

/-- The kind of a value, as far as the tests of `Guard` can tell. -/
def clsX : Option XVal → Option XVal
  | some (.fin i) => if i = 0 then some (.fin 0) else some (.fin 1)
  | v => v

theorem holdsX_cls (g : Guard) (v : Option XVal) : holdsX g v = holdsX g (clsX v) := by
  cases v with
  | none => rfl
  | some x =>
    cases x with
    | fin i => by_cases hi : i = 0 <;> cases g <;> simp [holdsX, clsX, hi]
    | pinf => rfl
    | ninf => rfl
    | nan => rfl

theorem guardsHoldX_cls (gs : List Guard) (v : Option XVal) : guardsHoldX gs v = guardsHoldX gs (clsX v) := by
  unfold guardsHoldX
  induction gs with
  | nil => rfl
  | cons g gs ih => simp only [List.all_cons, ih, ← holdsX_cls]

theorem effectX_cls (body : List (List Guard × Action)) (v : Option XVal) :
    effectX body v = effectX body (clsX v) := by
  unfold effectX
  congr 1
  apply List.filter_congr
  intro ga _
  exact guardsHoldX_cls ga.1 v

theorem clsX_mem (v : XVal) : ∃ k ∈ xKinds, clsX (some v) = some k := by
  cases v with
  | fin i =>
    by_cases hi : i = 0
    · exact ⟨.fin 0, by simp [xKinds], by simp [clsX, hi]⟩
    · exact ⟨.fin 1, by simp [xKinds], by simp [clsX, hi]⟩
  | pinf => exact ⟨.pinf, by simp [xKinds], rfl⟩
  | ninf => exact ⟨.ninf, by simp [xKinds], rfl⟩
  | nan => exact ⟨.nan, by simp [xKinds], rfl⟩

/-- The decidable condition `bodyOkX` determines the loop body on every float value: a null registers
the group and appends nothing, every value — zero, the infinities, NaN — is appended exactly once. -/
theorem bodyOkX_sound {body : List (List Guard × Action)} (h : bodyOkX body = true) :
    (effectX body none ≠ [] ∧ ∀ a ∈ effectX body none, a = Action.touch)
    ∧ ∀ v : XVal, ((effectX body (some v)).filter isAppend).length = 1 := by
  unfold bodyOkX at h
  simp only [Bool.and_eq_true, bne_iff_ne, ne_eq, List.all_eq_true, beq_iff_eq] at h
  obtain ⟨⟨h1, h2⟩, h3⟩ := h
  refine ⟨⟨h1, h2⟩, fun v => ?_⟩
  obtain ⟨k, hk, hv⟩ := clsX_mem v
  rw [effectX_cls, hv]
  exact h3 k hk

theorem yieldOkX_sound {gs : List Guard} (h : yieldOkX gs = true) (v : Option XVal) :
    guardsHoldX gs v = true := by
  unfold yieldOkX at h
  simp only [Bool.and_eq_true, List.all_eq_true] at h
  cases v with
  | none => exact h.1
  | some x =>
    obtain ⟨k, hk, hv⟩ := clsX_mem x
    rw [guardsHoldX_cls, hv]
    exact h.2 k hk

end GroupByCode
