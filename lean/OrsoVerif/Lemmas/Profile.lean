import OrsoVerif.Model.Profile
/-! Helper lemmas for C15 (column profiles). -/
namespace Profile

variable {α : Type}

/-! ### present / missing -/

theorem present_append (a b : List (Option α)) : present (a ++ b) = present a ++ present b := by
  simp [present, List.filterMap_append]

theorem length_present_add_nulls (xs : List (Option α)) :
    (present xs).length + xs.countP (fun x => x.isNone) = xs.length := by
  induction xs with
  | nil => simp [present]
  | cons x xs ih =>
    cases x with
    | none => simp [present] at ih ⊢; omega
    | some v => simp [present] at ih ⊢; omega

theorem length_present_le (xs : List (Option α)) : (present xs).length ≤ xs.length := by
  have := length_present_add_nulls xs; omega

theorem present_eq_nil_iff (xs : List (Option α)) : present xs = [] ↔ ∀ x ∈ xs, x = none := by
  induction xs with
  | nil => simp [present]
  | cons x xs ih =>
    cases x with
    | none => simpa [present] using ih
    | some v => simp [present]

/-! ### extremes -/

section extremes
variable (le : α → α → Bool)

theorem minFold_spec (htot : ∀ a b, le a b = true ∨ le b a = true)
    (htr : ∀ a b c, le a b = true → le b c = true → le a c = true) :
    ∀ (xs : List α) (x : α),
      (xs.foldl (fun m y => if le m y then m else y) x ∈ x :: xs) ∧
      ∀ y ∈ x :: xs, le (xs.foldl (fun m y => if le m y then m else y) x) y = true := by
  intro xs
  induction xs with
  | nil =>
    intro x
    refine ⟨by simp, ?_⟩
    intro y hy
    simp at hy
    subst hy
    simpa using htot y y
  | cons y ys ih =>
    intro x
    simp only [List.foldl_cons]
    by_cases hxy : le x y = true
    · simp only [hxy, if_true]
      obtain ⟨hm, hle⟩ := ih x
      refine ⟨?_, ?_⟩
      · rcases List.mem_cons.mp hm with h | h
        · rw [h]; simp
        · simp [h]
      · intro z hz
        rcases List.mem_cons.mp hz with h | h
        · subst h; exact hle _ (by simp)
        · rcases List.mem_cons.mp h with h | h
          · subst h; exact htr _ _ _ (hle x (by simp)) hxy
          · exact hle z (by simp [h])
    · have hyx : le y x = true := by
        rcases htot x y with h | h
        · exact absurd h hxy
        · exact h
      simp only [hxy]
      obtain ⟨hm, hle⟩ := ih y
      refine ⟨?_, ?_⟩
      · rcases List.mem_cons.mp hm with h | h
        · simp [h]
        · simp [h]
      · intro z hz
        rcases List.mem_cons.mp hz with h | h
        · subst h; exact htr _ _ _ (hle y (by simp)) hyx
        · rcases List.mem_cons.mp h with h | h
          · subst h; exact hle _ (by simp)
          · exact hle z (by simp [h])

theorem minBy_eq_none_iff (vs : List α) : minBy le vs = none ↔ vs = [] := by
  cases vs <;> simp [minBy]

theorem minBy_spec (htot : ∀ a b, le a b = true ∨ le b a = true)
    (htr : ∀ a b c, le a b = true → le b c = true → le a c = true)
    {vs : List α} {m : α} (h : minBy le vs = some m) : m ∈ vs ∧ ∀ y ∈ vs, le m y = true := by
  cases vs with
  | nil => simp [minBy] at h
  | cons x xs =>
    simp only [minBy, Option.some.injEq] at h
    subst h
    exact minFold_spec le htot htr xs x

theorem maxBy_eq_minBy_flip (vs : List α) : maxBy le vs = minBy (fun a b => le b a) vs := by
  cases vs <;> rfl

theorem maxBy_eq_none_iff (vs : List α) : maxBy le vs = none ↔ vs = [] := by
  cases vs <;> simp [maxBy]

theorem maxBy_spec (htot : ∀ a b, le a b = true ∨ le b a = true)
    (htr : ∀ a b c, le a b = true → le b c = true → le a c = true)
    {vs : List α} {m : α} (h : maxBy le vs = some m) : m ∈ vs ∧ ∀ y ∈ vs, le y m = true := by
  rw [maxBy_eq_minBy_flip] at h
  exact minBy_spec (fun a b => le b a) (fun a b => (htot a b).symm) (fun a b c h1 h2 => htr c b a h2 h1) h

/-- The key of the minimum of a concatenation is the smaller of the two keys. -/
theorem minBy_append_key (key : α → Int)
    (htot : ∀ a b, le a b = true ∨ le b a = true)
    (htr : ∀ a b c, le a b = true → le b c = true → le a c = true)
    (hmono : ∀ a b, le a b = true → key a ≤ key b) (u v : List α) :
    (minBy le (u ++ v)).map key = optMin ((minBy le u).map key) ((minBy le v).map key) := by
  cases hu : minBy le u with
  | none =>
    have : u = [] := (minBy_eq_none_iff le u).mp hu
    subst this
    simp [optMin]
  | some mu =>
    cases hv : minBy le v with
    | none =>
      have : v = [] := (minBy_eq_none_iff le v).mp hv
      subst this
      simp [optMin, hu]
    | some mv =>
      cases huv : minBy le (u ++ v) with
      | none =>
        have : u ++ v = [] := (minBy_eq_none_iff le _).mp huv
        have hu0 : u = [] := (List.append_eq_nil_iff.mp this).1
        subst hu0
        simp [minBy] at hu
      | some m =>
        obtain ⟨hmu, hleu⟩ := minBy_spec le htot htr hu
        obtain ⟨hmv, hlev⟩ := minBy_spec le htot htr hv
        obtain ⟨hm, hle⟩ := minBy_spec le htot htr huv
        have h1 : key m ≤ key mu := hmono _ _ (hle mu (by simp [hmu]))
        have h2 : key m ≤ key mv := hmono _ _ (hle mv (by simp [hmv]))
        simp only [Option.map_some, optMin, Option.some.injEq]
        rcases List.mem_append.mp hm with h | h
        · have h3 : key mu ≤ key m := hmono _ _ (hleu m h)
          split <;> omega
        · have h3 : key mv ≤ key m := hmono _ _ (hlev m h)
          split <;> omega

theorem maxBy_append_key (key : α → Int)
    (htot : ∀ a b, le a b = true ∨ le b a = true)
    (htr : ∀ a b c, le a b = true → le b c = true → le a c = true)
    (hmono : ∀ a b, le a b = true → key a ≤ key b) (u v : List α) :
    (maxBy le (u ++ v)).map key = optMax ((maxBy le u).map key) ((maxBy le v).map key) := by
  cases hu : maxBy le u with
  | none =>
    have : u = [] := (maxBy_eq_none_iff le u).mp hu
    subst this
    simp [optMax]
  | some mu =>
    cases hv : maxBy le v with
    | none =>
      have : v = [] := (maxBy_eq_none_iff le v).mp hv
      subst this
      simp [optMax, hu]
    | some mv =>
      cases huv : maxBy le (u ++ v) with
      | none =>
        have : u ++ v = [] := (maxBy_eq_none_iff le _).mp huv
        have hu0 : u = [] := (List.append_eq_nil_iff.mp this).1
        subst hu0
        simp [maxBy] at hu
      | some m =>
        obtain ⟨hmu, hleu⟩ := maxBy_spec le htot htr hu
        obtain ⟨hmv, hlev⟩ := maxBy_spec le htot htr hv
        obtain ⟨hm, hle⟩ := maxBy_spec le htot htr huv
        have h1 : key mu ≤ key m := hmono _ _ (hle mu (by simp [hmu]))
        have h2 : key mv ≤ key m := hmono _ _ (hle mv (by simp [hmv]))
        simp only [Option.map_some, optMax, Option.some.injEq]
        rcases List.mem_append.mp hm with h | h
        · have h3 : key m ≤ key mu := hmono _ _ (hleu m h)
          split <;> omega
        · have h3 : key m ≤ key mv := hmono _ _ (hlev m h)
          split <;> omega

end extremes

/-! ### distinct values, tally, stable sort -/

section mfv
variable [DecidableEq α]

theorem mem_distinct (a : α) : ∀ l : List α, a ∈ distinct l ↔ a ∈ l := by
  intro l
  induction l with
  | nil => simp [distinct]
  | cons x xs ih =>
    simp only [distinct, List.mem_cons, List.mem_filter, ih, decide_eq_true_eq]
    by_cases h : a = x <;> simp [h]

theorem nodup_distinct : ∀ l : List α, (distinct l).Nodup := by
  intro l
  induction l with
  | nil => simp [distinct]
  | cons x xs ih =>
    simp only [distinct, List.nodup_cons, List.mem_filter, decide_eq_true_eq]
    exact ⟨fun h => h.2 rfl, ih.sublist List.filter_sublist⟩

theorem distinct_eq_nil_iff (l : List α) : distinct l = [] ↔ l = [] := by
  cases l <;> simp [distinct]

theorem map_fst_tally (vs : List α) : (tally vs).map Prod.fst = distinct vs := by
  simp [tally, List.map_map, Function.comp_def]

theorem mem_tally {vs : List α} {p : α × Nat} : p ∈ tally vs ↔ p.1 ∈ vs ∧ p.2 = vs.count p.1 := by
  simp only [tally, List.mem_map, mem_distinct]
  constructor
  · rintro ⟨v, hv, rfl⟩; exact ⟨hv, rfl⟩
  · rintro ⟨h1, h2⟩; exact ⟨p.1, h1, by cases p; simp_all⟩

theorem insDesc_perm (p : α × Nat) : ∀ l, (insDesc p l).Perm (p :: l) := by
  intro l
  induction l with
  | nil => simp [insDesc]
  | cons q qs ih =>
    simp only [insDesc]
    split
    · exact List.Perm.refl _
    · exact ((List.Perm.cons q ih).trans (List.Perm.swap p q qs))

theorem sortDesc_perm : ∀ l : List (α × Nat), (sortDesc l).Perm l := by
  intro l
  induction l with
  | nil => simp [sortDesc]
  | cons p ps ih => exact (insDesc_perm p _).trans (List.Perm.cons p ih)

theorem insDesc_sorted (p : α × Nat) : ∀ l : List (α × Nat),
    l.Pairwise (fun a b => b.2 ≤ a.2) → (insDesc p l).Pairwise (fun a b => b.2 ≤ a.2) := by
  intro l
  induction l with
  | nil => intro _; simp [insDesc]
  | cons q qs ih =>
    intro h
    rw [List.pairwise_cons] at h
    simp only [insDesc]
    split
    · rename_i hq
      rw [List.pairwise_cons]
      refine ⟨?_, List.pairwise_cons.mpr h⟩
      intro x hx
      rcases List.mem_cons.mp hx with hx | hx
      · subst hx; exact hq
      · exact Nat.le_trans (h.1 x hx) hq
    · rename_i hq
      rw [List.pairwise_cons]
      refine ⟨?_, ih h.2⟩
      intro x hx
      rcases List.mem_cons.mp ((insDesc_perm p qs).mem_iff.mp hx) with hx | hx
      · subst hx; omega
      · exact h.1 x hx

theorem sortDesc_sorted : ∀ l : List (α × Nat), (sortDesc l).Pairwise (fun a b => b.2 ≤ a.2) := by
  intro l
  induction l with
  | nil => simp [sortDesc]
  | cons p ps ih => exact insDesc_sorted p _ ih

/-! ### sketch -/

theorem length_insAsc (x : Nat) : ∀ l, (insAsc x l).length = l.length + 1 := by
  intro l
  induction l with
  | nil => simp [insAsc]
  | cons y ys ih =>
    simp only [insAsc]
    split <;> simp [ih]

theorem length_sortAsc : ∀ l, (sortAsc l).length = l.length := by
  intro l
  induction l with
  | nil => simp [sortAsc]
  | cons x xs ih =>
    have : sortAsc (x :: xs) = insAsc x (sortAsc xs) := rfl
    rw [this, length_insAsc, ih]; simp

theorem insAsc_perm (x : Nat) : ∀ l, (insAsc x l).Perm (x :: l) := by
  intro l
  induction l with
  | nil => simp [insAsc]
  | cons y ys ih =>
    simp only [insAsc]
    split
    · exact List.Perm.refl _
    · exact ((List.Perm.cons y ih).trans (List.Perm.swap x y ys))

theorem sortAsc_perm : ∀ l, (sortAsc l).Perm l := by
  intro l
  induction l with
  | nil => simp [sortAsc]
  | cons x xs ih =>
    have : sortAsc (x :: xs) = insAsc x (sortAsc xs) := rfl
    rw [this]
    exact (insAsc_perm x _).trans (List.Perm.cons x ih)

theorem kmv_below (h : α → Nat) (size : Nat) (vs : List α) (hlt : (distinct vs).length ≤ size) :
    kmv h size vs = sortAsc ((distinct vs).map h) := by
  simp [kmv, List.take_of_length_le hlt, List.drop_of_length_le hlt, kmvLoop]

theorem length_kmvLoop : ∀ (rest heap : List Nat), (kmvLoop heap rest).length = heap.length := by
  intro rest
  induction rest with
  | nil => intro heap; simp [kmvLoop]
  | cons hv rest ih =>
    intro heap
    simp only [kmvLoop]
    cases hl : heap.getLast? with
    | none => simp [ih]
    | some m =>
      simp only []
      split
      · rw [ih, length_insAsc, List.length_dropLast]
        have : heap ≠ [] := by intro h; simp [h] at hl
        have : heap.length ≠ 0 := fun h0 => this (List.eq_nil_of_length_eq_zero h0)
        omega
      · exact ih heap

theorem length_kmv (h : α → Nat) (size : Nat) (vs : List α) :
    (kmv h size vs).length = min size (distinct vs).length := by
  simp [kmv, length_kmvLoop, length_sortAsc, List.length_take]

end mfv

/-! ### order and transitions -/

/-- Adjacent pairs `(l[i], l[i+1])`. -/
def adj (l : List α) : List (α × α) := l.zip l.tail

theorem adj_cons_cons (a b : α) (l : List α) : adj (a :: b :: l) = (a, b) :: adj (b :: l) := by
  simp [adj]

/-- The four values of the order indicator as "an ascent was seen" / "a descent was seen". -/
def encOrder : Bool → Bool → Option Int
  | false, false => none
  | true, false => some 1
  | false, true => some (-1)
  | true, true => some 0

theorem otLoop_spec [DecidableEq α] (lt : α → α → Bool)
    (hasym : ∀ a b, lt a b = true → lt b a = false)
    (htri : ∀ a b, a ≠ b → lt a b = true ∨ lt b a = true) :
    ∀ (vs : List α) (u d : Bool) (t : Nat) (last : α),
      otLoop lt (encOrder u d) t last vs =
        (encOrder (u || (adj (last :: vs)).any (fun p => lt p.1 p.2))
                  (d || (adj (last :: vs)).any (fun p => lt p.2 p.1)),
         t + (adj (last :: vs)).countP (fun p => decide (¬ p.1 = p.2))) := by
  intro vs
  induction vs with
  | nil => intro u d t last; simp [otLoop, adj]
  | cons v vs ih =>
    intro u d t last
    rw [adj_cons_cons]
    by_cases hv : v = last
    · subst hv
      have hirr : lt v v = false := by
        cases h : lt v v with
        | false => rfl
        | true => have := hasym v v h; simp [h] at this
      simp only [otLoop, ne_eq, not_true_eq_false, if_false, List.any_cons, hirr, Bool.false_or,
        List.countP_cons, decide_false]
      rw [ih]
      simp
    · have hne : last ≠ v := fun h => hv h.symm
      simp only [otLoop, ne_eq, hv, not_false_eq_true, if_true, List.any_cons, List.countP_cons,
        hne, decide_true]
      rcases htri v last hv with h | h
      · have h' : lt last v = false := hasym _ _ h
        have key : otStep lt (encOrder u d) v last = encOrder (u || false) (d || true) := by
          cases u <;> cases d <;> simp [otStep, encOrder, h, h']
        rw [key, ih, h, h']
        simp only [Bool.or_false, Bool.or_true, Bool.true_or, Bool.false_or, if_true]
        congr 1
        omega
      · have h' : lt v last = false := hasym _ _ h
        have key : otStep lt (encOrder u d) v last = encOrder (u || true) (d || false) := by
          cases u <;> cases d <;> simp [otStep, encOrder, h, h']
        rw [key, ih, h, h']
        simp only [Bool.or_false, Bool.or_true, Bool.true_or, Bool.false_or, if_true]
        congr 1
        omega

/-! ### batches -/

theorem chunksAux_flatten {β : Type} (n : Nat) : ∀ (fuel : Nat) (xs : List β), 0 < n → xs.length ≤ fuel →
    (chunksAux n fuel xs).flatten = xs := by
  intro fuel
  induction fuel with
  | zero =>
    intro xs _ h
    have : xs = [] := List.eq_nil_of_length_eq_zero (by omega)
    simp [chunksAux, this]
  | succ f ih =>
    intro xs hn h
    simp only [chunksAux]
    by_cases hx : xs = []
    · simp [hx]
    · have hn0 : n ≠ 0 := by omega
      simp only [hn0, hx, or_self, if_false, List.flatten_cons]
      rw [ih (xs.drop n) hn]
      · exact List.take_append_drop n xs
      · have : xs.length ≠ 0 := fun h0 => hx (List.eq_nil_of_length_eq_zero h0)
        simp only [List.length_drop]; omega

theorem chunksAux_nonempty {β : Type} (n : Nat) : ∀ (fuel : Nat) (xs : List β),
    ∀ c ∈ chunksAux n fuel xs, c ≠ [] ∧ c.length ≤ n := by
  intro fuel
  induction fuel with
  | zero => intro xs c hc; simp [chunksAux] at hc
  | succ f ih =>
    intro xs c hc
    simp only [chunksAux] at hc
    by_cases hx : n = 0 ∨ xs = []
    · simp [hx] at hc
    · simp only [hx, if_false, List.mem_cons] at hc
      rcases hc with hc | hc
      · subst hc
        have h1 : n ≠ 0 := fun h => hx (Or.inl h)
        have h2 : xs ≠ [] := fun h => hx (Or.inr h)
        refine ⟨?_, by simp [List.length_take]; omega⟩
        intro h
        have := congrArg List.length h
        have h3 : xs.length ≠ 0 := fun h0 => h2 (List.eq_nil_of_length_eq_zero h0)
        rw [List.length_take, List.length_nil] at this
        omega
      · exact ih _ c hc

end Profile
